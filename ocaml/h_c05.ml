(* h_c05.ml — C05 handlers: Slice model (image of index/slice.hpp after the slice-arithmetic repair) vs Python's slice.indices.
   Case lines
     ax   S:<enc> I:<n> <start> <stop> <step>          one axis; parts N | I:v ; step may be O (2-part slice)
     ex   S:<enc> I:<n> <start> <stop> <step>          the same with parts N | J:v (int64_t) | U:v (size_t)
     mx   S:<enc> S:<combo> L:<shape> <part> ...         index level, several axes
     vw   S:<enc> S:<combo> L:<shape> <part> ...         view level (elements of an iota array, X = access refused)
          part = S:i,<v> | S:e | S:r,<a>,<b>,<c>   with a,b in {N,int}, c in {N,O,int}
   Results
     ax : ok <len> ; src_0,...,src_{len-1}    (elements only when 0 <= len <= 64)
     mx : ok <shape> ; i,j|i,j|...            (source multi-index of every result index, row-major; only when every
                                               extent is in 0..64 and there are at most 4096 of them)
     vw : ok <shape> ; e,e,...                (same guard)
   model = faithful (int64_t arithmetic with explicit wraps); spec = Python; dom = the argument types: int bounds and
   non-zero int steps, integers in [-n,n), extents < 2^62, well-formed index.  v1 I:n a b [c] = view::slice(a, ONE slice). *)
open BinNums
open Datatypes
open Base
open Index
open Slice
open Common
module List = Stdlib.List
module String = Stdlib.String

let z0 = Z0
let zle a b = Z.leb a b
let cap = z_of_int 64
let two24 = pow2 (z_of_int 24)
let two31 = pow2 (z_of_int 31)
let two62 = pow2 (z_of_int 62)
let s64 z = string_of_z (i64 z)        (* a size_t printed through (long long) *)

let opt_part = function N -> None | I v -> Some v | Str "O" -> None | Str s -> Some (z_of_string s) (* J:v int64_t, U:v size_t *) | _ -> failwith "part"
let range_upto n = List.init (int_of_z n) z_of_int
let sane l = zle z0 l && zle l cap

let int_ok v = zle (Z.opp two31) v && zlt v two31
let opt_int_ok = function None -> true | Some v -> int_ok v

(* ---------- one axis ---------- *)
let ax_model n a b c =
  match slice_len n a b c with
  | LenUB -> "ub"
  | Len l ->
      let ls = i64 l in
      "ok " ^ string_of_z ls ^ " ;" ^
      (if sane ls && not (ls = z0) then " " ^ String.concat "," (List.map (fun k -> s64 (compute_index k n a b c)) (range_upto ls))
       else if zlt cap ls && zlt ls two62 then " ~ " ^ String.concat "," (List.map (fun k -> s64 (compute_index k n a b c)) [z0; z_of_int 1; Z.sub ls (z_of_int 1)])
       else "")
let ax_spec n a b c =
  let l = py_len n a b c in
  "ok " ^ string_of_z l ^ " ;" ^
  (if sane l && not (l = z0) then " " ^ String.concat "," (List.map (fun k -> string_of_z (py_index k n a b c)) (range_upto l))
   else if zlt cap l then " ~ " ^ String.concat "," (List.map (fun k -> string_of_z (py_index k n a b c)) [z0; z_of_int 1; Z.sub l (z_of_int 1)])
   else "")
let step_ok = function Some c -> not (c = z0) | None -> true

(* ---------- several axes ---------- *)
let parse_part s =
  match String.split_on_char ',' s with
  | ["e"] -> SEll
  | ["i"; v] -> SInt (z_of_string v)
  | ["r"; a; b; c] ->
      let p x = if x = "N" || x = "O" then None else Some (z_of_string x) in
      SRange (p a, p b, p c)
  | _ -> failwith ("bad part " ^ s)

let rec enum_idx = function
  | [] -> [[]]
  | n :: r -> let tl = enum_idx r in List.concat_map (fun i -> List.map (fun t -> i :: t) tl) (range_upto n)
let total l = List.fold_left (fun a x -> a * int_of_z x) 1 l
let enumerable shp = List.for_all sane shp && total shp <= 4096

let model_shape (_variadic : bool) shape sls =
  let r = shape_slice shape sls in
  if List.exists (fun x -> x = LenUB) r then Error "ub"
  else Ok (List.map (function Len l -> i64 l | _ -> z0) r)

let show_idx_list f shp =
  if enumerable shp && total shp > 0 then " " ^ String.concat "|" (List.map f (enum_idx shp)) else ""

let mx_model variadic shape sls =
  match model_shape variadic shape sls with
  | Error e -> e
  | Ok shp -> "ok " ^ show_list shp ^ " ;" ^ show_idx_list (fun i -> String.concat "," (List.map s64 (slice_index i shape sls))) shp
let mx_spec shape sls =
  let shp = py_shape shape sls in
  "ok " ^ show_list shp ^ " ;" ^ show_idx_list (fun i -> show_list (py_src_index i shape sls)) shp

(* view level: the operand is ndarray_t<std::vector,std::vector<size_t>> holding 0,1,2,...; element access is
   data.at( sum_i idx_i * stride_i  mod 2^64 ), refused ("X") when the offset is outside the buffer *)
let vw_model variadic shape sls =
  match model_shape variadic shape sls with
  | Error e -> e
  | Ok shp ->
      let st = compute_strides shape and size = prod shape in
      let el i = let off = compute_offset_w z64 (slice_index i shape sls) st in
                 if zlt off size then string_of_z off else "X" in
      "ok " ^ show_list shp ^ " ;" ^ (if enumerable shp && total shp > 0 then " " ^ String.concat "," (List.map el (enum_idx shp)) else "")
let vw_spec shape sls =
  let shp = py_shape shape sls in
  let el i = string_of_z (horner Z0 (py_src_index i shape sls) shape) in
  "ok " ^ show_list shp ^ " ;" ^ (if enumerable shp && total shp > 0 then " " ^ String.concat "," (List.map el (enum_idx shp)) else "")

(* quantifier of the property: well-formed index, non-zero steps, integers inside [-n,n) *)
let rec axes_ok shape sls =
  match shape, sls with
  | [], [] -> true
  | n :: s', SInt i :: r -> zle (Z.opp n) i && zlt i n && axes_ok s' r
  | n :: s', SRange (a, b, c) :: r -> step_ok c && axes_ok s' r
  | _, _ -> false
let nonell sls = List.filter (fun s -> not (is_ell s)) sls
let expand shape sls = py_expand (nat_of_int (List.length shape - List.length (nonell sls))) sls
let () =
  let one_axis = (fun args -> match args with
    | [_; n; a; b; c] ->
        let n = getI n and a = opt_part a and b = opt_part b and c = opt_part c in
        let inq = step_ok c && zle z0 n in
        { model = ax_model n a b c;
          spec = if inq then ax_spec n a b c else "unspecified";
          dom = inq && axis_dom n a b c }
    | _ -> failwith "ax") in
  register "ax" one_axis;      (* int-typed parts *)
  register "ex" one_axis;      (* int64_t / size_t typed parts, extents up to 2^62-1 *)
  let multi fm fs = (fun args -> match args with
    | enc :: _ :: shape :: parts ->
        let variadic = (getS enc <> "dyn") in
        let shape = getL shape and sls = List.map (fun p -> parse_part (getS p)) parts in
        if not (wf_slices shape sls) then { model = "malformed"; spec = "unspecified"; dom = false }
        else begin
          let ex = expand shape sls in
          let inq = axes_ok shape ex in
          { model = fm variadic shape sls; spec = if inq then fs shape sls else "unspecified";
            dom = inq && multi_dom shape sls }
        end
    | _ -> failwith "multi") in
  (* v1 I:n a b [c]: the public variadic view::slice(a, ONE all-integer slice) on a 1-d array holding 0,1,2,... *)
  register "v1" (fun args -> match args with
    | n :: a :: b :: rest ->
        let n = getI n and a = opt_part a and b = opt_part b and c = (match rest with [c] -> opt_part c | _ -> None) in
        let sls = [SRange (a, b, c)] in
        { model = vw_model true [n] sls;
          spec = if step_ok c then vw_spec [n] sls else "unspecified";
          dom = step_ok c && multi_dom [n] sls }
    | _ -> failwith "v1");
  register "mx" (multi mx_model mx_spec);
  register "vw" (multi vw_model vw_spec)
