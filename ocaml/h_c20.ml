(* h_c20.ml — C20 handlers: operation histories on array objects (extracted Ndarray
   model vs the abstract-array Spec), casts, write-through of mutable views. *)
open BinNums
open Datatypes
open Base
open Index
open Ndarray
open Common
module List = Stdlib.List
module String = Stdlib.String

let zi = z_of_int
let ni = nat_of_int
let ints_x s = List.map (fun t -> zi (int_of_string t)) (String.split_on_char 'x' s)

(* ---- kind descriptors (same tokens as drivers/c20.cpp) ---- *)
let parse_sk s =
  if s = "d" then SDynamic
  else match s.[0] with
    | 'f' -> SFixedDim (ni (int_of_string (String.sub s 1 (String.length s - 1))))
    | 'b' | 'h' -> SBounded (ni (int_of_string (String.sub s 1 (String.length s - 1))))
    | 'l' -> SClipped (ints_x (String.sub s 1 (String.length s - 1)))
    | 'c' -> SConstant (ints_x (String.sub s 1 (String.length s - 1)))
    | _ -> failwith ("shape kind " ^ s)
let parse_bk s =
  if s = "d" then BDynamic
  else match s.[0] with
    | 'f' -> BFixed (ni (int_of_string (String.sub s 1 (String.length s - 1))))
    | 'b' | 'h' -> BBounded (ni (int_of_string (String.sub s 1 (String.length s - 1))))
    | _ -> failwith ("buffer kind " ^ s)
let parse_kind s =
  match String.split_on_char '/' s with
  | [a; b; l] -> ({ sk = parse_sk a; bk = parse_bk b }, (if l = "c" then ColMajor else RowMajor))
  | _ -> failwith ("kind " ^ s)

let parse_ops s = List.filter (fun o -> o <> "") (String.split_on_char ';' s)
let op_list o = parse_list (String.sub o 1 (String.length o - 1))
let op_write o =
  let e = String.index o '=' in
  (int_of_string (String.sub o 1 (e - 1)), zi (int_of_string (String.sub o (e + 1) (String.length o - e - 1))))

let nth_index shape k =
  let l = lex_enum shape in
  let n = List.length l in
  if n = 0 then None else Some (List.nth l (k mod n))

let record flag shape strides ostrides size n elems =
  String.concat "|" [flag; show_list shape; show_list strides; show_list ostrides; size; n; String.concat "," elems]

(* ---- the model side: extracted ndarray_t model, cells are integers, fresh cells 0 ---- *)
let m_dump flag (st : coq_Z state) =
  let size = (match st.st_kind.bk with BFixed n -> string_of_int (int_of_nat n) | _ -> string_of_z (product st.st_shape)) in
  record flag st.st_shape st.st_strides (snd st.st_off) size (string_of_int (List.length st.st_data))
    (List.map (fun i -> match get st i with Some v -> string_of_z v | None -> "oob") (lex_enum st.st_shape))
let m_fill (st : coq_Z state) =
  let (_, r) = List.fold_left (fun (c, s) i -> (c + 1, write s i (zi (100 + c)))) (0, st) (lex_enum st.st_shape) in r
let m_run k l ops =
  let st = ref (init Z0 k l) in
  let out = ref [m_dump "-" !st] in
  List.iter (fun o ->
    let flag = (match o.[0] with
      | 'r' -> let (f, s) = resize Z0 !st (op_list o) in st := s; if f then "T" else "F"
      | 'w' -> let (kk, v) = op_write o in
               (match nth_index !st.st_shape kk with Some i -> st := write !st i v | None -> ()); "-"
      | 'c' -> st := copy !st; "-"
      | 'a' -> let o0 = init Z0 k l in
               let o1 = (match k.sk with SConstant _ -> o0 | _ -> snd (resize Z0 o0 (op_list o))) in
               st := assign !st (m_fill o1); "-"
      | _ -> failwith "op") in
    out := m_dump flag !st :: !out) ops;
  String.concat " ; " (List.rev !out)

(* ---- the spec side: abstract array (shape + partial index->value map) ---- *)
let s_dump flag (st : coq_Z astate) =
  let sts = spec_strides st.a_layout st.a_shape in
  let n = string_of_z (prod st.a_shape) in
  record flag st.a_shape sts sts n n
    (List.map (fun i -> match a_get st i with Some v -> string_of_z v | None -> "?") (lex_enum st.a_shape))
let s_fill (st : coq_Z astate) =
  let (_, r) = List.fold_left (fun (c, s) i -> (c + 1, a_write s i (zi (100 + c)))) (0, st) (lex_enum st.a_shape) in r
let s_init k l = { a_kind = k; a_layout = l; a_shape = (init Z0 k l).st_shape; a_cells = [] }
let s_run k l ops =
  let st = ref (s_init k l) in
  let out = ref [s_dump "-" !st] in
  List.iter (fun o ->
    let flag = (match o.[0] with
      | 'r' -> let (f, s) = a_resize !st (op_list o) in st := s; if f then "T" else "F"
      | 'w' -> let (kk, v) = op_write o in
               (match nth_index !st.a_shape kk with Some i -> st := a_write !st i v | None -> ()); "-"
      | 'c' -> "-"
      | 'a' -> let o0 = s_init k l in
               let o1 = (match k.sk with SConstant _ -> o0 | _ -> snd (a_resize o0 (op_list o))) in
               st := s_fill o1; "-"
      | _ -> failwith "op") in
    out := s_dump flag !st :: !out) ops;
  String.concat " ; " (List.rev !out)

let () =
  register "hist" (fun a -> match a with
    | kd :: rest ->
        let ks = getS kd in
        let ops = (match rest with [o] -> parse_ops (getS o) | _ -> []) in
        let (k, l) = parse_kind ks in
        { model = m_run k l ops; spec = s_run k l ops;
          dom = kind_wfb k && (l = RowMajor) }
    | _ -> failwith "hist")
