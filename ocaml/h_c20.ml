(* h_c20.ml — C20 handlers: operation histories on array objects (extracted Ndarray
   model vs the abstract-array Spec), casts, write-through of mutable views. *)
open BinNums
open Datatypes
open Base
open Index
open Ndarray
open Common
module List = Stdlib.List
module String = Stdlib.String

let zi = z_of_int
let ni = nat_of_int
let ints_x s = List.map (fun t -> zi (int_of_string t)) (String.split_on_char 'x' s)

(* ---- kind descriptors (same tokens as drivers/c20.cpp) ---- *)
let parse_sk s =
  if s = "d" then SDynamic
  else match s.[0] with
    | 'f' -> SFixedDim (ni (int_of_string (String.sub s 1 (String.length s - 1))))
    | 'b' | 'h' -> SBounded (ni (int_of_string (String.sub s 1 (String.length s - 1))))
    | 'l' -> SClipped (ints_x (String.sub s 1 (String.length s - 1)))
    | 'c' -> SConstant (ints_x (String.sub s 1 (String.length s - 1)))
    | _ -> failwith ("shape kind " ^ s)
let parse_bk s =
  if s = "d" then BDynamic
  else match s.[0] with
    | 'f' -> BFixed (ni (int_of_string (String.sub s 1 (String.length s - 1))))
    | 'b' | 'h' -> BBounded (ni (int_of_string (String.sub s 1 (String.length s - 1))))
    | _ -> failwith ("buffer kind " ^ s)
let parse_kind s =
  match String.split_on_char '/' s with
  | [a; b; l] -> ({ sk = parse_sk a; bk = parse_bk b }, (if l = "c" then ColMajor else RowMajor))
  | _ -> failwith ("kind " ^ s)

let parse_ops s = List.filter (fun o -> o <> "") (String.split_on_char ';' s)
(* r<form>2,3 / n<src>2,3 / a2,3 : the optional letter after the op names the ARGUMENT FORM (or source kind); the model
   and the reference do not look at it — that the result is independent of it is part of what is checked *)
let op_body o =
  let at = if String.length o > 1 && not (o.[1] >= '0' && o.[1] <= '9') then 2 else 1 in
  String.sub o at (String.length o - at)
let op_list o = parse_list (op_body o)
let op_write o =
  let e = String.index o '=' in
  (int_of_string (String.sub o 1 (e - 1)), zi (int_of_string (String.sub o (e + 1) (String.length o - e - 1))))

let nth_index shape k =
  let l = lex_enum shape in
  let n = List.length l in
  if n = 0 then None else Some (List.nth l (k mod n))

let record flag shape strides ostrides size n elems raw =
  String.concat "|" [flag; show_list shape; show_list strides; show_list ostrides; size; n; String.concat "," elems; String.concat "," raw]

(* ---- the model side: extracted ndarray_t model, cells are integers, fresh cells 0 ---- *)
let m_dump flag (st : coq_Z state) =
  let size = (match st.st_kind.bk with BFixed n -> string_of_int (int_of_nat n) | _ -> string_of_z (product st.st_shape)) in
  record flag st.st_shape st.st_strides (snd st.st_off) size (string_of_int (List.length st.st_data))
    (List.map (fun i -> match get st i with Some v -> string_of_z v | None -> "oob") (lex_enum st.st_shape))
    (List.map string_of_z st.st_data)
let m_fill ?(base=100) (st : coq_Z state) =
  let (_, r) = List.fold_left (fun (c, s) i -> (c + 1, write s i (zi (base + c)))) (0, st) (lex_enum st.st_shape) in r
let m_run_state k l ops =
  let st = ref (init Z0 k l) in
  let out = ref [m_dump "-" !st] in
  let step = ref 0 in
  List.iter (fun o ->
    incr step;
    let flag = (match o.[0] with
      | 'r' -> let (f, s) = resize Z0 !st (op_list o) in
               st := (if f then m_fill ~base:(1000 * !step) s else s); if f then "T" else "F"
      | 'w' -> let (kk, v) = op_write o in
               (match nth_index !st.st_shape kk with Some i -> st := write !st i v | None -> ()); "-"
      | 'c' -> st := copy !st; "-"
      | 'a' -> let o0 = init Z0 k l in
               let o1 = (match k.sk with SConstant _ -> o0 | _ -> snd (resize Z0 o0 (op_list o))) in
               st := assign !st (m_fill o1); "-"
      | _ -> failwith "op") in
    out := m_dump flag !st :: !out) ops;
  (String.concat " ; " (List.rev !out), !st)
let m_run k l ops = fst (m_run_state k l ops)

(* ---- the spec side: abstract array (shape + partial index->value map) ---- *)
(* buffer position of an index, written with Horner ranks only (row-major rank; for column-major the rank of the
   reversed index in the reversed shape) — independent of strides / compute_offset *)
let ref_cell l s idx =
  int_of_z (match l with RowMajor -> horner Z0 idx s | ColMajor -> horner Z0 (List.rev idx) (List.rev s))
let s_raw (st : coq_Z astate) =
  let n = int_of_z (prod st.a_shape) in
  let raw = Array.make (max n 0) "?" in
  List.iter (fun i -> match a_get st i with
    | Some v -> let p = ref_cell st.a_layout st.a_shape i in if p >= 0 && p < n then raw.(p) <- string_of_z v
    | None -> ()) (lex_enum st.a_shape);
  Array.to_list raw
let s_dump flag (st : coq_Z astate) =
  let sts = spec_strides st.a_layout st.a_shape in
  let n = string_of_z (prod st.a_shape) in
  record flag st.a_shape sts sts n n
    (List.map (fun i -> match a_get st i with Some v -> string_of_z v | None -> "?") (lex_enum st.a_shape))
    (s_raw st)
let s_fill ?(base=100) (st : coq_Z astate) =
  let (_, r) = List.fold_left (fun (c, s) i -> (c + 1, a_write s i (zi (base + c)))) (0, st) (lex_enum st.a_shape) in r
let s_init k l = { a_kind = k; a_layout = l; a_shape = (init Z0 k l).st_shape; a_cells = [] }
let s_run_state k l ops =
  let st = ref (s_init k l) in
  let out = ref [s_dump "-" !st] in
  let step = ref 0 in
  List.iter (fun o ->
    incr step;
    let flag = (match o.[0] with
      | 'r' -> let (f, s) = a_resize !st (op_list o) in
               st := (if f then s_fill ~base:(1000 * !step) s else s); if f then "T" else "F"
      | 'w' -> let (kk, v) = op_write o in
               (match nth_index !st.a_shape kk with Some i -> st := a_write !st i v | None -> ()); "-"
      | 'c' -> "-"
      | 'a' -> let o0 = s_init k l in
               let o1 = (match k.sk with SConstant _ -> o0 | _ -> snd (a_resize o0 (op_list o))) in
               st := s_fill o1; "-"
      | _ -> failwith "op") in
    out := s_dump flag !st :: !out) ops;
  (String.concat " ; " (List.rev !out), !st)
let s_run k l ops = fst (s_run_state k l ops)

(* cast after a history: by C20_cast_preserves the observable (shape, values) does not depend on the target kind, the
   model casts to the fully dynamic kind *)
let show_cast shape elems = "ok " ^ show_list shape ^ " ;" ^ (if elems = [] then "" else " " ^ String.concat "," elems)
(* ndarray_ls_* targets of a source without a compile-time shape get the default clip bound 6
   (NMTOOLS_CAST_DEFAULT_CLIPPED_VALUE): an extent above it is outside the property's quantifier (extents 1..4) —
   there the target's resize refuses, cast ignores the flag and copies into a (1,..,1) array (observation in notes/C20.md) *)
let outside_clip tag const_shape shape =
  String.length tag >= 10 && String.sub tag 0 10 = "ndarray_ls" && not const_shape
  && List.exists (fun e -> Z.gtb e (zi 6)) shape
let () =
  register "histcast" (fun a -> match a with
    | [kd; o; tg] ->
        let (k, l) = parse_kind (getS kd) in
        let ops = parse_ops (getS o) in
        let (_, mst) = m_run_state k l ops and (_, sst) = s_run_state k l ops in
        let m = (match cast Z0 (fun v -> v) mst { sk = SDynamic; bk = BDynamic } with
          | None -> "refused"
          | Some r -> show_cast r.st_shape (List.map (fun i -> match get r i with Some v -> string_of_z v | None -> "oob") (lex_enum r.st_shape))) in
        let sp = show_cast sst.a_shape (List.map (fun i -> match a_get sst i with Some v -> string_of_z v | None -> "?") (lex_enum sst.a_shape)) in
        let const_shape = (match k.sk with SConstant _ -> true | _ -> false) in
        if outside_clip (getS tg) const_shape sst.a_shape then { model = m; spec = "unspecified"; dom = false }
        else { model = m; spec = sp; dom = kind_wfb k }
    | _ -> failwith "histcast")

let () =
  register "hist" (fun a -> match a with
    | kd :: rest ->
        let ks = getS kd in
        let ops = (match rest with [o] -> parse_ops (getS o) | _ -> []) in
        let (k, l) = parse_kind ks in
        { model = m_run k l ops; spec = s_run k l ops;
          dom = kind_wfb k && (l = RowMajor) }
    | _ -> failwith "hist")

(* ---------- write-through of mutable views ---------- *)
let iota n = List.init n (fun k -> zi k)
let norm_slices shape spec =
  let toks = List.filter (fun t -> t <> "") (String.split_on_char ';' spec) in
  if List.length toks <> List.length shape then failwith "slices" else
  List.map2 (fun n t ->
    if t = "rev" then ((Z.sub n (zi 1), zi (-1)), n)
    else match List.map int_of_string (String.split_on_char ':' t) with
      | [a; b; st] -> ((zi a, zi st), zi ((b - a + st - 1) / st))
      | _ -> failwith "slice") shape toks
let mk_view vk shape arg =
  match vk with
  | "ref" -> VRef | "flatten" -> VFlatten
  | "reshape" -> VReshape (getL arg)
  | "slice" -> VSlice (norm_slices shape (getS arg))
  | _ -> failwith "view"
let diff_str before after =
  let r = ref [] in
  List.iteri (fun k (b, a) -> if b <> a then r := (string_of_int k ^ "=" ^ string_of_z a) :: !r) (List.combine before after);
  String.concat "," (List.rev !r)
let show_wt vshape changed elems =
  "ok " ^ show_list vshape ^ " ; changed" ^ (if changed = "" then "" else " " ^ changed) ^ " ; view" ^
  (if elems = [] then "" else " " ^ String.concat "," elems)

(* the reference: which source cell a view index designates, written with Horner ranks and the
   nested-loop enumeration only (no strides, no division) *)
let spec_src_index v s i =
  match v with
  | VRef -> i
  | VFlatten -> List.nth (lex_enum s) (int_of_z (List.hd i))
  | VReshape d -> List.nth (lex_enum s) (int_of_z (horner Z0 i d))
  | VSlice axes -> List.map2 (fun x ((st, sp), _) -> Z.add st (Z.mul x sp)) i axes
let spec_cell l s idx =
  int_of_z (match l with RowMajor -> horner Z0 idx s | ColMajor -> horner Z0 (List.rev idx) (List.rev s))

let () =
  register "wt" (fun a -> match a with
    | vk :: lay :: shp :: arg :: idx :: _ ->
        let s = getL shp and i = getL idx in
        let l = if getS lay = "c" then ColMajor else RowMajor in
        let v = mk_view (getS vk) s arg in
        let x = zi (-5) in
        let ok = posb s && view_accepts v s in
        let vs = view_shape v s in
        if not ok then { model = "nothing"; spec = "unspecified"; dom = false }
        else if not (inbb i vs) then { model = "bad-index"; spec = "unspecified"; dom = false }
        else begin
          let n = int_of_z (prod s) in
          let buf = iota n in
          let buf' = vset v l s buf i x in
          let m = show_wt vs (diff_str buf buf')
                    (List.map (fun j -> match vget v l s buf' j with Some y -> string_of_z y | None -> "oob") (lex_enum vs)) in
          let cell = spec_cell l s (spec_src_index v s i) in
          let sp = show_wt vs (string_of_int cell ^ "=" ^ string_of_z x)
                    (List.map (fun j -> if j = i then string_of_z x
                                        else string_of_int (spec_cell l s (spec_src_index v s j))) (lex_enum vs)) in
          { model = m; spec = sp; dom = true }
        end
    | _ -> failwith "wt")

(* ---------- legacy classes: fixed_ndarray / hybrid_ndarray / dynamic_ndarray ---------- *)
type 'st mops = { m_init : unit -> 'st; m_shape : 'st -> coq_Z list; m_strides : 'st -> coq_Z list;
                  m_count : 'st -> string; m_raw : 'st -> string list option; m_get : 'st -> coq_Z list -> coq_Z option;
                  m_write : 'st -> coq_Z list -> coq_Z -> 'st; m_resize : 'st -> coq_Z list -> string * 'st }

let lrecord flag shape strides count elems raw =
  String.concat "|" [flag; show_list shape; show_list strides; count;
                     (if shape = [] then "-" else String.concat "," elems);
                     (match raw with None -> "-" | Some r -> String.concat "," r)]

let legacy_run_state ?(none="oob") (m : 'st mops) ops =
  let dump flag st =
    lrecord flag (m.m_shape st) (m.m_strides st) (m.m_count st)
      (List.map (fun i -> match m.m_get st i with Some v -> string_of_z v | None -> none) (lex_enum (m.m_shape st)))
      (m.m_raw st) in
  let fill st base =
    if m.m_shape st = [] then st else
    snd (List.fold_left (fun (c, s) i -> (c + 1, m.m_write s i (zi (base + c)))) (0, st) (lex_enum (m.m_shape st))) in
  let st = ref (m.m_init ()) in
  let out = ref [dump "-" !st] in
  let step = ref 0 in
  List.iter (fun o ->
    incr step;
    let flag = (match o.[0] with
      | 'r' -> let (f, s) = m.m_resize !st (op_list o) in
               st := (if f = "T" then fill s (1000 * !step) else s); f
      | 'w' -> let (kk, v) = op_write o in
               (if m.m_shape !st <> [] then match nth_index (m.m_shape !st) kk with Some i -> st := m.m_write !st i v | None -> ()); "-"
      | 'c' -> "-"
      | 'a' -> let o0 = m.m_init () in
               let o1 = (if String.length o > 1 then snd (m.m_resize o0 (op_list o)) else o0) in
               st := fill o1 100; "-"
      | 'g' -> st := fill !st 200; "-"
      | 'n' -> (* converting constructor: a new object with the shape and the values of the source *)
               let o1 = snd (m.m_resize (m.m_init ()) (op_list o)) in
               st := fill o1 300; "-"
      | _ -> failwith "op") in
    out := dump flag !st :: !out) ops;
  (String.concat " ; " (List.rev !out), !st)
let legacy_run ?(none="oob") m ops = fst (legacy_run_state ~none m ops)

let hybrid_ops mx dm : coq_Z hstate mops =
  { m_init = (fun () -> h_init Z0 (ni mx) (ni dm)); m_shape = (fun s -> s.h_shape); m_strides = (fun s -> s.h_strides);
    m_count = (fun _ -> "-"); m_get = h_get; m_write = h_write;
    m_raw = (fun s -> let n = int_of_z (prod s.h_shape) in
               Some (List.map string_of_z (List.filteri (fun i _ -> i < n) s.h_buf)));
    m_resize = (fun s z -> let (f, s') = h_resize s z in ((if f then "T" else "F"), s')) }
let dynamic_ops : coq_Z dstate mops =
  { m_init = (fun () -> d_init Z0); m_shape = (fun s -> s.d_shape); m_strides = (fun s -> s.d_strides);
    m_count = (fun s -> string_of_int (List.length s.d_data)); m_get = d_get; m_write = d_write;
    m_raw = (fun s -> Some (List.map string_of_z s.d_data));
    m_resize = (fun s z -> ("T", d_resize Z0 s z)) }
let generic_ops k : coq_Z state mops =
  { m_init = (fun () -> init Z0 k RowMajor); m_shape = (fun s -> s.st_shape); m_strides = (fun s -> s.st_strides);
    m_count = (fun s -> string_of_int (List.length s.st_data)); m_get = get; m_write = write; m_raw = (fun _ -> None);
    m_resize = (fun s z -> let (f, s') = resize Z0 s z in ((if f then "T" else "F"), s')) }
(* the reference: abstract array of the corresponding kind *)
let spec_ops ?(raw=true) k shape0 count : coq_Z astate mops =
  { m_init = (fun () -> { a_kind = k; a_layout = RowMajor; a_shape = shape0; a_cells = [] });
    m_shape = (fun s -> s.a_shape); m_strides = (fun s -> spec_strides RowMajor s.a_shape);
    m_count = (fun s -> if count then string_of_z (prod s.a_shape) else "-");
    m_get = a_get; m_write = a_write;
    m_raw = (fun s -> if raw then Some (s_raw s) else None);
    m_resize = (fun s z -> let (f, s') = a_resize s z in ((if f then "T" else "F"), s')) }
(* cells the property does not fix print as '?' *)
let spec_run m ops = legacy_run ~none:"?" m ops

let legacy_case cast_after a = match a with
    | kd :: rest ->
        let ks = getS kd in
        let ops = (match rest with o :: _ -> parse_ops (getS o) | _ -> []) in
        let starts p = String.length ks >= String.length p && String.sub ks 0 (String.length p) = p in
        let tail p = String.sub ks (String.length p) (String.length ks - String.length p) in
        let go : 'm 's. 'm mops -> 's mops -> res = fun mm sm ->
          let (mo, mst) = legacy_run_state mm ops and (so, sst) = legacy_run_state ~none:"?" sm ops in
          if not cast_after then { model = mo; spec = so; dom = true }
          else begin
            let elems none m st = List.map (fun i -> match m.m_get st i with Some v -> string_of_z v | None -> none) (lex_enum (m.m_shape st)) in
            let tag = (match rest with [_; t] -> getS t | _ -> "") in
            if outside_clip tag (starts "fixed") (sm.m_shape sst)
            then { model = show_cast (mm.m_shape mst) (elems "oob" mm mst); spec = "unspecified"; dom = false }
            else { model = show_cast (mm.m_shape mst) (elems "oob" mm mst); spec = show_cast (sm.m_shape sst) (elems "?" sm sst); dom = true }
          end in
        if starts "hybrid" then begin
          match List.map int_of_string (String.split_on_char 'x' (tail "hybrid")) with
          | [mx; dm] ->
              let k = { sk = SFixedDim (ni dm); bk = BBounded (ni mx) } in
              go (hybrid_ops mx dm) (spec_ops k (zi mx :: List.init (dm - 1) (fun _ -> zi 1)) false)
          | _ -> failwith "hybrid"
        end else if starts "fixed" then begin
          let c = ints_x (tail "fixed") in
          let k = { sk = SConstant c; bk = BFixed (ni (int_of_z (prod c))) } in
          go (generic_ops k) (spec_ops ~raw:false k c true)
        end else if ks = "dynamic" then
          go dynamic_ops (spec_ops { sk = SDynamic; bk = BDynamic } [] true)
        else failwith "legacy class"
    | _ -> failwith "lhist"
let () =
  register "lhist" (legacy_case false);
  register "lhistcast" (legacy_case true)

(* ---------- casts: values are carried in quarters (v4 = 4*value) so that 7k-4.25 is exact ---------- *)
let quarters_str v4 =
  let n = int_of_z v4 in
  let a = abs n in
  let frac = (match a mod 4 with 0 -> "" | 1 -> ".25" | 2 -> ".5" | _ -> ".75") in
  (if n < 0 then "-" else "") ^ string_of_int (a / 4) ^ frac
let z4 = zi 4
let conv_of dt = match dt with
  | "same" | "double" | "float" -> (fun v -> v)
  | "long" | "int8" -> (fun v -> Z.mul z4 (Z.quot v z4))          (* static_cast<integer>: truncation toward zero *)
  | _ -> failwith "dtype"
let kind_of_tag tag s =
  let n = ni (int_of_z (prod s)) and d = ni (List.length s) in
  match tag with
  | "fixed" -> { sk = SConstant s; bk = BFixed n }
  | "hybrid" -> { sk = SFixedDim d; bk = BBounded n }
  | "dynamic" -> { sk = SDynamic; bk = BDynamic }
  | _ ->
    let sk = (match String.sub tag 8 2 with
      | "cs" -> SConstant s | "fs" -> SFixedDim d | "hs" -> SBounded d | "ds" -> SDynamic | "ls" -> SClipped s
      | _ -> failwith "tag") in
    let bk = (match String.sub tag 11 2 with
      | "fb" -> BFixed n | "hb" -> BBounded n | "db" -> BDynamic | _ -> failwith "tag") in
    { sk; bk }
let cast_case src_kind s tag dt =
  let vals = List.mapi (fun k _ -> zi (4 * (7 * k) - 17)) (lex_enum s) in
  let src0 = init Z0 src_kind RowMajor in
  let src1 = (match src_kind.sk with SConstant _ -> src0 | _ -> snd (resize Z0 src0 s)) in
  let src = snd (List.fold_left (fun (c, st) i -> (c + 1, write st i (List.nth vals c))) (0, src1) (lex_enum s)) in
  let k' = kind_of_tag tag s in
  let conv = conv_of dt in
  let m = (match cast Z0 (fun v -> v) src k' with
    | None -> "refused"
    | Some r -> (match cast Z0 conv r k' with
        | None -> "refused"
        | Some r2 -> "ok " ^ show_list r2.st_shape ^ " ; " ^
            String.concat "," (List.map (fun i -> match get r2 i with Some v -> quarters_str v | None -> "oob") (lex_enum r2.st_shape)))) in
  let sp = "ok " ^ show_list s ^ " ; " ^ String.concat "," (List.map (fun v -> quarters_str (conv v)) vals) in
  { model = m; spec = sp; dom = posb s && kind_wfb k' }

let () =
  register "castk" (fun a -> match a with
    | [raw; tag; dt] ->
        let s = ints_x (let r = getS raw in String.sub r 1 (String.length r - 1)) in
        cast_case { sk = SConstant s; bk = BFixed (ni (int_of_z (prod s))) } s (getS tag) (getS dt)
    | _ -> failwith "castk");
  register "castd" (fun a -> match a with
    | [shp; tag; dt] -> cast_case { sk = SDynamic; bk = BDynamic } (getL shp) (getS tag) (getS dt)
    | _ -> failwith "castd")
