(* h_c18.ml — C18 handlers: Compare model (both builds) vs structural equality / closeness *)
open BinNums
open Datatypes
open Base
open Compare
open Common
module List = Stdlib.List
module String = Stdlib.String

let kind_of s = match s with
  | "vec" | "vecu" -> KVec | "arr" -> KArr | "tup" | "ct" -> KTup
  | _ -> failwith ("kind " ^ s)
let arr_of_arg = function A (s, d) -> Arr (s, d) | _ -> failwith "expected array"
(* what the driver builds for an ndarray kind: rsh = view::reshape(flat, shape) is a maybe<view> *)
let arr_kind k a = match k with
  | "rsh" -> MSome (arr_of_arg a)
  | "dyn" | "ref" | "fix" | "col" | "cref" | "dynf" -> arr_of_arg a   (* col / cref: column-major buffer, same LOGICAL content
                                                               (Compare.isequal_arrL_logical: only the logical elements matter) *)
  | _ -> failwith ("array kind " ^ k)
let maybe_of = function N -> MNone | a -> MSome (arr_of_arg a)
let either_of = function I z -> ERight (Num z) | a -> ELeft (arr_of_arg a)
let num = function I z -> Num z | _ -> failwith "expected int"

let show_out = function
  | Ret true -> "ok 1" | Ret false -> "ok 0" | Abort -> "abort" | UB -> "ub" | Reject -> "unsupported"
let show_b b = if b then "ok 1" else "ok 0"

(* operands of a form; `detail` = entry through utils::detail::isequal *)
let operands sc form args =
  let getL a = List.map (fun z -> Z.mul sc z) (getL a) in
  match form, args with
  | "nn", [a; b] -> (num a, num b, false)
  (* aliasing: the same object on both sides — the result is a function of the value only *)
  | "sf", [k; a] -> let x = (if getS k = "vec1" then Idx (KVec, snd (getA a)) else arr_kind (getS k) a) in (x, x, false)
  | "sfm", [a] -> let x = maybe_of a in (x, x, false)
  | "sfe", [a] -> let x = either_of a in (x, x, false)
  | "sft", [a; b] -> let x = Tuple [arr_of_arg a; arr_of_arg b] in (x, x, false)
  | "wi", [_; _; f; a; b] ->        (* integer element types of different width: the model's integers are exact *)
      (match getS f with
       | "vec" -> (Idx (KVec, getL a), Idx (KVec, getL b), false)
       | "nd" -> let n l = z_of_int (List.length l) in
                 (Arr ([z_of_int 1; n (getL a)], getL a), Arr ([z_of_int 1; n (getL b)], getL b), false)
       | "sc" -> (Num (List.hd (getL a)), Num (List.hd (getL b)), false)
       | k -> failwith ("wi form " ^ k))
  | ("ii" | "dii"), [ka; kb; a; b] ->
      (Idx (kind_of (getS ka), getL a), Idx (kind_of (getS kb), getL b), form = "dii")
  | "aa", [ka; kb; a; b] -> (arr_kind (getS ka) a, arr_kind (getS kb) b, false)
  | "ia", [k; a; b] -> (Idx (kind_of (getS k), getL a), arr_of_arg b, false)
  | "ai", [k; a; b] -> (arr_of_arg a, Idx (kind_of (getS k), getL b), false)
  | "mm", [a; b] -> (maybe_of a, maybe_of b, false)
  | "ma", [a; b] -> (maybe_of a, arr_of_arg b, false)
  | "am", [a; b] -> (arr_of_arg a, maybe_of b, false)
  | "ee", [a; b] -> (either_of a, either_of b, false)
  | "ea", [a; b] -> (either_of a, arr_of_arg b, false)
  | "ae", [a; b] -> (arr_of_arg a, either_of b, false)
  | "en", [a; b] -> (either_of a, num b, false)
  | "ne", [a; b] -> (num a, either_of b, false)
  | "tt", [a; b; c; d] -> (Tuple [arr_of_arg a; arr_of_arg b], Tuple [arr_of_arg c; arr_of_arg d], false)
  | "tm", [a; b; c; d] -> (Tuple [maybe_of a; num b], Tuple [maybe_of c; num d], false)
  | "mt", [a; b; c; d] ->
      let mk p q = (match p with N -> MNone | _ -> MSome (Tuple [arr_of_arg p; num q])) in
      (mk a b, mk c d, false)
  | _ -> failwith ("form " ^ form)

(* two nested std::arrays are both "packed" for the public entry: different static shapes do not compile *)
let static_reject form args = match form, args with
  | "aa", [ka; kb; a; b] -> getS ka = "fix" && getS kb = "fix" && fst (getA a) <> fst (getA b)
  | _ -> false

let rec drop_last = function [] -> [] | [_] -> [] | x :: t -> x :: drop_last t
let rec last = function [x] -> x | _ :: t -> last t | [] -> failwith "last"

let both_builds nd dbg = if nd = dbg then show_out nd else "ndebug:" ^ show_out nd ^ " debug:" ^ show_out dbg

let eq_handler form args =
  let (x, y, detail) = operands (z_of_int 1) form args in
  let run nd = if detail then isequal_d nd x y else isequal nd x y in
  let nd = run true and dbg = run false in
  let rej = (nd = Reject) || static_reject form args in
  { model = both_builds nd dbg;
    spec = if rej then "unsupported" else show_b (spec_equal x y);
    dom = wfb x && wfb y && pair_dom x y && not rej }

let cl_handler form args =
  let eps = getI (last args) in
  let (x, y, _) = operands (z_of_int 4) form (drop_last args) in
  let nd = isclose true eps x y and dbg = isclose false eps x y in
  let rej = (nd = Reject) || static_reject form (drop_last args) in
  { model = both_builds nd dbg;
    spec = if rej then "unsupported" else show_b (spec_close eps x y);
    dom = wfb x && wfb y && pair_dom x y && not rej }

let () =
  List.iter (fun f -> register ("eq_" ^ f) (eq_handler f); register ("cl_" ^ f) (cl_handler f))
    ["nn"; "ii"; "dii"; "aa"; "ia"; "ai"; "mm"; "ma"; "am"; "ee"; "ea"; "ae"; "en"; "ne"; "tt"; "tm"; "mt"; "wi"; "sf"; "sfm"; "sfe"; "sft"];
  (* utils::apply_isequal / apply_isclose: same reference, same model (the maybe arms of the public entry) *)
  List.iter (fun f -> register ("aeq_" ^ f) (eq_handler f); register ("acl_" ^ f) (cl_handler f))
    ["nn"; "aa"; "mm"; "ma"; "am"; "tt"; "tm"; "sf"; "sfm"; "sft"];
  (* layout suffixes: the operands' arrays are row-/column-major objects with the same logical content *)
  List.iter (fun f -> List.iter (fun l ->
      register ("eq_" ^ f ^ "." ^ l) (eq_handler f); register ("cl_" ^ f ^ "." ^ l) (cl_handler f)) ["rr"; "rc"; "cr"; "cc"])
    ["ia"; "ai"; "mm"; "ma"; "am"; "ee"; "ea"; "ae"; "en"; "ne"; "tt"; "tm"; "mt"]
