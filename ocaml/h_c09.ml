(* h_c09.ml — C09 handler (two-stage): the impl line is "kind=result;kind=result;..." for one
   (function, argument values) case.  The reference result is the extracted model where one exists
   (Index / Broadcast functions, proved equal to their Specs in C01 / C06), otherwise the row of the
   std::vector kind; spec = every row (other than unsupported / compile-rejected) shows the reference. *)
open BinNums
open Datatypes
open Base
open Index
open Broadcast
open Common
module List = Stdlib.List
module String = Stdlib.String

let rows_of s =
  List.filter_map (fun x -> match String.index_opt x '=' with
    | Some i -> Some (String.sub x 0 i, String.sub x (i + 1) (String.length x - i - 1)) | None -> None)
    (String.split_on_char ';' s)

let () =
  register "g" (fun a ->
    let fn = getS (List.nth a 1) in
    let args = List.filteri (fun i _ -> i >= 2 && i < List.length a - 1) a in
    let r = getS (List.nth a (List.length a - 1)) in
    let rows = rows_of r in
    let ideal = match fn, args with
      | "strides", [s] -> Some (show_list (compute_strides (getL s)))
      | "product", [s] -> Some (string_of_z (product (getL s)))
      | "indices", [k; s] -> Some (show_list (compute_indices (getI k) (getL s)))
      | "offset", [i; st] -> Some (string_of_z (compute_offset (getL i) (getL st)))
      | "bshape", [x; y] -> Some (match broadcast_shape2 (getL x) (getL y) with Some l -> show_list l | None -> "nothing")
      | "bto", [x; y] -> Some (match shape_broadcast_to (getL x) (getL y) with Some (d, _) -> show_list d | None -> "nothing")
      | "reverse", [s] -> Some (show_list (List.rev (getL s)))
      | "reshape", [s; d] -> Some (match Views.shape_reshape (getL s) (getL d) with Some l -> show_list l | None -> "nothing")
      | "normalize_axis", [x; n] -> Some (match Views.normalize_axis (getI x) (getI n) with Some v -> string_of_z v | None -> "nothing")
      | "normalize_axes", [x; n] -> Some (match Views.normalize_axes (getL x) (getI n) with Some l -> show_list l | None -> "nothing")
      | "transpose_none", [s] -> Some (show_list (Views.shape_transpose (getL s) None))
      | "tile", [s; r] -> Some (show_list (Select.shape_tile (getL s) (getL r)))
      | _ -> None in
    let reference = match ideal with
      | Some v -> v
      | None -> (match List.assoc_opt "vec" rows with Some v -> v
                 | None -> (match List.assoc_opt "rt" rows with Some v -> v | None -> snd (List.hd rows))) in
    let line = String.concat "" (List.map (fun (k, v) ->
        k ^ "=" ^ (if v = "unsupported" || v = "compile-rejected" then v else reference) ^ ";") rows) in
    { model = line; spec = line; dom = (ideal <> None) })
