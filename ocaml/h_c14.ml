(* h_c14.ml — C14 handlers.
   Model : the extracted stack machine (Functor.run / feed / flatten / comp / operands / extracted / graph)
           over OCaml array values; the array semantics of the individual functions (add, transpose, ...)
           are the hand-written reference evaluator below (the theorems hold for ANY functions).
   Spec  : what the written chain denotes (Functor.denote: nested application) / the view itself
           (Functor.eval), leaves and graph numbers read off the tree string. *)
open BinNums
open Datatypes
open Base
open Functor
open Common
module List = Stdlib.List
module String = Stdlib.String

(* ---------- reference array evaluator ---------- *)
type arr = { sh : int list; d : int list }
type v = V of string * arr | Err          (* a leaf keeps its name: operand identity *)

let size sh = List.fold_left ( * ) 1 sh
let unravel k sh = fst (List.fold_left (fun (acc, k) e -> ((k mod e) :: acc, k / e)) ([], k) (List.rev sh))
let ravel idx sh = List.fold_left2 (fun k i e -> k * e + i) 0 idx sh
let gen sh f = { sh; d = List.init (size sh) (fun k -> f (unravel k sh)) }
let at a idx = List.nth a.d (ravel idx a.sh)
let lift1 f = function [V (_, a)] -> (try V ("", f a) with _ -> Err) | _ -> Err
let lift2 f = function [V (_, a); V (_, b)] -> (try V ("", f a b) with _ -> Err) | _ -> Err
let transpose a = gen (List.rev a.sh) (fun i -> at a (List.rev i))
let neg a = { a with d = List.map (fun x -> - x) a.d }
let sum0 a = match a.sh with
  | n :: rest when rest <> [] -> gen rest (fun i -> List.fold_left (+) 0 (List.init n (fun j -> at a (j :: i))))
  | _ -> failwith "sum0"
let ew f a b = if a.sh <> b.sh then failwith "shape" else { sh = a.sh; d = List.map2 f a.d b.d }
let matmul a b = match a.sh, b.sh with
  | [m; k], [k2; n] when k = k2 -> gen [m; n] (fun i -> match i with [r; c] ->
        List.fold_left (+) 0 (List.init k (fun j -> at a [r; j] * at b [j; c])) | _ -> 0)
  | _ -> failwith "matmul"
let where3 = function
  | [V (_, c); V (_, x); V (_, y)] when c.sh = x.sh && x.sh = y.sh ->
      V ("", { sh = c.sh; d = List.map2 (fun (c, x) y -> if c <> 0 then x else y) (List.combine c.d x.d) y.d })
  | _ -> Err

let semantics name : int * (v list -> v) = match name with
  | "tr" | "trx" -> (1, lift1 transpose) | "neg" -> (1, lift1 neg) | "sum0" -> (1, lift1 sum0)
  | "add" -> (2, lift2 (ew (+))) | "sub" -> (2, lift2 (ew (-))) | "mul" -> (2, lift2 (ew ( * )))
  | "mm" -> (2, lift2 matmul) | "where" -> (3, where3)
  | _ -> failwith ("unknown function " ^ name)

let functor_of name : v coq_functor = match name with
  | "swap" -> swap_f | "dup" -> dup_f (nat_of_int 2)
  | "dig1" -> dig_f (nat_of_int 1) | "dig2" -> dig_f (nat_of_int 2) | "dig3" -> dig_f (nat_of_int 3)
  | "bury1" -> bury_f (nat_of_int 1) | "bury2" -> bury_f (nat_of_int 2) | "bury3" -> bury_f (nat_of_int 3)
  | _ -> let (n, f) = semantics name in { arity = nat_of_int n; fmap = (fun l -> [f l]) }

let show_v = function V (_, a) -> show_arr (List.map z_of_int a.sh) (List.map z_of_int a.d) | Err -> "nothing"
let leaf name x = let (s, d) = getA x in V (name, { sh = List.map int_of_z s; d = List.map int_of_z d })

(* ---------- pipelines:  term ('*' term)*  with parentheses; a*b*c = (a*b)*c as in C++ ---------- *)
let parse_pipe (s : string) : v ctree =
  let n = String.length s in
  let pos = ref 0 in
  let rec expr () =
    let t = ref (term ()) in
    while !pos < n && s.[!pos] = '*' do incr pos; let r = term () in t := CC (!t, r) done; !t
  and term () =
    if s.[!pos] = '(' then begin incr pos; let t = expr () in incr pos (* ')' *); t end
    else begin
      let st = !pos in
      while !pos < n && (match s.[!pos] with 'a'..'z' | '0'..'9' -> true | _ -> false) do incr pos done;
      CF (functor_of (String.sub s st (!pos - st))) end in
  expr ()

let chunks_of split ops =
  let sizes = List.map int_of_string (String.split_on_char '+' split) in
  let rec go sizes ops = match sizes with
    | [] -> []
    | k :: rest -> let c = List.filteri (fun i _ -> i < k) ops and r = List.filteri (fun i _ -> i >= k) ops in c :: go rest r in
  go sizes ops

(* ---------- view trees:  name(arg,...) | a | b | c ---------- *)
let parse_tree (s : string) (leaves : (char * v) list) : v expr =
  let n = String.length s in
  let pos = ref 0 in
  let rec tree () =
    let st = !pos in
    while !pos < n && (match s.[!pos] with 'a'..'z' | '0'..'9' -> true | _ -> false) do incr pos done;
    let name = String.sub s st (!pos - st) in
    if !pos < n && s.[!pos] = '(' then begin
      incr pos;
      let args = ref [tree ()] in
      while s.[!pos] = ',' do incr pos; args := !args @ [tree ()] done;
      incr pos;
      let (k, f) = semantics name in
      Node ({ varity = nat_of_int k; vapp = f }, !args) end
    else Leaf (List.assoc name.[0] leaves) in
  tree ()

(* independent reading of the tree string: leaves in order; post-order numbering for the edges *)
let leaves_of_string s = List.filter (fun c -> c <> "") (List.map (fun c -> c)
    (let out = ref [] in
     String.iteri (fun i c -> if (c = 'a' || c = 'b' || c = 'c') && (i + 1 >= String.length s || s.[i + 1] = ',' || s.[i + 1] = ')')
                               && (i = 0 || s.[i - 1] = '(' || s.[i - 1] = ',') then out := String.make 1 c :: !out) s;
     List.rev !out))
type pt = PL | PN of pt list
let rec shape_of (e : v expr) = match e with Leaf _ -> PL | Node (_, args) -> PN (List.map shape_of args)
let ref_graph (t : pt) =
  let next = ref 0 and edges = ref [] in
  let rec go t = match t with
    | PL -> let i = !next in incr next; i
    | PN args -> let roots = List.map go args in let me = !next in incr next;
                 List.iter (fun r -> edges := (r, me) :: !edges) roots; me in
  ignore (go t); (!next, List.sort compare !edges)
let show_graph (n, es) =
  Printf.sprintf "graph %d %d %s" n (List.length es) (String.concat "," (List.map (fun (a, b) -> Printf.sprintf "%d>%d" a b) es))

let name_of = function V (nm, _) -> nm | Err -> "?"

let () =
  register "pipe" (fun a -> match a with
    | p :: split :: arrays ->
        let t = parse_pipe (getS p) in
        let fs = flatten t in
        let need = List.fold_left (fun acc c -> acc + int_of_string c) 0 (String.split_on_char '+' (getS split)) in
        let all = List.mapi (fun i x -> leaf (String.make 1 (Char.chr (97 + i))) x) arrays in
        let ops = List.filteri (fun i _ -> i < need) all in
        (* a complete result, or (results..., operands left over) when the split supplied more than is consumed *)
        let show_stack = function
          | [r] -> show_v r
          | rs -> "tuple " ^ String.concat " ;; " (List.map show_v rs) in
        let m = (match feed fs (chunks_of (getS split) ops) with
                 | ([], rs) when rs <> [] -> show_stack rs
                 | _ -> "curried") in
        let (sp, view, dom) = (match denote t ops with
                 | Some (r :: rest) -> (show_stack (r :: rest), show_v r, true)
                 | _ -> ("curried", "curried", false)) in
        { model = "fn " ^ m ^ " | view " ^ view; spec = "fn " ^ sp ^ " | view " ^ view; dom }
    | _ -> failwith "pipe");
  register "ext" (fun a -> match a with
    | [_kind; g; tree; x; y; z] ->
        let s = getS tree in
        let e = parse_tree s [('a', leaf "a" x); ('b', leaf "b" y); ('c', leaf "c" z)] in
        let want_graph = getS g = "g1" in
        let view = show_v (eval e) in
        let m_apply = (match extracted e with ([], [r]) -> show_v r | ([], _) -> "operand-tuple" | _ -> "curried") in
        let m_ops = String.concat "," (List.map name_of (operands e)) in
        let m_graph = if not want_graph then "graph unsupported" else
          let (ns, es) = graph e in
          show_graph (List.length ns, List.sort compare (List.map (fun (p, q) -> (int_of_nat p, int_of_nat q)) es)) in
        let s_graph = if not want_graph then "graph unsupported" else show_graph (ref_graph (shape_of e)) in
        { model = "view " ^ view ^ " | apply " ^ m_apply ^ " | ops " ^ m_ops ^ " | " ^ m_graph;
          spec  = "view " ^ view ^ " | apply " ^ view ^ " | ops " ^ String.concat "," (leaves_of_string s) ^ " | " ^ s_graph;
          dom = wfb e }
    | _ -> failwith "ext");
  register "alias" (fun a -> match a with
    | [l] -> let l = getL l in
        let r = List.fold_left (fun r c -> (r * 512 + int_of_z c) mod 1033) 0 l in
        { model = ok_z (generate_alias l); spec = "ok " ^ string_of_int r; dom = List.for_all (fun c -> int_of_z c >= 0) l }
    | _ -> failwith "alias")

(* ---------- view DAGs: "v=L0;m=exp(v);s=sub(v,m);..." (root = last binding) ---------- *)
type oterm = OL of int | OT of string * oterm list            (* the handler's own terms (Spec side) *)
let opcodes = ["exp"; "tanh"; "cos"; "sin"; "neg"; "add"; "sub"; "mul"; "div"; "pow"]
let opcode name = let rec go i = function [] -> failwith ("unknown op " ^ name) | x :: t -> if x = name then i else go (i + 1) t in go 1 opcodes
let parse_prog (s : string) : (string * string * string list) list =     (* var, op | "L<k>", args *)
  List.map (fun b ->
    match String.index_opt b '=' with
    | None -> failwith "binding"
    | Some i ->
        let v = String.sub b 0 i and e = String.sub b (i + 1) (String.length b - i - 1) in
        (match String.index_opt e '(' with
         | None -> (v, e, [])
         | Some j -> (v, String.sub e 0 j, String.split_on_char ',' (String.sub e (j + 1) (String.length e - j - 2)))))
    (String.split_on_char ';' s)
let show_dag nodes edges distinct nvars =
  let nodes = List.sort compare nodes and edges = List.sort compare edges in
  Printf.sprintf "dag nodes %d%s | edges %d%s | distinct %d/%d"
    (List.length nodes) (if nodes = [] then "" else " " ^ String.concat "," nodes)
    (List.length edges) (if edges = [] then "" else " " ^ String.concat "," edges) distinct nvars

let () =
  register "dag" (fun a -> match a with
    | [p] ->
        let prog = parse_prog (getS p) in
        (* model: the extracted Functor.dag_nodes / dag_edges on the root term *)
        let env = List.fold_left (fun env (v, op, args) ->
            let t = if args = [] then LeafId (nat_of_int (int_of_string (String.sub op 1 (String.length op - 1))))
                    else OpId (nat_of_int (opcode op), List.map (fun x -> List.assoc x env) args) in
            env @ [(v, t)]) [] prog in
        let name_of t = fst (List.find (fun (_, u) -> nid_eqb t u) env) in
        let root = snd (List.nth env (List.length env - 1)) in
        let m = show_dag (List.map name_of (dag_nodes root))
                  (List.map (fun (x, y) -> name_of x ^ ">" ^ name_of y) (dag_edges root))
                  (List.length (dedup nid_eqb (List.map snd env))) (List.length env) in
        (* spec: written independently on the handler's own terms: one node per distinct term reachable from
           the root, one edge per distinct (operand, operation) pair *)
        let oenv = List.fold_left (fun env (v, op, args) ->
            let t = if args = [] then OL (int_of_string (String.sub op 1 (String.length op - 1)))
                    else OT (op, List.map (fun x -> List.assoc x env) args) in
            env @ [(v, t)]) [] prog in
        let oname t = fst (List.find (fun (_, u) -> u = t) oenv) in
        let nodes = Hashtbl.create 16 and edges = Hashtbl.create 16 in
        let rec walk t =
          if not (Hashtbl.mem nodes t) then begin
            Hashtbl.replace nodes t ();
            match t with OL _ -> () | OT (_, args) -> List.iter (fun x -> Hashtbl.replace edges (x, t) (); walk x) args end in
        walk (snd (List.nth oenv (List.length oenv - 1)));
        let sp = show_dag (Hashtbl.fold (fun t () acc -> oname t :: acc) nodes [])
                   (Hashtbl.fold (fun (x, y) () acc -> (oname x ^ ">" ^ oname y) :: acc) edges [])
                   (List.length (List.sort_uniq compare (List.map snd oenv))) (List.length oenv) in
        { model = m; spec = sp; dom = true }
    | _ -> failwith "dag")

(* ---------- extraction of attribute-carrying views: the driver compares apply(extraction) with the view itself
   (shape and every element); the expected view shape comes from the case line ---------- *)
let () =
  register "attr" (fun a -> match a with
    | _name :: _a :: _b :: _params :: shape :: _dtype -> both ("reproduces " ^ show_list (getL shape)) true
    | _ -> failwith "attr")

(* ---------- name-to-name sweep over the functor table: the driver compares fn::x[attributes](operands) with view::x(operands,
   attributes) on shape and every element and prints "same <shape>"; the expected line is "same *" (any shape; see equal() in
   harness/props/c14.py) ---------- *)
let () = register "fnview" (fun _ -> both "same *" true)
