(* h_c06.ml — C06 handlers: Broadcast model vs the NumPy rule *)
open BinNums
open Datatypes
open Base
open Index
open Broadcast
open Common
module List = Stdlib.List
module String = Stdlib.String

let opt_list = show_opt ok_list
let kind_ok k s =
  (* int-typed containers: extents stay far below 2^31 in every generated case *)
  ignore k; ignore s; true

(* element k of a (shape, row-major data) array at multi-index i *)
let elem_at shape data i = List.nth data (int_of_z (horner Z0 i shape))

let bto_model src data dst =
  match broadcast_to_view src dst with
  | Some (d, f) -> show_arr d (List.map (fun i -> List.nth data (int_of_z (compute_offset (f i) (compute_strides src)))) (lex_enum d))
  | None -> "nothing"
let bto_spec src data dst =
  match np_broadcast_to_shape src dst with
  | Some d -> show_arr d (List.map (fun i -> elem_at src data (np_broadcast_to_idx src i)) (lex_enum d))
  | None -> "nothing"

let () =
  register "bshape" (fun a -> match a with
    | [_; _; x; y] -> let x = getL x and y = getL y in
        { model = opt_list (broadcast_shape2 x y); spec = opt_list (np_broadcast2 x y); dom = posb x && posb y }
    | _ -> failwith "bshape");
  register "bshape3" (fun a -> match a with
    | [_; x; y; z] -> let l = [getL x; getL y; getL z] in
        { model = opt_list (broadcast_shapes l); spec = opt_list (np_broadcast_n l); dom = List.for_all posb l }
    | _ -> failwith "bshape3");
  register "bshape4" (fun a -> match a with
    | [x; y; z; w] -> let l = [getL x; getL y; getL z; getL w] in
        { model = opt_list (broadcast_shapes l); spec = opt_list (np_broadcast_n l); dom = List.for_all posb l }
    | _ -> failwith "bshape4");
  register "bto_shape" (fun a -> match a with
    | [_; _; x; y] -> let x = getL x and y = getL y in
        let showf l = String.concat "," (List.map (fun b -> if b then "1" else "0") l) in
        let m = (match shape_broadcast_to x y with
                 | Some (d, free) -> "ok " ^ show_list d ^ " ; " ^ showf free | None -> "nothing") in
        (* spec: NumPy's one-directional rule; an axis is "free" (stretched or prepended) iff it has no
           source axis or the source extent differs from the target extent *)
        let sp = (match np_broadcast_to_shape x y with
                  | Some d ->
                      let n = List.length y - List.length x in
                      let free = List.mapi (fun j e -> if j < n then true else not (List.nth x (j - n) = e)) y in
                      "ok " ^ show_list d ^ " ; " ^ showf free
                  | None -> "nothing") in
        { model = m; spec = sp; dom = posb x && posb y }
    | _ -> failwith "bto_shape");
  let bto a = match a with
    | [_; src; dst] | [src; dst] -> let (s, d) = getA src and dst = getL dst in
        { model = bto_model s d dst; spec = bto_spec s d dst; dom = posb s && posb dst }
    | _ -> failwith "bto" in
  register "bto_view" bto; register "bto_eval" bto;
  let barr arrs =
    let shapes = List.map fst arrs in
    let one f tgt = String.concat " | " (List.map (fun (s, d) -> f s d tgt) arrs) in
    { model = (match broadcast_shapes shapes with Some t -> one bto_model t | None -> "nothing");
      spec = (match np_broadcast_n shapes with Some t -> one bto_spec t | None -> "nothing");
      dom = List.for_all posb shapes } in
  register "barrays" (fun a -> barr (List.map getA a));
  register "barrays3" (fun a -> barr (List.map getA a))
