(* h_c16.ml — C16 handlers: Linalg model (view pipelines as coded) vs the NumPy defining sums *)
open BinNums
open Datatypes
open Base
open Index
open Broadcast
open Linalg
open Dtype
open LinalgDtype
open Common
module List = Stdlib.List
module String = Stdlib.String
module Array = Stdlib.Array

(* operand accessor: (shape, row-major data) -> multi-index -> element.  An index outside the shape returns a
   sentinel: the models guard every out-of-range situation explicitly (Trap), the Spec is only evaluated on
   arguments NumPy accepts, so the sentinel can only surface as a visible disagreement *)
let sentinel = z_of_int (-777777)
let accessor shape data =
  let arr = Array.of_list data in
  let n = Array.length arr in
  fun idx ->
    if inbb idx shape then begin
      let k = int_of_z (horner Z0 idx shape) in
      if k >= 0 && k < n then arr.(k) else sentinel end
    else sentinel

let zadd = Z.add and zmul = Z.mul
let show_view (v : coq_Z view) =
  let s = v.vshape in
  if List.exists (fun e -> Z.ltb e Z0) s then "trap negative-extent"
  else show_arr s (List.map v.vat (lex_enum s))
let show_res = function Ok v -> show_view v | Nothing -> "nothing" | Trap -> "trap"
let show_optv = function Some v -> show_view v | None -> "unspecified"   (* arguments outside the quantifier (axis1 == axis2, axes out of range) *)
(* operand shapes NumPy rejects (unequal contraction lengths, incompatible batch shapes): the routine must return Nothing *)
let show_optn = function Some v -> show_view v | None -> "nothing"
let kind a = getS a
let nat_list l = List.map (fun z -> nat_of_int (int_of_z z)) l
let len l = List.length l

let () =
  let two f = (fun a -> match a with
    | k :: x :: y :: rest -> let (sa, da) = getA x and (sb, db) = getA y in
        f (kind k) sa sb (accessor sa da) (accessor sb db) rest
    | _ -> failwith "two operands expected") in
  register "matmul" (two (fun k sa sb fa fb _ ->
    let m = if k = "v2" then z_matmul_v2 sa sb fa fb else z_matmul_v1 sa sb fa fb in
    let sp = z_np_matmul sa sb fa fb in
    let valid = (match sp with Some _ -> true | None -> false) in
    { model = show_res m; spec = show_optn sp;
      dom = posb sa && posb sb && valid && (k = "v2" || (len sa >= 2 && len sb >= 2)) }));
  register "dot" (two (fun _ sa sb fa fb _ ->
    let sp = z_np_dot sa sb fa fb in
    { model = show_res (z_dot sa sb fa fb); spec = show_optn sp;
      dom = posb sa && posb sb && sp <> None }));
  register "inner" (two (fun _ sa sb fa fb _ ->
    let sp = z_np_inner sa sb fa fb in
    { model = show_res (z_inner sa sb fa fb); spec = show_optn sp;
      dom = posb sa && posb sb && sp <> None }));
  register "outer" (two (fun _ sa sb fa fb _ ->
    { model = show_res (z_outer sa sb fa fb); spec = show_view (z_np_outer sa sb fa fb);
      dom = posb sa && posb sb }));
  register "vecdot" (two (fun _ sa sb fa fb _ ->
    let sp = z_np_vecdot sa sb fa fb in
    { model = show_res (z_vecdot sa sb fa fb); spec = show_optn sp;
      dom = posb sa && posb sb && sp <> None }));
  register "kron" (two (fun _ sa sb fa fb _ ->
    { model = show_res (z_kron sa sb fa fb); spec = show_view (z_np_kron sa sb fa fb);
      dom = posb sa && posb sb }));
  register "tdot" (two (fun _ sa sb fa fb rest ->
    let n = int_of_z (getI (List.hd rest)) in
    let la = len sa and lb = len sb in
    if n < 0 || n > la || n > lb then { model = "trap"; spec = "unspecified"; dom = false } else begin
      let axa = List.init n (fun i -> nat_of_int (la - n + i)) and axb = List.init n nat_of_int in
      let sp = z_np_tensordot sa sb fa fb axa axb in
      { model = show_res (z_tensordot_int sa sb fa fb (nat_of_int n)); spec = show_optn sp;
        dom = posb sa && posb sb && sp <> None } end));
  register "tdotx" (two (fun _ sa sb fa fb rest ->
    match rest with
    | [xa; xb] ->
        let axa = getL xa and axb = getL xb in
        let la = len sa and lb = len sb in
        let norm n l = List.map (fun z -> let v = int_of_z z in if v < 0 then v + n else v) l in
        let na = norm la axa and nb = norm lb axb in
        let ok = List.for_all (fun v -> v >= 0 && v < la) na && List.for_all (fun v -> v >= 0 && v < lb) nb in
        let sp = if ok then z_np_tensordot sa sb fa fb (List.map nat_of_int na) (List.map nat_of_int nb) else None in
        { model = show_res (z_tensordot_axes sa sb fa fb axa axb); spec = (if ok then show_optn sp else "unspecified");
          dom = posb sa && posb sb && sp <> None }
    | _ -> failwith "tdotx"));
  (* (off, ax1, ax2) given separately for the model (the header's defaults where omitted) and the spec (NumPy's) *)
  let diag_core is_trace x (off, ax1, ax2) (soff, sax1, sax2) =
        let (s, d) = getA x in let f = accessor s d in
        let n = len s in
        let nz z = let v = int_of_z z in if v < 0 then v + n else v in
        let n1 = nz sax1 and n2 = nz sax2 in
        let ok = n1 >= 0 && n1 < n && n2 >= 0 && n2 < n in
        let sp = if not ok then None
          else if is_trace then z_np_trace s f soff (nat_of_int n1) (nat_of_int n2)
          else z_np_diagonal s f soff (nat_of_int n1) (nat_of_int n2) in
        let m = if is_trace then z_trace s f off ax1 ax2 else z_diagonal s f off ax1 ax2 in
        (* theorem domain: any offset; trace needs a non-empty diagonal *)
        let e = if ok then int_of_z (np_diag_len s soff (nat_of_int n1) (nat_of_int n2)) else (-1) in
        { model = show_res m; spec = show_optv sp;
          dom = posb s && sp <> None && (if is_trace then e >= 1 else true) } in
  let diag is_trace = (fun a -> match a with
    | [_; x; o; a1; a2] -> let t = (getI o, getI a1, getI a2) in diag_core is_trace x t t
    | _ -> failwith "diag") in
  register "trace" (diag true);
  register "diagonal" (diag false);
  register "trace_ct" (diag true);
  register "diagonal_ct" (diag false);
  (* argument forms with omitted arguments: model = the header's default template arguments, spec = NumPy's defaults *)
  let forms is_trace = (fun a -> match a with
    | [_; x] -> diag_core is_trace x (default_offset, default_axis1, default_axis2) (np_default_offset, np_default_axis1, np_default_axis2)
    | [_; x; o] -> diag_core is_trace x (getI o, default_axis1, default_axis2) (getI o, np_default_axis1, np_default_axis2)
    | [_; x; o; a1] -> diag_core is_trace x (getI o, getI a1, default_axis2) (getI o, getI a1, np_default_axis2)
    | _ -> failwith "diag forms") in
  List.iter (fun sfx -> register ("trace_" ^ sfx) (forms true); register ("diagonal_" ^ sfx) (forms false)) ["d"; "o"; "oc"; "oa"];
  let tdot_n name (nm : nat option) (ns : nat option) = register name (two (fun _ sa sb fa fb rest ->
    let nm = (match nm with Some n -> int_of_nat n | None -> int_of_z (getI (List.hd rest))) in
    let ns = (match ns with Some n -> int_of_nat n | None -> nm) in
    let la = len sa and lb = len sb in
    if ns < 0 || ns > la || ns > lb || nm > la || nm > lb then { model = "trap"; spec = "unspecified"; dom = false } else begin
      let axa = List.init ns (fun i -> nat_of_int (la - ns + i)) and axb = List.init ns nat_of_int in
      let sp = z_np_tensordot sa sb fa fb axa axb in
      { model = show_res (z_tensordot_int sa sb fa fb (nat_of_int nm)); spec = show_optn sp;
        dom = posb sa && posb sb && sp <> None } end)) in
  tdot_n "tdot_d" (Some default_tensordot_axes) (Some np_default_tensordot_axes);
  tdot_n "tdot_ct" None None;
  register "tdotx_ct" (Hashtbl.find handlers "tdotx")

(* ---------- element types of the operands (stream "dtype") ---------- *)
let dtype_of = function "i8" -> I8 | "i16" -> I16 | "i32" -> I32 | "i64" -> I64 | "u8" -> U8 | "f32" -> F32 | "f64" -> F64
  | t -> failwith ("dtype " ^ t)
let dtype_name = function I8 -> "i8" | I16 -> "i16" | I32 -> "i32" | I64 -> "i64" | U8 -> "u8" | U16 -> "u16" | U32 -> "u32"
  | U64 -> "u64" | F32 -> "f32" | F64 -> "f64" | Bool -> "bool"
(* "%.17g" of num/den, den in {1,2,4} *)
let show_frac num den =
  let n = int_of_z num and d = int_of_z den in
  let a = abs n in let q = a / d and r = a mod d in
  let frac = (match r * 100 / d with 0 -> "" | 25 -> ".25" | 50 -> ".5" | 75 -> ".75" | _ -> failwith "fraction") in
  (if n < 0 then "-" else "") ^ string_of_int q ^ frac
let show_typed_view dt den (v : coq_Z view) =
  let s = v.vshape in
  let elems = List.map (fun i -> let (n, d) = store dt (v.vat i) den in show_frac n d) (lex_enum s) in
  "ok " ^ show_list s ^ " ;" ^ (if elems = [] then "" else " " ^ String.concat "," elems)
  ^ " ; view=" ^ dtype_name dt ^ " eval=" ^ dtype_name dt ^ " evalsame=1"
let scale_of dt = if is_float dt then z_of_int 2 else z_of_int 1

let () =
  register "typed" (fun a -> match a with
    | o :: ta :: tb :: x :: y :: rest ->
        let op = getS o and ta = dtype_of (getS ta) and tb = dtype_of (getS tb) in
        let (sa, da) = getA x and (sb, db) = getA y in
        let fa = accessor sa da and fb = accessor sb db in
        let den = Z.mul (scale_of ta) (scale_of tb) in
        let la = len sa and lb = len sb in
        let none = (Trap, None, RSumProd) in
        let (m, sp, rt) = (match op with
          | "matmul" -> (z_matmul_v1 sa sb fa fb, z_np_matmul sa sb fa fb, RMatmul)
          | "matmulv2" -> (z_matmul_v2 sa sb fa fb, z_np_matmul sa sb fa fb, RSumProd)
          | "dot" -> (z_dot sa sb fa fb, z_np_dot sa sb fa fb, RSumProd)
          | "inner" -> (z_inner sa sb fa fb, z_np_inner sa sb fa fb, RSumProd)
          | "vecdot" -> (z_vecdot sa sb fa fb, z_np_vecdot sa sb fa fb, RSumProd)
          | "outer" -> (z_outer sa sb fa fb, Some (z_np_outer sa sb fa fb), RProd)
          | "kron" -> (z_kron sa sb fa fb, Some (z_np_kron sa sb fa fb), RProd)
          | "tdot" -> let n = int_of_z (getI (List.hd rest)) in
              if n < 0 || n > la || n > lb then none else
              let axa = List.init n (fun i -> nat_of_int (la - n + i)) and axb = List.init n nat_of_int in
              (z_tensordot_int sa sb fa fb (nat_of_int n), z_np_tensordot sa sb fa fb axa axb, RSumProd)
          | "tdotx" -> (match rest with
              | [xa; xb] ->
                  let axa = getL xa and axb = getL xb in
                  let norm n l = List.map (fun z -> let v = int_of_z z in if v < 0 then v + n else v) l in
                  let na = norm la axa and nb = norm lb axb in
                  let ok = List.for_all (fun v -> v >= 0 && v < la) na && List.for_all (fun v -> v >= 0 && v < lb) nb in
                  (z_tensordot_axes sa sb fa fb axa axb,
                   (if ok then z_np_tensordot sa sb fa fb (List.map nat_of_int na) (List.map nat_of_int nb) else None), RSumProd)
              | _ -> failwith "tdotx typed")
          | _ -> failwith ("typed op " ^ op)) in
        let md = model_dtype rt ta tb and sd = spec_dtype rt ta tb in
        { model = (match m with Ok v -> show_typed_view md den v | Nothing -> "nothing" | Trap -> "trap");
          spec = (match sp with Some v -> show_typed_view sd den v | None -> "nothing");
          dom = posb sa && posb sb && sp <> None && (op <> "matmul" || (la >= 2 && lb >= 2)) }
    | _ -> failwith "typed");
  register "typed1" (fun a -> match a with
    | [o; t; x; off; a1; a2] ->
        let op = getS o and t = dtype_of (getS t) in
        let (s, d) = getA x in let f = accessor s d in
        let off = getI off and ax1 = getI a1 and ax2 = getI a2 in
        let n = len s in
        let nz z = let v = int_of_z z in if v < 0 then v + n else v in
        let n1 = nz ax1 and n2 = nz ax2 in
        let ok = n1 >= 0 && n1 < n && n2 >= 0 && n2 < n in
        let is_trace = (op = "trace") in
        let rt = if is_trace then RTrace else RDiagonal in
        let sp = if not ok then None
          else if is_trace then z_np_trace s f off (nat_of_int n1) (nat_of_int n2)
          else z_np_diagonal s f off (nat_of_int n1) (nat_of_int n2) in
        let m = if is_trace then z_trace s f off ax1 ax2 else z_diagonal s f off ax1 ax2 in
        let e = if ok then int_of_z (np_diag_len s off (nat_of_int n1) (nat_of_int n2)) else (-1) in
        let den = scale_of t in
        { model = (match m with Ok v -> show_typed_view (model_dtype rt t t) den v | Nothing -> "nothing" | Trap -> "trap");
          spec = (match sp with Some v -> show_typed_view (spec_dtype rt t t) den v | None -> "unspecified");
          dom = posb s && sp <> None && (if is_trace then e >= 1 else true) }
    | _ -> failwith "typed1")

(* ---------- the dtype ARGUMENT (trace, vecdot): the result element type is the requested one, the sum is accumulated in it ---------- *)
let () =
  let tr = (fun a -> match a with
    | [_; t; d; x; off; a1; a2] ->
        let t = dtype_of (getS t) and d = dtype_of (getS d) in
        let (s, dat) = getA x in let f = accessor s dat in
        let off = getI off and ax1 = getI a1 and ax2 = getI a2 in
        let n = len s in
        let nz z = let v = int_of_z z in if v < 0 then v + n else v in
        let n1 = nz ax1 and n2 = nz ax2 in
        let ok = n1 >= 0 && n1 < n && n2 >= 0 && n2 < n in
        let sp = if not ok then None else z_np_trace s f off (nat_of_int n1) (nat_of_int n2) in
        let m = z_trace s f off ax1 ax2 in
        let e = if ok then int_of_z (np_diag_len s off (nat_of_int n1) (nat_of_int n2)) else (-1) in
        let den = scale_of t in
        { model = (match m with Ok v -> show_typed_view (reduce_dtype (Some d) t) den v | Nothing -> "nothing" | Trap -> "trap");
          spec = (match sp with Some v -> show_typed_view d den v | None -> "unspecified");   (* numpy.trace(a, .., dtype=d) *)
          dom = posb s && sp <> None && e >= 1 }
    | _ -> failwith "trace_dt") in
  register "trace_dt" tr; register "trace_dtc" tr;
  register "vecdot_dt" (fun a -> match a with
    | [_; ta; tb; d; x; y] ->
        let ta = dtype_of (getS ta) and tb = dtype_of (getS tb) and d = dtype_of (getS d) in
        let (sa, da) = getA x and (sb, db) = getA y in
        let fa = accessor sa da and fb = accessor sb db in
        let den = Z.mul (scale_of ta) (scale_of tb) in
        let sp = z_np_vecdot sa sb fa fb in
        { model = (match z_vecdot sa sb fa fb with Ok v -> show_typed_view (reduce_dtype (Some d) (result_dtype None Arith ta tb)) den v
                   | Nothing -> "nothing" | Trap -> "trap");
          spec = (match sp with Some v -> show_typed_view d den v | None -> "nothing");
          dom = posb sa && posb sb && sp <> None }
    | _ -> failwith "vecdot_dt")
