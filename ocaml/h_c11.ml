(* h_c11.ml — C11 handler (two-stage): the case line carries R:<impl output>: the knowledge
   the library reports for the operand type (A:) and the view type (K:), the run-time shapes,
   and the evaluated result's shape with the default and the legacy resolver.
   spec  = the same line when every report satisfies Kinds.gammab against the run-time shape and both
           results have exactly the view's shape and elements; an offending part is replaced by UNSOUND(..)
   model = the line predicted by Kinds.know_vop from the operand's reported knowledge (modelled views 1..14)
   dom   = the view is modelled and the library's reported knowledge equals the model's prediction *)
open BinNums
open Datatypes
open Base
open Kinds
open Common
module List = Stdlib.List
module String = Stdlib.String

let rec split_str sep s =
  let ls = String.length sep and n = String.length s in
  let rec find i = if i + ls > n then -1 else if String.sub s i ls = sep then i else find (i + 1) in
  let i = find 0 in
  if i < 0 then [s] else String.sub s 0 i :: split_str sep (String.sub s (i + ls) (n - i - ls))

let after prefix s =
  let lp = String.length prefix in
  if String.length s >= lp && String.sub s 0 lp = prefix then String.sub s lp (String.length s - lp) else failwith ("expected " ^ prefix)

let opt_z s = if s = "-" then None else Some (z_of_string s)
let opt_l s = if s = "-" then None else Some (parse_list s)

(* "fs=2,3,4_fd=3_fz=24_bd=3_bz=24" *)
let parse_know s cl =
  match split_str "_" s with
  | [a; b; c; d; e] ->
      { fshape = opt_l (after "fs=" a); fdim = opt_z (after "fd=" b); fsize = opt_z (after "fz=" c);
        bdim = opt_z (after "bd=" d); bsize = opt_z (after "bz=" e); clip = cl }
  | _ -> failwith "traits"
let show_oz = function None -> "-" | Some z -> string_of_z z
let show_ol = function None -> "-" | Some l -> show_list l
let show_know k = "fs=" ^ show_ol k.fshape ^ " fd=" ^ show_oz k.fdim ^ " fz=" ^ show_oz k.fsize ^ " bd=" ^ show_oz k.bdim ^ " bz=" ^ show_oz k.bsize

(* "2,3,4_dim=3_size=24" *)
let parse_rt s =
  match split_str "_" s with
  | [a; b; c] -> (parse_list a, z_of_string (after "dim=" b), z_of_string (after "size=" c))
  | _ -> failwith "rt"
let show_rt (s, d, n) = show_list s ^ " dim=" ^ string_of_z d ^ " size=" ^ string_of_z n
let rt_consistent (s, d, n) = Z.eqb (zlen s) d && Z.eqb (prod s) n

let nat_of_int = Common.nat_of_int
let vop_of = function
  | 1 -> Some VTransposeDefault
  | 2 -> Some (VTransposeCt (List.map nat_of_int [1; 0; 2]))
  | 3 -> Some (VReshapeCt (List.map z_of_int [4; 6]))
  | 4 -> Some (VReshapeRt (List.map z_of_int [4; 6]))
  | 5 -> Some (VSumAxis (nat_of_int 0))
  | 6 -> Some (VSumAxis (nat_of_int 1))
  | 7 -> Some (VExpandDims (nat_of_int 0))
  | 8 -> Some VFlip
  | 9 -> Some VCumsum
  | 10 -> Some VSameShapeUfunc
  | 11 -> Some (VRepeat (nat_of_int 0, z_of_int 2))
  | 12 -> Some (VTile (List.map z_of_int [2; 1; 1]))
  | 13 -> Some (VPad (List.map z_of_int [1; 0; 0], List.map z_of_int [0; 1; 0]))
  | 14 -> Some (VConcatSelf (nat_of_int 0))
  | _ -> None

let judge_kn op a =
    let r = getS (List.nth a (List.length a - 1)) in
    if r = "skip" || r = "unsupported" || r = "nothing" then { model = "unspecified"; spec = "unspecified"; dom = false }
    else if String.length r >= 4 && String.sub r 0 4 = "trap" then
      (* building, reading or evaluating a view over valid operands must not trap *)
      { model = "a report (no trap)"; spec = "a report (no trap)"; dom = false }
    else begin
      match split_str "_|_" r with
      | [fa; fart; fk; frt; fnew; fold] ->
          let ka = parse_know (after "A:_" fa) None and art = parse_rt (after "art=" fart) in
          let kv = parse_know (after "K:_" fk) None and rt = parse_rt (after "rt=" frt) in
          let (ashape, _, _) = art and (vshape, _, _) = rt in
          (* the run-time accessors dim()/size() must agree with the run-time shape (len / product) *)
          let fix_rt (s, _, _) = (s, zlen s, prod s) in
          let part_a = (if gammab ka ashape then "A: " ^ show_know ka else "A: UNSOUND(" ^ show_know ka ^ ")")
                       ^ " | art=" ^ show_rt (fix_rt art) in
          let part_k kk = (if gammab kk vshape then "K: " ^ show_know kk else "K: UNSOUND(" ^ show_know kk ^ ")")
                          ^ " | rt=" ^ show_rt (fix_rt rt) in
          let tail = " | new=" ^ show_list vshape ^ " ok=1 | old=" ^ show_list vshape ^ " ok=1" in
          ignore fnew; ignore fold;
          let spec = part_a ^ " | " ^ part_k kv ^ tail in
          (match vop_of op with
           | Some o when posb ashape && valid_vop o ashape ->
               let pred = know_vop o ka in
               let same = show_know pred = show_know kv && shape_vop o ashape = vshape in
               { model = part_a ^ " | " ^ part_k pred ^ tail; spec = spec; dom = same && gammab ka ashape }
           | _ -> { model = spec; spec = spec; dom = false })
      | _ -> failwith "fields"
    end

let () =
  register "kn" (fun a -> judge_kn (int_of_z (getI (List.nth a 1))) a);
  (* binary / ternary views over two operand kinds: not modelled in Kinds.v, judged by the soundness relation only *)
  register "kb" (fun a -> judge_kn 1000 a);
  register "kw" (fun a -> judge_kn 1001 a)
