(* h_c12.ml — C12 handlers: the extracted Simd model / spec, instantiated at OCaml floats.
   Element type A := float.  binary64 operations are the IEEE ones; binary32 is emulated by rounding
   every result to single (double rounding is innocuous for + - * / sqrt since 53 >= 2*24+2).
   Results are printed as hex bit patterns so that "bit-identical" is what is compared. *)
open Datatypes
open Simd
open Common
module List = Stdlib.List
module String = Stdlib.String

let n2i = int_of_nat
let i2n = nat_of_int
let zi z = int_of_z z
let nats l = List.map (fun z -> i2n (zi z)) l
let ints l = List.map zi l
let show_ints l = String.concat "," (List.map string_of_int l)

(* ---------------------------------------------------------------- index level *)
let tag_code = function
  | PACKED -> 0 | BROADCAST -> -3 | SCALAR -> -2 | PAD k -> n2i k | ACCUMULATE -> -1
  | ACCUMULATE_PACKED -> -4 | NOP -> -999
let ent (t, o) = string_of_int (tag_code t) ^ ":" ^ string_of_int (n2i o)
let ent3 ((o, l), r) = ent o ^ "/" ^ ent l ^ "/" ^ ent r
let ent2 (o, i) = ent o ^ "/" ^ ent i
let pair_of_list l = match l with [a; b] -> (i2n a, i2n b) | _ -> failwith "2-d shape expected"
let prod l = List.fold_left ( * ) 1 l

(* independent reference for the 2-d broadcast: cell (r,c) of the output reads operand (r',c') at
   row (r'=1 ? 0 : r), column (c'=1 ? 0 : c) *)
let bc2 (orow, ocol) (sr, sc) =
  List.concat (List.init orow (fun r -> List.init ocol (fun c ->
    ((if sr = 1 then 0 else r) * sc) + (if sc = 1 then 0 else c))))
let valid_bc2 (orow, ocol) (sr, sc) = (sr = 1 || sr = orow) && (sc = 1 || sc = ocol)
(* the hypothesis of C12_binary_2d_covers_once: any valid 2-d broadcast pattern *)
let b2d_dom n o l r =
  n >= 1 && fst o >= 1 && snd o >= 1 && valid_bc2 o l && valid_bc2 o r
  && (fst o = max (fst l) (fst r)) && (snd o = max (snd l) (snd r))

let two l = match l with [a; b] -> (a, b) | _ -> failwith "2-d shape expected"

let () =
  register "ix_b2d" (fun a -> match a with
    | [n; o; l; r] ->
        let nn = i2n (zi (getI n)) in
        let o = pair_of_list (ints (getL o)) and l = pair_of_list (ints (getL l)) and r = pair_of_list (ints (getL r)) in
        let (sr, sc) = binary_2d_simd_shape nn o l r in
        let es = b2d_entries nn o l r in
        let m = "ok " ^ string_of_int (n2i sr) ^ "," ^ string_of_int (n2i sc) ^ " ;" ^
                (if es = [] then "" else " " ^ String.concat "," (List.map ent3 es)) in
        (* raw tags/offsets: the model IS the reference here (tie of the model to the C++ text), on the
           theorem's domain (valid broadcast patterns) *)
        let dom = b2d_dom (n2i nn) (n2i (fst o), n2i (snd o)) (n2i (fst l), n2i (snd l)) (n2i (fst r), n2i (snd r)) in
        { model = m; spec = (if dom then m else "unspecified"); dom }
    | _ -> failwith "ix_b2d");
  register "ix_b2dc" (fun a -> match a with
    | [n; o; l; r] ->
        let ni = zi (getI n) in
        let nn = i2n ni in
        let oi = two (ints (getL o)) and li = two (ints (getL l)) and ri = two (ints (getL r)) in
        let o = pair_of_list (ints (getL o)) and l = pair_of_list (ints (getL l)) and r = pair_of_list (ints (getL r)) in
        let (sr, sc) = binary_2d_simd_shape nn o l r in
        let cells = List.concat_map (fun e -> List.map (fun ((x, y), z) -> (n2i x, n2i y, n2i z)) (cells_of nn e)) (b2d_entries nn o l r) in
        let cells = List.stable_sort (fun (x, _, _) (y, _, _) -> compare x y) cells in
        let showc cs = if cs = [] then "" else " " ^ String.concat "," (List.map (fun (x, y, z) -> Printf.sprintf "%d:%d:%d" x y z) cs) in
        let m = "ok " ^ string_of_int (n2i sr) ^ "," ^ string_of_int (n2i sc) ^ " ;" ^ showc cells in
        let dom = b2d_dom ni oi li ri in
        let spec =
          if not (valid_bc2 oi li && valid_bc2 oi ri) then "unspecified"
          else begin
            let ls = bc2 oi li and rs = bc2 oi ri in
            let cs = List.mapi (fun i (x, y) -> (i, x, y)) (List.combine ls rs) in
            (* the simd shape is bookkeeping, not an observable of the property: take the model's *)
            "ok " ^ string_of_int (n2i sr) ^ "," ^ string_of_int (n2i sc) ^ " ;" ^ showc cs end in
        { model = m; spec; dom }
    | _ -> failwith "ix_b2dc");
  register "ix_red" (fun a -> match a with
    | [n; k; inp; ax] ->
        let nn = i2n (zi (getI n)) in
        let kind = if getS k = "H" then HORIZONTAL else VERTICAL in
        let inp = ints (getL inp) and ax = zi (getI ax) in
        let out = List.mapi (fun i e -> if i = ax then 1 else e) inp in
        let inp2 = reduction_nd_reshape kind (List.map i2n inp) (i2n (ax + 1)) in
        let out2 = reduction_nd_reshape kind (List.map i2n out) (i2n (ax + 1)) in
        let (sr, sc) = reduction_2d_shape nn kind inp2 in
        let es = red_entries nn kind out2 inp2 in
        let m = "ok " ^ string_of_int (n2i sr) ^ "," ^ string_of_int (n2i sc) ^ " ;" ^
                (if es = [] then "" else " " ^ String.concat "," (List.map ent2 es)) in
        { model = m; spec = m; dom = true }
    | _ -> failwith "ix_red");
  register "ix_outer" (fun a -> match a with
    | [n; l; r] ->
        let nn = i2n (zi (getI n)) in
        let l = List.map i2n (ints (getL l)) and r = List.map i2n (ints (getL r)) in
        let ss = outer_simd_shape nn (l @ r) in
        let es = outer_entries nn l r in
        let m = "ok " ^ show_ints (List.map n2i ss) ^ " ;" ^
                (if es = [] then "" else " " ^ String.concat "," (List.map ent3 es)) in
        { model = m; spec = m; dom = true }
    | _ -> failwith "ix_outer")

(* ---------------------------------------------------------------- end to end *)
type dt = F32 | F64
let r32 x = Int32.float_of_bits (Int32.bits_of_float x)
let rnd dt x = match dt with F32 -> r32 x | F64 -> x
let bits dt x =
  if x <> x then "nan" else
  match dt with
  | F32 -> Printf.sprintf "%08lx" (Int32.bits_of_float x)
  | F64 -> Printf.sprintf "%016Lx" (Int64.bits_of_float x)
let dt_of s = match s with "f32" -> F32 | "f64" -> F64 | _ -> failwith "dtype"
let lanes ctx dt =
  let w = (match ctx with "sse" | "v128" -> 128 | "avx" | "v256" -> 256 | "v512" | "simde" -> 512 | "none" -> 0 | _ -> failwith "ctx") in
  w / (match dt with F32 -> 32 | F64 -> 64)
let elem dt den v =
  match v with
  | 900001 -> -0.0 | 900002 -> infinity | 900003 -> neg_infinity | 900004 -> nan
  | _ -> rnd dt (float_of_int v /. float_of_int den)
let special v = v >= 900001 && v <= 900004
let show_f dt shape elems = "ok " ^ show_ints shape ^ " ;" ^ (if elems = [] then "" else " " ^ String.concat "," (List.map (bits dt) elems))
let zeros n = List.init n (fun _ -> 0.0)
let show_outcome dt shape zs = function
  | Done m -> show_f dt shape m
  | Refused -> show_f dt shape zs      (* not reachable through eval_*_top: refused views fall back to the default evaluator *)
  | Undefined -> "ub"
let show_option dt shape = function Some m -> show_f dt shape m | None -> "ub"

(* layouts: the `lay` op re-uses the handlers below with "some buffer (operand or result) is not row-major" forced *)
let not_rm = ref false
let rm col = not col && not !not_rm

(* ---- lane functions (Simd.v, Section LaneMax) at OCaml floats: what the packed lanes of a context compute.
   x86 intrinsics and SIMDe: max_sd(a,b) = a > b ? a : b; vector extensions: fmax / fmin per lane, whose zero/zero
   tie has no specified sign -> two admissible lane functions.  Every other op: the scalar functor itself. *)
let fgt (a : float) (b : float) = a > b
let fnan (a : float) = a <> a
let lane_fns ctx op (f : float -> float) : (float -> float) list =
  let vext = (ctx = "v128" || ctx = "v256" || ctx = "v512") in
  match op, vext with
  | "relu", false -> [relu_x86 fgt 0.0]
  | "relu6", false -> [relu6_x86 fgt 0.0 6.0]
  | "relu", true -> [relu_vext fgt fnan false 0.0; relu_vext fgt fnan true 0.0]
  | "relu6", true -> [relu6_vext fgt fnan false 0.0 6.0; relu6_vext fgt fnan true 0.0 6.0]
  | _ -> [f]
(* the model's prediction of a unary evaluation: exact bit patterns; "a|b" where the fmax zero tie admits two *)
let unary_model ctx dt op shape row_major f xs scalar =
  let n = i2n (lanes ctx dt) in
  let zs = zeros (List.length xs) in
  let outs = List.map (fun g -> eval_unary_lane_top n row_major g f xs zs scalar) (lane_fns ctx op f) in
  let toks = List.map (function Done m -> Some (List.map (bits dt) m) | _ -> None) outs in
  if List.exists (fun t -> t = None) toks then "ub" else
  let toks = List.map (function Some t -> t | None -> []) toks in
  let merged = List.fold_left (fun acc t -> List.map2 (fun a b -> if List.mem b (String.split_on_char '|' a) then a else a ^ "|" ^ b) acc t)
                 (List.hd toks) (List.tl toks) in
  "ok " ^ show_ints shape ^ " ;" ^ (if merged = [] then "" else " " ^ String.concat "," merged)
(* hypothesis of C12_unary_lane_eq_map: every admissible lane function agrees with f, bit for bit, on every input *)
let lane_is_f ctx dt op f xs =
  List.for_all (fun g -> List.for_all (fun x -> bits dt (g x) = bits dt (f x)) xs) (lane_fns ctx op f)

let unary_op dt name : float -> float =
  match name with
  | "sqrt" -> (fun x -> rnd dt (sqrt x))
  | "ceil" -> ceil | "floor" -> floor
  | "relu" -> (fun x -> if x > 0.0 then x else 0.0)
  | "relu6" -> (fun x -> if x < 0.0 then 0.0 else if x > 6.0 then 6.0 else x)
  | _ -> failwith "unary op"
let binary_op dt name : float -> float -> float =
  match name with
  | "add" -> (fun a b -> rnd dt (a +. b)) | "subtract" -> (fun a b -> rnd dt (a -. b))
  | "multiply" -> (fun a b -> rnd dt (a *. b)) | "divide" -> (fun a b -> rnd dt (a /. b))
  | _ -> failwith "binary op"

(* NumPy broadcast of two shapes (independent of the model) *)
let np_bshape a b =
  let n = max (List.length a) (List.length b) in
  let pad s = List.init (n - List.length s) (fun _ -> 1) @ s in
  let a' = pad a and b' = pad b in
  if List.for_all2 (fun x y -> x = y || x = 1 || y = 1) a' b'
  then Some (List.map2 max a' b', a', b') else None

let args_common a = match a with
  | ctx :: dt :: op :: den :: rest -> (getS ctx, dt_of (getS dt), getS op, zi (getI den), rest)
  | _ -> failwith "args"
let arr dt den x = let (s, d) = getA x in (ints s, List.map (fun z -> elem dt den (zi z)) d, List.exists (fun z -> special (zi z)) d)
let is_col rest k = List.length rest > k && (match List.nth rest k with Str "col" -> true | _ -> false)

(* integer-valued data small enough for every partial result, in any order, to be exact *)
let exact_for dt op xs =
  let lim = (match dt with F32 -> 16777216.0 | F64 -> 9007199254740992.0) in
  List.for_all (fun x -> Float.is_integer x) xs &&
  (match op with
   | "add" -> List.fold_left (fun a x -> a +. Float.abs x) 0.0 xs <= lim
   | "multiply" -> List.fold_left (fun a x -> a *. Float.max 1.0 (Float.abs x)) 1.0 xs <= lim
   | _ -> false)

let () =
  register "unary" (fun a ->
    let (ctx, dt, op, den, rest) = args_common a in
    let (shape, xs, sp) = arr dt den (List.hd rest) in
    let f = unary_op dt op in
    let scalar = spec_unary f xs in
    let spec = show_f dt shape scalar in
    let n = lanes ctx dt in
    if ctx = "none" then { model = spec; spec; dom = true } else
    let col = is_col rest 1 in
    ignore n; ignore sp;
    let m = unary_model ctx dt op shape (rm col) f xs scalar in
    (* C12_unary_lane_eq_map (row-major, lane function = f on these inputs) / C12_not_row_major_falls_back *)
    { model = m; spec; dom = (not (rm col)) || lane_is_f ctx dt op f xs });
  register "binary" (fun a ->
    let (ctx, dt, op, den, rest) = args_common a in
    let (ls, lx, _) = arr dt den (List.nth rest 0) and (rs, rx, _) = arr dt den (List.nth rest 1) in
    let f = binary_op dt op in
    match np_bshape ls rs with
    | None -> { model = "nothing"; spec = "unspecified"; dom = false }
    | Some (os, ls', rs') ->
      let nat = List.map i2n in
      let scalar = spec_binary_bc f 0.0 (nat os) (nat ls') (nat rs') lx rx in
      let spec = show_f dt os scalar in
      if ctx = "none" then { model = spec; spec; dom = true } else
      let n = i2n (lanes ctx dt) in
      let col = is_col rest 2 in
      let size = prod os in
      let zs = zeros size in
      let m = show_outcome dt os zs (eval_binary_top n f (rm col) (nat os) (nat ls) (nat rs) lx rx zs scalar) in
      (* same shape: C12_binary_same_eq; both 2-d: C12_binary_2d_eq_on_domain; other patterns: C12_binary_refused_falls_back;
         a column-major operand: C12_not_row_major_falls_back *)
      let dom = not (rm col) || ls = rs || not (List.length ls = 2 && List.length rs = 2)
                || b2d_dom (lanes ctx dt) (two os) (two ls) (two rs) in
      { model = m; spec; dom });
  register "outer" (fun a ->
    let (ctx, dt, op, den, rest) = args_common a in
    let (ls, lx, _) = arr dt den (List.nth rest 0) and (rs, rx, _) = arr dt den (List.nth rest 1) in
    let f = binary_op dt op in
    let os = ls @ rs in
    let scalar = spec_outer f lx rx in
    let spec = show_f dt os scalar in
    if ctx = "none" then { model = spec; spec; dom = true } else
    let n = i2n (lanes ctx dt) in
    let zs = zeros (prod os) in
    let m = show_outcome dt os zs (eval_outer_top n f (rm false) (List.map i2n ls) (List.map i2n rs) lx rx zs scalar) in
    (* eval_outer itself is corresponded only; a non-row-major buffer: C12_not_row_major_falls_back *)
    { model = m; spec; dom = not (rm false) });
  register "reduce" (fun a ->
    let (ctx, dt, op, den, rest) = args_common a in
    let (shape, xs, _) = arr dt den (List.nth rest 0) in
    let axis = (match List.nth rest 1 with N -> None | I z -> Some (zi z) | _ -> failwith "axis") in
    let keep = (match getS (List.nth rest 2) with "kT" | "kt" -> true | "kF" | "kf" -> false | _ -> failwith "keepdims") in
    let init = (match List.nth rest 3 with N -> None | I z -> Some (elem dt den (zi z)) | _ -> failwith "initial") in
    let f = binary_op dt op in
    let ident = (match op with "multiply" -> 1.0 | _ -> 0.0) in
    let dim = List.length shape in
    let exact = exact_for dt op (xs @ (match init with Some i -> [i] | None -> [])) in
    let n = lanes ctx dt in
    match axis with
    | None ->
        let oshape = if keep then List.map (fun _ -> 1) shape else [] in
        let scalar = [spec_reduce_full f 0.0 init xs] in
        let spec = if exact then show_f dt oshape scalar else "unspecified" in
        if ctx = "none" then { model = spec; spec; dom = true } else
        let m = show_outcome dt oshape [0.0]
                  (eval_reduction_top (i2n n) f 0.0 ident (rm false) (List.map i2n shape) (List.map (fun _ -> i2n 1) shape) None init xs scalar) in
        (* C12_reduce_full_on_domain (initial included) *)
        { model = m; spec; dom = exact }
    | Some ax ->
        let ax' = if ax < 0 then ax + dim else ax in
        if ax' < 0 || ax' >= dim then { model = "unspecified"; spec = "unspecified"; dom = false } else
        let outk = List.mapi (fun i e -> if i = ax' then 1 else e) shape in
        let oshape = if keep then outk else List.filteri (fun i _ -> i <> ax') shape in
        let outer = prod (List.filteri (fun i _ -> i < ax') shape) and k = List.nth shape ax'
        and inner = prod (List.filteri (fun i _ -> i > ax') shape) in
        let scalar = spec_reduce_axis f 0.0 init (i2n outer) (i2n k) (i2n inner) xs in
        let spec = if exact then show_f dt oshape scalar else "unspecified" in
        if ctx = "none" then { model = spec; spec; dom = true } else
        let horizontal = (ax' = dim - 1) in
        let m = show_outcome dt oshape (zeros (prod oshape))
                  (eval_reduction_top (i2n n) f 0.0 ident (rm false) (List.map i2n shape) (List.map i2n outk)
                     (Some (ax < 0, i2n (abs ax))) init xs scalar) in
        let full = prod oshape = 1 in
        (* C12_reduce_full_on_domain / C12_reduce_horizontal_core (initial included); the vertical arm is proved for
           its 2-d core, the n-d reshape in front of it is corresponded only *)
        let dom = exact && (full || horizontal || not (rm false)) in
        { model = m; spec; dom })

(* ---------------------------------------------------------------- adversarial values (bit patterns of doubles) *)
let hexvals dt str =
  List.map (fun h -> rnd dt (Int64.float_of_bits (Int64.of_string ("0x" ^ h)))) (String.split_on_char ',' str)
let is_special x = x <> x || (x = 0.0 && 1.0 /. x < 0.0)       (* NaN or -0.0 *)

let () =
  register "unaryx" (fun a -> match a with
    | [ctx; dt; op; shp; hx] ->
        let ctx = getS ctx and dt = dt_of (getS dt) and op = getS op in
        let shape = ints (getL shp) in
        let xs = hexvals dt (getS hx) in
        let f = unary_op dt op in
        let scalar = spec_unary f xs in
        let spec = show_f dt shape scalar in
        if ctx = "none" then { model = spec; spec; dom = true } else
        let m = unary_model ctx dt op shape true f xs scalar in
        (* the theorem's premise "lane function = f on these inputs" is what this stream probes; where it is known
           to fail (relu6 on -0.0 / NaN, the fmax zero tie) the model is the exact lane result *)
        { model = m; spec; dom = lane_is_f ctx dt op f xs }
    | _ -> failwith "unaryx");
  register "binaryx" (fun a -> match a with
    | [ctx; dt; op; lshp; lhx; rshp; rhx] ->
        let ctx = getS ctx and dt = dt_of (getS dt) and op = getS op in
        let ls = ints (getL lshp) and rs = ints (getL rshp) in
        let lx = hexvals dt (getS lhx) and rx = hexvals dt (getS rhx) in
        let f = binary_op dt op in
        (match np_bshape ls rs with
         | None -> { model = "nothing"; spec = "unspecified"; dom = false }
         | Some (os, ls', rs') ->
           let nat = List.map i2n in
           let scalar = spec_binary_bc f 0.0 (nat os) (nat ls') (nat rs') lx rx in
           let spec = show_f dt os scalar in
           if ctx = "none" then { model = spec; spec; dom = true } else
           let zs = zeros (prod os) in
           let m = show_outcome dt os zs (eval_binary_top (i2n (lanes ctx dt)) f true (nat os) (nat ls) (nat rs) lx rx zs scalar) in
           { model = m; spec; dom = true })
    | _ -> failwith "binaryx")

(* ---------------------------------------------------------------- operand layout x result layout *)
let () =
  register "lay" (fun a -> match a with
    | ctx :: dt :: kind :: op :: lo :: res :: den :: rest ->
        let all_row = String.for_all (fun c -> c = 'r') (getS lo) && getS res = "R" in
        let h = Hashtbl.find handlers (getS kind) in
        let rest' = (match getS kind, rest with
                     | "reduce", [x; ax; kd] -> [x; ax; kd; N]
                     | _, r -> r) in
        not_rm := not all_row;
        let r = (try h (ctx :: dt :: op :: den :: rest') with e -> not_rm := false; raise e) in
        not_rm := false; r
    | _ -> failwith "lay")

