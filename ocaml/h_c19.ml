(* h_c19.ml — C19 handlers: container state machines (Containers.v) vs std semantics *)
open BinNums
open Datatypes
open Base
open Containers
open Common
module List = Stdlib.List
module String = Stdlib.String

let cap = 4
let num s from = int_of_string (String.sub s from (String.length s - from))

(* sequence-container history *)
let seq_op t =
  match t.[0] with
  | 'd' -> Default | 'c' -> Ctor (nat_of_int (num t 1)) | 'p' -> Push (z_of_int (num t 1))
  | 'r' -> Resize (nat_of_int (num t 1))
  | 'w' -> let dot = String.index t '.' in
           Write (nat_of_int (int_of_string (String.sub t 1 (dot - 1))), z_of_int (num t (dot + 1)))
  | 'k' -> CopyCtor | 'a' -> AssignAB | 'b' -> AssignBA | 's' -> SelfAssign | 'f' -> Flip
  | _ -> failwith ("op " ^ t)
let ops_of args = List.map (fun a -> seq_op (getS a)) args

let show_zs l = "n=" ^ string_of_int (List.length l) ^ " [" ^ String.concat "," (List.map string_of_z l) ^ "]"
(* physical cells shown through the option-valued run: a cell it does not fix would be "~" (none since the
   value-initialisation fix), a fixed cell that is physically indeterminate "INDET" (would contradict the theorem) *)
let show_masked cells mask =
  let rec go cs ms = match cs, ms with
    | c :: cs', m :: ms' ->
        (match m, c with
         | Some _, Val z -> string_of_z z
         | Some _, Indet -> "INDET"          (* would contradict the refinement theorem *)
         | None, _ -> "~") :: go cs' ms'
    | _, _ -> [] in
  "n=" ^ string_of_int (List.length mask) ^ " [" ^ String.concat "," (go cells mask) ^ "]"
let determinedb m = List.for_all (fun x -> x <> None) m
let heap_str h =
  Printf.sprintf "heap a=%d f=%d bad=%d oob=%d live=%d" (int_of_nat h.nalloc) (int_of_nat h.nfree)
    (if h.bad then 1 else 0) (if h.oob then 1 else 0) (List.length h.live)

let vec_handler args =
  let ops = ops_of args in
  let s = vrun ops in let (ma, mb) = vmask_run ops in let (la, lb) = std_run None ops in
  { model = "A " ^ show_masked (vcontents s.oa) ma ^ " B " ^ show_masked (vcontents s.ob) mb ^ " | " ^ heap_str (vfinish s);
    spec = "A " ^ show_zs la ^ " B " ^ show_zs lb;
    dom = determinedb ma && determinedb mb }

let svec_handler args =
  let ops = ops_of args in
  let ncap = nat_of_int cap in
  let (a, b) = srun ncap ops in let (ma, mb) = smask_run ncap ops in let (la, lb) = std_run (Some ncap) ops in
  let show o m = if int_of_nat o.ssize > cap then "n=" ^ string_of_int (int_of_nat o.ssize) ^ " [over-capacity]"
                 else show_masked (scontents o) m in
  { model = "A " ^ show a ma ^ " B " ^ show b mb ^ " | heap a=0 f=0 bad=0 oob=0 live=0";
    spec = "A " ^ show_zs la ^ " B " ^ show_zs lb;
    dom = determinedb ma && determinedb mb }

(* small_vector: no Coq state machine; reference = std::vector *)
let small_handler args =
  let ops = ops_of args in
  let (ma, mb) = vmask_run ops in let (la, lb) = std_run None ops in
  let sh l m = "n=" ^ string_of_int (List.length l) ^ " [" ^
     String.concat "," (List.map2 (fun z x -> if x = None then "~" else string_of_z z) l m) ^ "]" in
  { model = "A " ^ sh la ma ^ " B " ^ sh lb mb ^ " | heap unmodelled";
    spec = "A " ^ show_zs la ^ " B " ^ show_zs lb; dom = false }

(* small_vector<int,4>, default configuration: the two-arm state machine of Containers.v *)
let smalls_handler args =
  let ops = ops_of args in
  let (a, b) = smrun (nat_of_int cap) ops in let (la, lb) = std_run None ops in
  let arm x = if sm_is_static x then "inline" else "heap" in
  { model = "A " ^ show_zs (sm_contents a) ^ " B " ^ show_zs (sm_contents b) ^ " | heap unmodelled arms " ^ arm a ^ "," ^ arm b;
    spec = "A " ^ show_zs la ^ " B " ^ show_zs lb; dom = true }

(* utl::array<int,4>: a fixed list of four value-initialised cells *)
let arr_handler args =
  let ops = ops_of args in
  let z0 = z_of_int 0 in let init = ([z0; z0; z0; z0], [z0; z0; z0; z0]) in
  let (la, lb) = List.fold_left (fun s o -> lstep z0 z0 (fun z -> z) None s o) init ops in
  let r = "A " ^ show_zs la ^ " B " ^ show_zs lb in
  { model = r ^ " | heap a=0 f=0 bad=0 oob=0 live=0"; spec = r; dom = true }

let show_may = function Coq_inl v -> "some " ^ string_of_z v | Coq_inr _ -> "none"
let show_eit = function Coq_inl v -> "L " ^ string_of_z v | Coq_inr v -> "R " ^ string_of_z v
let z0 = z_of_int 0
let may_op t = match t.[0] with
  | 'd' | 'n' -> ERightSet z0 | 'v' | 'c' -> ELeftSet (z_of_int (num t 1))
  | 'k' -> ECopyCtor | 'a' -> EAssignAB | 'b' -> EAssignBA | 's' -> ESelfAssign | 'f' -> EFlip
  | _ -> failwith ("op " ^ t)
let eit_op t = match t.[0] with
  | 'd' -> EDefault | 'l' -> ELeftSet (z_of_int (num t 1)) | 'q' -> ERightSet (z_of_int (num t 1))
  | 'k' -> ECopyCtor | 'a' -> EAssignAB | 'b' -> EAssignBA | 's' -> ESelfAssign | 'f' -> EFlip
  | _ -> failwith ("op " ^ t)
let tag_handler opf init show args =
  let ops = List.map (fun a -> opf (getS a)) args in
  let (a, b) = List.fold_left estep init ops in
  let r = "A " ^ show a ^ " B " ^ show b in
  { model = r ^ " | heap a=0 f=0 bad=0 oob=0 live=0"; spec = r; dom = true }

(* maybe<Tr> / either<Tr,long>: the slot state machines with exact payload event counts *)
let cnt_str c =
  Printf.sprintf "obj ctor=%d dtor=%d asg=%d asgraw=%d live=%d baddestroy=0" (int_of_nat c.n_ctor) (int_of_nat c.n_dtor)
    (int_of_nat c.n_asg) (int_of_nat c.n_asgraw) (int_of_nat (n_live c))
let clean c = int_of_nat c.n_asgraw = 0 && int_of_nat (n_live c) = 0
let mayt_op t = match t.[0] with
  | 'd' -> MDefault | 'n' -> MReset | 'v' -> MSet (z_of_int (num t 1)) | 'c' -> MCtorVal (z_of_int (num t 1))
  | 'k' -> MCopyCtor | 'a' -> MAssignAB | 'b' -> MAssignBA | 's' -> MSelfAssign | 'f' -> MFlip
  | _ -> failwith ("op " ^ t)
let show_mo = function Some v -> "some " ^ string_of_z v | None -> "none"
let mayt_handler args =
  let ops = List.map (fun a -> mayt_op (getS a)) args in
  let ((a, b), c) = mrun ops in let (sa, sb) = mspec_run ops in
  { model = "A " ^ show_mo (m_obs a) ^ " B " ^ show_mo (m_obs b) ^ " | heap a=0 f=0 bad=0 " ^ cnt_str c;
    spec = "A " ^ show_mo sa ^ " B " ^ show_mo sb; dom = clean c }
let eitt_handler args =
  let ops = List.map (fun a -> eit_op (getS a)) args in
  let ((a, b), c) = enrun ops in let (sa, sb) = erun ops in
  { model = "A " ^ show_eit (e_obs a) ^ " B " ^ show_eit (e_obs b) ^ " | heap a=0 f=0 bad=0 " ^ cnt_str c;
    spec = "A " ^ show_eit sa ^ " B " ^ show_eit sb; dom = clean c }

(* utl::tuple / tuplev2 against std::tuple: every form yields the list of the source's elements *)
let tup_handler args =
  match args with
  | _impl :: form :: n :: _r :: _r2 :: base :: rest ->
      let n = nat_of_int (int_of_z (getI n)) and base = getI base in
      let l = (match getS form with
        | "val" | "copy" | "asg" | "conv" | "casg" | "mk" -> tup_vals base n
        | "def" -> List.map (fun _ -> z_of_int 0) (tup_vals base n)
        | "cat" -> (match rest with [m] -> tup_cat (tup_vals base n) (tup_vals (Z.add base (z_of_int 100)) (nat_of_int (int_of_z (getI m)))) | _ -> failwith "cat")
        | "app" -> tup_append (tup_vals base n) (Z.add base (z_of_int 300))
        | f -> failwith ("tuple form " ^ f)) in
      let str = String.concat "," (List.map string_of_z l) in
      both ("ok " ^ str ^ " | std " ^ str) true
  | _ -> failwith "tup"

let () =
  register "tup" tup_handler;
  register "vec" vec_handler; register "svec" svec_handler; register "small" small_handler; register "smalls" smalls_handler; register "arr" arr_handler;
  register "may" (tag_handler may_op (Coq_inr z0, Coq_inr z0) show_may);
  register "mayt" mayt_handler;
  register "eit" (tag_handler eit_op (Coq_inl z0, Coq_inl z0) show_eit);
  register "eitt" eitt_handler
