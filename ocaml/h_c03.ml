(* h_c03.ml — C03 handlers: the extracted Views model against the extracted NumPy reference.
   Arrays arrive as (shape, row-major data); the model reads the element through the source's
   own offset computation (compute_offset / compute_strides), the spec through Horner's rule. *)
open BinNums
open Datatypes
open Base
open Index
open Views
open Common
module List = Stdlib.List
module String = Stdlib.String

exception Ub
let nth_ub l k = if k < 0 || k >= List.length l then raise Ub else List.nth l k

(* model side: element of the source at a source index *)
let model_elem s data j =
  if not (inbb j s) then raise Ub
  else nth_ub data (int_of_z (compute_offset j (compute_strides s)))
(* spec side *)
let spec_elem s data j =
  if not (inbb j s) then failwith "spec index out of bounds"
  else List.nth data (int_of_z (horner Z0 j s))

let show_view s data (v : view) =
  match v with
  | None -> "nothing"
  | Some (d, f) -> (try show_arr d (List.map (fun i -> model_elem s data (f i)) (lex_enum d)) with Ub -> "ub")
let materialise s data (v : view) =
  match v with
  | None -> None
  | Some (d, f) -> Some (d, List.map (fun i -> model_elem s data (f i)) (lex_enum d))

let n_of s = nat_of_int (List.length s)
let small s = posb s && zlt (prod s) (pow2 z64)
let axarg = function N -> AxNone | I z -> AxOne z | L l -> AxList l | _ -> failwith "axis argument"
let axes_opt = function N -> None | L l -> Some l | _ -> failwith "axes argument"
let opt_list = show_opt ok_list
let unspec = "unspecified"
let guard_ub f = try f () with Ub -> "ub"

(* ---- reference results ---- *)
let sp_reshape s data dst =
  match np_reshape_shape s dst with Some d -> show_arr d data | None -> unspec
let sp_transpose s data axes =
  if np_transpose_ok (n_of s) axes then begin
    let d = np_transpose_shape s axes in
    show_arr d (List.map (fun i -> spec_elem s data (np_transpose_index axes i)) (lex_enum d)) end
  else unspec
let sp_transpose_arr s data axes =          (* as (shape, data) for compositions *)
  let d = np_transpose_shape s axes in
  (d, List.map (fun i -> spec_elem s data (np_transpose_index axes i)) (lex_enum d))
let sp_flip_arr s data ax = (s, List.map (fun i -> spec_elem s data (np_flip_index ax s i)) (lex_enum s))
let sp_flip s data ax =
  if np_flip_ok (n_of s) ax then (let (d, e) = sp_flip_arr s data ax in show_arr d e) else unspec

let () =
  (* ------------------------------------------------------------ index level *)
  register "reshape_shape" (fun a -> match a with
    | [_; _; src; dst] -> let src = getL src and dst = getL dst in
        { model = opt_list (shape_reshape src dst);
          spec = (match np_reshape_shape src dst with Some d -> ok_list d | None -> unspec);
          dom = small src && dst <> [] && small (np_known dst) }
    | _ -> failwith "reshape_shape");
  register "transpose_shape" (fun a -> match a with
    | [_; _; s; ax] -> let s = getL s and ax = axes_opt ax in
        let ok = np_transpose_ok (n_of s) ax in
        { model = (if transpose_defined ax s then ok_list (shape_transpose s ax) else "ub");
          spec = (if ok then ok_list (np_transpose_shape s ax) else unspec); dom = ok }
    | _ -> failwith "transpose_shape");
  register "scatter" (fun a -> match a with
    | [_; v; p] -> let v = getL v and p = getL p in
        let ok = np_axes_ok (n_of v) p in
        { model = (if transpose_defined (Some p) v then ok_list (scatter v p) else "ub");
          spec = (if ok then ok_list (np_transpose_index (Some p) v) else unspec); dom = ok }
    | _ -> failwith "scatter");
  register "reverse" (fun a -> match a with
    | [_; v] -> let v = getL v in { model = ok_list (reverse v); spec = ok_list (List.rev v); dom = true }
    | _ -> failwith "reverse");
  register "argsort" (fun a -> match a with
    | [_; v] -> let v = getL v in let distinct = (List.length (List.sort_uniq compare v) = List.length v) in
        { model = ok_list (argsort_z v); spec = (if distinct then ok_list (np_argsort v) else unspec);
          (* only distinct keys are judged: moveaxis sorts distinct destinations, and then the sorting permutation is unique;
             the order of equal keys (stability) is not part of C03 *)
          dom = distinct }
    | _ -> failwith "argsort");
  register "normalize_axis" (fun a -> match a with
    | [I ax; I nd] ->
        let ok = Z.leb (Z.opp nd) ax && zlt ax nd in
        { model = show_opt ok_z (normalize_axis ax nd); spec = (if ok then ok_z (Z.modulo ax nd) else unspec); dom = ok }
    | [_; L axes; I nd] ->
        let ok = List.for_all (fun ax -> Z.leb (Z.opp nd) ax && zlt ax nd) axes in
        { model = opt_list (normalize_axes axes nd);
          spec = (if ok then ok_list (List.map (fun ax -> Z.modulo ax nd) axes) else unspec); dom = ok }
    | _ -> failwith "normalize_axis");
  register "moveaxis_order" (fun a -> match a with
    | [_; s; src; dst] -> let s = getL s and src = axarg src and dst = axarg dst in
        let ok = np_moveaxis_ok (n_of s) src dst in
        { model = opt_list (moveaxis_to_transpose (zlen s) src dst);
          spec = (if ok then ok_list (np_moveaxis_order (n_of s) src dst) else unspec); dom = ok }
    | _ -> failwith "moveaxis_order");
  register "swapaxes_order" (fun a -> match a with
    | [I dim; I a1; I a2] ->
        let n = nat_of_int (int_of_z dim) in
        let ok = np_swapaxes_ok n a1 a2 in
        { model = (if ok then ok_list (swapaxes_to_transpose dim a1 a2) else "ub");
          spec = (if ok then ok_list (np_swap (zrange dim) a1 a2) else unspec); dom = ok }
    | _ -> failwith "swapaxes_order");
  register "expand_dims_shape" (fun a -> match a with
    | [_; s; ax] -> let s = getL s and ax = axarg ax in
        let ok = np_expand_dims_ok (n_of s) ax in
        { model = (if expand_dims_defined ax s then ok_list (shape_expand_dims s ax) else "ub");
          spec = (if ok then ok_list (np_expand_dims_shape s ax) else unspec); dom = ok }
    | _ -> failwith "expand_dims_shape");
  register "squeeze_shape" (fun a -> match a with
    | [_; s] -> let s = getL s in
        { model = (if squeeze_defined s then ok_list (shape_squeeze s) else "ub"); spec = ok_list (np_squeeze_shape s); dom = posb s }
    | _ -> failwith "squeeze_shape");
  register "remove_single_dims" (fun a -> match a with
    | [_; s] -> let s = getL s in
        { model = ok_list (remove_single_dims s); spec = ok_list (np_squeeze_shape s); dom = posb s }
    | _ -> failwith "remove_single_dims");
  register "atleast_shape" (fun a -> match a with
    | [_; s; I nd] -> let s = getL s in
        { model = ok_list (shape_atleast_nd s nd); spec = ok_list (np_atleast_shape s nd); dom = Z.leb Z0 nd }
    | _ -> failwith "atleast_shape");
  register "flip_slices" (fun a -> match a with
    | [I dim; ax] -> let ax = axarg ax in
        let n = nat_of_int (int_of_z dim) in
        let ok = np_flip_ok n ax in
        { model = ok_list (flip_slices dim ax);
          spec = (if ok then ok_list (List.map (fun k -> if np_flipped dim ax k then z_of_int (-1) else z_of_int 1) (zrange dim)) else unspec);
          dom = ok }
    | _ -> failwith "flip_slices");
  (* ------------------------------------------------------------ views *)
  let reshape_h a = match a with
    | [_; src; dst] | [src; dst] -> let (s, data) = getA src and dst = getL dst in
        { model = show_view s data (reshape_view dst s); spec = sp_reshape s data dst;
          dom = small s && dst <> [] && small (np_known dst) }
    | _ -> failwith "reshape" in
  register "reshape" reshape_h; register "reshape_eval" reshape_h;
  register "reshape_ct" (fun a -> match a with
    | [Str name; src] ->
        let dst = List.map (fun t -> z_of_int (int_of_string t)) (String.split_on_char 'x' name) in
        reshape_h [src; L dst]
    | _ -> failwith "reshape_ct");
  let flatten_h a = match a with
    | [src] -> let (s, data) = getA src in
        { model = show_view s data (flatten_view s); spec = show_arr [prod s] data; dom = small s }
    | _ -> failwith "flatten" in
  register "flatten" flatten_h; register "flatten_eval" flatten_h;
  let transpose_h a = match a with
    | [_; src; ax] | [src; ax] -> let (s, data) = getA src and ax = axes_opt ax in
        let ok = np_transpose_ok (n_of s) ax in
        { model = (if transpose_defined ax s then show_view s data (transpose_view ax s) else "ub");
          spec = sp_transpose s data ax; dom = ok && posb s }
    | _ -> failwith "transpose" in
  register "transpose" transpose_h; register "transpose_eval" transpose_h;
  register "transpose_ct" (fun a -> match a with
    | [Str name; src] ->
        let ax = List.init (String.length name) (fun k -> z_of_int (Char.code name.[k] - 48)) in
        transpose_h [src; L ax]
    | _ -> failwith "transpose_ct");
  register "transpose2" (fun a -> match a with
    | [src; p; q] -> let (s, data) = getA src and p = getL p and q = getL q in
        let n = n_of s in
        let ok = np_axes_ok n p && np_axes_ok n q in
        let model = guard_ub (fun () ->
          if not (transpose_defined (Some p) s) then "ub" else
          match materialise s data (transpose_view (Some p) s) with
          | Some (s1, d1) -> if transpose_defined (Some q) s1 then show_view s1 d1 (transpose_view (Some q) s1) else "ub"
          | None -> "nothing") in
        let spec = if ok then (let (s1, d1) = sp_transpose_arr s data (Some p) in sp_transpose s1 d1 (Some q)) else unspec in
        { model; spec; dom = ok && posb s }
    | _ -> failwith "transpose2");
  register "transpose2d" (fun a -> match a with
    | [src] -> let (s, data) = getA src in
        let model = guard_ub (fun () -> match materialise s data (transpose_view None s) with
          | Some (s1, d1) -> show_view s1 d1 (transpose_view None s1) | None -> "nothing") in
        { model; spec = show_arr s data; dom = posb s }
    | _ -> failwith "transpose2d");
  let moveaxis_h a = match a with
    | [src; sa; da] -> let (s, data) = getA src and sa = axarg sa and da = axarg da in
        let ok = np_moveaxis_ok (n_of s) sa da in
        { model = show_view s data (moveaxis_view sa da s);
          spec = (if ok then sp_transpose s data (Some (np_moveaxis_order (n_of s) sa da)) else unspec);
          dom = ok && posb s }
    | _ -> failwith "moveaxis" in
  register "moveaxis" moveaxis_h; register "moveaxis_eval" moveaxis_h; register "moveaxis_ct" moveaxis_h;
  let swapaxes_h a = match a with
    | [src; I a1; I a2] -> let (s, data) = getA src in
        let ok = np_swapaxes_ok (n_of s) a1 a2 in
        { model = (if swapaxes_defined a1 a2 s then show_view s data (swapaxes_view a1 a2 s) else "ub");
          spec = (if ok then (let d = np_swap s a1 a2 in
                              show_arr d (List.map (fun i -> spec_elem s data (np_swap i a1 a2)) (lex_enum d))) else unspec);
          dom = ok && posb s }
    | _ -> failwith "swapaxes" in
  register "swapaxes" swapaxes_h; register "swapaxes_eval" swapaxes_h;
  let expand_h a = match a with
    | [src; ax] -> let (s, data) = getA src and ax = axarg ax in
        let ok = np_expand_dims_ok (n_of s) ax in
        { model = (if expand_dims_defined ax s then show_view s data (expand_dims_view ax s) else "ub");
          spec = (if ok then show_arr (np_expand_dims_shape s ax) data else unspec); dom = ok && small s }
    | _ -> failwith "expand_dims" in
  register "expand_dims" expand_h; register "expand_dims_eval" expand_h; register "expand_dims_ct" expand_h;
  let squeeze_h a = match a with
    | [src] -> let (s, data) = getA src in
        { model = (if squeeze_defined s then show_view s data (squeeze_view s) else "ub");
          spec = show_arr (np_squeeze_shape s) data; dom = small s && np_squeeze_shape s <> [] }
    | _ -> failwith "squeeze" in
  register "squeeze" squeeze_h; register "squeeze_eval" squeeze_h;
  register "squeeze_expand" (fun a -> match a with
    | [src; ax] -> let (s, data) = getA src and ax = axarg ax in
        let ok = np_expand_dims_ok (n_of s) ax in
        let model = guard_ub (fun () ->
          if not (expand_dims_defined ax s) then "ub" else
          match materialise s data (expand_dims_view ax s) with
          | Some (s1, d1) -> show_view s1 d1 (squeeze_view s1) | None -> "nothing") in
        { model; spec = (if ok then show_arr (np_squeeze_shape (np_expand_dims_shape s ax)) data else unspec);
          dom = ok && small s && np_squeeze_shape s <> [] }
    | _ -> failwith "squeeze_expand");
  let atleast_h a = match a with
    | [src; I nd] -> let (s, data) = getA src in
        { model = show_view s data (atleast_nd_view nd s); spec = show_arr (np_atleast_shape s nd) data;
          dom = small s && Z.leb Z0 nd }
    | _ -> failwith "atleast" in
  register "atleast" atleast_h; register "atleast_ct" atleast_h;
  let flip_h a = match a with
    | [src; ax] -> let (s, data) = getA src and ax = axarg ax in
        let ok = np_flip_ok (n_of s) ax in
        { model = show_view s data (flip_view ax s); spec = sp_flip s data ax;
          dom = ok && posb s }
    | _ -> failwith "flip" in
  register "flip" flip_h; register "flip_eval" flip_h; register "flip_ct" flip_h;
  register "flip2" (fun a -> match a with
    | [src; ax] -> let (s, data) = getA src and ax = axarg ax in
        let ok = np_flip_ok (n_of s) ax in
        let model = guard_ub (fun () -> match materialise s data (flip_view ax s) with
          | Some (s1, d1) -> show_view s1 d1 (flip_view ax s1) | None -> "nothing") in
        { model; spec = (if ok then show_arr s data else unspec); dom = ok && posb s }
    | _ -> failwith "flip2")

(* ---- axis-LIST arguments in every container kind (drivers/c03_lists.cpp): the container kind and the
   compile-time / run-time distinction are not observable, so these ops share the handlers above *)
let ints_of_name name = List.map (fun t -> z_of_int (int_of_string t)) (String.split_on_char 'x' name)
let via name f = register name (fun a -> (Hashtbl.find handlers (fst (f a))) (snd (f a)))
let () =
  let drop_kind target name = via name (fun a -> match a with _ :: rest -> (target, rest) | _ -> failwith name) in
  let keep target name = via name (fun a -> (target, a)) in
  let ct target name = via name (fun a -> match a with
    | [Str nm; src] -> (target, [src; L (ints_of_name nm)]) | _ -> failwith name) in
  drop_kind "flip" "flipk"; drop_kind "flip" "flipk_eval"; ct "flip" "flipct";
  drop_kind "flip_slices" "flip_slicesk";
  drop_kind "expand_dims" "expandk"; drop_kind "expand_dims" "expandk_eval"; ct "expand_dims" "expandct";
  keep "expand_dims_shape" "expand_shapek";
  drop_kind "moveaxis" "moveaxisk"; drop_kind "moveaxis" "moveaxisk_eval"; keep "moveaxis_order" "moveaxis_orderk";
  via "moveaxisct" (fun a -> match a with
    | [Str nm; src] -> (match String.split_on_char '_' nm with
        | [s; d] -> ("moveaxis", [src; L (ints_of_name s); L (ints_of_name d)]) | _ -> failwith "moveaxisct")
    | _ -> failwith "moveaxisct");
  keep "transpose" "transposek"; ct "transpose" "transposect";
  (* flip(flip(a,ax1),ax2) against NumPy's two flips *)
  register "flip2p" (fun a -> match a with
    | [src; ax1; ax2] -> let (s, data) = getA src and ax1 = axarg ax1 and ax2 = axarg ax2 in
        let ok = np_flip_ok (n_of s) ax1 && np_flip_ok (n_of s) ax2 in
        let model = guard_ub (fun () -> match materialise s data (flip_view ax1 s) with
          | Some (s1, d1) -> show_view s1 d1 (flip_view ax2 s1) | None -> "nothing") in
        { model; spec = (if ok then (let (s1, d1) = sp_flip_arr s data ax1 in sp_flip s1 d1 ax2) else unspec); dom = ok && posb s }
    | _ -> failwith "flip2p")
