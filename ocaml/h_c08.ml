(* h_c08.ml — C08 handlers: Reduce model (remove_dims / reduction_slices / reducer / accumulate)
   vs the NumPy reference (result shape; left fold over the matching source elements in C order). *)
open BinNums
open Datatypes
open Base
open Index
open Reduce
open Common
module List = Stdlib.List
module String = Stdlib.String

let id_ x = x
let elem_at shape data i = List.nth data (int_of_z (horner Z0 i shape))

let axis_of = function
  | N -> AxNone
  | I k -> AxInt k
  | L l -> AxList l
  | _ -> failwith "axis"

let op_of = function
  | "add" | "sum" | "cumsum" -> Z.add
  | "multiply" | "prod" | "cumprod" -> Z.mul
  | "subtract" -> Z.sub
  | "lin" -> (fun acc x -> Z.modulo (Z.add (Z.mul (z_of_int 3) acc) x) (z_of_int 1000003))
  | "maximum" | "amax" -> Z.max
  | "minimum" | "amin" -> Z.min
  | s -> failwith ("op " ^ s)

let kd_of = function
  | "def" | "rt0" | "ct0" -> false
  | "rt1" | "ct1" -> true
  | s -> failwith ("kd " ^ s)

(* "ok shape ; e0,e1,.." from a shape and an element function returning option; any None = ub *)
let show_view show_e shape elem =
  let es = List.map elem (lex_enum shape) in
  if List.exists (fun e -> e = None) es then "ub"
  else "ok " ^ show_list shape ^ " ;" ^
       (if es = [] then "" else " " ^ String.concat "," (List.map (function Some v -> show_e v | None -> "") es))

let fl x = Printf.sprintf "%.17g" x

(* double data of the statistics cases: x / 7 (same expression on the C++ side) *)
let fdata d = List.map (fun z -> float_of_int (int_of_z z) /. 7.0) d

let () =
  (* reduce S:op S:api S:axiskind S:kd S:arraykind A:arr axis init *)
  register "reduce" (fun a -> match a with
    | [op; _; _; kd; _; arr; ax; init] ->
        let (s, d) = getA arr in
        let f = op_of (getS op) and kd = kd_of (getS kd) and ax = axis_of ax in
        let init = (match init with N -> None | I v -> Some v | _ -> failwith "init") in
        let src = elem_at s d in
        let model = (match remove_dims s ax kd with
          | None -> "ub"
          | Some shp -> show_view string_of_z shp (fun i -> reduce_at id_ f src s ax kd init i)) in
        let ok = axes_ok (zlen s) ax in
        let spec = if not ok then "unspecified" else
          show_view string_of_z (reduce_shape_spec s ax kd) (fun i -> reduce_spec id_ f src s ax kd init i) in
        { model; spec; dom = posb s && ok }
    | _ -> failwith "reduce");
  (* accum S:op S:arraykind A:arr I:axis *)
  register "accum" (fun a -> match a with
    | [op; _; arr; ax] ->
        let (s, d) = getA arr in
        let f = op_of (getS op) and ax = getI ax in
        let src = elem_at s d in
        let n = zlen s in
        let model = show_view string_of_z s (fun i -> accumulate_at id_ f src n ax i) in
        let valid = Z.leb (Z.opp n) ax && Z.ltb ax n in
        let spec = if not valid then "unspecified" else
          show_view string_of_z s (fun i -> accumulate_spec id_ f src n ax i) in
        { model; spec; dom = posb s && valid }
    | _ -> failwith "accum");
  (* stat S:fn S:kd A:arr axis I:ddof   — mean / var / stddev on double data x/7.
     model: the compositions of mean.hpp / var.hpp / stddev.hpp over OCaml doubles with the modelled
     reduction order; spec: the textbook definitions over the elements the Spec designates. *)
  register "stat" (fun a -> match a with
    | [fn; kd; arr; ax; ddof] ->
        let (s, d) = getA arr in
        let fn = getS fn and kd = kd_of (getS kd) and ax = axis_of ax and ddof = float_of_int (int_of_z (getI ddof)) in
        let fd = fdata d in
        let src i = List.nth fd (int_of_z (horner Z0 i s)) in
        let n = zlen s in
        let ok = axes_ok n ax in
        (* --- model --- *)
        let model = (match normalize ax n with
          | None -> "ub"
          | Some nax ->
            let div = float_of_int (int_of_z (mean_divisor s nax)) in
            let mean_at kd' i = (match reduce_at id_ (+.) src s nax kd' None i with Some v -> Some (v /. div) | None -> None) in
            (match remove_dims s nax kd, remove_dims s nax true with
             | Some shp, Some shp1 ->
               if fn = "mean" then show_view fl shp (mean_at kd)
               else begin
                 (* var: a = mean(x, axis, keepdims=True); d = square(fabs(x - a)) with a broadcast to x's shape *)
                 let dev i =
                   let j = (match Broadcast.broadcast_to_view shp1 s with
                            | Some (_, g) -> g i | None -> failwith "broadcast") in
                   (match mean_at true j with
                    | Some m -> let t = Float.abs (src i -. m) in t *. t
                    | None -> nan) in
                 let var_at i = (match reduce_at id_ (+.) dev s nax kd None i with
                                 | Some e -> Some (e /. (div -. ddof)) | None -> None) in
                 if fn = "var" then show_view fl shp var_at
                 else show_view fl shp (fun i -> match var_at i with Some v -> Some (sqrt v) | None -> None)
               end
             | _, _ -> "ub")) in
        (* --- spec --- *)
        let spec = if not ok then "unspecified" else begin
          let mask = red_mask (nat_of_int (List.length s)) ax in
          let shp = reduce_shape_spec s ax kd in
          let elems i = spec_elems src mask s (if kd then drop_reduced mask i else i) in
          let sum l = List.fold_left (+.) 0.0 l in
          let mean l = sum l /. float_of_int (List.length l) in
          let var l = let m = mean l in sum (List.map (fun x -> (x -. m) *. (x -. m)) l) /. (float_of_int (List.length l) -. ddof) in
          let g = (match fn with "mean" -> mean | "var" -> var | _ -> (fun l -> sqrt (var l))) in
          show_view fl shp (fun i -> Some (g (elems i))) end in
        { model; spec; dom = posb s && ok }
    | _ -> failwith "stat");
  (* vnorm S:kd A:arr axis I:ord — view::vector_norm = power(sum(power(fabs(x),ord),axis,keepdims), root_t(1)/ord) *)
  register "vnorm" (fun a -> match a with
    | [kd; arr; ax; ord] ->
        let (s, d) = getA arr in
        let kd = kd_of (getS kd) and ax = axis_of ax and ord = float_of_int (int_of_z (getI ord)) in
        let fd = fdata d in
        let src i = Float.pow (Float.abs (List.nth fd (int_of_z (horner Z0 i s)))) ord in
        let ok = axes_ok (zlen s) ax in
        (* the root is taken in the array's floating type: static_cast<double>(1)/ord *)
        let model = (match remove_dims s ax kd with
          | None -> "ub"
          | Some shp -> show_view fl shp (fun i -> match reduce_at id_ (+.) src s ax kd None i with
                                                   | Some v -> Some (Float.pow v (1.0 /. ord)) | None -> None)) in
        let spec = if not ok then "unspecified" else begin
          let mask = red_mask (nat_of_int (List.length s)) ax in
          show_view fl (reduce_shape_spec s ax kd) (fun i ->
            let l = spec_elems src mask s (if kd then drop_reduced mask i else i) in
            Some (Float.pow (List.fold_left (+.) 0.0 l) (1.0 /. ord))) end in
        { model; spec; dom = posb s && ok }
    | _ -> failwith "vnorm");
  (* trace A:arr — view::trace = sum(diagonal(a, 0, 0, 1), axis=-1): the diagonal view puts the diagonal last *)
  register "trace" (fun a -> match a with
    | [arr] ->
        let (s, d) = getA arr in
        (match s with
         | n :: m :: rest ->
           let src = elem_at s d in
           let k = if Z.ltb n m then n else m in
           let dshape = rest @ [k] in
           let diag j = (let r = List.rev j in match r with
                         | i :: rr -> src (i :: i :: List.rev rr) | [] -> failwith "diag") in
           let ax = AxInt (z_of_int (-1)) in
           let model = (match remove_dims dshape ax false with
             | None -> "ub"
             | Some shp -> show_view string_of_z shp (fun i -> reduce_at id_ Z.add diag dshape ax false None i)) in
           let spec = show_view string_of_z rest (fun j ->
             let l = List.map (fun i -> src (i :: i :: j)) (zrange k) in
             match l with x :: t -> Some (List.fold_left Z.add x t) | [] -> None) in
           { model; spec; dom = posb s }
         | _ -> failwith "trace needs dim >= 2")
    | _ -> failwith "trace");
  (* dt S:fn S:dtype S:kd A:arr axis init — explicit result dtype: same routing and (small) values as the plain reduction *)
  register "dt" (fun a -> match a with
    | [fn; _; kd; arr; ax; init] ->
        (Hashtbl.find handlers "reduce") [fn; Str "named"; Str "x"; kd; Str "dyn"; arr; ax; init]
    | _ -> failwith "dt");
  (* u8 S:fn S:kd A:arr axis init — uint8 data: the accumulator keeps the operand's element type, i.e. f = (op) mod 256,
     an instance of the arbitrary f of the theorems *)
  register "u8" (fun a -> match a with
    | [fn; kd; arr; ax; init] ->
        let (s, d) = getA arr in
        let m = z_of_int 256 in
        let f = (match getS fn with
          | "sum" | "cumsum" -> (fun x y -> Z.modulo (Z.add x y) m)
          | "prod" -> (fun x y -> Z.modulo (Z.mul x y) m)
          | t -> failwith ("u8 " ^ t)) in
        let src = elem_at s d in
        if getS fn = "cumsum" then begin
          let axv = getI ax and n = zlen s in
          let model = show_view string_of_z s (fun i -> accumulate_at id_ f src n axv i) in
          let valid = Z.leb (Z.opp n) axv && Z.ltb axv n in
          { model; spec = (if valid then show_view string_of_z s (fun i -> accumulate_spec id_ f src n axv i) else "unspecified");
            dom = posb s && valid }
        end else begin
          let kd = kd_of (getS kd) and ax = axis_of ax in
          let init = (match init with N -> None | I v -> Some (Z.modulo v m) | _ -> failwith "init") in
          let model = (match remove_dims s ax kd with
            | None -> "ub"
            | Some shp -> show_view string_of_z shp (fun i -> reduce_at id_ f src s ax kd init i)) in
          let ok = axes_ok (zlen s) ax in
          { model; spec = (if ok then show_view string_of_z (reduce_shape_spec s ax kd) (fun i -> reduce_spec id_ f src s ax kd init i) else "unspecified");
            dom = posb s && ok }
        end
    | _ -> failwith "u8");
  (* ---------- type-width boundaries (drivers/c08_types.cpp) ---------- *)
  (* rdims S:axtype S:axkind S:shapekind S:kd L:shape axis — index::remove_dims on a bare shape: the result must not
     depend on the axis argument's integer type *)
  register "rdims" (fun a -> match a with
    | [_; _; _; kd; shp; ax] ->
        let s = getL shp and kd = kd_of (getS kd) and ax = axis_of ax in
        let ok = axes_ok (zlen s) ax in
        { model = (match remove_dims s ax kd with Some r -> "ok " ^ show_list r | None -> "ub");
          spec = (if ok then "ok " ^ show_list (reduce_shape_spec s ax kd) else "unspecified");
          dom = ok }
    | _ -> failwith "rdims");
  (* tsum S:axtype S:axkind S:kd A:arr axis — view::sum with a typed axis argument *)
  register "tsum" (fun a -> match a with
    | [_; _; kd; arr; ax] ->
        (Hashtbl.find handlers "reduce") [Str "sum"; Str "named"; Str "x"; kd; Str "dyn"; arr; ax; N]
    | _ -> failwith "tsum");
  (* tred S:fn S:src S:dtype S:kd A:arr axis init / tacc S:fn S:src S:dtype A:arr I:axis — the fold lives in the result type *)
  let dt = function
    | "i8" -> Dtype.I8 | "u8" -> Dtype.U8 | "i16" -> Dtype.I16 | "u16" -> Dtype.U16 | "i32" -> Dtype.I32 | "u32" -> Dtype.U32
    | "i64" -> Dtype.I64 | "u64" -> Dtype.U64 | "f32" -> Dtype.F32 | "f64" -> Dtype.F64 | t -> failwith ("dtype " ^ t) in
  let req = function "none" -> None | t -> Some (dt t) in
  (* drivers/show.hpp prints every integer through (long long): a uint64 value >= 2^63 appears as its two's complement *)
  let pr_of rt = if rt = Dtype.U64 then (fun z -> string_of_z (swrap (z_of_int 64) z)) else string_of_z in
  let ring = function "sum" | "cumsum" | "add" -> Z.add | "prod" | "cumprod" -> Z.mul | t -> failwith ("ring op " ^ t) in
  register "tred" (fun a -> match a with
    | [fn; src; d; kd; arr; ax; init] ->
        let (s, data) = getA arr in
        let op = ring (getS fn) and e = dt (getS src) and r = req (getS d) and kd = kd_of (getS kd) and ax = axis_of ax in
        let init = (match init with N -> None | I v -> Some v | _ -> failwith "init") in
        let srcf = elem_at s data in
        let ok = axes_ok (zlen s) ax in
        let pr = pr_of (Dtype.reduce_dtype r e) in
        let model = (match remove_dims s ax kd with
          | None -> "ub"
          | Some shp -> show_view pr shp (fun i -> typed_reduce_at r e op srcf s ax kd init i)) in
        let spec = if not ok then "unspecified" else
          show_view pr (reduce_shape_spec s ax kd) (fun i -> typed_reduce_spec r e op srcf s ax kd init i) in
        { model; spec; dom = posb s && ok }
    | _ -> failwith "tred");
  register "tacc" (fun a -> match a with
    | [fn; src; d; arr; ax] ->
        let (s, data) = getA arr in
        let op = ring (getS fn) and e = dt (getS src) and r = req (getS d) and ax = getI ax in
        let srcf = elem_at s data and n = zlen s in
        let valid = Z.leb (Z.opp n) ax && Z.ltb ax n in
        let pr = pr_of (Dtype.reduce_dtype r e) in
        { model = show_view pr s (fun i -> typed_accumulate_at r e op srcf n ax i);
          spec = (if valid then show_view pr s (fun i -> typed_accumulate_spec r e op srcf n ax i) else "unspecified");
          dom = posb s && valid }
    | _ -> failwith "tacc");
  (* defer S:form S:kind A1 A2 I:axis I:c — deferred evaluation of a reduction / accumulation over a temporary operand view:
     the view is a value over its leaf arrays, so each result is the modelled reduction of that call's transformed data *)
  register "defer" (fun a -> match a with
    | [form; _; a1; a2; ax; c] ->
        let form = getS form and c = getI c in
        let mapA g = function A (s, d) -> A (s, List.map g d) | _ -> failwith "array" in
        let three = z_of_int 3 and one = z_of_int 1 in
        let run arr cc =
          let h name args = (Hashtbl.find handlers name) args in
          (match form with
           | "red" -> h "reduce" [Str "lin"; Str "reduce"; Str "int"; Str "def"; Str "dyn"; mapA Z.opp arr; ax; I cc]
           | "redk" -> h "reduce" [Str "sum"; Str "named"; Str "vec"; Str "rt1"; Str "dyn"; mapA Z.opp arr; L [getI ax]; N]
           | "acc" -> h "accum" [Str "lin"; Str "dyn"; mapA Z.opp arr; ax]
           | "sumv" -> h "reduce" [Str "sum"; Str "named"; Str "int"; Str "def"; Str "dyn"; mapA (Z.add (Z.add cc one)) arr; ax; N]
           | f -> failwith ("defer form " ^ f)) in
        let r1 = run a1 c and r2 = run a2 (Z.add c three) in
        { model = r1.model ^ " | " ^ r2.model;
          spec = (if r1.spec = "unspecified" || r2.spec = "unspecified" then "unspecified" else r1.spec ^ " | " ^ r2.spec);
          dom = r1.dom && r2.dom }
    | _ -> failwith "defer");
  (* tini S:fn S:src S:initT S:axisform A:arr axis I:n — an initial value of another type than the element / result type: it is converted
     to the result type (= the source element type: no dtype) FIRST, then the fold runs in that type *)
  register "tini" (fun a -> match a with
    | [fn; src; it; af; arr; ax; n] ->
        let (s, data) = getA arr in
        let fn = getS fn and src = getS src and it = getS it and kd = (getS af = "list") and ax = axis_of ax and n = getI n in
        let ok = axes_ok (zlen s) ax in
        if src = "f64" then begin
          let fd = List.map (fun z -> float_of_int (int_of_z z) /. 4.0) data in
          let srcf i = List.nth fd (int_of_z (horner Z0 i s)) in
          let init = if it = "f32" then float_of_int (int_of_z n) /. 4.0 else float_of_int (int_of_z n) in
          let op = (match fn with
            | "sum" | "radd" -> (+.) | "prod" -> ( *. )
            | "amax" -> (fun t u -> if t > u then t else u) | "amin" -> (fun t u -> if t < u then t else u) | f -> failwith ("tini " ^ f)) in
          { model = (match remove_dims s ax kd with None -> "ub" | Some shp -> show_view fl shp (fun i -> reduce_at id_ op srcf s ax kd (Some init) i));
            spec = (if ok then show_view fl (reduce_shape_spec s ax kd) (fun i -> reduce_spec id_ op srcf s ax kd (Some init) i) else "unspecified");
            dom = posb s && ok }
        end else begin
          let srcf = elem_at s data in
          let op = (match fn with "sum" | "radd" -> Z.add | "prod" -> Z.mul | "amax" -> Z.max | "amin" -> Z.min | f -> failwith ("tini " ^ f)) in
          { model = (match remove_dims s ax kd with None -> "ub" | Some shp -> show_view string_of_z shp (fun i -> reduce_at id_ op srcf s ax kd (Some n) i));
            spec = (if ok then show_view string_of_z (reduce_shape_spec s ax kd) (fun i -> reduce_spec id_ op srcf s ax kd (Some n) i) else "unspecified");
            dom = posb s && ok }
        end
    | _ -> failwith "tini");
  (* form S:form S:fn S:dtype S:kd A:arr axis init I:ddof — overload arities (c08_forms.cpp / c08_stat.cpp): the model ignores the call
     form and evaluates the canonical (fn, dtype, keepdims, axis, initial, ddof); int8 data; the element type tag is part of the result *)
  register "form" (fun a -> match a with
    | [_; fn; d; kd; arr; ax; init; ddof] ->
        let (s, data) = getA arr in
        let fn = getS fn and r = req (getS d) and kd = kd_of (getS kd) in
        let init = (match init with N -> None | I v -> Some v | _ -> failwith "init") in
        let srcf = elem_at s data in
        let rt = Dtype.reduce_dtype r Dtype.I8 in
        let tag t = " ; view=" ^ (match t with Dtype.I8 -> "i8" | Dtype.I32 -> "i32" | Dtype.F32 -> "f32" | Dtype.F64 -> "f64" | _ -> "other") in
        (match fn with
         | "sum" | "prod" | "amax" | "amin" ->
             let op = (match fn with "sum" -> Z.add | "prod" -> Z.mul | "amax" -> Z.max | _ -> Z.min) in
             let ax = axis_of ax in
             let ok = axes_ok (zlen s) ax in
             { model = (match remove_dims s ax kd with None -> "ub"
                        | Some shp -> show_view string_of_z shp (fun i -> typed_reduce_at r Dtype.I8 op srcf s ax kd init i) ^ tag rt);
               spec = (if ok then show_view string_of_z (reduce_shape_spec s ax kd) (fun i -> typed_reduce_spec r Dtype.I8 op srcf s ax kd init i) ^ tag rt else "unspecified");
               dom = posb s && ok }
         | "cumsum" | "cumprod" ->
             let op = if fn = "cumsum" then Z.add else Z.mul in
             let axv = getI ax and n = zlen s in
             { model = show_view string_of_z s (fun i -> typed_accumulate_at r Dtype.I8 op srcf n axv i) ^ tag rt;
               spec = show_view string_of_z s (fun i -> typed_accumulate_spec r Dtype.I8 op srcf n axv i) ^ tag rt; dom = posb s }
         | "mean" | "var" | "std" ->
             (* statistics of int8 data: float32 by default, float64 when requested (the generated data keep the float32 results exact) *)
             let ax = axis_of ax and ddof = float_of_int (int_of_z (getI ddof)) in
             let mask = red_mask (nat_of_int (List.length s)) ax in
             let srcfl i = float_of_int (int_of_z (srcf i)) in
             let elems i = spec_elems srcfl mask s (if kd then drop_reduced mask i else i) in
             let sum l = List.fold_left (+.) 0.0 l in
             let mean l = sum l /. float_of_int (List.length l) in
             let var l = let m = mean l in sum (List.map (fun x -> (x -. m) *. (x -. m)) l) /. (float_of_int (List.length l) -. ddof) in
             let g = (match fn with "mean" -> mean | "var" -> var | _ -> (fun l -> sqrt (var l))) in
             let st = (match r with None -> Dtype.F32 | Some t -> t) in
             both (show_view fl (reduce_shape_spec s ax kd) (fun i -> Some (g (elems i))) ^ tag st) false
         | f -> failwith ("form fn " ^ f))
    | _ -> failwith "form")
