(* h_c17.ml — C17 handlers.
   Integer routines (conv1d / conv2d / max_pool2d / avg_pool2d): model and spec are the EXTRACTED Coq
   definitions of NN.v (convnd / conv_spec, max_pool2d / avg_pool2d / pool_spec), run on Z data; the only
   hand-written step is forming sum/count of avg_pool2d as an OCaml float.
   Float routines (softmax, softmin, batch/layer/instance/group norm, linear, bilinear, pairwise_distance,
   cosine_similarity): NOT extracted — the reference below is a hand-written OCaml nested-loop oracle in IEEE
   double (model = spec = that oracle, dom = 0: no theorem covers them).  Array data arrive as integers and are
   divided by 8.0 on both sides (exact in binary, also in single precision).  The oracle follows the definitions'
   own stabilisation: softmax subtracts the maximum of THE SLICE along the axis (never a global maximum), the norms
   are two-pass (mean, then mean of squared deviations).  Every routine is registered twice: "<op>" for the double
   driver and "<op>32" for the float driver; the latter prefixes its result with "f32 " so that harness/props/c17.py
   compares with the single-precision tolerance (the reference is still computed in double). *)
open BinNums
open Datatypes
open Base
open NN
open Common
module List = Stdlib.List
module String = Stdlib.String
module Array = Stdlib.Array

let sarg_of variant l =
  match variant with
  | "plain" -> ANone
  | "scalar" | "ctg" | "fd" -> AScalar (List.hd l)
  | "pair" -> AList l
  | _ -> failwith "variant"

let show_res = function Some (s, e) -> show_arr s e | None -> "trap"

let conv np a = match a with
  | [v; x; w; b; st; pd; dl; g] ->
      let v = getS v in
      let (xs, xd) = getA x and (ws, wd) = getA w in
      let bias = (match b with N -> None | A (_, d) -> Some d | _ -> failwith "bias") in
      let st = sarg_of v (getL st) and pd = sarg_of v (getL pd) and dl = sarg_of v (getL dl) and g = getI g in
      let np = z_of_int np in
      let m = convnd np xs xd ws wd bias st pd dl g in
      let s = conv_spec np xs xd ws wd bias st pd dl g in
      { model = show_res m; spec = (match s with Some _ -> show_res s | None -> "unspecified");
        dom = conv_dom np xs ws bias st pd dl g }
  | _ -> failwith "conv"

let fl z = float_of_int (int_of_z z)
let show_farr shape elems =
  "ok " ^ show_list shape ^ " ;" ^ (if elems = [] then "" else " " ^ String.concat "," (List.map (Printf.sprintf "%.17g") elems))

let pool is_max a = match a with
  | [_; x; ks; ss; c] ->
      let (xs, xd) = getA x and ks = getL ks and ss = getL ss and ceil = int_of_z (getI c) <> 0 in
      let dom = pool_dom xs ks ss ceil in
      if is_max then begin
        let m = max_pool2d xs xd ks ss ceil and s = pool_spec zmax_list xs xd ks ss ceil in
        { model = show_res m; spec = (if valid_pool_args xs ks ss then show_res s else "unspecified"); dom }
      end else begin
        let q = function Some (sh, e) -> show_farr sh (List.map (fun (su, n) -> fl su /. fl n) e) | None -> "trap" in
        let m = avg_pool2d xs xd ks ss ceil and s = pool_spec avg_red xs xd ks ss ceil in
        { model = q m; spec = (if valid_pool_args xs ks ss then q s else "unspecified"); dom }
      end
  | _ -> failwith "pool"

(* ------------------------------------------------------------------ float oracle (hand-written, not extracted) *)
type fa = { sh : int array; d : float array }
let fa_of arg = let (s, d) = getA arg in
  { sh = Array.of_list (List.map int_of_z s); d = Array.of_list (List.map (fun z -> fl z /. 8.0) d) }
let numel sh = Array.fold_left ( * ) 1 sh
let strides sh = let n = Array.length sh in let st = Array.make n 1 in
  for i = n - 2 downto 0 do st.(i) <- st.(i+1) * sh.(i+1) done; st
let unravel sh k = let n = Array.length sh in let idx = Array.make n 0 in let r = ref k in
  for i = n - 1 downto 0 do idx.(i) <- !r mod sh.(i); r := !r / sh.(i) done; idx
let offset sh idx = let o = ref 0 in Array.iteri (fun i x -> o := !o * sh.(i) + x) idx; !o
let get a idx = a.d.(offset a.sh idx)
let show_fa a = "ok " ^ String.concat "," (Array.to_list (Array.map string_of_int a.sh)) ^ " ;" ^
  (if Array.length a.d = 0 then "" else " " ^ String.concat "," (Array.to_list (Array.map (Printf.sprintf "%.17g") a.d)))
let build sh f = { sh; d = Array.init (numel sh) (fun k -> f (unravel sh k)) }
let oracle s = { model = s; spec = s; dom = false }
let eps5 = 1e-5

(* softmax over axis: exp(x - max) / sum exp(x - max), looping over the axis for every element *)
let softmax x axis =
  let ax = if axis < 0 then axis + Array.length x.sh else axis in
  build x.sh (fun idx ->
    let at k = let j = Array.copy idx in j.(ax) <- k; get x j in
    let m = ref neg_infinity in for k = 0 to x.sh.(ax) - 1 do if at k > !m then m := at k done;
    let s = ref 0.0 in for k = 0 to x.sh.(ax) - 1 do s := !s +. exp (at k -. !m) done;
    exp (get x idx -. !m) /. !s)

(* mean / biased variance over the index set selected by [same]: all indices j with same idx j *)
let stats x idx same =
  let n = ref 0 and s = ref 0.0 in
  for k = 0 to numel x.sh - 1 do let j = unravel x.sh k in if same idx j then (incr n; s := !s +. x.d.(k)) done;
  let mean = !s /. float_of_int !n in
  let v = ref 0.0 in
  for k = 0 to numel x.sh - 1 do let j = unravel x.sh k in if same idx j then v := !v +. (x.d.(k) -. mean) ** 2.0 done;
  (mean, !v /. float_of_int !n)

let regf name f =
  register name f;
  register (name ^ "32") (fun a -> let r = f a in { r with model = "f32 " ^ r.model; spec = "f32 " ^ r.spec })

let () =
  register "conv1d" (conv 1); register "conv2d" (conv 2);
  register "max_pool2d" (pool true); register "avg_pool2d" (pool false);
  regf "softmax" (fun a -> match a with [x; ax] -> oracle (show_fa (softmax (fa_of x) (int_of_z (getI ax)))) | _ -> failwith "softmax");
  regf "softmin" (fun a -> match a with
    | [x; ax] -> let x = fa_of x in oracle (show_fa (softmax { x with d = Array.map (fun v -> -. v) x.d } (int_of_z (getI ax))))
    | _ -> failwith "softmin");
  (* y[n,c,h,w] = (x - mean[c]) / sqrt(var[c] + eps) * weight[c] + bias[c] *)
  regf "batch_norm" (fun a -> match a with
    | [x; m; v; w; b] -> let x = fa_of x and m = fa_of m and v = fa_of v and w = fa_of w and b = fa_of b in
        let r = Array.length x.sh in
        oracle (show_fa (build x.sh (fun i -> let c = i.(r - 3) in
          (get x i -. m.d.(c)) /. sqrt (v.d.(c) +. eps5) *. w.d.(c) +. b.d.(c))))
    | _ -> failwith "batch_norm");
  (* statistics over the trailing len(weight.shape) axes, weight/bias indexed by those axes *)
  regf "layer_norm" (fun a -> match a with
    | [x; w; b] -> let x = fa_of x and w = fa_of w and b = fa_of b in
        let r = Array.length x.sh and k = Array.length w.sh in
        oracle (show_fa (build x.sh (fun i ->
          let same p q = (let ok = ref true in for t = 0 to r - k - 1 do if p.(t) <> q.(t) then ok := false done; !ok) in
          let (mean, var) = stats x i same in
          let wi = Array.sub i (r - k) k in
          (get x i -. mean) /. sqrt (var +. eps5) *. get w wi +. get b wi)))
    | _ -> failwith "layer_norm");
  (* statistics per (n, c) over the trailing nd axes; weight/bias per channel *)
  regf "instance_norm" (fun a -> match a with
    | [nd; x; w; b] -> let nd = int_of_z (getI nd) in let x = fa_of x and w = fa_of w and b = fa_of b in
        let r = Array.length x.sh in
        oracle (show_fa (build x.sh (fun i ->
          let same p q = (let ok = ref true in for t = 0 to r - nd - 1 do if p.(t) <> q.(t) then ok := false done; !ok) in
          let (mean, var) = stats x i same in
          let c = i.(r - nd - 1) in
          (get x i -. mean) /. sqrt (var +. eps5) *. w.d.(c) +. b.d.(c))))
    | _ -> failwith "instance_norm");
  (* statistics per (n, channel group) over the group's channels and all spatial positions *)
  regf "group_norm" (fun a -> match a with
    | [x; g; w; b] -> let g = int_of_z (getI g) in let x = fa_of x and w = fa_of w and b = fa_of b in
        let cg = x.sh.(1) / g in
        oracle (show_fa (build x.sh (fun i ->
          let same p q = p.(0) = q.(0) && p.(1) / cg = q.(1) / cg in
          let (mean, var) = stats x i same in
          (get x i -. mean) /. sqrt (var +. eps5) *. w.d.(i.(1)) +. b.d.(i.(1)))))
    | _ -> failwith "group_norm");
  (* y[..., o] = sum_i x[..., i] * w[o, i] + b[o] *)
  regf "linear" (fun a -> match a with
    | [x; w; b] -> let x = fa_of x and w = fa_of w in
        let bo = (match b with N -> None | _ -> Some (fa_of b)) in
        let r = Array.length x.sh in let inf = x.sh.(r - 1) and outf = w.sh.(0) in
        let sh = Array.append (Array.sub x.sh 0 (r - 1)) [| outf |] in
        oracle (show_fa (build sh (fun i -> let o = i.(r - 1) in
          let s = ref 0.0 in
          for t = 0 to inf - 1 do let j = Array.copy i in j.(r - 1) <- t; s := !s +. get x j *. get w [| o; t |] done;
          !s +. (match bo with Some b -> b.d.(o) | None -> 0.0))))
    | _ -> failwith "linear");
  (* y[..., o] = sum_{i,j} x1[..., i] * w[o, i, j] * x2[..., j] + b[o] *)
  regf "bilinear" (fun a -> match a with
    | [x1; x2; w; b] -> let x1 = fa_of x1 and x2 = fa_of x2 and w = fa_of w in
        let bo = (match b with N -> None | _ -> Some (fa_of b)) in
        let r = Array.length x1.sh in let n1 = x1.sh.(r - 1) and n2 = x2.sh.(r - 1) and outf = w.sh.(0) in
        let sh = Array.append (Array.sub x1.sh 0 (r - 1)) [| outf |] in
        oracle (show_fa (build sh (fun i -> let o = i.(r - 1) in
          let s = ref 0.0 in
          for p = 0 to n1 - 1 do for q = 0 to n2 - 1 do
            let j1 = Array.copy i in j1.(r - 1) <- p; let j2 = Array.copy i in j2.(r - 1) <- q;
            s := !s +. get x1 j1 *. get w [| o; p; q |] *. get x2 j2 done done;
          !s +. (match bo with Some b -> b.d.(o) | None -> 0.0))))
    | _ -> failwith "bilinear");
  (* || x - y + eps ||_2 over the last axis, eps = 1e-6 *)
  regf "pairwise_distance" (fun a -> match a with
    | [x; y] -> let x = fa_of x and y = fa_of y in
        let r = Array.length x.sh in let n = x.sh.(r - 1) in
        let sh = Array.sub x.sh 0 (r - 1) in
        oracle (show_fa (build sh (fun i ->
          let s = ref 0.0 in
          for t = 0 to n - 1 do let j = Array.append i [| t |] in
            let d = get x j -. get y j +. 1e-6 in s := !s +. d *. d done;
          sqrt !s)))
    | _ -> failwith "pairwise_distance");
  (* sum_k x*y / (max(||x||,eps) * max(||y||,eps)) along axis, eps = 1e-8 *)
  regf "cosine_similarity" (fun a -> match a with
    | [x; y; ax] -> let x = fa_of x and y = fa_of y and ax = int_of_z (getI ax) in
        let r = Array.length x.sh in let n = x.sh.(ax) in
        let sh = Array.init (r - 1) (fun t -> if t < ax then x.sh.(t) else x.sh.(t + 1)) in
        oracle (show_fa (build sh (fun i ->
          let full t = Array.init r (fun u -> if u < ax then i.(u) else if u = ax then t else i.(u - 1)) in
          let dot = ref 0.0 and nx = ref 0.0 and ny = ref 0.0 in
          for t = 0 to n - 1 do let a = get x (full t) and b = get y (full t) in
            dot := !dot +. a *. b; nx := !nx +. a *. a; ny := !ny +. b *. b done;
          !dot /. (Float.max (sqrt !nx) 1e-8 *. Float.max (sqrt !ny) 1e-8))))
    | _ -> failwith "cosine_similarity")

(* ------------------------------------------------------------------ scalar parameters of the float routines (oracle)
   "<op>_p": every array is  I:e A:ints  =  ints / 8 * 2^-e  (exact), the epsilon is a decimal literal (S:<eps>) or
   S:default (the header's default, a float literal: 1e-8f cosine_similarity, 1e-6f pairwise_distance, 1e-5f norms).
   The "32" variants receive the epsilon rounded to single precision (the driver passes a float).  References are the
   documented PyTorch formulas, in double:
     cosine_similarity  x.y / (max(|x|, eps) * max(|y|, eps))        (each norm clamped separately)
     pairwise_distance  (sum_k |x_k - y_k + eps|^p)^(1/p) over the last axis, keepdim optional
     batch_norm         (x - mean[c]) / sqrt(var[c] + eps) * w[c] + b[c]
     layer / instance / group norm   (x - E[x]) / sqrt(Var[x] + eps) * w + b   (biased variance over the statistics set) *)
let to_single x = Int32.float_of_bits (Int32.bits_of_float x)
let fa_scaled e arg = let (s, d) = getA arg in let e = int_of_z (getI e) in
  { sh = Array.of_list (List.map int_of_z s); d = Array.of_list (List.map (fun z -> Float.ldexp (fl z /. 8.0) (- e)) d) }
let eps_of is32 dflt arg =
  let s = getS arg in
  if s = "default" then to_single dflt else let v = float_of_string s in if is32 then to_single v else v

let regp name tag f =
  register name (fun a -> oracle (f false a));
  register (name ^ "32") (fun a -> let s = tag ^ f true a in { model = s; spec = s; dom = false })

let norm_out x eps same wb =
  build x.sh (fun i -> let (mean, var) = stats x i same in let (w, b) = wb i in
    (get x i -. mean) /. sqrt (var +. eps) *. w +. b)

let () =
  regp "cosine_similarity_p" "f32 " (fun is32 a -> match a with
    | [e1; x; e2; y; ax; eps] ->
        let x = fa_scaled e1 x and y = fa_scaled e2 y in
        let ax = (match ax with N -> 1 | _ -> int_of_z (getI ax)) and eps = eps_of is32 1e-8 eps in
        let r = Array.length x.sh in let ax = if ax < 0 then ax + r else ax in let n = x.sh.(ax) in
        let sh = Array.init (r - 1) (fun t -> if t < ax then x.sh.(t) else x.sh.(t + 1)) in
        show_fa (build sh (fun i ->
          let full t = Array.init r (fun u -> if u < ax then i.(u) else if u = ax then t else i.(u - 1)) in
          let dot = ref 0.0 and nx = ref 0.0 and ny = ref 0.0 in
          for t = 0 to n - 1 do let p = get x (full t) and q = get y (full t) in
            dot := !dot +. p *. q; nx := !nx +. p *. p; ny := !ny +. q *. q done;
          !dot /. (Float.max (sqrt !nx) eps *. Float.max (sqrt !ny) eps)))
    | _ -> failwith "cosine_similarity_p");
  regp "pairwise_distance_p" "f32r " (fun is32 a -> match a with
    | [e1; x; e2; y; ord; eps; keep] ->
        let x = fa_scaled e1 x and y = fa_scaled e2 y in
        let dflt = getS eps = "default" in
        let p = if dflt then 2 else int_of_z (getI ord) and keep = (not dflt) && int_of_z (getI keep) <> 0 in
        let eps = eps_of is32 1e-6 eps in
        let r = Array.length x.sh in let n = x.sh.(r - 1) in
        let sh = if keep then Array.append (Array.sub x.sh 0 (r - 1)) [| 1 |] else Array.sub x.sh 0 (r - 1) in
        show_fa (build sh (fun i ->
          let s = ref 0.0 in
          for t = 0 to n - 1 do let j = Array.append (Array.sub i 0 (r - 1)) [| t |] in
            let d = Float.abs (get x j -. get y j +. eps) in
            s := !s +. (match p with 1 -> d | 2 -> d *. d | _ -> d *. d *. d) done;
          (match p with 1 -> !s | 2 -> sqrt !s | _ -> Float.cbrt !s)))
    | _ -> failwith "pairwise_distance_p");
  regp "batch_norm_p" "f32 " (fun is32 a -> match a with
    | [ex; x; em; m; ev; v; ew; w; eb; b; eps] ->
        let x = fa_scaled ex x and m = fa_scaled em m and v = fa_scaled ev v and w = fa_scaled ew w and b = fa_scaled eb b in
        let eps = eps_of is32 1e-5 eps in let r = Array.length x.sh in
        show_fa (build x.sh (fun i -> let c = i.(r - 3) in
          (get x i -. m.d.(c)) /. sqrt (v.d.(c) +. eps) *. w.d.(c) +. b.d.(c)))
    | _ -> failwith "batch_norm_p");
  regp "layer_norm_p" "f32 " (fun is32 a -> match a with
    | [ex; x; ew; w; eb; b; eps] ->
        let x = fa_scaled ex x and w = fa_scaled ew w and b = fa_scaled eb b in let eps = eps_of is32 1e-5 eps in
        let r = Array.length x.sh and k = Array.length w.sh in
        let same p q = (let ok = ref true in for t = 0 to r - k - 1 do if p.(t) <> q.(t) then ok := false done; !ok) in
        show_fa (norm_out x eps same (fun i -> let wi = Array.sub i (r - k) k in (get w wi, get b wi)))
    | _ -> failwith "layer_norm_p");
  regp "instance_norm_p" "f32 " (fun is32 a -> match a with
    | [kind; ex; x; ew; w; eb; b; eps] ->
        let kind = getS kind in let nd = Char.code kind.[if kind.[0] = 'g' then 1 else 0] - 48 in
        let x = fa_scaled ex x and w = fa_scaled ew w and b = fa_scaled eb b in let eps = eps_of is32 1e-5 eps in
        let r = Array.length x.sh in
        let same p q = (let ok = ref true in for t = 0 to r - nd - 1 do if p.(t) <> q.(t) then ok := false done; !ok) in
        show_fa (norm_out x eps same (fun i -> let c = i.(r - nd - 1) in (w.d.(c), b.d.(c))))
    | _ -> failwith "instance_norm_p");
  regp "group_norm_p" "f32 " (fun is32 a -> match a with
    | [ex; x; g; ew; w; eb; b; eps] ->
        let x = fa_scaled ex x and w = fa_scaled ew w and b = fa_scaled eb b in let eps = eps_of is32 1e-5 eps in
        let g = int_of_z (getI g) in let cg = x.sh.(1) / g in
        let same p q = p.(0) = q.(0) && p.(1) / cg = q.(1) / cg in
        show_fa (norm_out x eps same (fun i -> (w.d.(i.(1)), b.d.(i.(1)))))
    | _ -> failwith "group_norm_p")
