(* h_c15.ml — C15 handlers: accept / reject / trap status of the model (Accept.st_X) and NumPy's
   acceptance (Accept.np_X_ok and the Specs of Views / Select / Linalg) per case.
   Printed as "ok" | "nothing" | "trap".  dom = the hypotheses of the corresponding C15_*_iff theorem. *)
open BinNums
open Datatypes
open Base
open Accept
open Common
module List = Stdlib.List
module String = Stdlib.String

let show_status = function SAccept -> "ok" | SReject -> "nothing" | STrap -> "trap"
let np b = if b then "ok" else "nothing"
let zlen_i l = z_of_int (List.length l)
let shape_of a = fst (getA a)
let axis_ok a n = np_axis_ok a n
let norm a n = if Z.ltb a Z0 then Z.add a n else a
let rec nodup = function [] -> true | x :: t -> not (List.mem x t) && nodup t
let r model spec dom = { model = model; spec = spec; dom = dom }
let nat_of_int = Common.nat_of_int

let () =
  register "bshape" (fun a -> match a with [x; y] -> let x = getL x and y = getL y in
      r (show_status (st_broadcast_shape x y)) (np (np_broadcast_ok x y)) (posb x && posb y) | _ -> failwith "bshape");
  register "badd" (fun a -> match a with [x; y] -> let x = shape_of x and y = shape_of y in
      r (show_status (st_broadcast_shape x y)) (np (np_broadcast_ok x y)) (posb x && posb y) | _ -> failwith "badd");
  register "bto" (fun a -> match a with [x; y] -> let x = shape_of x and y = getL y in
      r (show_status (st_broadcast_to x y)) (np (np_broadcast_to_ok x y)) true | _ -> failwith "bto");
  register "norm_axis" (fun a -> match a with [x; n] ->
      r (show_status (st_normalize_axis (getI x) (getI n))) (np (np_axis_ok (getI x) (getI n))) true | _ -> failwith "norm_axis");
  register "norm_axes" (fun a -> match a with [x; n] -> let ok = List.for_all (fun v -> axis_ok v (getI n)) (getL x) in
      r (np ok) (np ok) false | _ -> failwith "norm_axes");
  register "reshape" (fun a -> match a with [x; d] -> let s = shape_of x and d = getL d in
      r (show_status (st_reshape s d)) (np (np_reshape_ok s d)) (posb s && d <> []) | _ -> failwith "reshape");
  register "transpose" (fun a -> match a with [x; p] -> let s = shape_of x and p = getL p in
      r (show_status (st_transpose p s)) (np (Views.np_transpose_ok (nat_of_int (List.length s)) (Some p))) false | _ -> failwith "transpose");
  register "transpose_u" (fun a -> match a with [x; p] -> let s = shape_of x and p = getL p in
      r (show_status (st_transpose p s)) (np (Views.np_transpose_ok (nat_of_int (List.length s)) (Some p))) false | _ -> failwith "transpose_u");
  register "swapaxes" (fun a -> match a with [x; a1; a2] -> let s = shape_of x in
      r (show_status (st_swapaxes (getI a1) (getI a2) s)) (np (Views.np_swapaxes_ok (nat_of_int (List.length s)) (getI a1) (getI a2))) false
    | _ -> failwith "swapaxes");
  register "moveaxis" (fun a -> match a with [x; a1; a2] -> let s = shape_of x in
      let ok = Views.np_moveaxis_ok (nat_of_int (List.length s)) (Views.AxOne (getI a1)) (Views.AxOne (getI a2)) in
      r (np ok) (np ok) false | _ -> failwith "moveaxis");
  register "norm_axis_u" (fun a -> match a with [x; n] ->
      r (show_status (st_normalize_axis (getI x) (getI n))) (np (np_axis_ok (getI x) (getI n))) true | _ -> failwith "norm_axis_u");
  register "norm_axes_u" (fun a -> match a with [x; n] -> let ok = List.for_all (fun v -> axis_ok v (getI n)) (getL x) in
      r (np ok) (np ok) false | _ -> failwith "norm_axes_u");
  register "norm_axes_u8" (fun a -> match a with [x; n] -> let ok = List.for_all (fun v -> axis_ok v (getI n)) (getL x) in
      r (np ok) (np ok) false | _ -> failwith "norm_axes_u8");
  register "norm_axes_ua" (fun a -> match a with [x; n] -> let ok = List.for_all (fun v -> axis_ok v (getI n)) (getL x) in
      r (np ok) (np ok) false | _ -> failwith "norm_axes_ua");
  register "moveaxis_u" (fun a -> match a with [x; a1; a2] -> let s = shape_of x in
      let ok = Views.np_moveaxis_ok (nat_of_int (List.length s)) (Views.AxOne (getI a1)) (Views.AxOne (getI a2)) in
      r (np ok) (np ok) false | _ -> failwith "moveaxis_u");
  register "expand_dims" (fun a -> match a with [x; ax] -> let s = shape_of x in
      r (show_status (st_expand_dims (getI ax) s)) (np (Views.np_expand_dims_ok (nat_of_int (List.length s)) (Views.AxOne (getI ax)))) false
    | _ -> failwith "expand_dims");
  register "concat" (fun a -> match a with [x; y; ax] -> let s = shape_of x and t = shape_of y in
      r (show_status (st_concat_shape s t (getI ax))) (np (np_concat_ok s t (getI ax))) false | _ -> failwith "concat");
  register "matmul" (fun a -> match a with [x; y] -> let s = shape_of x and t = shape_of y in
      r (show_status (st_matmul_shape s t)) (np (np_matmul_ok s t)) false | _ -> failwith "matmul");
  register "pad" (fun a -> match a with [x; w] -> let s = shape_of x and w = getL w in
      r (show_status (st_pad s w)) (np (np_pad_ok s w)) false | _ -> failwith "pad");
  register "roll" (fun a -> match a with [x; _; ax] -> let s = shape_of x in
      r (show_status (st_roll s (getI ax))) (np (axis_ok (getI ax) (zlen_i s))) false | _ -> failwith "roll");
  register "tile" (fun a -> match a with [_; reps] -> let reps = getL reps in
      if List.exists (fun v -> v = Z0) reps && not (List.exists (fun v -> Z.ltb v Z0) reps) then r "unspecified" "unspecified" false
      else let ok = List.for_all (fun v -> Z.ltb Z0 v) reps in r (np ok) (np ok) false | _ -> failwith "tile");
  register "repeat" (fun a -> match a with [x; rp; ax] -> let s = shape_of x in
      if getI rp = Z0 then r "unspecified" "unspecified" false
      else r (show_status (st_repeat s (getI rp) (getI ax))) (np (np_repeat_ok s (getI rp) (getI ax))) false | _ -> failwith "repeat");
  register "resize" (fun a -> match a with [x; d] -> let s = shape_of x and d = getL d in
      r (show_status (st_resize s d)) (np (is_some (Select.doc_resize_shape s d))) false | _ -> failwith "resize");
  register "sum" (fun a -> match a with [x; ax] -> let ok = axis_ok (getI ax) (zlen_i (shape_of x)) in r (np ok) (np ok) false | _ -> failwith "sum");
  register "sums" (fun a -> match a with [x; ax] -> let n = zlen_i (shape_of x) and l = getL ax in
      let ok = List.for_all (fun v -> axis_ok v n) l && nodup (List.map (fun v -> norm v n) l) in r (np ok) (np ok) false | _ -> failwith "sums");
  register "sums_u" (fun a -> match a with [x; ax] -> let n = zlen_i (shape_of x) and l = getL ax in
      let ok = List.for_all (fun v -> axis_ok v n) l && nodup (List.map (fun v -> norm v n) l) in r (np ok) (np ok) false | _ -> failwith "sums_u");
  register "flip" (fun a -> match a with [x; ax] -> let ok = axis_ok (getI ax) (zlen_i (shape_of x)) in r "ok" (np ok) false | _ -> failwith "flip");
  register "take" (fun a -> match a with [x; ind; ax] -> let s = shape_of x in let n = zlen_i s in
      let ok = axis_ok (getI ax) n &&
               (let e = List.nth s (int_of_z (norm (getI ax) n)) in List.for_all (fun v -> axis_ok v e) (getL ind)) in
      r (np ok) (np ok) false | _ -> failwith "take");
  register "atleast_nd" (fun a -> match a with [_; nd] -> let ok = not (Z.ltb (getI nd) Z0) in r (np ok) (np ok) false | _ -> failwith "atleast_nd");
  (* pipelines: reshape(a,dst) then k-dependent further stages; Nothing iff some stage is invalid *)
  register "pipe" (fun a -> match a with [x; k; dst; y] ->
      let s = shape_of x and dst = getL dst and t = shape_of y and k = int_of_z (getI k) in
      let st1 = Views.np_reshape_shape s dst in
      let ok = (match st1 with
        | None -> false
        | Some d ->
            let tr = List.rev d in
            (match k with
             | 0 | 1 | 2 -> true
             | 3 | 5 | 6 | 7 -> np_broadcast_ok d t
             | 4 -> np_broadcast_ok tr t
             | _ -> true)) in
      r (np ok) (np ok) (posb s && dst <> [])
    | _ -> failwith "pipe");
  (* a checked stage followed by a second checked indexing stage: Nothing iff either stage is invalid *)
  register "pipe3" (fun a -> match a with [x; k; d1; d2] ->
      let s = shape_of x and d1 = getL d1 and d2 = getL d2 and k = int_of_z (getI k) in
      let ok = (match Views.np_reshape_shape s d1 with
        | None -> false
        | Some m ->
            (match k with
             | 0 | 1 | 4 | 5 -> Views.np_reshape_shape m d2 <> None
             | 2 -> posb d2 && Broadcast.np_broadcast_to_shape m d2 <> None
             | 3 -> Views.np_reshape_shape (List.rev m) d2 <> None
             | _ -> true)) in
      (* broadcast_to with a zero or negative target extent: its own validation is not C15's pipeline subject (the bto cases use positive targets) *)
      if k = 2 && not (posb d2) then r "unspecified" "unspecified" false else r (np ok) (np ok) false
    | _ -> failwith "pipe3");
  (* two possibly-empty stage results (reshapes of the same array) as both operands of a binary view *)
  register "pipe2" (fun a -> match a with [x; k; da; db] ->
      let s = shape_of x and da = getL da and db = getL db and k = int_of_z (getI k) in
      let ok = (match Views.np_reshape_shape s da, Views.np_reshape_shape s db with
        | Some sa, Some sb ->
            (match k with
             | 0 | 1 | 5 -> np_matmul_ok sa sb && List.length sa >= 2 && List.length sb >= 2
             | 2 -> np_concat_ok sa sb Z0
             | 3 -> np_broadcast_ok sb sa
             | 4 -> List.length sa >= 2 && List.length sb >= 2 && np_matmul_ok (List.rev sb) (List.rev sa)
             | _ -> true)
        | _, _ -> false) in
      (* matmul with a 1-d operand (0-d / promoted results) is C16's matmul_1d_operand finding, outside this check *)
      let one_d = (match Views.np_reshape_shape s da, Views.np_reshape_shape s db with
        | Some sa, Some sb -> (k = 0 || k = 1 || k = 4 || k = 5) && (List.length sa < 2 || List.length sb < 2)
        | _, _ -> false) in
      (* both stage results present but the outer view's own arguments invalid: that is the missing validation of matmul /
         concatenate judged by the "matmul" / "concat" cases; here only the propagation of an EMPTY stage result is judged *)
      let both_present_invalid = (match Views.np_reshape_shape s da, Views.np_reshape_shape s db with
        | Some _, Some _ -> not ok | _, _ -> false) in
      if one_d || both_present_invalid then r "unspecified" "unspecified" false else r (np ok) (np ok) false
    | _ -> failwith "pipe2")
