(* common.ml — shared part of the hand-written (trusted) runner of the extracted Coq Model and Spec.
   Reads the same case lines as the C++ drivers (see drivers/common.hpp) and
   prints, per case, three TAB separated fields:
     <model result> TAB <spec result> TAB <in-domain flag 0/1>
   where "model" is the faithful image of the C++ and "spec" is the property's
   reference definition; the domain flag is the boolean hypothesis of the
   theorem relating the two. *)
open BinNums
open Datatypes
open Base
module Z = BinInt.Z
(* the extraction emits modules called List/Bool/Nat; the OCaml ones are reached through Stdlib *)
module List = Stdlib.List
module String = Stdlib.String

(* ---------- Z <-> OCaml ---------- *)
let rec pos_of_int n = if n = 1 then Coq_xH else if n land 1 = 0 then Coq_xO (pos_of_int (n lsr 1)) else Coq_xI (pos_of_int (n lsr 1))
let z_of_int n = if n = 0 then Z0 else if n > 0 then Zpos (pos_of_int n) else Zneg (pos_of_int (-n))
let rec int_of_pos = function Coq_xH -> 1 | Coq_xO p -> 2 * int_of_pos p | Coq_xI p -> 2 * int_of_pos p + 1
let int_of_z = function Z0 -> 0 | Zpos p -> int_of_pos p | Zneg p -> - (int_of_pos p)
let z10 = z_of_int 10
let z_of_string s =
  let n = String.length s in
  if n <= 17 then z_of_int (int_of_string s) else begin
    let neg = s.[0] = '-' in
    let acc = ref Z0 in
    String.iteri (fun i c -> if not (i = 0 && neg) then
      acc := Z.add (Z.mul !acc z10) (z_of_int (Char.code c - 48))) s;
    if neg then Z.opp !acc else !acc end
let rec pos_bits = function Coq_xH -> 1 | Coq_xO p | Coq_xI p -> 1 + pos_bits p
let string_of_z z =
  let small = match z with Z0 -> true | Zpos p | Zneg p -> pos_bits p <= 61 in
  if small then string_of_int (int_of_z z) else begin
    let neg = (match z with Zneg _ -> true | _ -> false) in
    let a = ref (Z.abs z) and buf = Buffer.create 24 and digits = ref [] in
    while !a <> Z0 do
      let (q, r) = Z.div_eucl !a z10 in digits := int_of_z r :: !digits; a := q done;
    if neg then Buffer.add_char buf '-';
    List.iter (fun d -> Buffer.add_char buf (Char.chr (48 + d))) !digits;
    Buffer.contents buf end
let rec nat_of_int n = if n <= 0 then O else S (nat_of_int (n - 1))
let rec int_of_nat = function O -> 0 | S n -> 1 + int_of_nat n

(* ---------- arguments ---------- *)
type arg = L of coq_Z list | I of coq_Z | N | A of coq_Z list * coq_Z list | Str of string
let split_on c s = if s = "" then [] else String.split_on_char c s
let parse_list s = List.map z_of_string (split_on ',' s)
let parse_arg t =
  if t = "N" then N
  else if String.length t >= 2 && t.[1] = ':' then begin
    let body = String.sub t 2 (String.length t - 2) in
    match t.[0] with
    | 'L' -> L (parse_list body)
    | 'I' -> I (z_of_string body)
    | 'A' -> (match String.index_opt body ':' with
              | Some c -> A (parse_list (String.sub body 0 c), parse_list (String.sub body (c+1) (String.length body - c - 1)))
              | None -> Str body)
    | _ -> Str body end
  else Str t

let show_list l = String.concat "," (List.map string_of_z l)
let ok_list l = "ok " ^ show_list l
let ok_z z = "ok " ^ string_of_z z
let show_arr shape elems = "ok " ^ show_list shape ^ " ;" ^ (if elems = [] then "" else " " ^ show_list elems)
let getA = function A (s, d) -> (s, d) | _ -> failwith "expected array"
let show_opt f = function Some x -> f x | None -> "nothing"
let getL = function L l -> l | _ -> failwith "expected list"
let getI = function I z -> z | _ -> failwith "expected int"
let getS = function Str s -> s | _ -> failwith "expected string"

(* result of a handler *)
type res = { model : string; spec : string; dom : bool }
let both s d = { model = s; spec = s; dom = d }

let handlers : (string, arg list -> res) Hashtbl.t = Hashtbl.create 64
let register name f = Hashtbl.replace handlers name f

let z64 = z_of_int 64
let z32 = z_of_int 32
let pow2 w = Z.pow (z_of_int 2) w
let zlt a b = Z.ltb a b


(* ---------- main loop ---------- *)
let run () =
  try
    while true do
      let line = input_line stdin in
      if line = "" || line.[0] = '#' then print_endline "skip\tskip\t0"
      else begin
        let toks = List.filter (fun s -> s <> "") (String.split_on_char ' ' line) in
        match toks with
        | [] -> print_endline "skip\tskip\t0"
        | op :: args ->
          let r = (try
              let h = Hashtbl.find handlers op in h (List.map parse_arg args)
            with Not_found -> { model = "unmodelled"; spec = "unmodelled"; dom = false }
               | Failure m -> { model = "model-error " ^ m; spec = "model-error"; dom = false }
               | Invalid_argument m -> { model = "model-error " ^ m; spec = "model-error"; dom = false }) in
          print_string r.model; print_char '\t'; print_string r.spec; print_char '\t';
          print_endline (if r.dom then "1" else "0")
      end
    done
  with End_of_file -> ()
