#!/bin/sh
# build.sh <extract-dir> : extract the Coq model and build the OCaml runner <extract-dir>/model
set -e
D="$1"; mkdir -p "$D"; cd "$D"
rm -f *.ml *.mli *.cm* *.o model
coqc -Q /verif/coq/theories NM /verif/coq/extract/Extract.v -o "$D/Extract.vo" >extract.log 2>&1 || { cat extract.log; exit 1; }
cp /verif/ocaml/driver.ml .
ORDER=$(ocamlfind ocamldep -sort *.mli *.ml)
ocamlfind ocamlopt -O3 -w -a $ORDER -o model 2>build.log || { cat build.log; exit 1; }
