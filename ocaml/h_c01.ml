(* h_c01.ml — C01 handlers: model (Index.*_w / layout_offset) vs spec (strides / horner / lex_enum) *)
open BinNums
open Datatypes
open Base
open Index
open Common
module List = Stdlib.List
module String = Stdlib.String
(* ---------- C01 ---------- *)
(* width of the element type behind a container kind tag *)
let kind_width k = if k = "veci" || k = "arri" then z32 else z64
let () =
  register "strides" (fun a -> match a with
    | [k; s] -> let s = getL s and w = kind_width (getS k) in
        { model = ok_list (compute_strides_w w s); spec = ok_list (strides s);
          dom = posb s && zlt (prod s) (pow2 w) }
    | _ -> failwith "strides");
  register "product" (fun a -> match a with
    | [k; s] -> let s = getL s and w = kind_width (getS k) in
        (* signed 32-bit element types overflow is UB; domain keeps below 2^31 *)
        let lim = if w = z32 then pow2 (z_of_int 31) else pow2 w in
        { model = ok_z (product_w w s); spec = ok_z (prod s); dom = posb s && zlt (prod s) lim }
    | _ -> failwith "product");
  register "offset" (fun a -> match a with
    | [_; i; st] -> let i = getL i and st = getL st in
        (* spec: plain dot product; domain: equal lengths, no 64-bit wrap *)
        let dot = List.fold_left2 (fun acc x y -> Z.add acc (Z.mul x y)) Z0 i st in
        { model = ok_z (compute_offset_w z64 i st); spec = ok_z dot;
          dom = zlt dot (pow2 z64) && not (zlt dot Z0) }
    | _ -> failwith "offset");
  register "indices" (fun a -> match a with
    | [_; k; s] -> let k = getI k and s = getL s in
        let m = compute_indices k s in
        (* spec (stride- and division-free): the unique in-bounds index whose Horner rank is k *)
        let sp = if inbb m s && horner Z0 m s = k then ok_list m else "spec-mismatch" in
        { model = ok_list m; spec = sp;
          dom = posb s && not (zlt k Z0) && zlt k (prod s) && zlt (prod s) (pow2 z64) }
    | _ -> failwith "indices");
  register "roundtrip" (fun a -> match a with
    | [_; k; s] -> let k = getI k and s = getL s in
        { model = ok_z (compute_offset (compute_indices k s) (compute_strides s)); spec = ok_z k;
          dom = posb s && not (zlt k Z0) && zlt k (prod s) && zlt (prod s) (pow2 z64) }
    | _ -> failwith "roundtrip");
  register "ndenum" (fun a -> match a with
    | [_; s] -> let s = getL s in
        let show ll = "ok " ^ String.concat " ; " (List.map show_list ll) in
        { model = show (List.map (ndindex s) (zrange (ndindex_size s))); spec = show (lex_enum s); dom = posb s }
    | _ -> failwith "ndenum");
  let lay a = match getS a with "row" -> RowMajor | "col" -> ColMajor | _ -> failwith "layout" in
  (* reference for a layout offset without strides: Horner rank, of the reversed index for column-major *)
  let spec_off l s i = match l with RowMajor -> horner Z0 i s | ColMajor -> horner Z0 (List.rev i) (List.rev s) in
  register "aget" (fun a -> match a with
    | [l; s; i] -> let l = lay l and s = getL s and i = getL i in
        { model = ok_z (layout_offset l s i); spec = ok_z (spec_off l s i); dom = posb s && inbb i s }
    | _ -> failwith "aget");
  register "asetget" (fun a -> match a with
    | [l; s; i] -> let l = lay l and s = getL s and i = getL i in
        { model = "ok " ^ string_of_z (layout_offset l s i); spec = "ok " ^ string_of_z (spec_off l s i); dom = posb s && inbb i s }
    | _ -> failwith "asetget");
  register "aenum" (fun a -> match a with
    | [l; s] -> let l = lay l and s = getL s in
        let show f = "ok" ^ String.concat "" (List.map (fun i -> " " ^ string_of_z (f i)) (lex_enum s)) in
        { model = show (layout_offset l s); spec = show (spec_off l s); dom = posb s }
    | _ -> failwith "aenum");
  register "ameta" (fun a -> match a with
    | [_; s] -> let s = getL s in
        let r = "ok " ^ show_list s ^ " ; " ^ show_list (compute_strides s) ^ " ; " ^ string_of_z (product s) in
        { model = r; spec = "ok " ^ show_list s ^ " ; " ^ show_list (strides s) ^ " ; " ^ string_of_z (prod s); dom = posb s }
    | _ -> failwith "ameta")

