(* h_c13.ml — C13 handlers: Kernel model (launch = fold of assign_result over the schedule) vs the
   property's reference (cell by cell: final where covered, untouched elsewhere). *)
open BinNums
open Datatypes
open Base
open Index
open Kernel
open Common
module List = Stdlib.List
module String = Stdlib.String

let sentinel = z_of_int (-999)
let zlen l = z_of_int (List.length l)
let rec zprod = function [] -> 1 | x :: t -> int_of_z x * zprod t

let show_cells shape cells = show_arr shape cells
let dash_join l = String.concat "," l

let () =
  register "kern" (fun a -> match a with
    | _comp :: _style :: _a :: _b :: r :: bsz :: tids :: bids :: rest ->
        (* element type of the case: f64 elements travel as their 64-bit patterns (exact) and are shown with %.17g, which is
           round-trip exact: string equality = bit equality; the model moves them around as opaque values *)
        let dtype = (match rest with [_; Str d] -> d | _ -> "i64") in
        let f64 = dtype = "f64" in
        let show_elem z = if f64 then Printf.sprintf "%.17g" (Int64.float_of_bits (Int64.of_string (string_of_z z))) else string_of_z z in
        let sentinel = if f64 then z_of_string (Int64.to_string (Int64.bits_of_float (-999.0))) else sentinel in
        let show_cells shape cells = "ok " ^ show_list shape ^ " ;" ^ (if cells = [] then "" else " " ^ String.concat "," (List.map show_elem cells)) in
        let show_arr = show_cells in
        let (rshape, rdata) = getA r and bsz = getI bsz and tids = getL tids and bids = getL bids in
        let n = zprod rshape in
        let sched = List.combine tids bids in
        let out0 = List.init n (fun _ -> sentinel) in
        let host = "host " ^ show_arr rshape rdata in
        (* model *)
        let mk = (match launch rdata bsz sched out0 with
                  | Some o -> "kernel " ^ show_cells rshape o
                  | None -> "kernel ub") in
        let mw = dash_join (List.map (fun t -> match thread_write bsz (z_of_int n) t with
                                                 | Some k -> string_of_z k | None -> "-") sched) in
        (* spec: written without the model's fold: per cell, was a thread with this global id scheduled? *)
        let ids = List.map (fun (t, b) -> int_of_z b * int_of_z bsz + int_of_z t) sched in
        let sk = "kernel " ^ show_cells rshape
                   (List.init n (fun k -> if List.mem k ids then List.nth rdata k else sentinel)) in
        let sw = dash_join (List.map (fun k -> if k < n then string_of_int k else "-") ids) in
        let dom = List.length rdata = n && int_of_z bsz >= 1
                  && List.for_all (fun z -> int_of_z z >= 0) (tids @ bids) in
        (* the Coq Spec (cells_spec) must say the same as the OCaml reference above: checked here on every case *)
        let cs = cells_spec rdata bsz sched out0 in
        let cs_str = "kernel " ^ show_cells rshape (List.map (function Some v -> v | None -> z_of_int (-1)) cs) in
        if dom && cs_str <> sk then failwith "cells_spec differs from the handler's reference";
        { model = host ^ " | " ^ mk ^ " | guard ok | writes " ^ mw;
          spec  = host ^ " | " ^ sk ^ " | guard ok | writes " ^ sw; dom }
    | _ -> failwith "kern");
  register "rebuild" (fun a -> match a with
    | [x] -> let (shape, data) = getA x in
        let dim = zlen shape in
        let (s, el) = create_array_elems data (shape @ [z_of_int 77]) dim in
        let m = (if List.for_all (fun e -> e <> None) el
                 then show_arr s (List.map (function Some v -> v | None -> Z0) el) else "ub out-of-range read") in
        let sp = show_arr shape data in
        { model = m ^ " | " ^ m; spec = sp ^ " | " ^ sp; dom = posb shape && List.length data = zprod shape }
    | _ -> failwith "rebuild");
  register "offset" (fun a -> match a with
    | [t; b; s] -> let t = getI t and b = getI b and s = getI s in
        { model = ok_z (thread_offset t b s); spec = "ok " ^ string_of_int (int_of_z b * int_of_z s + int_of_z t);
          dom = List.for_all (fun z -> int_of_z z >= 0) [t; b; s] }
    | _ -> failwith "offset")
