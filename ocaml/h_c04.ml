(* h_c04.ml — C04 handlers: Select model (image of the C++) vs the NumPy / documented Spec.
   A view case prints "ok <shape> ; <elements>"; elements of the source are its row-major data
   (the generators send iota, so an element identifies the source position it was copied from). *)
open BinNums
open Datatypes
open Base
open Index
open Select
open Common
module List = Stdlib.List
module String = Stdlib.String

exception Oob
let zi = z_of_int
let iz = int_of_z
let fillv = zi (-1)
let posl l = List.for_all (fun x -> Z.leb (zi 1) x) l
let len l = zi (List.length l)

(* element of (shape, row-major data) at multi-index i; out of bounds = what the C++ turns into an exception / UB *)
let get shape data i =
  if inbb i shape then List.nth data (iz (horner Z0 i shape)) else raise Oob
let getflat data k =
  let n = List.length data in let k = iz k in if k >= 0 && k < n then List.nth data k else raise Oob
let build dst f =
  if List.exists (fun x -> Z.ltb (zi 100000) x) dst then "trap huge-result" else
  try show_arr dst (List.map f (lex_enum dst)) with Oob -> "trap oob"
let build_o dsto f = match dsto with Some d -> build d f | None -> "unspecified"
let outcome_view o f = match o with Val d -> build d f | Nothing -> "nothing" | Trap -> "trap"
let sel s d i = get s d i
let opt_or_fill s d = function Some j -> get s d j | None -> fillv
let idx_str l = show_list l
let some_or_unspec = function Some x -> x | None -> raise Not_found
let spec_build dsto f = match dsto with
  | None -> "unspecified"
  | Some d -> (try build d f with Not_found -> "unspecified")
let r3 m s d = { model = m; spec = s; dom = d }
let axis_arg = function N -> None | I a -> Some a | _ -> failwith "axis"
let in_axis a d = Z.leb Z0 a && Z.ltb a d
let nodup l = List.length (List.sort_uniq compare (List.map iz l)) = List.length l
let norm_ax d a = if Z.ltb a Z0 then Z.add a d else a

(* ------------------------------------------------------------------ tile *)
let tile_case s d reps =
  let m = build (shape_tile s reps) (fun i -> sel s d (tile_index s i)) in
  let sp = build (np_tile_shape s reps) (fun i -> sel s d (np_tile_index s i)) in
  r3 m sp (posl s && posl reps)

(* ------------------------------------------------------------------ repeat *)
let repeat_case s d r ax =
  match ax with
  | None ->
    let m = build (shape_repeat_none s r) (fun i -> sel s d (repeat_none_index s r i)) in
    let sp = build (np_repeat_none_shape s r) (fun i -> getflat d (np_repeat_none_flat r (List.hd i))) in
    r3 m sp (posl s && Z.leb (zi 1) r)
  | Some a ->
    let m = outcome_view (shape_repeat_axis s r a) (fun i -> sel s d (repeat_axis_index i r a)) in
    let sp = spec_build (np_repeat_axis_shape s r a) (fun i -> sel s d (some_or_unspec (np_repeat_axis_index i r a))) in
    r3 m sp (posl s && Z.leb (zi 1) r && in_axis a (len s))
let repeat_list_case s d reps a =
  let m = outcome_view (shape_repeat_list s reps a) (fun i -> sel s d (repeat_list_index i reps a)) in
  let sp = if List.exists (fun x -> Z.ltb x Z0) reps then "unspecified" else
    spec_build (np_repeat_list_shape s reps a) (fun i -> sel s d (some_or_unspec (np_repeat_list_index i reps a))) in
  r3 m sp (posl s && in_axis a (len s))

(* ------------------------------------------------------------------ roll *)
let roll_case s d shift ax =
  match ax with
  | None ->
    let m = build s (fun i -> sel s d (roll_none_index s i shift)) in
    let sp = build s (fun i -> getflat d (np_roll_none_flat s shift (horner Z0 i s))) in
    r3 m sp (posl s)
  | Some a ->
    let m = outcome_view (shape_roll_axis s a) (fun i -> sel s d (roll_axis_index s i shift a)) in
    let ok = Z.leb (Z.opp (len s)) a && Z.ltb a (len s) in
    let sp = if not ok then "unspecified" else build s (fun i -> sel s d (some_or_unspec (np_roll_axis_index s i shift a))) in
    r3 m sp (posl s && ok)
let roll_axes_case s d shifts axes =
  let m = outcome_view (shape_roll_axes s axes) (fun i -> sel s d (roll_axes_index s i shifts axes)) in
  let ok = List.for_all (fun a -> Z.leb (Z.opp (len s)) a && Z.ltb a (len s)) axes && List.length shifts = List.length axes in
  let sp = if not ok then "unspecified" else build s (fun i -> sel s d (some_or_unspec (np_roll_axes_index s i shifts axes))) in
  r3 m sp (posl s && ok && nodup (List.map (norm_ax (len s)) axes))

(* ------------------------------------------------------------------ pad *)
let pad_case s d w =
  let m = outcome_view (shape_pad s w) (fun i -> opt_or_fill s d (pad_index i s w)) in
  let sp = if List.exists (fun x -> Z.ltb x Z0) w then "unspecified" else
    spec_build (doc_pad_shape s w) (fun i -> opt_or_fill s d (doc_pad_index s w i)) in
  r3 m sp (posl s && List.length w = 2 * List.length s)

let ix_out shape idx = "ok " ^ show_list shape ^ " ; " ^ idx

let () =
  register "tile" (function [_; a; r] -> let (s, d) = getA a in tile_case s d (getL r) | _ -> failwith "tile");
  register "tile_e" (function [a; r] -> let (s, d) = getA a in tile_case s d (getL r) | _ -> failwith "tile_e");
  register "tile_ix" (function [_; s; r; i] -> let s = getL s and r = getL r and i = getL i in
      let dst = shape_tile s r in
      let ok = posl s && inbb i dst in
      r3 (ix_out dst (idx_str (tile_index s i)))
         (if ok then ix_out (np_tile_shape s r) (idx_str (np_tile_index s i)) else "unspecified") ok
    | _ -> failwith "tile_ix");
  register "repeat" (function [_; a; r; ax] -> let (s, d) = getA a in repeat_case s d (getI r) (axis_arg ax) | _ -> failwith "repeat");
  register "repeat_e" (function [a; r; ax] -> let (s, d) = getA a in repeat_case s d (getI r) (axis_arg ax) | _ -> failwith "repeat_e");
  register "repeat_l" (function [_; a; r; ax] -> let (s, d) = getA a in repeat_list_case s d (getL r) (getI ax) | _ -> failwith "repeat_l");
  register "repeat_ix" (function [_; s; i; r; ax] -> let s = getL s and i = getL i and r = getI r and a = getI ax in
      let m = (match shape_repeat_axis s r a with Val dst -> ix_out dst (idx_str (repeat_axis_index i r a)) | Nothing -> "nothing" | Trap -> "trap") in
      let ok = posl s && Z.leb (zi 1) r && in_axis a (len s) in
      let sp = (match np_repeat_axis_shape s r a, np_repeat_axis_index i r a with
                | Some dst, Some j when inbb i dst -> ix_out dst (idx_str j) | _ -> "unspecified") in
      r3 m sp (ok && sp <> "unspecified")
    | _ -> failwith "repeat_ix");
  register "roll" (function [_; a; sh; ax] -> let (s, d) = getA a in roll_case s d (getI sh) (axis_arg ax) | _ -> failwith "roll");
  register "roll_e" (function [a; sh; ax] -> let (s, d) = getA a in roll_case s d (getI sh) (axis_arg ax) | _ -> failwith "roll_e");
  register "roll_m" (function [_; a; sh; ax] -> let (s, d) = getA a in roll_axes_case s d (getL sh) (getL ax) | _ -> failwith "roll_m");
  register "roll_ms" (function [_; a; sh; ax] -> let (s, d) = getA a in let ax = getL ax in
      roll_axes_case s d (List.map (fun _ -> getI sh) ax) ax | _ -> failwith "roll_ms");
  register "roll_ix" (function [_; s; i; sh; ax] -> let s = getL s and i = getL i and sh = getI sh and a = getI ax in
      let m = (match shape_roll_axis s a with Val dst -> ix_out dst (idx_str (roll_axis_index s i sh a)) | Nothing -> "nothing" | Trap -> "trap") in
      let sp = (match np_roll_axis_index s i sh a with Some j when inbb i s -> ix_out s (idx_str j) | _ -> "unspecified") in
      r3 m sp (posl s && sp <> "unspecified")
    | _ -> failwith "roll_ix");
  register "pad" (function [_; a; w] -> let (s, d) = getA a in pad_case s d (getL w) | _ -> failwith "pad");
  register "pad_e" (function [a; w] -> let (s, d) = getA a in pad_case s d (getL w) | _ -> failwith "pad_e");
  register "pad_ix" (function [_; s; w; i] -> let s = getL s and w = getL w and i = getL i in
      let m = (match shape_pad s w with
               | Val dst -> ix_out dst (match pad_index i s w with Some j -> idx_str j | None -> "fill")
               | Nothing -> "nothing" | Trap -> "trap") in
      let sp = (match doc_pad_shape s w with
                | Some dst when inbb i dst -> ix_out dst (match doc_pad_index s w i with Some j -> idx_str j | None -> "fill")
                | _ -> "unspecified") in
      r3 m sp (posl s && sp <> "unspecified")
    | _ -> failwith "pad_ix")
