(* h_c04.ml — C04 handlers: Select model (image of the C++) vs the NumPy / documented Spec.
   A view case prints "ok <shape> ; <elements>"; elements of the source are its row-major data
   (the generators send iota, so an element identifies the source position it was copied from). *)
open BinNums
open Datatypes
open Base
open Index
open Select
open Common
module List = Stdlib.List
module String = Stdlib.String

exception Oob
let zi = z_of_int
let iz = int_of_z
let fill_ref = ref (zi (-1))      (* fill operand of pad / expand; the typed handlers set it to the converted fill value *)
let posl l = List.for_all (fun x -> Z.leb (zi 1) x) l
let len l = zi (List.length l)

(* element of (shape, row-major data) at multi-index i; out of bounds = what the C++ turns into an exception / UB *)
let get shape data i =
  if inbb i shape then List.nth data (iz (horner Z0 i shape)) else raise Oob
let getflat data k =
  let n = List.length data in let k = iz k in if k >= 0 && k < n then List.nth data k else raise Oob
let build dst f =
  if List.exists (fun x -> Z.ltb (zi 100000) x) dst then "trap huge-result" else
  try show_arr dst (List.map f (lex_enum dst)) with Oob -> "trap oob"
let build_o dsto f = match dsto with Some d -> build d f | None -> "unspecified"
let outcome_view o f = match o with Val d -> build d f | Nothing -> "nothing" | Trap -> "trap"
let sel s d i = get s d i
let opt_or_fill s d = function Some j -> get s d j | None -> !fill_ref
let idx_str l = show_list l
let some_or_unspec = function Some x -> x | None -> raise Not_found
let spec_build dsto f = match dsto with
  | None -> "unspecified"
  | Some d -> (try build d f with Not_found -> "unspecified")
let r3 m s d = { model = m; spec = s; dom = d }
let axis_arg = function N -> None | I a -> Some a | _ -> failwith "axis"
let in_axis a d = Z.leb Z0 a && Z.ltb a d
let nodup l = List.length (List.sort_uniq compare (List.map iz l)) = List.length l
let norm_ax d a = if Z.ltb a Z0 then Z.add a d else a
let valid_ax a d = Z.leb (Z.opp d) a && Z.ltb a d

(* ------------------------------------------------------------------ tile *)
let tile_case s d reps =
  let m = build (shape_tile s reps) (fun i -> sel s d (tile_index s i)) in
  let sp = build (np_tile_shape s reps) (fun i -> sel s d (np_tile_index s i)) in
  r3 m sp (posl s && posl reps)

(* ------------------------------------------------------------------ repeat *)
let repeat_case s d r ax =
  match ax with
  | None ->
    let m = build (shape_repeat_none s r) (fun i -> sel s d (repeat_none_index s r i)) in
    let sp = build (np_repeat_none_shape s r) (fun i -> getflat d (np_repeat_none_flat r (List.hd i))) in
    r3 m sp (posl s && Z.leb (zi 1) r)
  | Some a ->
    let m = outcome_view (shape_repeat_axis s r a) (fun i -> sel s d (repeat_axis_index i r a)) in
    let sp = spec_build (np_repeat_axis_shape s r a) (fun i -> sel s d (some_or_unspec (np_repeat_axis_index i r a))) in
    r3 m sp (posl s && Z.leb (zi 1) r && valid_ax a (len s))
let repeat_list_case s d reps a =
  let m = outcome_view (shape_repeat_list s reps a) (fun i -> sel s d (repeat_list_index i reps a)) in
  let sp = if List.exists (fun x -> Z.ltb x Z0) reps then "unspecified" else
    spec_build (np_repeat_list_shape s reps a) (fun i -> sel s d (some_or_unspec (np_repeat_list_index i reps a))) in
  r3 m sp (posl s && in_axis a (len s))

(* ------------------------------------------------------------------ roll *)
let roll_case s d shift ax =
  match ax with
  | None ->
    let m = build s (fun i -> sel s d (roll_none_index s i shift)) in
    let sp = build s (fun i -> getflat d (np_roll_none_flat s shift (horner Z0 i s))) in
    r3 m sp (posl s)
  | Some a ->
    let m = outcome_view (shape_roll_axis s a) (fun i -> sel s d (roll_axis_index s i shift a)) in
    let ok = Z.leb (Z.opp (len s)) a && Z.ltb a (len s) in
    let sp = if not ok then "unspecified" else build s (fun i -> sel s d (some_or_unspec (np_roll_axis_index s i shift a))) in
    r3 m sp (posl s && ok)
let roll_axes_case s d shifts axes =
  let m = outcome_view (shape_roll_axes s axes) (fun i -> sel s d (roll_axes_index s i shifts axes)) in
  let ok = List.for_all (fun a -> Z.leb (Z.opp (len s)) a && Z.ltb a (len s)) axes && List.length shifts = List.length axes in
  let sp = if not ok then "unspecified" else build s (fun i -> sel s d (some_or_unspec (np_roll_axes_index s i shifts axes))) in
  r3 m sp (posl s && ok && nodup (List.map (norm_ax (len s)) axes))

(* ------------------------------------------------------------------ pad *)
let pad_case s d w =
  let m = outcome_view (shape_pad s w) (fun i -> opt_or_fill s d (pad_index i s w)) in
  let sp = if List.exists (fun x -> Z.ltb x Z0) w then "unspecified" else
    spec_build (doc_pad_shape s w) (fun i -> opt_or_fill s d (doc_pad_index s w i)) in
  r3 m sp (posl s && List.length w = 2 * List.length s)

let ix_out shape idx = "ok " ^ show_list shape ^ " ; " ^ idx

let () =
  register "tile" (function [_; a; r] -> let (s, d) = getA a in tile_case s d (getL r) | _ -> failwith "tile");
  register "tile_e" (function [a; r] -> let (s, d) = getA a in tile_case s d (getL r) | _ -> failwith "tile_e");
  register "tile_ix" (function [_; s; r; i] -> let s = getL s and r = getL r and i = getL i in
      let dst = shape_tile s r in
      let ok = posl s && inbb i dst in
      r3 (ix_out dst (idx_str (tile_index s i)))
         (if ok then ix_out (np_tile_shape s r) (idx_str (np_tile_index s i)) else "unspecified") ok
    | _ -> failwith "tile_ix");
  register "repeat" (function [_; a; r; ax] -> let (s, d) = getA a in repeat_case s d (getI r) (axis_arg ax) | _ -> failwith "repeat");
  register "repeat_e" (function [a; r; ax] -> let (s, d) = getA a in repeat_case s d (getI r) (axis_arg ax) | _ -> failwith "repeat_e");
  register "repeat_l" (function [_; a; r; ax] -> let (s, d) = getA a in repeat_list_case s d (getL r) (getI ax) | _ -> failwith "repeat_l");
  register "repeat_ix" (function [_; s; i; r; ax] -> let s = getL s and i = getL i and r = getI r and a = getI ax in
      let m = (match shape_repeat_axis s r a with Val dst -> ix_out dst (idx_str (repeat_axis_index i r a)) | Nothing -> "nothing" | Trap -> "trap") in
      let ok = posl s && Z.leb (zi 1) r && valid_ax a (len s) in
      let sp = (match np_repeat_axis_shape s r a, np_repeat_axis_index i r a with
                | Some dst, Some j when inbb i dst -> ix_out dst (idx_str j) | _ -> "unspecified") in
      r3 m sp (ok && sp <> "unspecified")
    | _ -> failwith "repeat_ix");
  register "roll" (function [_; a; sh; ax] -> let (s, d) = getA a in roll_case s d (getI sh) (axis_arg ax) | _ -> failwith "roll");
  register "roll_e" (function [a; sh; ax] -> let (s, d) = getA a in roll_case s d (getI sh) (axis_arg ax) | _ -> failwith "roll_e");
  register "roll_m" (function [_; a; sh; ax] -> let (s, d) = getA a in roll_axes_case s d (getL sh) (getL ax) | _ -> failwith "roll_m");
  register "roll_ms" (function [_; a; sh; ax] -> let (s, d) = getA a in let ax = getL ax in
      roll_axes_case s d (List.map (fun _ -> getI sh) ax) ax | _ -> failwith "roll_ms");
  register "roll_ix" (function [_; s; i; sh; ax] -> let s = getL s and i = getL i and sh = getI sh and a = getI ax in
      let m = (match shape_roll_axis s a with Val dst -> ix_out dst (idx_str (roll_axis_index s i sh a)) | Nothing -> "nothing" | Trap -> "trap") in
      let sp = (match np_roll_axis_index s i sh a with Some j when inbb i s -> ix_out s (idx_str j) | _ -> "unspecified") in
      r3 m sp (posl s && sp <> "unspecified")
    | _ -> failwith "roll_ix");
  register "pad" (function [_; a; w] -> let (s, d) = getA a in pad_case s d (getL w) | _ -> failwith "pad");
  register "pad_e" (function [a; w] -> let (s, d) = getA a in pad_case s d (getL w) | _ -> failwith "pad_e");
  register "pad_ix" (function [_; s; w; i] -> let s = getL s and w = getL w and i = getL i in
      let m = (match shape_pad s w with
               | Val dst -> ix_out dst (match pad_index i s w with Some j -> idx_str j | None -> "fill")
               | Nothing -> "nothing" | Trap -> "trap") in
      let sp = (match doc_pad_shape s w with
                | Some dst when inbb i dst -> ix_out dst (match doc_pad_index s w i with Some j -> idx_str j | None -> "fill")
                | _ -> "unspecified") in
      r3 m sp (posl s && sp <> "unspecified")
    | _ -> failwith "pad_ix")

(* =================================================================== part 2: the remaining routines *)
let dtype_of = function "i8" | "u8" -> I8 | "i32" -> I32 | "i64" -> I64 | "f32" -> F32 | "f64" -> F64 | d -> failwith ("dtype " ^ d)
let is_fl = function F32 | F64 -> true | _ -> false
let zero = Z0
let one = zi 1
let nth l k = List.nth l k
let set_nth_ k v l = List.mapi (fun j x -> if j = k then v else x) l
let drop_nth k l = List.filteri (fun j _ -> j <> k) l
let np_ax a d = match np_axis a d with Some k -> Some (int_of_nat k) | None -> None
let float_of_z z = float_of_string (string_of_z z)
let float_str n q = Printf.sprintf "%.17g" (float_of_z n /. float_of_z q)
let show_parts l = String.concat " | " l
let operand_get sa da sb db = function
  | OpLeft j -> get sa da j | OpRight j -> get sb db j | OpNeither -> raise Oob

(* ------------------------------------------------------------------ take / compress *)
let take_case s d ind ax =
  match ax with
  | None ->
    let m = build (shape_take_none ind) (fun i -> sel s d (take_none_index s ind i)) in
    let sp = (try build (np_take_none_shape ind) (fun i -> getflat d (some_or_unspec (np_take_none_flat s ind (List.hd i))))
              with Not_found -> "unspecified") in
    r3 m sp (posl s && List.for_all (fun x -> Z.leb (Z.opp (prod s)) x && Z.ltb x (prod s)) ind)
  | Some a ->
    let m = build (shape_take_axis s ind a) (fun i -> sel s d (take_axis_index s ind i a)) in
    let sp = spec_build (np_take_axis_shape s ind a) (fun i -> sel s d (some_or_unspec (np_take_axis_index s ind i a))) in
    let okd = valid_ax a (len s) && (let n = nth s (iz (norm_ax (len s) a)) in List.for_all (fun x -> Z.leb (Z.opp n) x && Z.ltb x n) ind) in
    r3 m sp (posl s && okd)
let compress_case c s d ax =
  let pos_ = np_true_positions c in
  match ax with
  | None ->
    let m = build (shape_compress_none c) (fun i -> sel s d (compress_none_index s c i)) in
    let sp = if List.exists (fun x -> Z.leb (prod s) x) pos_ then "unspecified" else
        build [len pos_] (fun i -> getflat d (nth pos_ (iz (List.hd i)))) in
    r3 m sp (posl s && sp <> "unspecified")
  | Some a ->
    let m = build (shape_compress_axis s c a) (fun i -> sel s d (compress_axis_index c i a)) in
    let sp = (match np_ax a (len s) with
        | Some k when not (List.exists (fun x -> Z.leb (nth s k) x) pos_) ->
          build (set_nth_ k (len pos_) s) (fun i -> sel s d (set_nth_ k (nth pos_ (iz (nth i k))) i))
        | _ -> "unspecified") in
    r3 m sp (posl s && valid_ax a (len s) && sp <> "unspecified")

(* ------------------------------------------------------------------ resize / expand *)
let resize_case s d dst =
  let m = outcome_view (shape_resize s dst) (fun i -> sel s d (resize_index i s dst)) in
  let sp = spec_build (doc_resize_shape s dst) (fun i -> sel s d (doc_resize_index s dst i)) in
  r3 m sp (posl s && sp <> "unspecified")
let expand_case s d axes sp_ =
  let m = outcome_view (shape_expand s axes sp_) (fun i -> opt_or_fill s d (expand_index s i axes sp_)) in
  let dl = len s in
  let ok = List.for_all (fun a -> valid_ax a dl) axes && nodup (List.map (norm_ax dl) axes)
           && List.length axes = List.length sp_ && List.for_all (fun q -> Z.leb zero q) sp_ in
  let sp = if not ok then "unspecified" else begin
      let shape = List.fold_left2 (fun sh a q -> some_or_unspec (doc_expand_shape1 sh a q)) s axes sp_ in
      build shape (fun i ->
          let r = List.fold_left2 (fun acc a q -> match acc with
              | None -> None
              | Some j -> (match doc_expand_index1 j a q with Some r -> r | None -> raise Not_found)) (Some i) axes sp_ in
          opt_or_fill s d r) end in
  r3 m sp (posl s && ok && List.length axes = 1)

(* ------------------------------------------------------------------ concatenate / stack family *)
let concat_case sa da sb db ax =
  match ax with
  | None ->
    let m = build (shape_concat_none sa sb) (fun i -> operand_get sa da sb db (concat_none_index sa sb i)) in
    let sp = build (np_concat_none_shape sa sb) (fun i ->
        let (right, k) = np_concat_none_flat sa (List.hd i) in getflat (if right then db else da) k) in
    r3 m sp (posl sa && posl sb)
  | Some a ->
    let m = outcome_view (shape_concat_axis sa sb a) (fun i -> operand_get sa da sb db (concat_axis_index sa sb i a)) in
    let sp = spec_build (np_concat_axis_shape sa sb a) (fun i -> operand_get sa da sb db (np_concat_axis_index sa i a)) in
    r3 m sp (posl sa && posl sb && valid_ax a (len sa) && sp <> "unspecified")
(* joined views: both operands reshaped (ra, rb) then concatenated along [axis] (model), NumPy: the reshapes only insert
   axes of extent 1, the element of a reshaped operand at j is its flat element number horner(j) *)
let joined_case sa da sb db ra rb axis np_axis_ =
  let m = outcome_view (joined_shape ra rb axis) (fun i -> operand_get sa da sb db (joined_index sa sb ra rb i axis)) in
  let sp = spec_build (np_concat_axis_shape ra rb np_axis_) (fun i ->
      match np_concat_axis_index ra i np_axis_ with
      | OpLeft j -> getflat da (horner Z0 j ra) | OpRight j -> getflat db (horner Z0 j rb) | OpNeither -> raise Not_found) in
  r3 m sp false
let val_or s = function Val x -> x | _ -> s

(* ------------------------------------------------------------------ split *)
let split_model s d parts =
  show_parts (List.map (fun p -> build (part_shape p) (fun i -> sel s d (part_index p i))) parts)
let split_spec s d ax bounds =      (* bounds: list of (lo, hi) along the normalised axis *)
  show_parts (List.map (fun (lo, hi) ->
      build (set_nth_ ax (Z.sub hi lo) s) (fun i -> sel s d (set_nth_ ax (Z.add (nth i ax) lo) i))) bounds)

(* ------------------------------------------------------------------ sliding window *)
let sw_case s d win axes =
  let dl = len s in
  let m = (match axes with
      | None -> build (shape_sliding_window_none s win) (fun i -> sel s d (sliding_window_none_index (nat_of_int (List.length s)) i))
      | Some ax -> outcome_view (shape_sliding_window_axes s win ax) (fun i -> sel s d (sliding_window_axes_index (nat_of_int (List.length s)) i ax))) in
  let ax = (match axes with None -> List.mapi (fun j _ -> zi j) s | Some ax -> ax) in
  let ok = List.length ax = List.length win && List.for_all (fun a -> valid_ax a dl) ax && List.for_all (fun w -> Z.leb one w) win in
  let sp = if not ok then "unspecified" else begin
      let shp = np_sw_shape s win ax in
      if List.exists (fun x -> Z.ltb x one) shp then "unspecified"
      else build shp (fun i -> sel s d (np_sw_index (nat_of_int (List.length s)) i ax)) end in
  r3 m sp (posl s && sp <> "unspecified" && nodup (List.map (norm_ax dl) ax))

(* ------------------------------------------------------------------ diagonal, diagflat, tril, triu *)
let diagonal_case s d off a1 a2 =
  let dn = nat_of_int (List.length s) in
  let m = (match normalize_axis a1 (len s), normalize_axis a2 (len s) with
      | Some n1, Some n2 -> outcome_view (shape_diagonal s off a1 a2) (fun i -> sel s d (diagonal_index dn i off n1 n2))
      | _ -> "trap") in
  let sp = spec_build (np_diagonal_shape s off a1 a2) (fun i -> sel s d (some_or_unspec (np_diagonal_index dn i off a1 a2))) in
  r3 m sp (posl s && sp <> "unspecified")
let diagflat_case s d k =
  let n = prod s in
  let shp = shape_diagflat n k in
  let m = build shp (fun i -> match diagflat_index i k with Some j -> getflat d (List.hd j) | None -> zero) in
  let sp = build [Z.add n (Z.abs k); Z.add n (Z.abs k)] (fun i -> match np_diagflat_index i k with Some j -> getflat d j | None -> zero) in
  r3 m sp (posl s)
let tri_like_case lower s d k =
  let shp = shape_tri_like s in
  let m = build shp (fun i -> match (if lower then tril_index s i k else triu_index s i k) with Some j -> sel s d j | None -> zero) in
  let sp = build (match s with [n] -> [n; n] | _ -> s) (fun i ->
      if (if lower then np_tril_keep i k else np_triu_keep i k) then sel s d (np_tri_source s i) else zero) in
  r3 m sp (posl s)

(* ------------------------------------------------------------------ where *)
let where_case sc dc sx dx sy dy =
  let m = (match where_shape sc sx sy with
      | Some dshape -> build dshape (fun i -> operand_get sx dx sy dy (where_index sc sx sy (fun j -> get sc dc j) i))
      | None -> "nothing") in
  let sp = (match Broadcast.np_broadcast_n [sc; sx; sy] with
      | Some dshape -> build dshape (fun i ->
          if Z.eqb (get sc dc (Broadcast.np_broadcast_to_idx sc i)) zero then get sy dy (Broadcast.np_broadcast_to_idx sy i)
          else get sx dx (Broadcast.np_broadcast_to_idx sx i))
      | None -> "unspecified") in
  r3 m sp false

let arr2 f = function [a; b] -> let (sa, da) = getA a and (sb, db) = getA b in f sa da sb db | _ -> failwith "two arrays"

let () =
  let take_h = function [_; a; ind; ax] | [a; ind; ax] -> let (s, d) = getA a in take_case s d (getL ind) (axis_arg ax) | _ -> failwith "take" in
  register "take" take_h; register "take_e" take_h;
  register "take_ix" (function [_; s; ind; i; ax] -> let s = getL s and ind = getL ind and i = getL i and a = getI ax in
      let dst = shape_take_axis s ind a in
      let m = ix_out dst (idx_str (take_axis_index s ind i a)) in
      let sp = (match np_take_axis_shape s ind a, np_take_axis_index s ind i a with
          | Some dd, Some j when inbb i dd -> ix_out dd (idx_str j) | _ -> "unspecified") in
      r3 m sp (posl s && valid_ax a (len s) && sp <> "unspecified")
    | _ -> failwith "take_ix");
  register "compress" (function [_; c; a; ax] -> let (s, d) = getA a in compress_case (getL c) s d (axis_arg ax) | _ -> failwith "compress");
  register "compress_e" (function [c; a; ax] -> let (s, d) = getA a in compress_case (getL c) s d (axis_arg ax) | _ -> failwith "compress_e");
  let resize_h = function [_; a; dst] | [a; dst] -> let (s, d) = getA a in resize_case s d (getL dst) | _ -> failwith "resize" in
  register "resize" resize_h; register "resize_e" resize_h;
  register "resize_ix" (function [_; s; dst; i] -> let s = getL s and dst = getL dst and i = getL i in
      let m = (match shape_resize s dst with Val dd -> ix_out dd (idx_str (resize_index i s dst)) | Nothing -> "nothing" | Trap -> "trap") in
      let sp = (match doc_resize_shape s dst with Some dd when inbb i dd -> ix_out dd (idx_str (doc_resize_index s dst i)) | _ -> "unspecified") in
      r3 m sp (posl s && sp <> "unspecified")
    | _ -> failwith "resize_ix");
  register "resize_ixall" (function [_; s; dst] -> let s = getL s and dst = getL dst in
      let all f = String.concat "," (List.map (fun i -> idx_str (f i)) (lex_enum dst)) in
      let m = (match shape_resize s dst with Val dd -> ix_out dd (all (fun i -> resize_index i s dst)) | Nothing -> "nothing" | Trap -> "trap") in
      let sp = (match doc_resize_shape s dst with Some dd -> ix_out dd (all (fun i -> doc_resize_index s dst i)) | None -> "unspecified") in
      r3 m sp (posl s && sp <> "unspecified")
    | _ -> failwith "resize_ixall");
  register "expand" (function [_; a; ax; q] -> let (s, d) = getA a in expand_case s d [getI ax] [getI q] | _ -> failwith "expand");
  register "expand_e" (function [a; ax; q] -> let (s, d) = getA a in expand_case s d [getI ax] [getI q] | _ -> failwith "expand_e");
  register "expand_m" (function [_; a; ax; q] -> let (s, d) = getA a in expand_case s d (getL ax) (getL q) | _ -> failwith "expand_m");
  register "concat" (function [_; a; b; ax] -> let (sa, da) = getA a and (sb, db) = getA b in concat_case sa da sb db (axis_arg ax) | _ -> failwith "concat");
  register "concat_e" (function [a; b; ax] -> let (sa, da) = getA a and (sb, db) = getA b in concat_case sa da sb db (axis_arg ax) | _ -> failwith "concat_e");
  register "concat_ix" (function [_; sa; sb; i; ax] -> let sa = getL sa and sb = getL sb and i = getL i and a = getI ax in
      let show_op = function OpLeft j -> "a " ^ idx_str j | OpRight j -> "b " ^ idx_str j | OpNeither -> "neither" in
      let m = (match shape_concat_axis sa sb a with Val dd -> ix_out dd (show_op (concat_axis_index sa sb i a)) | _ -> "nothing") in
      let sp = (match np_concat_axis_shape sa sb a with Some dd when inbb i dd -> ix_out dd (show_op (np_concat_axis_index sa i a)) | _ -> "unspecified") in
      r3 m sp (posl sa && posl sb && valid_ax a (len sa) && sp <> "unspecified")
    | _ -> failwith "concat_ix");
  let stack_h = function [_; a; b; ax] | [a; b; ax] -> let (sa, da) = getA a and (sb, db) = getA b in
      let ax = getI ax in
      let ra = val_or sa (shape_expand_dims1 sa ax) and rb = val_or sb (shape_expand_dims1 sb ax) in
      (* NumPy: both get a new axis at the normalised position *)
      let r = joined_case sa da sb db ra rb ax ax in
      if sa <> sb || not (valid_ax ax (Z.add (len sa) one)) then { r with spec = "unspecified" } else r
    | _ -> failwith "stack" in
  register "stack" stack_h; register "stack_e" stack_h;
  register "hstack" (arr2 (fun sa da sb db -> let ax = hstack_axis sa in joined_case sa da sb db sa sb ax ax));
  register "vstack" (arr2 (fun sa da sb db -> joined_case sa da sb db (shape_vstack sa) (shape_vstack sb) Z0 Z0));
  register "dstack" (arr2 (fun sa da sb db -> joined_case sa da sb db (shape_dstack sa) (shape_dstack sb) (zi 2) (zi 2)));
  register "column_stack" (arr2 (fun sa da sb db -> joined_case sa da sb db (shape_column_stack sa) (shape_column_stack sb) one one));
  register "split" (function [a; n; ax] -> let (s, d) = getA a and n = getI n and ax = getI ax in
      let m = split_model s d (split_sections_args s n ax) in
      let sp = (match np_ax ax (len s) with
          | Some k when Z.ltb zero n && Z.eqb (Z.modulo (nth s k) n) zero ->
            let w = Z.div (nth s k) n in
            split_spec s d k (List.init (iz n) (fun j -> (Z.mul (zi j) w, Z.mul (zi (j + 1)) w)))
          | _ -> "unspecified") in
      r3 m sp false
    | _ -> failwith "split");
  register "split_l" (function [_; a; idx; ax] -> let (s, d) = getA a and idx = getL idx and ax = getI ax in
      let m = split_model s d (split_indices_args s idx ax) in
      let sp = (match np_ax ax (len s) with
          | Some k ->
            let n = nth s k in
            let sorted = List.for_all2 (fun x y -> Z.ltb x y) (zero :: idx) (idx @ [n]) in    (* strictly increasing inside (0, n): no empty part *)
            if not sorted then "unspecified" else
              split_spec s d k (List.map2 (fun lo hi -> (lo, hi)) (zero :: idx) (idx @ [n]))
          | None -> "unspecified") in
      r3 m sp false
    | _ -> failwith "split_l");
  register "sw" (function [_; a; w; ax] -> let (s, d) = getA a in sw_case s d (getL w) (match ax with N -> None | x -> Some (getL x)) | _ -> failwith "sw");
  register "sw1" (function [_; a; w; ax] -> let (s, d) = getA a in
      (match ax with
       | N -> let r = sw_case s d (List.map (fun _ -> getI w) s) None in
         (* one number with axis=None: NumPy accepts it for 1-d sources only; the C++ appends ONE window axis *)
         if List.length s = 1 then r else
           { model = build (sw_none_shape s (List.map (fun _ -> getI w) s) @ [getI w]) (fun i -> sel s d (sliding_window_none_index (nat_of_int (List.length s)) i));
             spec = "unspecified"; dom = false }
       | x -> sw_case s d [getI w] (Some [getI x]))
    | _ -> failwith "sw1");
  register "sw_e" (function [a; w; ax] -> let (s, d) = getA a in sw_case s d (getL w) (Some (getL ax)) | _ -> failwith "sw_e");
  register "sw_ix" (function [_; s; w; ax; i] -> let s = getL s and w = getL w and ax = getL ax and i = getL i in
      let dn = nat_of_int (List.length s) in
      let m = (match shape_sliding_window_axes s w ax with Val dd -> ix_out dd (idx_str (sliding_window_axes_index dn i ax)) | _ -> "trap") in
      let ok = List.length ax = List.length w && List.for_all (fun a -> valid_ax a (len s)) ax in
      let sp = if not ok then "unspecified" else
          (let dd = np_sw_shape s w ax in if inbb i dd then ix_out dd (idx_str (np_sw_index dn i ax)) else "unspecified") in
      r3 m sp (posl s && sp <> "unspecified" && nodup (List.map (norm_ax (len s)) ax))
    | _ -> failwith "sw_ix");
  let diag_h = function [_; a; off; a1; a2] | [a; off; a1; a2] -> let (s, d) = getA a in diagonal_case s d (getI off) (getI a1) (getI a2) | _ -> failwith "diagonal" in
  register "diagonal" diag_h; register "diagonal_e" diag_h;
  register "diagflat" (function [a; k] -> let (s, d) = getA a in diagflat_case s d (getI k) | _ -> failwith "diagflat");
  let tril_h = function [_; a; k] | [a; k] -> let (s, d) = getA a in tri_like_case true s d (getI k) | _ -> failwith "tril" in
  let triu_h = function [_; a; k] | [a; k] -> let (s, d) = getA a in tri_like_case false s d (getI k) | _ -> failwith "triu" in
  register "tril" tril_h; register "tril_e" tril_h; register "triu" triu_h; register "triu_e" triu_h;
  let where_h = function [c; x; y] -> let (sc, dc) = getA c and (sx, dx) = getA x and (sy, dy) = getA y in where_case sc dc sx dx sy dy | _ -> failwith "where" in
  register "where" where_h; register "where_e" where_h;
  (* generators *)
  let gen2 n m k one_if =
    let shp = [n; m] in
    let m_ = build shp (fun i -> if one_if i k then one else zero) in
    m_ in
  let mcols = function N -> None | x -> Some (getI x) in
  register "tri" (function [n; m; k] -> let n = getI n and k = getI k in let m = (match mcols m with Some m -> m | None -> n) in
      r3 (gen2 n m k tri_is_one) (build [n; m] (fun i -> if Z.leb (nth i 1) (Z.add (nth i 0) k) then one else zero)) (Z.leb one n && Z.leb one m)
    | _ -> failwith "tri");
  let eye_h = function [n; m; k] -> let n = getI n and k = getI k in let m = (match mcols m with Some m -> m | None -> n) in
      r3 (gen2 n m k eye_is_one) (build [n; m] (fun i -> if Z.eqb (Z.sub (nth i 1) (nth i 0)) k then one else zero)) (Z.leb one n && Z.leb one m)
    | _ -> failwith "eye" in
  register "eye" eye_h; register "eye_e" eye_h;
  register "identity" (function [n] -> eye_h [n; N; I Z0] | _ -> failwith "identity");
  let const_h v shp = both (build shp (fun _ -> v)) (posl shp) in
  register "full" (function [_; shp; v] -> const_h (getI v) (getL shp) | _ -> failwith "full");
  register "zeros" (function [_; shp] -> const_h zero (getL shp) | _ -> failwith "zeros");
  register "ones" (function [_; shp] -> const_h one (getL shp) | _ -> failwith "ones");
  register "full_like" (function [a; v] -> const_h (getI v) (fst (getA a)) | _ -> failwith "full_like");
  register "zeros_like" (function [a] -> const_h zero (fst (getA a)) | _ -> failwith "zeros_like");
  register "ones_like" (function [a] -> const_h one (fst (getA a)) | _ -> failwith "ones_like");
  let arange_h ?(fl=false) start stop p q =
    let show_elems n f = "ok " ^ string_of_z n ^ " ;" ^ (if Z.eqb n zero then "" else " " ^ String.concat "," (List.init (iz n) f)) in
    let el i = float_str (arange_elem start p q (zi i)) q in
    let elm i = ignore fl; el i in
    let m = (match arange_len start stop p q with Val n -> show_elems n elm | _ -> "trap") in
    let sp = if Z.eqb p zero then "unspecified" else
        (let num = Z.mul (Z.sub stop start) q in
         let n = Z.max zero (Z.opp (Z.div (Z.opp num) p)) in show_elems n el) in
    r3 m sp (not (Z.eqb p zero)) in
  register "arange_f" (function [_; a; b; p] -> arange_h (getI a) (getI b) (getI p) one | _ -> failwith "arange_f");
  register "tarange" (function [dt; a; b; p; q] -> arange_h ~fl:(is_fl (dtype_of (getS dt))) (getI a) (getI b) (getI p) (getI q) | _ -> failwith "tarange");
  register "arange" (function [a; b; p; q] -> arange_h (getI a) (getI b) (getI p) (getI q) | _ -> failwith "arange");
  register "arange_e" (function [a; b; p] -> arange_h (getI a) (getI b) (getI p) one | _ -> failwith "arange_e");
  register "arange2" (function [a; b] -> arange_h (getI a) (getI b) one one | _ -> failwith "arange2");
  register "arange1" (function [b] -> arange_h zero (getI b) one one | _ -> failwith "arange1");
  register "linspace" (function [a; b; n; e] -> let a = getI a and b = getI b and n = getI n and e = not (Z.eqb (getI e) zero) in
      let elems f = "ok~ " ^ string_of_z n ^ " ; " ^ String.concat "," (List.init (iz n) f) in
      let m = elems (fun i -> let (nu, de) = linspace_elem a b n e (zi i) in if Z.eqb de zero then "nan" else float_str nu de) in
      let sp = elems (fun i -> if Z.eqb n one then float_str a one else
                        let dv = if e then Z.sub n one else n in float_str (Z.add (Z.mul a dv) (Z.mul (zi i) (Z.sub b a))) dv) in
      r3 m sp (Z.leb one n)
    | _ -> failwith "linspace")


(* =================================================================== part 3: element types and argument-value variety *)
(* typed array argument  T:<dtype>:<shape>:<data>  (common.ml hands it over as Str "<dtype>:<shape>:<data>"); values are
   numerators over 4: an integer entry x of an integer type is 4x, an entry x of a floating type is x (= x/4) *)
let four = zi 4
let getT = function
  | Str body -> (match String.split_on_char ':' body with
      | [dt; shp; data] -> let d = dtype_of dt in
        let nums = List.map (fun x -> if is_fl d then x else Z.mul four x) (parse_list data) in
        (d, parse_list shp, nums)
      | _ -> failwith "typed array")
  | _ -> failwith "typed array"
let num_str n = float_str n four
(* re-type a result printed from numerators: every element e becomes  f e  printed as a real *)
let map_elems f str =
  let one part =
    let part = String.trim part in
    if String.length part < 3 || String.sub part 0 3 <> "ok " then part else
      match String.index_opt part ';' with
      | None -> part
      | Some k ->
        let head = String.sub part 0 (k + 1) and tl = String.trim (String.sub part (k + 1) (String.length part - k - 1)) in
        if tl = "" then head else head ^ " " ^ String.concat "," (List.map (fun e -> num_str (f (z_of_string e))) (split_on ',' tl)) in
  String.concat " | " (List.map one (String.split_on_char '|' str))
let retype r fm fs dom = { model = map_elems fm r.model; spec = (if r.spec = "unspecified" then r.spec else map_elems fs r.spec); dom = dom }
let call name args = (Hashtbl.find handlers name) args
let arrT (_, s, n) = A (s, n)
let exact24 n = Z.eqb (round_sig (zi 24) n) n
let exact53 n = Z.eqb (round_sig (zi 53) n) n
let join_dom ta tb vals = (cxx_common ta tb = np_common ta tb || List.for_all exact24 vals) && List.for_all exact53 vals

let base_of = function
  | "tconcat" | "tconcat_e" -> "concat" | "tstack" | "tstack_e" -> "stack" | "thstack" | "thstack_e" -> "hstack" | "tvstack" -> "vstack"
  | "tdstack" -> "dstack" | "tcolumn_stack" -> "column_stack" | n -> failwith n
let () =
  List.iter (fun name -> register name (function
      | a :: b :: rest ->
        let (ta, _, na) as xa = getT a and (tb, _, nb) as xb = getT b in
        let base = base_of name in
        let args = (match base with
            | "concat" | "stack" -> Str "vec" :: arrT xa :: arrT xb :: rest
            | _ -> [arrT xa; arrT xb]) in
        let r = call base args in
        (* the correspondence-only joins (stack family) have dom = false in the base handler: the element-type statement is
           about the conversion only, so the value part of the domain is what decides here *)
        let dom = (if base = "concat" then r.dom else r.spec <> "unspecified") && join_dom ta tb (na @ nb) in
        retype r (conv (cxx_common ta tb)) (conv (np_common ta tb)) dom
      | _ -> failwith name))
    ["tconcat"; "tconcat_e"; "tstack"; "tstack_e"; "thstack"; "thstack_e"; "tvstack"; "tdstack"; "tcolumn_stack"];
  let where_h = function
    | [c; x; y] -> let (tc, _, _) as xc = getT c and (tx, _, nx) as xx = getT x and (ty, _, ny) as xy = getT y in
      let r = call "where" [arrT xc; arrT xx; arrT xy] in
      (* element_type = common_type<condition, x, y> folded from the left; NumPy: result_type(x, y) *)
      let cxx3 = cxx_common (cxx_common tc tx) ty in
      retype r (conv cxx3) (conv (np_common tx ty)) (r.spec <> "unspecified" && join_dom tx ty (nx @ ny) && (is_fl cxx3 = is_fl (cxx_common tx ty)))
    | _ -> failwith "twhere" in
  register "twhere" where_h; register "twhere_e" where_h;
  register "ttake" (function [_; a; ind; ax] -> let (_, _, _) as xa = getT a in
      let r = call "take" [Str "vec"; arrT xa; ind; ax] in retype r (fun x -> x) (fun x -> x) r.dom
    | _ -> failwith "ttake");
  register "tcompress" (function [_; c; a; ax] -> let xa = getT a in
      let r = call "compress" [Str "vec"; c; arrT xa; ax] in retype r (fun x -> x) (fun x -> x) r.dom
    | _ -> failwith "tcompress");
  register "compress_ix" (function [_; c; s; i; ax] -> let c = getL c and s = getL s and i = getL i and a = getI ax in
      let m = ix_out (shape_compress_axis s c a) (idx_str (compress_axis_index c i a)) in
      let tp = np_true_positions c in
      let sp = (match np_take_axis_shape s tp a, np_take_axis_index s tp i a with
          | Some dd, Some j when inbb i dd -> ix_out dd (idx_str j) | _ -> "unspecified") in
      r3 m sp (posl s && valid_ax a (len s) && sp <> "unspecified")
    | _ -> failwith "compress_ix");
  let with_fill ts vt v f =
    let n = if getS vt = "d" then getI v else Z.mul four (getI v) in
    let old = !fill_ref in fill_ref := n;
    let r = (try f () with e -> fill_ref := old; raise e) in fill_ref := old;
    (* C++: static_cast<element_t>(value); NumPy casts constant_values to the array's dtype *)
    retype r (conv ts) (conv ts) r.dom in
  let pad_h = function [a; w; vt; v] -> let (ts, _, _) as xa = getT a in with_fill ts vt v (fun () -> call "pad" [Str "vec"; arrT xa; w])
                     | _ -> failwith "tpad" in
  register "tpad" pad_h; register "tpad_e" pad_h;
  register "texpand" (function [a; ax; q; vt; v] -> let (ts, _, _) as xa = getT a in
      with_fill ts vt v (fun () -> call "expand" [Str "vec"; arrT xa; ax; q]) | _ -> failwith "texpand");
  register "tsel" (function
      | r :: a :: rest -> let xa = getT a in
        let name = getS r in
        let args = (match name with
            | "diagflat" -> arrT xa :: rest
            | _ -> Str "vec" :: arrT xa :: rest) in
        let res = call name args in retype res (fun x -> x) (fun x -> x) res.dom
      | _ -> failwith "tsel");
  let full_h = function [dt; shp; v] -> let d = dtype_of (getS dt) in
      let n = if is_fl d then getI v else Z.mul four (getI v) in
      let r = both (build (getL shp) (fun _ -> n)) (posl (getL shp)) in retype r (conv d) (conv d) r.dom
                      | _ -> failwith "tfull" in
  register "tfull" full_h; register "tfull_e" full_h;
  (* zeros / ones / tri / eye / arange: the values (0, 1, integers, multiples of 1/4) are the same in every dtype *)
  register "tzeros" (function [_; shp] -> call "zeros" [Str "vec"; shp] | _ -> failwith "tzeros");
  register "tones" (function [_; shp] -> call "ones" [Str "vec"; shp] | _ -> failwith "tones");
  register "ttri" (function [_; n; m; k] -> call "tri" [n; m; k] | _ -> failwith "ttri");
  register "teye" (function [_; n; m; k] -> call "eye" [n; m; k] | _ -> failwith "teye");
  register "tlinspace" (function [_; a; b; n; e] -> let a = getI a and b = getI b and n = getI n and e = not (Z.eqb (getI e) zero) in
      (* start, stop are numerators over 4 *)
      let elems f = "ok~ " ^ string_of_z n ^ " ; " ^ String.concat "," (List.init (iz n) f) in
      let pr (nu, de) = if Z.eqb de zero then "nan" else float_str nu (Z.mul four de) in
      r3 (elems (fun i -> pr (linspace_elem a b n e (zi i)))) (elems (fun i -> pr (np_linspace_elem a b n e (zi i)))) (Z.leb one n)
    | _ -> failwith "tlinspace")


(* =================================================================== part 4: argument forms (drivers: _build/gen/C04/c04_f.cpp) *)
(* <op>_f S:<entry id> <args>: the same call with its arguments as run-time / compile-time / None / omitted values and
   vector / array / tuple containers (harness/gen_c04.py); the Model and the Spec ignore the form *)
let () =
  let takes_kind = ["repeat"; "roll"; "roll_m"; "roll_ms"; "tile"; "pad"; "resize"; "full"; "zeros"; "ones"; "take"; "concat";
                    "split_l"; "expand"; "expand_m"; "sw"; "sw1"; "tril"; "triu"] in
  let plain = ["tri"; "eye"; "identity"; "arange1"; "arange2"; "linspace"; "diagflat"; "split"] in
  List.iter (fun op -> register (op ^ "_f") (function _ :: rest -> call op (Str "vec" :: rest) | _ -> failwith op)) takes_kind;
  List.iter (fun op -> register (op ^ "_f") (function _ :: rest -> call op rest | _ -> failwith op)) plain;
  register "trid_f" (function _ :: rest -> call "tri" rest | _ -> failwith "trid_f");
  register "eyed_f" (function _ :: rest -> call "eye" rest | _ -> failwith "eyed_f")
