let () = Common.run ()
