(* h_c10.ml — C10 handler (two-stage): the case line carries, as last argument
   R:<impl output>, the implementation's own element-wise observation of the lazy view
   ("lazy ok <shape> ; <elements>"); from it the extracted evaluator model (Eval.eval_into,
   both layouts, materialise) and the Spec (Eval.spec_buffer / the elements themselves)
   produce the whole expected line. *)
open BinNums
open Datatypes
open Base
open Index
open Eval
open Common
module List = Stdlib.List
module String = Stdlib.String

let rec split_str sep s =
  let ls = String.length sep and n = String.length s in
  let rec find i = if i + ls > n then -1 else if String.sub s i ls = sep then i else find (i + 1) in
  let i = find 0 in
  if i < 0 then [s] else String.sub s 0 i :: split_str sep (String.sub s (i + ls) (n - i - ls))

let () =
  register "ev" (fun a ->
    let r = getS (List.nth a (List.length a - 1)) in
    let fields = split_str "_|_" r in
    let lz = List.hd fields in
    if String.length r >= 4 && String.sub r 0 4 = "trap" then
      (* reading or evaluating a valid composition must not trap *)
      { model = "a result (no trap)"; spec = "a result (no trap)"; dom = false }
    else if lz = "lazy_nothing" || String.length lz < 8 || String.sub lz 0 8 <> "lazy_ok_" then
      { model = "unspecified"; spec = "unspecified"; dom = false }
    else begin
      let body = String.sub lz 8 (String.length lz - 8) in           (* <shape>_;_<elems> or <shape>_; *)
      let (sh, el) = match split_str "_;" body with
        | [s; e] -> (s, if e = "" then "" else String.sub e 1 (String.length e - 1))
        | _ -> failwith "lazy field" in
      let shape = parse_list sh and elems = parse_list el in
      let arr = Array.of_list elems in
      let v = { vshape = shape; vget = (fun i -> arr.(int_of_z (horner Z0 i shape))) } in
      let sb l = show_list shape ^ " ;" ^ (if l = [] then "" else " " ^ show_list l) in
      let oka l = "ok " ^ sb l in
      let read vw = List.map vw.vget (lex_enum shape) in
      let sentinel = { alayout = RowMajor; ashape = shape; abuf = List.map (fun _ -> z_of_int (-99)) elems } in
      (* wrong-shaped supplied output of the same element count: flattened, or with an extra unit axis *)
      let n = List.length elems in
      let shape2 = if List.length shape >= 2 then [z_of_int n] else [z_of_int n; z_of_int 1] in
      let sentinel2 = { alayout = RowMajor; ashape = shape2; abuf = List.map (fun _ -> z_of_int (-99)) elems } in
      let ok2 l = "ok " ^ show_list shape2 ^ " ;" ^ (if l = [] then "" else " " ^ show_list l) in
      let line row col two twoc sup sup2 =
        "lazy " ^ oka elems ^ " | row " ^ sb row ^ " | col " ^ sb col ^ " | two " ^ oka two ^ " | twoc " ^ oka twoc ^ " | sup " ^ oka sup
        ^ " | sup2 " ^ ok2 sup2
        ^ " | sup3 " ^ (let d = List.length shape in if d >= 1 && d <= 3 && posb shape then oka sup else "-") in
      { model = line (eval_into v (fresh RowMajor Z0 shape)).abuf (eval_into v (fresh ColMajor Z0 shape)).abuf
                     (read (materialise RowMajor Z0 v)) (read (materialise ColMajor Z0 v))
                     (read (view_of Z0 (eval_into v sentinel))) (eval_into v sentinel2).abuf;
        spec = line (spec_buffer RowMajor v) (spec_buffer ColMajor v) elems elems elems sentinel2.abuf;
        dom = posb shape }
    end)
