(* h_c07.ml — C07 handlers: Ufunc model (broadcast_arrays -> broadcast_to views -> ufunc_t) vs NumPy's rule;
   Dtype table; the identity cases have a C++-side oracle (the model side prints the constant expectation). *)
open BinNums
open Datatypes
open Base
open Index
open Broadcast
open Ufunc
open Dtype
open Common
module List = Stdlib.List
module String = Stdlib.String

let three = z_of_int 3 and seven = z_of_int 7 and one = z_of_int 1
let b2z b = if b then one else Z0

(* operand: A:shape:data -> (shape, element function); I:v -> scalar (shape [], read at the empty index) *)
let operand_of = function
  | A (s, d) -> (s, (fun i -> List.nth d (int_of_z (horner Z0 i s))))
  | I v -> ([], (fun _ -> v))
  | _ -> failwith "operand"

let show_operand = function
  | None -> "nothing"
  | Some (d, e) -> show_arr d (List.map e (lex_enum d))

let op1 = function
  | "negative" -> Z.opp | "square" -> (fun x -> Z.mul x x)
  | "lin1" -> (fun x -> Z.add (Z.mul seven x) one)
  | s -> failwith ("op1 " ^ s)
let op2 = function
  | "add" -> Z.add | "subtract" -> Z.sub | "multiply" -> Z.mul
  | "lin" -> (fun x y -> Z.sub (Z.mul three x) y)
  | "less" -> (fun x y -> b2z (Z.ltb x y))
  | s -> failwith ("op2 " ^ s)

let dtype_of = function
  | "bool" -> Bool | "i8" -> I8 | "u8" -> U8 | "i16" -> I16 | "u16" -> U16 | "i32" -> I32 | "u32" -> U32
  | "i64" -> I64 | "u64" -> U64 | "f32" -> F32 | "f64" -> F64 | s -> failwith ("dtype " ^ s)
let dtype_name = function
  | Bool -> "bool" | I8 -> "i8" | U8 -> "u8" | I16 -> "i16" | U16 -> "u16" | I32 -> "i32" | U32 -> "u32"
  | I64 -> "i64" | U64 -> "u64" | F32 -> "f32" | F64 -> "f64"

let () =
  register "ufunc1" (fun a -> match a with
    | [op; _; x] ->
        let x = operand_of x and f = op1 (getS op) in
        let r = ufunc1 f x in
        { model = show_operand (Some r); spec = show_operand (Some (fst x, fun i -> f (snd x i))); dom = posb (fst x) }
    | _ -> failwith "ufunc1");
  register "ufunc2" (fun a -> match a with
    | [op; _; _; x; y] ->
        let x = operand_of x and y = operand_of y and f = op2 (getS op) in
        { model = show_operand (ufunc2 f x y); spec = show_operand (ufunc2_spec f x y); dom = posb (fst x) && posb (fst y) }
    | _ -> failwith "ufunc2");
  register "ufunc3" (fun a -> match a with
    | [_; c; x; y] ->
        let c = operand_of c and x = operand_of x and y = operand_of y in
        let f c x y = if c = Z0 then y else x in
        { model = show_operand (ufunc3 f c x y); spec = show_operand (ufunc3_spec f c x y);
          dom = posb (fst c) && posb (fst x) && posb (fst y) }
    | _ -> failwith "ufunc3");
  register "outer" (fun a -> match a with
    | [op; x; y] ->
        let x = operand_of x and y = operand_of y and f = op2 (getS op) in
        { model = show_operand (Some (outer f x y)); spec = show_operand (Some (outer_spec f x y)); dom = posb (fst x) && posb (fst y) }
    | _ -> failwith "outer");
  register "ident" (fun _ -> { model = "ok"; spec = "ok"; dom = false });
  register "dtype" (fun a -> match a with
    | [op; t1; t2] ->
        let t1 = dtype_of (getS t1) and t2 = dtype_of (getS t2) in
        let r = (match getS op with
          | "add" | "subtract" | "multiply" | "divide" -> result_dtype None Arith t1 t2
          | "less" | "equal" -> result_dtype None Compare t1 t2
          | "sum" -> reduce_dtype None t1
          | s -> failwith ("dtype op " ^ s)) in
        both ("ok " ^ dtype_name r) true
    | _ -> failwith "dtype")
