(* h_c07.ml — C07 handlers: Ufunc model (broadcast_arrays -> broadcast_to views -> ufunc_t) vs NumPy's rule;
   Dtype table; the identity cases have a C++-side oracle (the model side prints the constant expectation). *)
open BinNums
open Datatypes
open Base
open Index
open Broadcast
open Ufunc
open Dtype
open Common
module List = Stdlib.List
module String = Stdlib.String

let three = z_of_int 3 and seven = z_of_int 7 and one = z_of_int 1
let b2z b = if b then one else Z0

(* operand: A:shape:data -> (shape, element function); I:v -> scalar (shape [], read at the empty index) *)
let operand_of = function
  | A (s, d) -> (s, (fun i -> List.nth d (int_of_z (horner Z0 i s))))
  | I v -> ([], (fun _ -> v))
  | _ -> failwith "operand"

let show_operand = function
  | None -> "nothing"
  | Some (d, e) -> show_arr d (List.map e (lex_enum d))

let op1 = function
  | "negative" -> Z.opp | "square" -> (fun x -> Z.mul x x)
  | "lin1" -> (fun x -> Z.add (Z.mul seven x) one)
  | s -> failwith ("op1 " ^ s)
let op2 = function
  | "add" -> Z.add | "subtract" -> Z.sub | "multiply" -> Z.mul
  | "lin" -> (fun x y -> Z.sub (Z.mul three x) y)
  | "less" -> (fun x y -> b2z (Z.ltb x y))
  | s -> failwith ("op2 " ^ s)

let dtype_of = function
  | "bool" -> Bool | "i8" -> I8 | "u8" -> U8 | "i16" -> I16 | "u16" -> U16 | "i32" -> I32 | "u32" -> U32
  | "i64" -> I64 | "u64" -> U64 | "f32" -> F32 | "f64" -> F64 | s -> failwith ("dtype " ^ s)
let dtype_name = function
  | Bool -> "bool" | I8 -> "i8" | U8 -> "u8" | I16 -> "i16" | U16 -> "u16" | I32 -> "i32" | U32 -> "u32"
  | I64 -> "i64" | U64 -> "u64" | F32 -> "f32" | F64 -> "f64"

let () =
  register "ufunc1" (fun a -> match a with
    | [op; _; x] ->
        let x = operand_of x and f = op1 (getS op) in
        let r = ufunc1 f x in
        { model = show_operand (Some r); spec = show_operand (Some (fst x, fun i -> f (snd x i))); dom = posb (fst x) }
    | _ -> failwith "ufunc1");
  register "ufunc2" (fun a -> match a with
    | [op; _; _; x; y] ->
        let x = operand_of x and y = operand_of y and f = op2 (getS op) in
        { model = show_operand (ufunc2 f x y); spec = show_operand (ufunc2_spec f x y); dom = posb (fst x) && posb (fst y) }
    | _ -> failwith "ufunc2");
  register "ufunc3" (fun a -> match a with
    | [_; c; x; y] ->
        let c = operand_of c and x = operand_of x and y = operand_of y in
        let f c x y = if c = Z0 then y else x in
        { model = show_operand (ufunc3 f c x y); spec = show_operand (ufunc3_spec f c x y);
          dom = posb (fst c) && posb (fst x) && posb (fst y) }
    | _ -> failwith "ufunc3");
  register "outer" (fun a -> match a with
    | [op; x; y] ->
        let x = operand_of x and y = operand_of y and f = op2 (getS op) in
        { model = show_operand (Some (outer f x y)); spec = show_operand (Some (outer_spec f x y)); dom = posb (fst x) && posb (fst y) }
    | _ -> failwith "outer");
  (* defer S:form S:kind A1 B1 I:c1 A2 B2 I:c2 — deferred evaluation: the composed view is a VALUE over its leaf arrays, so the
     result of each helper call is the composition of the element-wise models on that call's own data *)
  register "defer" (fun args -> match args with
    | [form; _; a1; b1; c1; a2; b2; c2] ->
        let form = getS form in
        let neg x = (fst x, fun i -> Z.opp (snd x i)) in
        let scalar v = ([], fun _ -> v) in
        let bind o f = match o with Some x -> f x | None -> None in
        let where_f c x y = if c = Z0 then y else x in
        (* u2 / u3 / out: the model functions or their specifications *)
        let eval u2 u3 out a b c =
          let a = operand_of a and b = operand_of b and k = Z.add (getI c) one in
          (match form with
           | "u1" -> Some (ufunc1 (op1 "lin1") (ufunc1 Z.opp a))
           | "binl" -> u2 (op2 "lin") (neg a) b
           | "binr" -> u2 (op2 "lin") a (neg b)
           | "bins" -> bind (u2 Z.add a (scalar k)) (fun x -> bind (u2 Z.mul b (scalar (Z.add k one))) (fun y -> u2 (op2 "lin") x y))
           | "outl" -> Some (out (op2 "lin") (neg a) b)
           | "outr" -> Some (out (op2 "lin") a (neg b))
           | "outs" -> Some (out Z.sub (neg (ufunc1 (op1 "lin1") a)) (ufunc1 (op1 "square") (neg (neg b))))
           | "wh" -> u3 where_f (neg a) (neg b) (scalar k)
           | f -> failwith ("defer form " ^ f)) in
        let m2 f x y = ufunc2 f x y and m3 f x y z = ufunc3 f x y z and mo f x y = outer f x y in
        let s2 f x y = ufunc2_spec f x y and s3 f x y z = ufunc3_spec f x y z and so f x y = outer_spec f x y in
        let pos_all = List.for_all (fun x -> match x with A (s, _) -> posb s | _ -> true) [a1; b1; a2; b2] in
        { model = show_operand (eval m2 m3 mo a1 b1 c1) ^ " | " ^ show_operand (eval m2 m3 mo a2 b2 c2);
          spec = show_operand (eval s2 s3 so a1 b1 c1) ^ " | " ^ show_operand (eval s2 s3 so a2 b2 c2);
          dom = pos_all }
    | _ -> failwith "defer");
  (* ---------- result element type per argument form (drivers/c07_cast.cpp) ---------- *)
  let form_of = function
    | "def" -> CastDefault | "auto" -> CastAuto | "same" -> CastSameKind | "equiv" -> CastEquiv | f -> failwith ("form " ^ f) in
  let zop = function "add" -> Z.add | "subtract" -> Z.sub | "multiply" -> Z.mul | f -> failwith ("zop " ^ f) in
  let typed_result rt f x y =
    (* the element-wise / outer model on exact integers, every element converted into the result element type *)
    match f x y with
    | None -> None
    | Some (d, e) -> Some (d, fun i -> int_cast rt (e i)) in
  register "cast" (fun a -> match a with
    | [fn; form; t; x; y] ->
        let t = dtype_of (getS t) and form = getS form and op = zop (getS fn) in
        let rt = binary_result_dtype (form_of form) Arith t t in
        let x = operand_of x and y = operand_of y in
        let tail = " ; view=" ^ dtype_name rt ^ (if form = "def" || form = "same" then " eval=" ^ dtype_name rt ^ " evalsame=1" else " eval=- evalsame=-") in
        let pr = function None -> "nothing" | r -> show_operand r ^ tail in
        { model = pr (typed_result rt (ufunc2 op) x y); spec = pr (typed_result rt (ufunc2_spec op) x y); dom = posb (fst x) && posb (fst y) }
    | _ -> failwith "cast");
  register "outerd" (fun a -> match a with
    | [fn; t; d; x; y] ->
        let t = dtype_of (getS t) and op = zop (getS fn) in
        let form = (match getS d with "none" -> CastDefault | r -> CastDtype (dtype_of r)) in
        let rt = binary_result_dtype form Arith t t in
        let x = operand_of x and y = operand_of y in
        let pr r = show_operand r ^ " ; view=" ^ dtype_name rt in
        { model = pr (typed_result rt (fun a b -> Some (outer op a b)) x y); spec = pr (typed_result rt (fun a b -> Some (outer_spec op a b)) x y);
          dom = posb (fst x) && posb (fst y) }
    | _ -> failwith "outerd");
  register "redt" (fun a -> match a with
    | [_; _; t; d] ->
        let t = dtype_of (getS t) in
        let r = (match getS d with "none" -> None | r -> Some (dtype_of r)) in
        both ("ok view=" ^ dtype_name (reduce_dtype r t)) true
    | _ -> failwith "redt");
  register "evalk" (fun a -> match a with
    | [fn; _; _; x; y] ->
        let x = operand_of x and y = operand_of y in
        let f = (match getS fn with "add" -> Z.add | "lin" -> op2 "lin" | t -> failwith ("evalk " ^ t)) in
        { model = show_operand (ufunc2 f x y); spec = show_operand (ufunc2_spec f x y); dom = posb (fst x) && posb (fst y) }
    | _ -> failwith "evalk");
  (* ascal S:fn S:arrT S:scalT S:pos A I:n — array op scalar of another element type, scalar on either side.  The element type
     comes from the Dtype table; the values are the C++ scalar operation on the two element VALUES in their own types (usual
     arithmetic conversions), computed here with exact integers or IEEE doubles (float32 results rounded once: exact for + - * /) *)
  register "ascal" (fun a -> match a with
    | [fn; at; st; pos; arr; n] ->
        let fn = getS fn and at = dtype_of (getS at) and st = dtype_of (getS st) and scal_left = (getS pos = "l") in
        let (shape, data) = getA arr and n = getI n in
        let isf d = is_float d in
        let f32 x = Int32.float_of_bits (Int32.bits_of_float x) in
        let tof z = float_of_int (int_of_z z) in
        let kf = if isf st then tof n /. 4.0 else tof n in           (* the scalar as a real number *)
        let ct = promote_cxx at st in                               (* type the operation is carried out in *)
        let rt = (match fn with
          | "power" -> result_dtype None Pow at st | "less" -> Bool | _ -> result_dtype None Arith at st) in
        let fl x = Printf.sprintf "%.17g" x in
        let elem xz =
          let xf = tof xz in
          let (lf, rf) = if scal_left then (kf, xf) else (xf, kf) in
          if fn = "power" then fl (Float.pow lf rf)
          else if fn = "less" then (if lf < rf then "1" else "0")
          else if fn = "where" then
            (* where(a, a, k) / where(a, k, a): condition a != 0 *)
            let v = if xz <> Z0 then (if scal_left then kf else xf) else (if scal_left then xf else kf) in
            if isf rt then fl (if rt = F32 then f32 v else v) else string_of_z (int_cast rt (z_of_int (int_of_float v)))
          else if isf ct then begin
            let r = (match fn with
              | "add" -> lf +. rf | "subtract" -> lf -. rf | "multiply" -> lf *. rf | "divide" -> lf /. rf
              | "maximum" -> if lf > rf then lf else rf | "minimum" -> if lf < rf then lf else rf | f -> failwith ("ascal " ^ f)) in
            fl (if ct = F32 then f32 r else r)
          end else begin
            let (lz, rz) = if scal_left then (n, xz) else (xz, n) in
            let lz = int_cast ct lz and rz = int_cast ct rz in
            let r = (match fn with
              | "add" -> Z.add lz rz | "subtract" -> Z.sub lz rz | "multiply" -> Z.mul lz rz | "divide" -> Z.quot lz rz
              | "maximum" -> Z.max lz rz | "minimum" -> Z.min lz rz | f -> failwith ("ascal " ^ f)) in
            string_of_z (int_cast ct r)
          end in
        let r = "ok " ^ show_list shape ^ " ; " ^ String.concat "," (List.map elem data) ^ " ; view=" ^ dtype_name rt in
        { model = r; spec = r; dom = false }
    | _ -> failwith "ascal");
  register "ident" (fun _ -> { model = "ok"; spec = "ok"; dom = false });
  register "dtype" (fun a -> match a with
    | [op; t1; t2] ->
        let t1 = dtype_of (getS t1) and t2 = dtype_of (getS t2) in
        let r = (match getS op with
          | "add" | "subtract" | "multiply" | "divide" -> result_dtype None Arith t1 t2
          | "less" | "equal" -> result_dtype None Compare t1 t2
          | "sum" -> reduce_dtype None t1
          | s -> failwith ("dtype op " ^ s)) in
        both ("ok " ^ dtype_name r) true
    | _ -> failwith "dtype")
