"""C05 — slicing follows Python / NumPy basic-indexing semantics."""
import itertools, os, re, random
from collections import Counter
from harness import gen_c05

ID = "C05"
MODEL_MODULES = ["Base", "Index", "Slice"]
HANDLERS = ["h_c05.ml"]
CLAIM = dict(
    text=("The pinned slice arithmetic does NOT implement Python's slice.indices on the whole quantifier (about two thirds "
          "of the per-axis box gives a wrong length and/or wrong source indices, because extents are size_t, bounds are "
          "int, and the length goes through a binary32 and a 32-bit int). Kernel-checked: (1) C05_slice_python_on_core — "
          "for EVERY extent n < 2^24 and all int bounds, on the intensional input class slice_core (all-None; ::+-s; "
          ":b[:+s] with b >= -n; a:[:+s] with 0<=a<=n; a::-s with 0<=a<n; a:b[:+s] with ordered in-range bounds or stop "
          "past the end) the model's length and every source index equal Python's; (2) C05_core_sound_on_box / "
          "C05_core_coverage_on_box — vm_compute sweeps over the stated box; (3) C05_refuted_* — witnesses of every "
          "failing family, incl. binary32 lengths above 2^24 and the trailing-ellipsis read that makes the typed-tuple "
          "and the run-time-list encodings disagree; (4) C05_multi_axis — axes compose, integers drop their axis, one "
          "ellipsis expands to full slices, for any rank. Correspondence: the model (image of compute_range / compute_step / compute_index / shape_slice / slice / "
          "shape_dynamic_slice / dynamic_slice) is compared with the real C++ on the whole per-axis box in four encodings "
          "(typed tuple through apply_*; direct variadic call with std::array shape; run-time list of either; list of "
          "std::array<int,K>; plus compile-time-constant parts for a table of non-negative values), length AND every source index, and on seeded 1..3-axis combinations with integers and an "
          "ellipsis at index and at view level. impl = model is required wherever the model is defined; impl = Python "
          "is required on slice_core and wherever the model agrees with Python; the remaining disagreement with Python "
          "is the known finding (class predicate = the pinned model itself), so any new deviation is a violation."),
    ref="5.5", technique="Coq proof on the characterised input class + machine-checked refutations outside it + differential "
                         "correspondence with the extracted model", extra="")
RULE = ("stream box: every n in 1..6, start/stop in [-(n+2), n+2] or None, step in {-3..-1,1..3}, None or omitted (2-part slice) "
        "= 12 type patterns, through 4 encodings (var/tup/dyn/arr; quick tier rotates the encoding per case but covers every "
        "(pattern, encoding) pair, thorough runs all) + a table of 48 compile-time-constant slices (size_t constants) x n in 1..6; stream edge: extents near 2^24 and 2^31 with bounds near 0, +-n, index math only; "
        "stream multi: seeded 1..3-axis type combinations with integers and an ellipsis in every position (quick 120 type "
        "combinations, thorough 400) x value draws, index level (shape + every source multi-index) and view level (shape + every "
        "element); stream single: view::slice(a, one slice) on 1-d arrays. "
        "non-trivial = a case with at least one integer bound or step; distinct = distinct case lines")
THEOREM_STATUS = {"proved": ["C05_slice_python_on_core", "C05_python_index_in_bounds", "C05_multi_axis",
                             "C05_encodings_agree_on_domain", "C05_internal_slices_in_core", "C05_core_sound_on_box",
                             "C05_core_coverage_on_box", "C05_float_model_consistent_on_sample"],
                  "partial": [],
                  "refuted": ["C05_refuted_negative_start_open", "C05_refuted_start_past_end", "C05_refuted_stop_below_minus_n",
                              "C05_refuted_crossed_bounds", "C05_refuted_open_start_negative_step",
                              "C05_refuted_negative_step_start", "C05_refuted_float_len", "C05_refuted_on_box",
                              "C05_refuted_encodings_agree", "C05_refuted_single_range_view"]}
ASSUMPTIONS = [
    "binary32: for |range|, step <= 2^24 the model takes ceil((float)range/step) to be the exact ceiling (argued in Slice.v; "
    "cross-checked against the bit-level computation f32r on 16 560 operand pairs by C05_float_model_consistent_on_sample and "
    "against the C++ on every case); larger operands use the bit-level computation",
    "signed int overflow in bound arithmetic is modelled as wrap-around; every theorem requires -2^31 < bound < 2^31-1",
    "shapes and indices have element type size_t (what views pass); an int-typed shape changes the dynamic path's arithmetic",
    "the two encodings share ONE Gallina function for the per-axis arithmetic (their C++ differences do not change a value); "
    "their agreement is corresponded on every case; the one modelled difference is the trailing-ellipsis shape read",
    "well-formed indices only: parts account for every axis (the header has no error handling for other calls)",
]


def drivers(tier):
    """at most 4 compile jobs run at once (the specs of one key are built concurrently, keys one after the other).
    A binary answers `unsupported` to the cases of the other TUs, so several TUs can share a key."""
    p = gen_c05.write_drivers(tier)
    nt = gen_c05.n_tus(tier)
    out = {"a": [(p["ax"], "ndebug", ()), (p["ax"], "asan", ()), (p["dyn"], "ndebug", ()), (p["dyn"], "asan", ())]}
    if tier == "quick":
        out["m"] = [(p["mx%d" % t], "ndebug", ()) for t in range(nt)] + [(p["mx0"], "asan", ())]
    else:
        for g in range(0, nt, 4):
            out["m%d" % (g // 4)] = [(p["mx%d" % t], "ndebug", ()) for t in range(g, min(nt, g + 4))]
        out["ms"] = [(p["mx%d" % t], "asan", ()) for t in range(0, nt, 2)]
    return out


def P(v): return "N" if v is None else ("O" if v == "O" else "I:%d" % v)

ENCS = ["var", "tup", "dyn", "arr"]


def pattern(a, b, c):
    return ("N" if a is None else "i") + ("N" if b is None else "i") + ("N" if c is None else "O" if c == "O" else "i")


def gen_cases(rng, tier):
    out = []
    def add(stream, line, key): out.append((stream, line, key))
    n_enc = Counter()
    for n in range(1, 7):
        bounds = [None] + list(range(-(n + 2), n + 3))
        steps = [None, "O", -3, -2, -1, 1, 2, 3]
        for a in bounds:
            for b in bounds:
                for c in steps:
                    pat = pattern(a, b, c)
                    encs = ENCS if pat in ("iii", "iiO") else ENCS[:3]
                    if tier == "quick":
                        # rotate so that every (pattern, encoding) pair is hit many times
                        n_enc[pat] += 1
                        encs = [encs[n_enc[pat] % len(encs)]]
                    for e in encs:
                        add("box", "ax S:%s I:%d %s %s %s" % (e, n, P(a), P(b), P(c)), "a")
    # ---- compile-time-constant parts (fixed table instantiated in the driver)
    for n in range(1, 7):
        for a in (None, 0, 1, 2):
            for b in (None, 1, 3, 5):
                for c in ("O", 1, 2):
                    add("box", "ax S:ct I:%d %s %s %s" % (n, P(a), P(b), P(c)), "a")
    # ---- large extents, index math only (the length goes through binary32 above 2^24)
    big = [2**24 - 1, 2**24, 2**24 + 1, 2**24 + 3, 2**25 + 7, 2**27 + 11, 2**31 - 200, 2**31 - 65, 2**31 - 64, 2**31 - 1]
    for n in big:
        near = [0, 1, 2, 5, n - 2, n - 1, n, n + 1, -1, -2, -n, -n + 1, -n - 1]
        cands = [(None, None), (0, None), (1, None), (n - 1, None), (n, None), (None, n), (None, n - 1), (None, -1), (None, 5), (0, n), (1, n - 1), (-5, n + 3), (3, -2)]
        cands += [(rng.choice(near), rng.choice(near)) for _ in range(12 if tier == "quick" else 60)]
        for (a, b) in cands:
            if (a is not None and abs(a) >= 2**31) or (b is not None and abs(b) >= 2**31): continue
            for c in [None, "O", 1, 2, 3, -1, -2]:
                if tier == "quick" and rng.random() < 0.5: continue
                pat = pattern(a, b, c)
                e = rng.choice(ENCS if pat in ("iii", "iiO") else ENCS[:3])
                add("edge", "ax S:%s I:%d %s %s %s" % (e, n, P(a), P(b), P(c)), "a")
    # ---- the public variadic view::slice with exactly one slice on a 1-d array
    for n in (3, 5):
        for (a, b) in [(0, n), (1, 3), (0, 2), (-2, n), (2, 2)]:
            add("single", "v1 I:%d I:%d I:%d" % (n, a, b), "a")
            add("single", "v1 I:%d I:%d I:%d I:1" % (n, a, b), "a")
    # ---- several axes
    def draw_part(t, n):
        if t == "e": return "S:e"
        if t == "i":
            v = rng.randint(-n, n - 1) if rng.random() < 0.95 else rng.choice([n, -n - 1])
            return "S:i,%d" % v
        ordered = rng.random() < 0.6
        if ordered:
            a1 = rng.randint(0, n); b1 = rng.randint(a1, n)
            a = a1 - n if (a1 < n and rng.random() < 0.4) else a1
            b = b1 - n if (b1 < n and rng.random() < 0.4) else (b1 + rng.randint(0, 2) if b1 == n else b1)
            c = rng.choice([1, 1, 2, 3])
            if rng.random() < 0.1: c = -rng.choice([1, 2, 3])
        else:
            a = rng.randint(-(n + 2), n + 2); b = rng.randint(-(n + 2), n + 2); c = rng.choice([-3, -2, -1, 1, 2, 3])
        f = lambda ch, v: "N" if ch == "N" else "O" if ch == "O" else str(v)
        return "S:r,%s,%s,%s" % (f(t[0], a), f(t[1], b), f(t[2], c))
    def draw_shape(dim): return [rng.randint(1, 5) for _ in range(dim)]
    def parts_line(shape, parts):
        nf = len(shape) - sum(1 for x in parts if x != "e")
        toks = []; ax = 0
        for t in parts:
            if t == "e": toks.append("S:e"); ax += nf
            else: toks.append(draw_part(t, shape[ax])); ax += 1
        return "L:%s %s" % (",".join(map(str, shape)), " ".join(toks))
    combos = gen_c05.static_combos(tier)
    nt = gen_c05.n_tus(tier)
    ndraw = 6 if tier == "quick" else 12
    for cid, (dim, parts) in enumerate(combos):
        key = "m" if tier == "quick" else "m%d" % ((cid % nt) // 4)
        for d in range(ndraw):
            body = parts_line(draw_shape(dim), parts)
            add("multi", "mx S:%s S:c%d %s" % ("var" if d % 2 == 0 else "tup", cid, body), key)
            add("multi", "vw S:%s S:c%d %s" % ("tup" if (d % 2 == 0 and len(parts) >= 2) else "var", cid, body), key)
    # run-time list encoding: any sequence of integers / ellipsis / ranges of ONE tuple pattern (+ all-int 3-part ranges as arrays)
    nseq = 40 if tier == "quick" else 150
    for pat in gen_c05.PATS:
        for _ in range(nseq):
            dim = rng.choice([1, 2, 2, 3, 3, 3])
            has_e = rng.random() < 0.5
            nf = rng.randint(0, dim) if has_e else 0
            parts = [("i" if rng.random() < 0.25 else (pat if rng.random() < 0.75 else "iii")) for _ in range(dim - nf)]
            if has_e: parts.insert(rng.randint(0, len(parts)), "e")
            if nf + sum(1 for x in parts if x not in ("i", "e")) == 0: continue
            body = parts_line(draw_shape(dim), parts)
            add("multi", "mx S:dyn S:%s %s" % (pat, body), "a")
            add("multi", "vw S:dyn S:%s %s" % (pat, body), "a")
    return out


def nontrivial(line):
    return bool(re.search(r"I:-?\d+ .*I:-?\d+", line)) or ",-" in line or bool(re.search(r"r,[^ ]*\d", line))


def distribution(streams):
    ops = Counter(); encs = Counter(); pats = Counter()
    for _, line, _ in streams:
        t = line.split(" ")
        ops[t[0]] += 1; encs[t[1][2:] if t[1].startswith("S:") else "-"] += 1
        if t[0] == "ax":
            pats["".join("N" if x == "N" else "O" if x == "O" else "i" for x in t[3:6])] += 1
    return {"ops": dict(ops), "encodings": dict(encs), "axis_patterns": dict(pats)}


def case_pattern(line):
    t = line.split(" ")
    if t[0] == "ax":
        return "".join("N" if x == "N" else "O" if x == "O" else "i" for x in t[3:6])
    return "multi"


def classify(line, impl, spec, model):
    """a disagreement with Python is the known slice-arithmetic finding ONLY when the implementation does exactly
    what the pinned model says (impl == model != python); where the model says the C++ is undefined (float -> int
    conversion out of range) any output is that finding; everything else (impl != model) stays a violation."""
    norm = lambda s: " ".join(s.split())
    t = line.split(" ")
    if t[0] == "v1":
        return "view-slice-single-range" if impl.startswith("trap") else None
    if t[0] == "ax" and int(t[2][2:]) > 2 ** 24:
        if model == "ub": return "slice-float-len-ub"
        return "slice-float-len" if (norm(impl) == norm(model) and norm(model) != norm(spec)) else None
    if model == "trap out_of_range" and norm(impl) == model:
        return "ellipsis-trailing-empty:variadic"
    if model == "ub":
        return "slice-arith-ub:" + case_pattern(line)
    if norm(impl) == norm(model) and norm(model) != norm(spec):
        return "slice-arith:" + case_pattern(line)
    return None
