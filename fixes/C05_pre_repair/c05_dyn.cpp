// c05_dyn.cpp — C05 multi-axis correspondence, run-time list encoding.
//   mx|vw S:dyn S:<PAT> L:<shape> <part> ...
// The list element type is either<int, either<ellipsis_t, either<std::array<int,3>, TUPLE>>> where TUPLE is the one
// typed-tuple pattern PAT of the case (shape_dynamic_slice finds only the first tuple / first index-array alternative);
// range parts whose None/int pattern equals PAT are passed as TUPLE, all-integer 3-part ranges as std::array<int,3>.
#include "c05_mx.hpp"
using namespace c05;

template <typename TUP, typename MK>
static std::string go(const Case& c, const std::string& pat, MK&& mk) {
    using K = dynk<TUP>;
    std::vector<typename K::slice_t> pack;
    for (size_t i = 3; i < c.args.size(); i++) {
        const std::string body = c.args[i].raw.substr(2);
        if (body == "e") pack.push_back(K::E());
        else if (body[0] == 'i') pack.push_back(K::I(part_i(c.args[i])));
        else {
            auto f = split(body, ',');
            std::string p; for (int j = 1; j <= 3; j++) p += (f[j] == "N" ? "N" : f[j] == "O" ? "O" : "i");
            if (p == pat) pack.push_back(K::T(mk(c.args[i])));
            else if (p == "iii") pack.push_back(K::A(part_a3(c.args[i])));
            else return "unsupported";
        }
    }
    return run_dyn(c, pack);
}

// v1 I:n I:a I:b [I:c] : the public variadic view::slice with exactly ONE (all-integer) slice on a 1-d array
static std::string single(const Case& c) {
    std::vector<ll> sh{c.args[0].val}, data; for (ll i = 0; i < c.args[0].val; i++) data.push_back(i);
    auto a = make_array(sh, data);
    try {
        if (c.args.size() == 3) return report_view(nm::view::slice(a, nmtools_tuple{(int)c.args[1].val, (int)c.args[2].val}));
        else return report_view(nm::view::slice(a, nmtools_tuple{(int)c.args[1].val, (int)c.args[2].val, (int)c.args[3].val}));
    } catch (std::length_error&) { return "trap length_error"; }
      catch (std::bad_alloc&) { return "trap length_error"; }
}

static std::string handle(const Case& c) {
    if (c.op == "v1") return single(c);
    if (c.op != "mx" && c.op != "vw") return "unsupported";
    if (c.args[0].raw != "S:dyn") return "unsupported";
    const std::string pat = c.args[1].raw.substr(2);
    using N = nm::none_t;
#define R3(A,B,C) return go<nmtools_tuple<A,B,C>>(c, pat, [](const Arg& x){ return part_r3<A,B,C>(x); });
#define R2(A,B)   return go<nmtools_tuple<A,B>>(c, pat, [](const Arg& x){ return part_r2<A,B>(x); });
    if (pat == "NNO") { R2(N,N) } if (pat == "NiO") { R2(N,int) } if (pat == "iNO") { R2(int,N) } if (pat == "iiO") { R2(int,int) }
    if (pat == "NNN") { R3(N,N,N) } if (pat == "NNi") { R3(N,N,int) } if (pat == "NiN") { R3(N,int,N) } if (pat == "Nii") { R3(N,int,int) }
    if (pat == "iNN") { R3(int,N,N) } if (pat == "iNi") { R3(int,N,int) } if (pat == "iiN") { R3(int,int,N) } if (pat == "iii") { R3(int,int,int) }
    return "unsupported";
}
int main() { return vd::run_main(handle); }
