(* SliceProofs.v — C05 lemmas.
   Stage 1: the machine-typed model equals a wrap-free description (range_z / start_z)
            followed by ONE cast, for all int bounds and extents below 2^31.
   Stage 2: on slice_core the wrap-free description equals Python's slice.indices,
            for every extent (no box), with the casts and the binary32 step harmless below 2^24.
   Stage 3: several axes.
   Stdlib only, no axioms. *)
From Coq Require Import Znumtheory.
From NM Require Import Base Slice.
Local Open Scope Z_scope.

(* ---------- comparisons ---------- *)
Ltac zb1 :=
  match goal with
  | |- context [?a <? ?b] => destruct (Z.ltb_spec a b)
  | |- context [?a <=? ?b] => destruct (Z.leb_spec a b)
  | |- context [?a =? ?b] => destruct (Z.eqb_spec a b)
  end; try (exfalso; lia).
Ltac zb := repeat (zb1; cbn [andb orb negb]).
Ltac zbh H :=
  repeat (match type of H with
          | context [?a <? ?b] => destruct (Z.ltb_spec a b)
          | context [?a <=? ?b] => destruct (Z.leb_spec a b)
          | context [?a =? ?b] => destruct (Z.eqb_spec a b)
          end; cbn [andb orb negb] in H; try discriminate H).

(* ---------- machine arithmetic ---------- *)
Definition int_ok (v : Z) : Prop := - 2 ^ 31 < v < 2 ^ 31 - 1.
Definition oint_ok (o : option Z) : Prop := match o with None => True | Some v => int_ok v end.

Lemma p24 : 2 ^ 24 = 16777216. Proof. reflexivity. Qed.
Lemma p31 : 2 ^ 31 = 2147483648. Proof. reflexivity. Qed.
Lemma p32 : 2 ^ 32 = 4294967296. Proof. reflexivity. Qed.
Lemma p63 : 2 ^ 63 = 9223372036854775808. Proof. reflexivity. Qed.
Lemma p64 : 2 ^ 64 = 18446744073709551616. Proof. reflexivity. Qed.

Lemma u64_small z : 0 <= z < 2 ^ 64 -> u64 z = z.
Proof. intros. unfold u64. now apply wrap_small. Qed.

Lemma u64_mod z : u64 z = z mod 2 ^ 64. Proof. reflexivity. Qed.

Lemma u64_idem z : u64 (u64 z) = u64 z.
Proof. unfold u64, wrap. now rewrite Z.mod_mod. Qed.

Lemma u64_add_l x y : u64 (u64 x + y) = u64 (x + y).
Proof. unfold u64, wrap. now rewrite Zplus_mod_idemp_l. Qed.
Lemma u64_add_r x y : u64 (x + u64 y) = u64 (x + y).
Proof. unfold u64, wrap. now rewrite Zplus_mod_idemp_r. Qed.
Lemma u64_sub_l x y : u64 (u64 x - y) = u64 (x - y).
Proof. unfold u64, wrap. now rewrite Zminus_mod_idemp_l. Qed.
Lemma u64_sub_r x y : u64 (x - u64 y) = u64 (x - y).
Proof. unfold u64, wrap. now rewrite Zminus_mod_idemp_r. Qed.
Lemma u64_mul_r x y : u64 (x * u64 y) = u64 (x * y).
Proof. unfold u64, wrap. now rewrite Zmult_mod_idemp_r. Qed.

Lemma i32_small z : - 2 ^ 31 <= z < 2 ^ 31 -> i32 z = z.
Proof.
  intros H. unfold i32, swrap. change (32 - 1) with 31. rewrite p31, p32 in *.
  destruct (Z_lt_le_dec z 0) as [Hn|Hp].
  - replace (z mod 4294967296) with (z + 4294967296)
      by (apply Z.mod_unique with (-1); lia).
    destruct (Z.ltb_spec (z + 4294967296) 2147483648); lia.
  - rewrite Z.mod_small by lia. destruct (Z.ltb_spec z 2147483648); lia.
Qed.

Lemma i32_u64 z : i32 (u64 z) = i32 z.
Proof.
  unfold i32, swrap, u64, wrap.
  replace ((z mod 2 ^ 64) mod 2 ^ 32) with (z mod 2 ^ 32); [reflexivity|].
  apply Zmod_div_mod; [rewrite p32; lia | rewrite p64; lia |].
  exists (2 ^ 32). reflexivity.
Qed.

Lemma u32_small z : 0 <= z < 2 ^ 32 -> u32 z = z.
Proof. intros. unfold u32. now apply wrap_small. Qed.

(* ---------- Stage 1: wrap-free description of the model ---------- *)

(* the range before the final cast *)
Definition range_z (n : Z) (start stop step : option Z) : Z :=
  match start, stop with
  | None, None => n
  | Some a, None =>
      match step with
      | Some s => if (s <? 0) && (0 <=? a) then a + 1 else n - a
      | None => n - a
      end
  | None, Some b => if b <? 0 then n + b else Z.min b n
  | Some a, Some b =>
      let st := Z.min b n in
      if (st <? 0) && (a <? 0) then st - a
      else if st <? 0 then n + st - a
      else if a <? 0 then st - (n + a)
      else if a <? st then st - a else a - st
  end.

Definition range_cast (start stop : option Z) (z : Z) : Z :=
  match start, stop with
  | None, None => z
  | Some _, Some _ => i32 z
  | _, _ => u64 z
  end.

Lemma clip_stop_eq n b : 0 <= n < 2 ^ 31 -> int_ok b -> clip_stop n b = Z.min b n.
Proof.
  intros Hn Hb. unfold clip_stop, int_ok in *. rewrite !i32_small by lia.
  destruct (Z.ltb_spec b n); lia.
Qed.

Lemma abs_i_neg v : int_ok v -> v < 0 -> abs_i v = - v.
Proof. intros Hv Hl. unfold abs_i, int_ok in *. destruct (Z.ltb_spec v 0); [|lia]. apply i32_small. lia. Qed.

Lemma compute_range_eq n a b c :
  0 <= n < 2 ^ 31 -> oint_ok a -> oint_ok b ->
  compute_range n a b c = range_cast a b (range_z n a b c).
Proof.
  intros Hn Ha Hb. destruct a as [a|], b as [b|]; cbn [compute_range range_z range_cast oint_ok] in *.
  - (* both *)
    rewrite clip_stop_eq by assumption.
    set (st := Z.min b n). assert (Hst : int_ok st) by (unfold int_ok, st in *; lia).
    destruct (Z.ltb_spec st 0) as [Hs|Hs]; destruct (Z.ltb_spec a 0) as [Hl|Hl]; cbn [andb].
    + rewrite !abs_i_neg by assumption. rewrite u64_sub_l, u64_sub_r, i32_u64. f_equal. lia.
    + rewrite !abs_i_neg by assumption. rewrite u64_sub_l, i32_u64. f_equal. lia.
    + rewrite !abs_i_neg by assumption. rewrite u64_sub_r, i32_u64. f_equal. lia.
    + destruct (Z.ltb_spec a st); reflexivity.
  - destruct c as [s|]; [destruct ((s <? 0) && (0 <=? a)); [rewrite i32_small by (unfold int_ok in *; lia)|]|]; reflexivity.
  - destruct (Z.ltb_spec b 0); [reflexivity|]. now rewrite clip_stop_eq.
  - reflexivity.
Qed.

(* start of compute_index before the final cast; the step is py_step *)
Definition cstop (n b : Z) : Z := Z.max (Z.min b n) (- n).
Definition start_z (n : Z) (start stop step : option Z) : Z :=
  match start, stop, step with
  | None, None, None => 0
  | Some a, None, None => if 0 <=? a then a else n - a
  | Some a, Some b, None =>
      let sv := cstop n b in
      if (0 <=? a) && (0 <? sv) then a
      else if (a <? 0) && (0 <? sv) then sv + a
      else if (0 <=? a) && (sv <? 0) then a
      else n + a
  | Some a, Some b, Some c =>
      let sv := cstop n b in
      if (0 <=? a) && (0 <=? sv) && (c <? 0) then (if 0 <? sv then sv - 1 else a)
      else if (a <? 0) && (0 <? sv) && (c <? 0) then sv + a
      else if (0 <=? a) && (sv <? 0) && (c <? 0) then a
      else if (a <? 0) && (sv <? 0) && (c <? 0) then n + a - 1
      else if (0 <=? a) && (0 <? sv) && (0 <? c) then a
      else if (a <? 0) && (0 <? sv) && (0 <? c) then sv + a
      else if (0 <=? a) && (sv <? 0) && (0 <? c) then a
      else n + a
  | None, Some b, None => 0
  | None, Some b, Some c =>
      let sv := cstop n b in
      if (0 <? sv) && (0 <? c) then 0 else if (0 <? sv) && (c <? 0) then n else 0
  | None, None, Some c => if c <? 0 then n - 1 else 0
  | Some a, None, Some c =>
      if (0 <=? a) && (0 <? c) then a
      else if (0 <=? a) && (c <? 0) then a
      else if (a <? 0) && (0 <? c) then n + a
      else a
  end.

Lemma clip_stop2_eq n b : 0 <= n < 2 ^ 31 -> int_ok b -> clip_stop2 n b = cstop n b.
Proof.
  intros Hn Hb. unfold clip_stop2, cstop. rewrite clip_stop_eq by assumption.
  rewrite i32_u64, i32_small by (unfold int_ok in *; lia).
  destruct (Z.ltb_spec (- n) (Z.min b n)); lia.
Qed.

Lemma u64_lin x k c : u64 (u64 x + u64 (k * u64 c)) = u64 (x + k * c).
Proof. now rewrite u64_mul_r, u64_add_l, u64_add_r. Qed.
Lemma u64_lin0 k c : u64 (0 + u64 (k * u64 c)) = u64 (0 + k * c).
Proof. now rewrite u64_mul_r, u64_add_r. Qed.

Lemma compute_index_eq k n a b c :
  0 <= n < 2 ^ 31 -> oint_ok a -> oint_ok b ->
  compute_index k n a b c = u64 (start_z n a b c + k * py_step c).
Proof.
  intros Hn Ha Hb.
  assert (Hcs : forall b, int_ok b -> int_ok (cstop n b)) by (intros; unfold cstop, int_ok in *; lia).
  destruct a as [a|], b as [b|], c as [c|]; cbn [compute_index start_z py_step oint_ok] in *;
    rewrite ?clip_stop2_eq by assumption.
  - (* a b c *)
    specialize (Hcs b Hb). set (sv := cstop n b) in *. unfold int_ok in *.
    destruct (0 <=? a) eqn:E1; destruct (0 <=? sv) eqn:E2; destruct (c <? 0) eqn:E3;
      destruct (0 <? sv) eqn:E4; destruct (a <? 0) eqn:E5; destruct (sv <? 0) eqn:E6; destruct (0 <? c) eqn:E7;
      cbn [andb]; try (exfalso; lia);
      rewrite ?(i32_small (sv - 1)), ?(i32_small (sv + a)) by lia; apply u64_lin.
  - specialize (Hcs b Hb). set (sv := cstop n b) in *. unfold int_ok in *.
    destruct (0 <=? a) eqn:E1; destruct (0 <? sv) eqn:E4; destruct (a <? 0) eqn:E5; destruct (sv <? 0) eqn:E6;
      cbn [andb]; try (exfalso; lia);
      rewrite ?(i32_small (sv + a)) by lia; rewrite u64_add_l, Z.mul_1_r; reflexivity.
  - destruct ((0 <=? a) && (0 <? c)); [apply u64_lin|].
    destruct ((0 <=? a) && (c <? 0)); [apply u64_lin|].
    destruct ((a <? 0) && (0 <? c)); apply u64_lin.
  - destruct (0 <=? a); rewrite u64_add_l, Z.mul_1_r; reflexivity.
  - destruct ((0 <? cstop n b) && (0 <? c)); [apply u64_lin0|].
    destruct ((0 <? cstop n b) && (c <? 0)); [apply u64_lin|apply u64_lin0].
  - now rewrite Z.mul_1_r.
  - reflexivity.
  - now rewrite Z.mul_1_r.
Qed.

(* ---------- Stage 2a: facts about the Spec alone ---------- *)

Lemma ceil_div_pos s t : 0 < t -> 0 < s -> ceil_div s t = (s - 1) / t + 1.
Proof.
  intros Ht Hs. unfold ceil_div.
  pose proof (Z.div_mod (- s) t ltac:(lia)) as D1. pose proof (Z.mod_pos_bound (- s) t Ht) as B1.
  pose proof (Z.div_mod (s - 1) t ltac:(lia)) as D2. pose proof (Z.mod_pos_bound (s - 1) t Ht) as B2.
  nia.
Qed.

Lemma ceil_div_zero s t : 0 < t -> - t < s <= 0 -> ceil_div s t = 0.
Proof.
  intros Ht Hs. unfold ceil_div. rewrite Z.div_small by lia. reflexivity.
Qed.

Lemma ceil_div_bound s t : 0 < t -> 0 <= s -> 0 <= ceil_div s t <= s.
Proof.
  intros Ht Hs. destruct (Z.eq_dec s 0) as [->|Hz].
  - rewrite ceil_div_zero by lia. lia.
  - rewrite ceil_div_pos by lia.
    pose proof (Z.div_mod (s - 1) t ltac:(lia)) as D2. pose proof (Z.mod_pos_bound (s - 1) t Ht) as B2.
    nia.
Qed.

(* the (len-1)-th element stays strictly before the stop: for s > 0, t > 0, k < (s-1)/t+1 -> k*t < s *)
Lemma last_in s t k : 0 < t -> 0 < s -> 0 <= k < (s - 1) / t + 1 -> 0 <= k * t < s.
Proof.
  intros Ht Hs Hk.
  pose proof (Z.div_mod (s - 1) t ltac:(lia)) as D2. pose proof (Z.mod_pos_bound (s - 1) t Ht) as B2.
  nia.
Qed.

Lemma py_bounds_pos n a b c : 0 <= n -> 0 < py_step c ->
  0 <= py_start n a c <= n /\ 0 <= py_stop n b c <= n.
Proof.
  intros Hn Hc. unfold py_start, py_stop, py_clamp. destruct a as [a|], b as [b|]; split; zb; lia.
Qed.

Lemma py_bounds_neg n a b c : 0 <= n -> py_step c < 0 ->
  -1 <= py_start n a c <= n - 1 /\ -1 <= py_stop n b c <= n - 1.
Proof.
  intros Hn Hc. unfold py_start, py_stop, py_clamp. destruct a as [a|], b as [b|]; split; zb; lia.
Qed.

(* Python never produces an out-of-range source index *)
Lemma py_index_inb n a b c k : 0 <= n -> py_step c <> 0 ->
  0 <= k < py_len n a b c -> 0 <= py_index k n a b c < n.
Proof.
  intros Hn Hc Hk. unfold py_len, py_index in *.
  set (st := py_step c) in *. set (s0 := py_start n a c) in *. set (s1 := py_stop n b c) in *.
  destruct (Z.ltb_spec st 0) as [Hneg|Hpos].
  - destruct (py_bounds_neg n a b c Hn Hneg) as [B0 B1]. fold s0 s1 in B0, B1.
    destruct (Z.ltb_spec s1 s0); [|lia].
    pose proof (last_in (s0 - s1) (- st) k ltac:(lia) ltac:(lia) Hk). nia.
  - assert (Hp : 0 < st) by lia.
    destruct (py_bounds_pos n a b c Hn Hp) as [B0 B1]. fold s0 s1 in B0, B1.
    destruct (Z.ltb_spec s0 s1); [|lia].
    pose proof (last_in (s1 - s0) st k Hp ltac:(lia) Hk). nia.
Qed.

Lemma py_len_bounds n a b c : 0 <= n -> py_step c <> 0 -> 0 <= py_len n a b c <= n.
Proof.
  intros Hn Hc. unfold py_len.
  set (st := py_step c) in *. set (s0 := py_start n a c). set (s1 := py_stop n b c).
  destruct (Z.ltb_spec st 0) as [Hneg|Hpos].
  - destruct (py_bounds_neg n a b c Hn Hneg) as [B0 B1]. fold s0 s1 in B0, B1.
    destruct (Z.ltb_spec s1 s0); [|lia].
    pose proof (ceil_div_bound (s0 - s1) (- st) ltac:(lia) ltac:(lia)).
    rewrite ceil_div_pos in H0 by lia. lia.
  - assert (Hp : 0 < st) by lia.
    destruct (py_bounds_pos n a b c Hn Hp) as [B0 B1]. fold s0 s1 in B0, B1.
    destruct (Z.ltb_spec s0 s1); [|lia].
    pose proof (ceil_div_bound (s1 - s0) st ltac:(lia) ltac:(lia)).
    rewrite ceil_div_pos in H0 by lia. lia.
Qed.

(* ---------- Stage 2b: on slice_core the wrap-free description is Python's ---------- *)

Ltac bprop :=
  repeat match goal with
  | H : _ && _ = true |- _ => apply andb_true_iff in H; destruct H
  | H : _ || _ = true |- _ => apply orb_true_iff in H; destruct H
  | H : (_ <? _) = true |- _ => apply Z.ltb_lt in H
  | H : (_ <=? _) = true |- _ => apply Z.leb_le in H
  | H : (_ =? _) = true |- _ => apply Z.eqb_eq in H
  | H : negb _ = true |- _ => apply negb_true_iff in H
  | H : (_ =? _) = false |- _ => apply Z.eqb_neq in H
  end.

(* the linear content of "model = Python" on one axis *)
Definition core_facts (n : Z) (a b c : option Z) : Prop :=
  let s := range_z n a b c in
  let st := py_step c in
  let t := Z.abs st in
  let a' := py_start n a c in
  let b' := py_stop n b c in
  st <> 0 /\ t <= 2 ^ 24 /\
  (- t < s <= n) /\
  (if 0 <? st
   then (a' < b' -> s = b' - a' /\ start_z n a b c = a') /\ (b' <= a' -> s <= 0)
   else (b' < a' -> s = a' - b' /\ start_z n a b c = a') /\ (a' <= b' -> s <= 0)).

Lemma core_facts_holds n a b c :
  0 <= n -> slice_core n a b c = true -> core_facts n a b c.
Proof.
  intros Hn H. unfold slice_core, step_ok24, core_both_pos, core_both_neg in H.
  destruct a as [a|], b as [b|], c as [c|]; bprop;
    unfold core_facts; cbn [range_z start_z py_start py_stop py_step]; unfold py_clamp, cstop;
    (split; [lia|]); (split; [try lia; rewrite p24; lia|]); zb; lia.
Qed.

Lemma compute_step_eq c : oint_ok c -> compute_step c = Z.abs (py_step c).
Proof.
  destruct c as [c|]; cbn [compute_step py_step oint_ok]; [|reflexivity].
  unfold int_ok. intros H. rewrite p31 in H.
  destruct (Z.ltb_spec c 0); rewrite u32_small by (rewrite p32; lia); lia.
Qed.

Lemma slice_python_on_core n a b c :
  0 <= n < 2 ^ 24 -> oint_ok a -> oint_ok b -> oint_ok c ->
  slice_core n a b c = true ->
  slice_len n a b c = Len (py_len n a b c)
  /\ forall k, 0 <= k < py_len n a b c -> compute_index k n a b c = py_index k n a b c.
Proof.
  intros Hn Ha Hb Hc H.
  assert (Hn31 : 0 <= n < 2 ^ 31) by (rewrite p24, p31 in *; lia).
  pose proof (core_facts_holds n a b c ltac:(lia) H) as (Hst & Ht & Hs & Hm).
  pose proof (py_len_bounds n a b c ltac:(lia) Hst) as HL.
  set (s := range_z n a b c) in *. set (st := py_step c) in *. set (t := Z.abs st) in *.
  set (a' := py_start n a c) in *. set (b' := py_stop n b c) in *.
  assert (Hcast : range_cast a b s = s).
  { unfold range_cast. destruct a, b; try reflexivity;
      [apply i32_small; rewrite p24, p31 in *; lia | | ];
      (destruct (Z_le_gt_dec 0 s); [apply u64_small; rewrite p24, p64 in *; lia|]).
    all: exfalso; unfold slice_core, step_ok24 in H; subst s; cbn [range_z] in *;
      destruct c; bprop; revert g; zb; lia. }
  assert (Hlen : ceil_div s t = py_len n a b c).
  { unfold py_len. fold st a' b'. destruct (Z.ltb_spec 0 st) as [Hp|Hp].
    - replace (st <? 0) with false by (symmetry; apply Z.ltb_ge; lia).
      replace t with st in * by lia. destruct Hm as [M1 M2].
      destruct (Z.ltb_spec a' b') as [L|L].
      + destruct (M1 L) as [-> _]. apply ceil_div_pos; lia.
      + apply ceil_div_zero; [lia|]. specialize (M2 L). lia.
    - replace (st <? 0) with true by (symmetry; apply Z.ltb_lt; lia).
      replace t with (- st) in * by lia. destruct Hm as [M1 M2].
      destruct (Z.ltb_spec b' a') as [L|L].
      + destruct (M1 L) as [-> _]. apply ceil_div_pos; lia.
      + apply ceil_div_zero; [lia|]. specialize (M2 L). lia. }
  split.
  - unfold slice_len. rewrite compute_range_eq, compute_step_eq by assumption.
    fold s st t. rewrite Hcast. unfold float_len.
    replace (t <=? 0) with false by (symmetry; apply Z.leb_gt; lia).
    replace (Z.abs s <=? 2 ^ 24) with true by (symmetry; apply Z.leb_le; rewrite p24 in *; lia).
    replace (t <=? 2 ^ 24) with true by (symmetry; apply Z.leb_le; lia).
    cbn [andb]. rewrite Hlen. f_equal. apply u64_small. rewrite p24, p64 in *. lia.
  - intros k Hk. rewrite compute_index_eq by assumption.
    pose proof (py_index_inb n a b c k ltac:(lia) Hst Hk) as Hin.
    unfold py_index in *. fold st a' in Hin |- *.
    assert (Hstart : start_z n a b c = a').
    { unfold py_len in Hk. fold st a' b' in Hk.
      destruct (Z.ltb_spec 0 st) as [Hp|Hp].
      - replace (st <? 0) with false in Hk by (symmetry; apply Z.ltb_ge; lia).
        destruct Hm as [M1 _]. destruct (Z.ltb_spec a' b') as [L|L]; [apply (M1 L)|lia].
      - replace (st <? 0) with true in Hk by (symmetry; apply Z.ltb_lt; lia).
        destruct Hm as [M1 _]. destruct (Z.ltb_spec b' a') as [L|L]; [apply (M1 L)|lia]. }
    rewrite Hstart. apply u64_small. rewrite p24, p64 in *. lia.
Qed.

(* boolean form of the hypotheses *)
Lemma intb_ok v : intb v = true -> int_ok v.
Proof. unfold intb, int_ok. intros H. bprop. lia. Qed.
Lemma ointb_ok o : ointb o = true -> oint_ok o.
Proof. destruct o; cbn; [apply intb_ok|trivial]. Qed.

Lemma axis_dom_python n a b c :
  axis_dom n a b c = true ->
  slice_len n a b c = Len (py_len n a b c)
  /\ forall k, 0 <= k < py_len n a b c -> compute_index k n a b c = py_index k n a b c.
Proof.
  unfold axis_dom. intros H.
  apply andb_true_iff in H as [H Hcore]. apply andb_true_iff in H as [H Hc].
  apply andb_true_iff in H as [H Hb]. apply andb_true_iff in H as [Hn Ha].
  apply Z.ltb_lt in Hn.
  assert (0 <= n) by (unfold slice_core in Hcore; apply andb_true_iff in Hcore as [Hc0 _]; now apply Z.leb_le in Hc0).
  apply slice_python_on_core; auto using ointb_ok.
Qed.

(* ---------- Stage 3: several axes ---------- *)

Lemma py_len_full n : 0 <= n -> py_len n None None None = n.
Proof.
  intros Hn. unfold py_len. cbn [py_step py_start py_stop]. cbn.
  destruct (Z.ltb_spec 0 n); [|lia]. rewrite Z.div_1_r. lia.
Qed.

Lemma py_shape_axes_full nf : forall shape rest,
  (nf <= length shape)%nat -> forallb ext_ok (firstn nf shape) = true ->
  py_shape_axes shape (repeat full nf ++ rest) = firstn nf shape ++ py_shape_axes (skipn nf shape) rest.
Proof.
  induction nf as [|nf IH]; intros shape rest Hl Hf; [reflexivity|].
  destruct shape as [|n shape]; [cbn in Hl; lia|].
  cbn [repeat app firstn skipn py_shape_axes full] in *. cbn [forallb] in Hf.
  apply andb_true_iff in Hf as [Hn Hf]. unfold ext_ok in Hn. apply andb_true_iff in Hn as [Hn _]. apply Z.leb_le in Hn.
  rewrite py_len_full by assumption. rewrite (IH shape rest) by (cbn in Hl; auto; lia). reflexivity.
Qed.

Lemma inb_app_inv i s1 : forall s2, inb i (s1 ++ s2) ->
  inb (firstn (length s1) i) s1 /\ inb (skipn (length s1) i) s2 /\ (length s1 <= length i)%nat.
Proof.
  revert i. induction s1 as [|n s1 IH]; intros i s2 H; cbn [app length firstn skipn] in *.
  - split; [constructor|]. split; [assumption|lia].
  - inversion H as [|x n' i' s' Hx Hi]; subst. destruct (IH i' s2 Hi) as (A & B & C).
    cbn [firstn skipn length]. split; [constructor; assumption|]. split; [assumption|lia].
Qed.

Lemma py_index_axes_full nf : forall idx shape rest,
  (nf <= length shape)%nat -> (nf <= length idx)%nat ->
  py_index_axes idx shape (repeat full nf ++ rest)
  = firstn nf idx ++ py_index_axes (skipn nf idx) (skipn nf shape) rest.
Proof.
  induction nf as [|nf IH]; intros idx shape rest Hs Hi; [reflexivity|].
  destruct shape as [|n shape]; [cbn in Hs; lia|]. destruct idx as [|k idx]; [cbn in Hi; lia|].
  cbn [repeat app firstn skipn py_index_axes full hd tl] in *.
  rewrite (IH idx shape rest) by (cbn in *; lia).
  unfold py_index. cbn [py_start py_step]. cbn. f_equal. lia.
Qed.

Lemma map_u64_inb i : forall s, forallb ext_ok s = true -> inb i s -> map u64 i = i.
Proof.
  induction i as [|x i IH]; intros s Hs H; [reflexivity|].
  inversion H as [|x' n i' s' Hx Hi]; subst. cbn [forallb] in Hs. apply andb_true_iff in Hs as [Hn Hs].
  unfold ext_ok in Hn. bprop. cbn [map]. rewrite (IH s') by assumption.
  rewrite u64_small by (rewrite p24, p64 in *; lia). reflexivity.
Qed.

Lemma int_index_eq n i : ext_ok n = true -> - n <= i < n -> int_index n i = if i <? 0 then i + n else i.
Proof.
  unfold ext_ok. intros Hn Hi. bprop. unfold int_index. rewrite p24 in *.
  destruct (Z.ltb_spec i 0).
  - rewrite abs_i_neg by (unfold int_ok; rewrite ?p31; lia). rewrite u64_small by (rewrite p64; lia). lia.
  - apply u64_small. rewrite p64. lia.
Qed.

Lemma multi_axis_go nf : forall sls shape,
  axes_core nf shape sls = true ->
  shape_slice_go nf shape sls = map Len (py_shape_axes shape (py_expand nf sls))
  /\ forall idx, inb idx (py_shape_axes shape (py_expand nf sls)) ->
       slice_go nf idx shape sls = py_index_axes idx shape (py_expand nf sls).
Proof.
  induction sls as [|s r IH]; intros shape H.
  - destruct shape; [|discriminate]. split; [reflexivity|]. intros idx _. reflexivity.
  - destruct s as [i| |a b c]; cbn [axes_core] in H.
    + (* integer *)
      destruct shape as [|n shape]; [discriminate|].
      apply andb_true_iff in H as [H Hr]. apply andb_true_iff in H as [H Hi2]. apply andb_true_iff in H as [Hn Hi1].
      apply Z.leb_le in Hi1. apply Z.ltb_lt in Hi2.
      destruct (IH shape Hr) as [IHs IHi].
      cbn [shape_slice_go slice_go py_expand py_shape_axes py_index_axes tl hd].
      split; [exact IHs|]. intros idx Hin. rewrite (IHi idx Hin). rewrite int_index_eq by (auto; lia). reflexivity.
    + (* ellipsis *)
      apply andb_true_iff in H as [H Hr]. apply andb_true_iff in H as [Hl Hf]. apply Nat.leb_le in Hl.
      destruct (IH (skipn nf shape) Hr) as [IHs IHi].
      cbn [shape_slice_go slice_go py_expand].
      rewrite py_shape_axes_full by assumption.
      split; [rewrite map_app, IHs; reflexivity|].
      intros idx Hin.
      pose proof (inb_app_inv idx (firstn nf shape) _ Hin) as (A & B & C).
      rewrite firstn_length_le in A, B, C by assumption.
      rewrite py_index_axes_full by assumption.
      rewrite (IHi _ B). rewrite (map_u64_inb _ _ Hf A). reflexivity.
    + (* range *)
      destruct shape as [|n shape]; [discriminate|].
      apply andb_true_iff in H as [Hd Hr].
      destruct (axis_dom_python n a b c Hd) as [Hlen Hidx].
      destruct (IH shape Hr) as [IHs IHi].
      cbn [shape_slice_go slice_go py_expand py_shape_axes py_index_axes tl hd map].
      split; [rewrite Hlen, IHs; reflexivity|].
      intros idx Hin. inversion Hin as [|k l idx' s' Hk Hin']; subst.
      cbn [hd tl]. rewrite (Hidx k Hk), (IHi idx' Hin'). reflexivity.
Qed.

Lemma py_expand_noell nf sls : filter is_ell sls = [] -> py_expand nf sls = sls.
Proof.
  induction sls as [|s r IH]; [reflexivity|]. destruct s; cbn [filter is_ell py_expand]; intros H;
    try discriminate; now rewrite IH.
Qed.

Lemma filter_negb_length {A} (f : A -> bool) l :
  (length (filter f l) + length (filter (fun x => negb (f x)) l) = length l)%nat.
Proof. induction l as [|x l IH]; [reflexivity|]. cbn. destruct (f x); cbn; lia. Qed.

Lemma multi_axis shape sls :
  multi_dom shape sls = true ->
  shape_slice shape sls = map Len (py_shape shape sls)
  /\ forall idx, inb idx (py_shape shape sls) -> slice_index idx shape sls = py_src_index idx shape sls.
Proof.
  unfold multi_dom, shape_slice, slice_index, py_shape, py_src_index. intros H.
  apply andb_true_iff in H as [Hwf Hc]. unfold wf_slices in Hwf.
  apply andb_true_iff in Hwf as [Hne Hlen]. apply Nat.leb_le in Hne.
  pose proof (filter_negb_length is_ell sls) as Hsum.
  set (nl := length (filter (fun s => negb (is_ell s)) sls)) in *.
  destruct (length (filter is_ell sls)) as [|[|m]] eqn:E; [| |lia].
  - (* no ellipsis: nf is irrelevant on the Python side *)
    assert (Hnil : filter is_ell sls = []) by (destruct (filter is_ell sls); [reflexivity|discriminate]).
    rewrite (py_expand_noell (length shape - nl) sls Hnil).
    pose proof (multi_axis_go (nfill shape sls) sls shape Hc) as G.
    rewrite (py_expand_noell (nfill shape sls) sls Hnil) in G. exact G.
  - (* one ellipsis: dim - (n_slices - 1) = dim - number of other parts *)
    replace (length shape - nl)%nat with (nfill shape sls) by (unfold nfill; lia).
    exact (multi_axis_go (nfill shape sls) sls shape Hc).
Qed.

(* ---------- finite sweeps over the property's box (statement carries the bound) ---------- *)
Definition obounds (n : Z) : list (option Z) := None :: map (fun i => Some (i - (n + 2))) (zrange (2 * n + 5)).
Definition osteps : list (option Z) := None :: map Some [-3; -2; -1; 1; 2; 3].
Definition box_axis (N : Z) : list (Z * (option Z * option Z * option Z)) :=
  flat_map (fun n0 => let n := n0 + 1 in
    flat_map (fun a => flat_map (fun b => map (fun c => (n, (a, b, c))) osteps) (obounds n)) (obounds n))
    (zrange N).
Definition on_axis {T} (f : Z -> option Z -> option Z -> option Z -> T) (x : Z * (option Z * option Z * option Z)) : T :=
  let '(n, (a, b, c)) := x in f n a b c.
Definition count {A} (f : A -> bool) (l : list A) : Z := Z.of_nat (length (filter f l)).

(* sample on which the binary32 computation and the exact ceiling are cross-checked *)
Definition szs (lo n : Z) : list Z := map (fun i => i + lo) (zrange n).
Definition float_sample_s : list Z :=
  szs (-120) 241 ++ szs (2 ^ 24 - 40) 41 ++ szs (- 2 ^ 24) 40 ++ [65536; 1000000; 8388607; 8388608; 8388609; 12345677].
Definition float_sample_t : list Z := szs 1 40 ++ [1000; 4097; 65535; 2 ^ 24 - 1; 2 ^ 24].
