// c05_mx.hpp — body shared by the generated multi-axis C05 drivers (inlined into each generated TU).
//   mx S:<enc> S:<combo> L:<shape> <part> ...     index level: shape + source multi-index of every result index
//   vw S:<enc> S:<combo> L:<shape> <part> ...     view level : shape + every element of a view over 0,1,2,...
//   part = S:i,<v> | S:e | S:r,<a>,<b>,<c>   (a,b in {N,int}; c in {N,O,int})  — the TYPES come from the combo
// enc: var = tuple of typed parts through index::apply_* / view::apply_slice (std::vector shape)
//      tup = index::shape_slice / index::slice / view::slice called variadically (std::array shape and indices)
//      dyn = std::vector<either<int,either<ellipsis_t,either<std::array<int,3>,TUPLE>>>> through the same entry points
#include "nmtools/array/index/slice.hpp"
#include "nmtools/array/view/slice.hpp"
#include "show.hpp"
#include <functional>
#include <map>

namespace c05 {
using namespace vd;
namespace ix = nm::index;

inline std::vector<std::string> split(const std::string& s, char d) {
    std::vector<std::string> r; size_t p = 0;
    while (true) { size_t q = s.find(d, p); if (q == std::string::npos) { r.push_back(s.substr(p)); break; } r.push_back(s.substr(p, q - p)); p = q + 1; }
    return r;
}
// typed parts from a token "S:r,a,b,c" / "S:i,v"
inline int part_i(const Arg& x) { return std::stoi(split(x.raw.substr(2), ',')[1]); }
template <typename T> inline T bound_of(const std::string& t) { if constexpr (std::is_same_v<T, int>) return std::stoi(t); else return T{}; }
template <typename A, typename B, typename C> inline auto part_r3(const Arg& x) {
    auto f = split(x.raw.substr(2), ','); return nmtools_tuple<A, B, C>{bound_of<A>(f[1]), bound_of<B>(f[2]), bound_of<C>(f[3])};
}
template <typename A, typename B> inline auto part_r2(const Arg& x) {
    auto f = split(x.raw.substr(2), ','); return nmtools_tuple<A, B>{bound_of<A>(f[1]), bound_of<B>(f[2])};
}
inline std::array<int,3> part_a3(const Arg& x) { auto f = split(x.raw.substr(2), ','); return {std::stoi(f[1]), std::stoi(f[2]), std::stoi(f[3])}; }

inline bool sane(const std::vector<long long>& shp) {
    long long t = 1; for (auto e : shp) { if (e < 0 || e > 64) return false; t *= e; if (t > 4096) return false; } return true;
}
template <typename S> inline std::vector<long long> to_ll(const S& s) {
    std::vector<long long> r; auto n = (size_t)nm::len(s); for (size_t i = 0; i < n; i++) r.push_back((long long)nm::at(s, i)); return r;
}
inline std::string join_ll(const std::vector<long long>& v) { std::string s; for (size_t i = 0; i < v.size(); i++) { if (i) s += ","; s += std::to_string(v[i]); } return s; }

// walk every index of `shp` in row-major order
template <typename F> inline void for_index(const std::vector<long long>& shp, F&& f) {
    long long total = 1; for (auto e : shp) total *= e;
    std::vector<size_t> idx(shp.size(), 0);
    for (long long c = 0; c < total; c++) {
        f(idx);
        for (int d = (int)shp.size() - 1; d >= 0; d--) { if ((long long)++idx[d] < shp[d]) break; idx[d] = 0; }
    }
}

// index level; ShapeF(): result shape, IndexF(idx): source multi-index
template <typename ShapeF, typename IndexF>
inline std::string report_index(ShapeF&& shape_f, IndexF&& index_f) {
    try {
        auto shp = to_ll(shape_f());
        std::string o = "ok " + join_ll(shp) + " ;";
        if (!sane(shp)) return o;
        bool first = true;
        for_index(shp, [&](const std::vector<size_t>& idx){ o += (first ? " " : "|"); first = false; o += join_ll(to_ll(index_f(idx))); });
        return o;
    } catch (std::out_of_range&) { return "trap out_of_range"; }   // at() on the shape / indices refused an index
}
template <typename V>
inline std::string report_view(const V& v) {
    if constexpr (meta::is_maybe_v<V>) { if (!nm::has_value(v)) return "nothing"; return report_view(*v); }
    else {
        auto shp = to_ll(nm::shape(v));
        std::string o = "ok " + join_ll(shp) + " ;";
        if (!sane(shp)) return o;
        bool first = true;
        for_index(shp, [&](const std::vector<size_t>& idx){
            o += (first ? " " : ","); first = false;
            try { o += std::to_string((long long)nm::apply_at(v, idx)); } catch (std::exception&) { o += "X"; }
        });
        return o;
    }
}
template <size_t N> inline std::array<size_t, N> arr_n(const std::vector<size_t>& v) { std::array<size_t, N> a{}; for (size_t i = 0; i < N && i < v.size(); i++) a[i] = v[i]; return a; }

// var / tup encodings of one combination; DIM = source rank, RDIM = result rank (both fixed by the combination)
template <size_t DIM, size_t RDIM, typename... P>
inline std::string run_static(const Case& c, const P&... p) {
    std::string enc = c.args[0].raw.substr(2);
    auto shape = vec_of<size_t>(c.args[2].list);
    if (c.op == "mx") {
        if (enc == "var") {
            auto pack = nmtools_tuple<P...>{p...};
            return report_index([&]{ return ix::apply_shape_slice(shape, pack); },
                                [&](const std::vector<size_t>& idx){ return ix::apply_slice(idx, shape, pack); });
        } else {
            auto shp = arr_n<DIM>(shape);
            return report_index([&]{ return ix::shape_slice(shp, p...); },
                                [&](const std::vector<size_t>& idx){ return ix::slice(arr_n<RDIM>(idx), shp, p...); });
        }
    } else {
        std::vector<ll> sh(c.args[2].list), data; size_t n = 1; for (auto e : sh) n *= e; for (size_t i = 0; i < n; i++) data.push_back(i);
        auto a = make_array(sh, data);
        try {
            if (enc == "var") { auto pack = nmtools_tuple<P...>{p...}; return report_view(nm::view::apply_slice(a, pack)); }
            else {
                if constexpr (sizeof...(P) >= 2) return report_view(nm::view::slice(a, p...));
                else return "unsupported";
            }
        } catch (std::out_of_range&) { return "trap out_of_range"; }   // thrown while the view computes its shape
    }
}

// dyn encoding: one element type for the whole list
template <typename TUP>
struct dynk {
    using arr_t = std::array<int,3>;
    using rng_t = nmtools_either<arr_t, TUP>;
    using in_t  = nmtools_either<nm::ellipsis_t, rng_t>;
    using slice_t = nmtools_either<int, in_t>;
    static slice_t I(int v) { return slice_t{v}; }
    static slice_t E() { return slice_t{in_t{nm::Ellipsis}}; }
    static slice_t A(arr_t a) { return slice_t{in_t{rng_t{a}}}; }
    static slice_t T(TUP t) { return slice_t{in_t{rng_t{t}}}; }
};
template <typename slice_t>
inline std::string run_dyn(const Case& c, const std::vector<slice_t>& pack) {
    auto shape = vec_of<size_t>(c.args[2].list);
    if (c.op == "mx") {
        return report_index([&]{ return ix::apply_shape_slice(shape, pack); },
                            [&](const std::vector<size_t>& idx){ return ix::apply_slice(idx, shape, pack); });
    } else {
        std::vector<ll> sh(c.args[2].list), data; size_t n = 1; for (auto e : sh) n *= e; for (size_t i = 0; i < n; i++) data.push_back(i);
        auto a = make_array(sh, data);
        return report_view(nm::view::apply_slice(a, pack));
    }
}

using combo_fn = std::string (*)(const Case&);
} // namespace c05
