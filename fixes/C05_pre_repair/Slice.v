(* Slice.v — C05.  FAITHFUL executable model of the slice arithmetic of
     include/nmtools/array/index/slice.hpp
       compute_range (l.35), compute_step (l.93), compute_index (l.106),
       shape_slice (l.848) / slice (l.1019)                [variadic, typed parts]
       shape_dynamic_slice (l.446) / dynamic_slice (l.627) [run-time list of either]
     include/nmtools/platform/math/constexpr.hpp  constexpr_ceil (l.8)
   with the C++ TYPE of every intermediate made explicit (DESIGN Appendix G):
     extent si : size_t (64-bit unsigned)   bounds / step : int (32-bit signed)
     promote_index_t<int,size_t> = int      `? :` between int and size_t : size_t
     length = (size_t)(int) ceil( (float) range / step )
   and the SPEC: CPython's PySlice_AdjustIndices / PySlice_GetIndicesEx
   ("slice.indices" + length formula), written independently.

   Values of C++ integer objects are represented by the mathematical integer
   they denote: a size_t by a Z in [0,2^64), an int by a Z in [-2^31,2^31).
   Signed overflow of `int` additions (undefined in C++) is modelled as
   two's-complement wrap; no theorem depends on it (all theorems bound the inputs).
   Stdlib only, no axioms. *)
From NM Require Import Base.
Local Open Scope Z_scope.

Definition u64 (z : Z) : Z := wrap 64 z.
Definition u32 (z : Z) : Z := wrap 32 z.
Definition i32 (z : Z) : Z := swrap 32 z.
Definition i64 (z : Z) : Z := swrap 64 z.

(* ------------------------------------------------------------------ *)
(* Model                                                               *)
(* ------------------------------------------------------------------ *)

(* slice.hpp:38-46  stop = (int)stop_ < (int)si ? (int)stop_ : (int)si *)
Definition clip_stop (si stop : Z) : Z :=
  let a := i32 stop in let b := i32 si in if a <? b then a else b.

(* slice.hpp:51 abs_ on int *)
Definition abs_i (v : Z) : Z := if v <? 0 then i32 (- v) else v.

(* slice.hpp:35-90 compute_range; the result is the integer denoted by the C++
   value (size_t in the first four arms, int in the both-bounds arm).
   A step that is "omitted" (2-element slice) behaves exactly like None:
   in the dynamic path it is size_t{1}, for which `step_ < 0` is false. *)
Definition compute_range (si : Z) (start stop step : option Z) : Z :=
  match start, stop with
  | None, None => si
  | Some a, None =>
      match step with
      | Some s => if (s <? 0) && (0 <=? a) then u64 (i32 (a + 1)) else u64 (si - a)   (* start + 1 is int arithmetic *)
      | None => u64 (si - a)
      end
  | None, Some b => if b <? 0 then u64 (si + b) else u64 (clip_stop si b)
  | Some a, Some b =>
      let st := clip_stop si b in
      if (st <? 0) && (a <? 0) then i32 (u64 (u64 (si - abs_i st) - u64 (si - abs_i a)))
      else if st <? 0 then i32 (u64 (u64 (si - abs_i st) - a))
      else if a <? 0 then i32 (u64 (st - u64 (si - abs_i a)))
      else if a <? st then i32 (st - a) else i32 (a - st)
  end.

(* slice.hpp:93 / 972-987: |step| as unsigned; None -> 1ul *)
Definition compute_step (step : option Z) : Z :=
  match step with None => 1 | Some s => if s <? 0 then u32 (- s) else u32 s end.

(* outcome of  (size_t)(int) constexpr_ceil( (float)s / step ) *)
Inductive lenres :=
| Len (z : Z)        (* the size_t stored in the result shape, in [0,2^64) *)
| LenUB.             (* float -> int conversion out of range: undefined behaviour *)

Definition ceil_div (s t : Z) : Z := - ((- s) / t).

(* binary32: nearest float to the positive rational p/q, ties to even, as (m, e) with value m * 2^e and
   2^23 <= m <= 2^24.  No subnormals / overflow: every operand here lies in [2^-32, 2^64]. *)
Definition f32_scale (p q e : Z) : Z * Z := (p * 2 ^ Z.max (- e) 0, q * 2 ^ Z.max e 0).
Definition f32r (p q : Z) : Z * Z :=
  let e0 := Z.log2 p - Z.log2 q - 24 in
  let '(n0, d0) := f32_scale p q e0 in
  let e := if n0 / d0 <? 2 ^ 24 then e0 else e0 + 1 in
  let '(n, d) := f32_scale p q e in
  let m0 := n / d in let r := n mod d in
  let m := if (d <? 2 * r) || ((d =? 2 * r) && Z.odd m0) then m0 + 1 else m0 in
  (m, e).
(* (size_t)(int) constexpr_ceil( (float)s / (float)t ) computed as the hardware does, t > 0:
   constexpr_ceil<int>(f): i = (int)f (truncation, UB when out of range); f > i ? i+1 : i *)
Definition float_len_big (s t : Z) : lenres :=
  if s =? 0 then Len 0 else
  let '(ms, es) := f32r (Z.abs s) 1 in
  let '(mt, et) := f32r t 1 in
  let '(m, e) := f32r (ms * 2 ^ Z.max (es - et) 0) (mt * 2 ^ Z.max (et - es) 0) in
  if 0 <=? e then
    let v := (if s <? 0 then - (m * 2 ^ e) else m * 2 ^ e) in
    if (v <? - 2 ^ 31) || (2 ^ 31 <=? v) then LenUB else Len (u64 v)
  else
    let d := 2 ^ (- e) in
    let i0 := m / d in
    if s <? 0 then Len (u64 (- i0))
    else Len (u64 (if m mod d =? 0 then i0 else i0 + 1)).

(* binary32 has a 24-bit significand: integers of magnitude <= 2^24 are exact, and for |s|, t <= 2^24 the correctly
   rounded quotient fl(s/t) has the same ceiling as s/t (s/t differs from any integer it is not equal to by at least
   1/t, which exceeds half an ulp of a quotient below 2^24/t); there the model uses the exact ceiling directly
   (C05_float_model_consistent_on_sample cross-checks the two definitions); everywhere else it is float_len_big. *)
Definition float_len (s t : Z) : lenres :=
  if t <=? 0 then LenUB                       (* division by zero: inf -> int *)
  else if (Z.abs s <=? 2 ^ 24) && (t <=? 2 ^ 24) then Len (u64 (ceil_div s t))
  else float_len_big s t.

(* slice.hpp:970-992 (variadic) = 457-474 (dynamic): one kept axis *)
Definition slice_len (si : Z) (start stop step : option Z) : lenres :=
  float_len (compute_range si start stop step) (compute_step step).

(* slice.hpp:113-125 stop of compute_index: clipped to [-si, si] in int *)
Definition clip_stop2 (si stop : Z) : Z :=
  let s := clip_stop si stop in
  let nb := i32 (u64 (- si)) in
  if nb <? s then s else nb.

(* slice.hpp:106-278 compute_index, index_t = size_t; k = at(indices,i_i).
   Returns the size_t result in [0,2^64). *)
Definition compute_index (k si : Z) (start stop step : option Z) : Z :=
  match start, stop, step with
  | None, None, None => u64 k                                           (* (1) *)
  | Some a, None, None =>                                               (* (2) stop = si : size_t *)
      u64 ((if 0 <=? a then u64 a else u64 (si - a)) + k)
  | Some a, Some b, None =>                                             (* (3) *)
      let sv := clip_stop2 si b in
      let s := if (0 <=? a) && (0 <? sv) then u64 a
               else if (a <? 0) && (0 <? sv) then u64 (i32 (sv + a))
               else if (0 <=? a) && (sv <? 0) then u64 a
               else u64 (si + a) in
      u64 (s + k)
  | Some a, Some b, Some c =>                                           (* (4) *)
      let sv := clip_stop2 si b in
      let s :=
        if (0 <=? a) && (0 <=? sv) && (c <? 0) then
          (if 0 <? sv then u64 (i32 (sv - 1)) else u64 a)
        else if (a <? 0) && (0 <? sv) && (c <? 0) then u64 (i32 (sv + a))
        else if (0 <=? a) && (sv <? 0) && (c <? 0) then u64 a
        else if (a <? 0) && (sv <? 0) && (c <? 0) then u64 (si + a - 1)
        else if (0 <=? a) && (0 <? sv) && (0 <? c) then u64 a
        else if (a <? 0) && (0 <? sv) && (0 <? c) then u64 (i32 (sv + a))
        else if (0 <=? a) && (sv <? 0) && (0 <? c) then u64 a
        else u64 (si + a) in
      u64 (s + u64 (k * u64 c))
  | None, Some b, None => u64 k
  | None, Some b, Some c =>
      let sv := clip_stop2 si b in
      let s := if (0 <? sv) && (0 <? c) then 0
               else if (0 <? sv) && (c <? 0) then u64 si
               else 0 in
      u64 (s + u64 (k * u64 c))
  | None, None, Some c =>                                               (* sindex_t arithmetic *)
      let s := if c <? 0 then si - 1 else 0 in
      u64 (s + k * c)
  | Some a, None, Some c =>
      let s := if (0 <=? a) && (0 <? c) then u64 a
               else if (0 <=? a) && (c <? 0) then u64 a
               else if (a <? 0) && (0 <? c) then u64 (si + a)
               else u64 a in
      u64 (s + u64 (k * u64 c))
  end.

(* ---------- several axes ---------- *)
Inductive sl :=
| SInt (i : Z)                       (* an integer: drops its axis *)
| SEll                               (* the ellipsis *)
| SRange (a b c : option Z).         (* start:stop:step *)

Definition is_ell (s : sl) : bool := match s with SEll => true | _ => false end.
Definition is_int (s : sl) : bool := match s with SInt _ => true | _ => false end.

(* number of axes an ellipsis fills: dim - (n_slices - 1)  (slice.hpp:513, 926) *)
Definition nfill (shape : list Z) (sls : list sl) : nat := length shape - (length sls - 1).

(* the model covers well-formed calls only (the header has "TODO error handling"):
   at most one ellipsis, and the parts account for every axis *)
Definition wf_slices (shape : list Z) (sls : list sl) : bool :=
  let ne := length (filter is_ell sls) in
  (Nat.leb ne 1) &&
  (if Nat.eqb ne 0 then Nat.eqb (length sls) (length shape)
   else Nat.leb (length sls - 1) (length shape)).

(* shape_slice (slice.hpp:896-1002) / shape_dynamic_slice (508-553): walk the parts,
   s_i advances over the source axes *)
Fixpoint shape_slice_go (nf : nat) (shape : list Z) (sls : list sl) : list lenres :=
  match sls with
  | [] => []
  | SInt _ :: r => shape_slice_go nf (tl shape) r
  | SEll :: r => map Len (firstn nf shape) ++ shape_slice_go nf (skipn nf shape) r
  | SRange a b c :: r => slice_len (hd 0 shape) a b c :: shape_slice_go nf (tl shape) r
  end.
Definition shape_slice (shape : list Z) (sls : list sl) : list lenres :=
  shape_slice_go (nfill shape sls) shape sls.

(* The variadic shape_slice / slice read `size_t si = at(shape, s_i)` at the top of EVERY part (slice.hpp:902, 1058),
   also for an ellipsis; when the ellipsis is the last part and stands for zero axes, s_i = dim and the read is
   past the end of the shape (std::vector / std::array: at() throws std::out_of_range).  The run-time list path tests
   is_ellipsis first (slice.hpp:511) and does not read.  [rem] = number of source axes not yet consumed. *)
Fixpoint var_oob_go (nf rem : nat) (sls : list sl) : bool :=
  match sls with
  | [] => false
  | SEll :: r => Nat.eqb rem 0 || var_oob_go nf (rem - nf) r
  | _ :: r => Nat.eqb rem 0 || var_oob_go nf (rem - 1) r
  end.
Definition var_oob (shape : list Z) (sls : list sl) : bool := var_oob_go (nfill shape sls) (length shape) sls.
(* None = the call throws *)
Definition shape_slice_variadic (shape : list Z) (sls : list sl) : option (list lenres) :=
  if var_oob shape sls then None else Some (shape_slice shape sls).
Definition shape_slice_dynamic (shape : list Z) (sls : list sl) : option (list lenres) := Some (shape_slice shape sls).

(* slice (1055-1124) / dynamic_slice (650-730): source multi-index of result index idx *)
Definition int_index (si i : Z) : Z := if i <? 0 then u64 (si - abs_i i) else u64 i.
Fixpoint slice_go (nf : nat) (idx shape : list Z) (sls : list sl) : list Z :=
  match sls with
  | [] => []
  | SInt i :: r => int_index (hd 0 shape) i :: slice_go nf idx (tl shape) r
  | SEll :: r => map u64 (firstn nf idx) ++ slice_go nf (skipn nf idx) (skipn nf shape) r
  | SRange a b c :: r => compute_index (hd 0 idx) (hd 0 shape) a b c :: slice_go nf (tl idx) (tl shape) r
  end.
Definition slice_index (idx shape : list Z) (sls : list sl) : list Z :=
  slice_go (nfill shape sls) idx shape sls.

(* ------------------------------------------------------------------ *)
(* Spec: Python                                                         *)
(* ------------------------------------------------------------------ *)

(* PySlice_AdjustIndices after PySlice_Unpack (Objects/sliceobject.c) *)
Definition py_step (step : option Z) : Z := match step with None => 1 | Some s => s end.
Definition py_clamp (n st v : Z) : Z :=
  if v <? 0 then (let v' := v + n in if v' <? 0 then (if st <? 0 then -1 else 0) else v')
  else if n <=? v then (if st <? 0 then n - 1 else n) else v.
Definition py_start (n : Z) (start step : option Z) : Z :=
  let st := py_step step in
  match start with
  | None => if st <? 0 then n - 1 else 0
  | Some a => py_clamp n st a
  end.
Definition py_stop (n : Z) (stop step : option Z) : Z :=
  let st := py_step step in
  match stop with
  | None => if st <? 0 then -1 else n
  | Some b => py_clamp n st b
  end.
Definition py_len (n : Z) (start stop step : option Z) : Z :=
  let st := py_step step in
  let a := py_start n start step in
  let b := py_stop n stop step in
  if st <? 0 then (if b <? a then (a - b - 1) / (- st) + 1 else 0)
  else (if a <? b then (b - a - 1) / st + 1 else 0).
(* element k of the slice is source element start' + k*step *)
Definition py_index (k n : Z) (start stop step : option Z) : Z :=
  py_start n start step + k * py_step step.

(* several axes: expand the ellipsis to full slices first, then axis by axis *)
Definition full : sl := SRange None None None.
Fixpoint py_expand (nf : nat) (sls : list sl) : list sl :=
  match sls with
  | [] => []
  | SEll :: r => repeat full nf ++ py_expand nf r
  | s :: r => s :: py_expand nf r
  end.
Fixpoint py_shape_axes (shape : list Z) (sls : list sl) : list Z :=
  match shape, sls with
  | n :: shape', SInt _ :: r => py_shape_axes shape' r
  | n :: shape', SRange a b c :: r => py_len n a b c :: py_shape_axes shape' r
  | _, _ => []
  end.
Definition py_shape (shape : list Z) (sls : list sl) : list Z :=
  py_shape_axes shape (py_expand (length shape - length (filter (fun s => negb (is_ell s)) sls)) sls).
Fixpoint py_index_axes (idx shape : list Z) (sls : list sl) : list Z :=
  match shape, sls with
  | n :: shape', SInt i :: r => (if i <? 0 then i + n else i) :: py_index_axes idx shape' r
  | n :: shape', SRange a b c :: r => py_index (hd 0 idx) n a b c :: py_index_axes (tl idx) shape' r
  | _, _ => []
  end.
Definition py_src_index (idx shape : list Z) (sls : list sl) : list Z :=
  py_index_axes idx shape (py_expand (length shape - length (filter (fun s => negb (is_ell s)) sls)) sls).

(* ------------------------------------------------------------------ *)
(* slice_core: where the code is right — a predicate on the INPUTS only  *)
(* ------------------------------------------------------------------ *)
(* both bounds given, step > 0 (or none, c = 1) *)
Definition core_both_pos (n a b c : Z) : bool :=
  (* ordered bounds: the slice may be non-empty *)
     ((0 <=? a) && (0 <=? b) && (a <=? Z.min b n))                 (* A1  0 <= a <= min(b,n) *)
  || ((a <? 0) && (- n <=? a) && (n <=? b))                        (* A2  -n <= a < 0, stop at or past the end *)
  || ((0 <=? a) && (b <? 0) && (- n <=? b) && (a <=? n + b))       (* A3  a <= n+b, -n <= b < 0 *)
  || ((a <? 0) && (- n <=? a) && (b <? 0) && (a <=? b))            (* A4  -n <= a <= b < 0 *)
  (* crossed by less than one step: both sides give the empty slice *)
  || ((a <? 0) && (b <? 0) && (b <=? a) && (a - b <? c))           (* E1 *)
  || ((0 <=? a) && (b <? 0) && (n + b <? a) && (a - (n + b) <? c)) (* E2 *)
  || ((a <? 0) && (0 <=? b) && (Z.min b n <=? n + a) && (n + a - Z.min b n <? c)). (* E3 *)

(* both bounds given, step < 0: only empty results and the stop = 0 family are right *)
Definition core_both_neg (n a b : Z) : bool :=
     ((a <? 0) && (b <? 0) && (a =? b))                            (* N1 *)
  || ((0 <=? a) && (b <? 0) && (a =? n + b))                       (* N2 *)
  || ((a <? 0) && (0 <=? b) && (n + a =? Z.min b n))               (* N3 *)
  || ((0 <=? a) && (0 <=? b) && (a =? Z.min b n))                  (* N4 *)
  || ((0 <=? a) && (a <=? n - 1) && (b =? 0)).                     (* F   a:0:-s *)

Definition step_ok24 (c : Z) : bool := negb (c =? 0) && (Z.abs c <=? 2 ^ 24).

Definition slice_core (n : Z) (start stop step : option Z) : bool :=
  (0 <=? n) &&
  match start, stop, step with
  | None, None, None => true                                        (* [:] *)
  | None, None, Some c => step_ok24 c                               (* [::s], [::-s] *)
  | None, Some b, None => (- n <=? b)                               (* [:b], b >= -n *)
  | None, Some b, Some c => (0 <? c) && step_ok24 c && (- n <=? b)  (* [:b:s], s > 0 *)
  | Some a, None, None => (0 <=? a) && (a <=? n)                    (* [a:], 0 <= a <= n *)
  | Some a, None, Some c =>
      step_ok24 c &&
      (((0 <? c) && (0 <=? a) && (a <=? n))                         (* [a::s]  0 <= a <= n *)
       || ((c <? 0) && (0 <=? a) && (a <=? n - 1)))                 (* [a::-s] 0 <= a < n *)
  | Some a, Some b, None => core_both_pos n a b 1
  | Some a, Some b, Some c =>
      step_ok24 c &&
      (((0 <? c) && core_both_pos n a b c) || ((c <? 0) && core_both_neg n a b))
  end.

(* boolean hypotheses of the theorems: C++ `int` bounds, extent below 2^24 (binary32 exactness) *)
Definition intb (v : Z) : bool := (- 2 ^ 31 <? v) && (v <? 2 ^ 31 - 1).   (* INT_MIN / INT_MAX excluded: -v and v+1 overflow *)
Definition ointb (o : option Z) : bool := match o with None => true | Some v => intb v end.
Definition axis_dom (n : Z) (a b c : option Z) : bool :=
  (n <? 2 ^ 24) && ointb a && ointb b && ointb c && slice_core n a b c.

(* several axes: every range part in axis_dom, every integer inside [-n,n), the parts account for
   exactly the axes of the shape (nf = number of axes the ellipsis stands for) *)
Definition ext_ok (n : Z) : bool := (0 <=? n) && (n <? 2 ^ 24).
Fixpoint axes_core (nf : nat) (shape : list Z) (sls : list sl) : bool :=
  match sls with
  | [] => match shape with [] => true | _ => false end
  | SInt i :: r =>
      match shape with
      | n :: s' => ext_ok n && (- n <=? i) && (i <? n) && axes_core nf s' r
      | [] => false
      end
  | SEll :: r =>
      Nat.leb nf (length shape) && forallb ext_ok (firstn nf shape) && axes_core nf (skipn nf shape) r
  | SRange a b c :: r =>
      match shape with
      | n :: s' => axis_dom n a b c && axes_core nf s' r
      | [] => false
      end
  end.
Definition multi_dom (shape : list Z) (sls : list sl) : bool :=
  wf_slices shape sls && axes_core (nfill shape sls) shape sls.

(* result of one axis as a pair (length, index function) for comparison *)
Definition model_axis_ok (n : Z) (start stop step : option Z) : bool :=
  match slice_len n start stop step with
  | Len l =>
      (l =? py_len n start stop step)
      && forallb (fun k => compute_index k n start stop step =? py_index k n start stop step)
                 (zrange (py_len n start stop step))
  | _ => false
  end.
