// c05_common.hpp — shared by the C05 drivers: building typed slice parts from case arguments.
#pragma once
#include "nmtools/constants.hpp"
#include "nmtools/meta.hpp"
#include "common.hpp"
#include <tuple>
#include <array>
#include <type_traits>

namespace c05 {
namespace nm = nmtools;
using vd::Arg;

// a slice part token: N -> None, I:v -> int, S:O (raw "O") -> omitted (2-part slice; step only)
template <typename F> inline std::string with_bound(const Arg& x, F&& f) {
    if (x.kind == 'N') return f(nm::None);
    return f((int)x.val);
}
// 12 type patterns: {None,int} x {None,int} x {omitted, None, int}
template <typename F> inline std::string with_range(const Arg& a, const Arg& b, const Arg& c, F&& f) {
    return with_bound(a, [&](auto av){
        return with_bound(b, [&](auto bv) -> std::string {
            if (c.kind == 'N') return f(nmtools_tuple<decltype(av), decltype(bv), nm::none_t>{av, bv, nm::None});
            if (c.kind == 'I') return f(nmtools_tuple<decltype(av), decltype(bv), int>{av, bv, (int)c.val});
            return f(nmtools_tuple<decltype(av), decltype(bv)>{av, bv});
        });
    });
}

template <typename T> struct all_int : std::false_type {};
template <typename... Ts> struct all_int<nmtools_tuple<Ts...>> : std::bool_constant<(std::is_same_v<Ts, int> && ...)> {};
template <typename T> inline constexpr bool all_int_v = all_int<T>::value;

template <typename A, typename T, size_t... I> inline void fill_array_impl(A& a, const T& t, std::index_sequence<I...>) { ((a[I] = nm::get<I>(t)), ...); }
template <typename A, typename T> inline void fill_array(A& a, const T& t) { fill_array_impl(a, t, std::make_index_sequence<std::tuple_size_v<T>>{}); }

} // namespace c05
