(* Properties_C05.v — C05: slicing follows Python / NumPy basic-indexing semantics.  Statements only.

   The faithful model (Slice.v: image of index/slice.hpp with its size_t / int / binary32 typing) does NOT
   satisfy the full statement; so the property is decided as
     - C05_slice_python_on_core : on the intensional input class slice_core the model IS Python,
       for EVERY extent n < 2^24 (proof, no box);
     - C05_multi_axis           : axes compose, integers drop their axis, one ellipsis = full slices;
     - C05_core_sound_on_box / C05_core_coverage_on_box : finite sweeps, bound in the statement;
     - C05_refuted_*            : witnesses that the full statement fails, one per failing family. *)
From NM Require Import Base Slice SliceProofs.
Local Open Scope Z_scope.

(* One axis.  For every extent below 2^24 and all `int` bounds: on slice_core the sliced axis has exactly the
   length Python's slice.indices gives and element k is source element start' + k*step.
   slice_core (Slice.v) is a predicate on the inputs only:
     [:]  [::s] [::-s]  [:b] and [:b:s] (s>0) with b >= -n   [a:] and [a::s] (s>0) with 0 <= a <= n
     [a::-s] with 0 <= a < n      [a:b] / [a:b:s] (s>0) with 0 <= a <= min(b,n), or -n <= a < 0 and b >= n,
     or a >= 0 > b >= -n and a <= n+b, or -n <= a <= b < 0, or bounds crossed by less than one step (empty)
     [a:b:-s] only when empty by equal normalised bounds, or [a:0:-s] with 0 <= a < n. *)
Theorem C05_slice_python_on_core : forall n a b c,
  0 <= n < 2 ^ 24 -> oint_ok a -> oint_ok b -> oint_ok c ->
  slice_core n a b c = true ->
  slice_len n a b c = Len (py_len n a b c)
  /\ forall k, 0 <= k < py_len n a b c -> compute_index k n a b c = py_index k n a b c.
Proof. exact slice_python_on_core. Qed.
Print Assumptions C05_slice_python_on_core.

(* Python's rule never leaves the axis, hence on slice_core neither does the code *)
Theorem C05_python_index_in_bounds : forall n a b c k,
  0 <= n -> py_step c <> 0 -> 0 <= k < py_len n a b c ->
  0 <= py_index k n a b c < n /\ 0 <= py_len n a b c <= n.
Proof. intros. split; [now apply py_index_inb | now apply py_len_bounds]. Qed.
Print Assumptions C05_python_index_in_bounds.

(* Several axes, any rank: every range part in axis_dom, integers in [-n,n), at most one ellipsis.
   The shape is Python's (integers drop their axis, the ellipsis stands for dim - #other parts full slices)
   and every result index maps to Python's source index. *)
Theorem C05_multi_axis : forall shape sls,
  multi_dom shape sls = true ->
  shape_slice shape sls = map Len (py_shape shape sls)
  /\ forall idx, inb idx (py_shape shape sls) -> slice_index idx shape sls = py_src_index idx shape sls.
Proof. exact multi_axis. Qed.
Print Assumptions C05_multi_axis.

(* The slices the library builds for itself are inside slice_core:
   flip [::-1]; reductions [0:n] and [i:i+1]; pooling windows [k : k+w] with the stop possibly past the end;
   strided convolution [::s] and [k::s]. *)
Theorem C05_internal_slices_in_core : forall n i w s,
  0 <= n -> 0 <= i -> 0 < w -> 0 < s <= 2 ^ 24 ->
  slice_core n None None (Some (-1)) = true
  /\ slice_core n (Some 0) (Some n) None = true
  /\ (i < n -> slice_core n (Some i) (Some (i + 1)) None = true)
  /\ (i <= n -> slice_core n (Some i) (Some (i + w)) None = true)
  /\ slice_core n None None (Some s) = true
  /\ (i <= n -> slice_core n (Some i) None (Some s) = true).
Proof.
  intros n i w s Hn Hi Hw Hs. unfold slice_core, step_ok24, core_both_pos. rewrite p24 in *.
  repeat split; intros; zb; reflexivity.
Qed.
Print Assumptions C05_internal_slices_in_core.

(* ---------- finite sweeps: n in 1..7, start/stop in [-(n+2), n+2] or None, step in {-3..3}\{0} or None
   (10 388 inputs; the property's box n <= 6 is the first 7 588 of them) ---------- *)
Theorem C05_core_sound_on_box :
  forallb (on_axis (fun n a b c => implb (slice_core n a b c) (model_axis_ok n a b c))) (box_axis 7) = true.
Proof. vm_compute. reflexivity. Qed.
Print Assumptions C05_core_sound_on_box.

(* how much of the correct region the intensional class covers: 3 284 of the 3 328 inputs on which the
   pinned code agrees with Python (98.7 %); on the other 7 060 inputs of the box the code is wrong *)
Theorem C05_core_coverage_on_box :
  count (fun _ => true) (box_axis 7) = 10388
  /\ count (on_axis model_axis_ok) (box_axis 7) = 3328
  /\ count (on_axis slice_core) (box_axis 7) = 3284
  /\ count (on_axis model_axis_ok) (box_axis 6) = 2461
  /\ count (fun _ => true) (box_axis 6) = 7588.
Proof. vm_compute. repeat split; reflexivity. Qed.
Print Assumptions C05_core_coverage_on_box.

(* the binary32 computation agrees with the exact ceiling on 368 x 45 operand pairs with |s|, t <= 2^24
   (all small values, both ends of the exact range, powers of two and their neighbours) *)
Theorem C05_float_model_consistent_on_sample :
  forallb (fun s => forallb (fun t => match float_len_big s t with Len l => l =? u64 (ceil_div s t) | LenUB => false end)
                            float_sample_t) float_sample_s = true.
Proof. vm_compute. reflexivity. Qed.
Print Assumptions C05_float_model_consistent_on_sample.

(* ---------- the full statement is false for the pinned code: one witness per failing family ---------- *)
Definition axis_wrong (n : Z) (a b c : option Z) : Prop := model_axis_ok n a b c = false.

(* a[-1:] on n = 1 has length 2 (size_t: si - start = n + 1) and reads index n+1; Python: length 1, index 0 *)
Theorem C05_refuted_negative_start_open :
  slice_len 1 (Some (-1)) None None = Len 2 /\ py_len 1 (Some (-1)) None None = 1
  /\ compute_index 0 1 (Some (-1)) None None = 2 /\ py_index 0 1 (Some (-1)) None None = 0
  /\ axis_wrong 1 (Some (-1)) None (Some 1).
Proof. vm_compute. repeat split; reflexivity. Qed.
Print Assumptions C05_refuted_negative_start_open.
(* a[2:] on n = 1: si - start wraps to 2^64-1, float -> int conversion is undefined (x86: -2147483647) *)
Theorem C05_refuted_start_past_end :
  slice_len 1 (Some 2) None None = LenUB /\ py_len 1 (Some 2) None None = 0
  /\ slice_len 1 (Some 2) None (Some 1) = LenUB.
Proof. vm_compute. repeat split; reflexivity. Qed.
Print Assumptions C05_refuted_start_past_end.
(* a[:-2] on n = 1: si + stop wraps, undefined conversion; Python: empty *)
Theorem C05_refuted_stop_below_minus_n :
  slice_len 1 None (Some (-2)) None = LenUB /\ py_len 1 None (Some (-2)) None = 0
  /\ slice_len 1 None (Some (-2)) (Some 1) = LenUB.
Proof. vm_compute. repeat split; reflexivity. Qed.
Print Assumptions C05_refuted_stop_below_minus_n.
(* a[1:0] on n = 1: |start - stop| instead of an empty slice *)
Theorem C05_refuted_crossed_bounds :
  slice_len 1 (Some 1) (Some 0) None = Len 1 /\ py_len 1 (Some 1) (Some 0) None = 0
  /\ slice_len 1 (Some 1) (Some 0) (Some 1) = Len 1
  /\ slice_len 3 (Some 3) (Some 1) None = Len 2.
Proof. vm_compute. repeat split; reflexivity. Qed.
Print Assumptions C05_refuted_crossed_bounds.
(* a[:1:-1] on n = 1: length min(stop,n) regardless of the sign of the step *)
Theorem C05_refuted_open_start_negative_step :
  slice_len 1 None (Some 1) (Some (-1)) = Len 1 /\ py_len 1 None (Some 1) (Some (-1)) = 0.
Proof. vm_compute. repeat split; reflexivity. Qed.
Print Assumptions C05_refuted_open_start_negative_step.
(* a[3:1:-1] on n = 5: right length, but the walk starts at stop-1 = 0 and leaves the array *)
Theorem C05_refuted_negative_step_start :
  slice_len 5 (Some 3) (Some 1) (Some (-1)) = Len 2 /\ py_len 5 (Some 3) (Some 1) (Some (-1)) = 2
  /\ compute_index 0 5 (Some 3) (Some 1) (Some (-1)) = 0 /\ py_index 0 5 (Some 3) (Some 1) (Some (-1)) = 3
  /\ compute_index 1 5 (Some 3) (Some 1) (Some (-1)) = 2 ^ 64 - 1.
Proof. vm_compute. repeat split; reflexivity. Qed.
Print Assumptions C05_refuted_negative_step_start.
(* above 2^24 the length goes through binary32: a[:] on extent 2^24+1 has length 2^24; from 2^31-64 on the
   conversion to int is undefined *)
Theorem C05_refuted_float_len :
  slice_len (2 ^ 24 + 1) None None None = Len (2 ^ 24) /\ py_len (2 ^ 24 + 1) None None None = 2 ^ 24 + 1
  /\ slice_len (2 ^ 24 + 3) None None (Some 1) = Len (2 ^ 24 + 4)
  /\ slice_len (2 ^ 31 - 64) None None None = LenUB.
Proof. vm_compute. repeat split; reflexivity. Qed.
Print Assumptions C05_refuted_float_len.
(* the full statement over the property's own box is false: 5 127 of 7 588 inputs *)
Theorem C05_refuted_on_box :
  count (on_axis (fun n a b c => negb (model_axis_ok n a b c))) (box_axis 6) = 5127
  /\ exists n a, 1 <= n <= 6 /\ - (n + 2) <= a <= n + 2 /\ axis_wrong n (Some a) None None.
Proof.
  split; [vm_compute; reflexivity|].
  exists 1, (-1). split; [lia|]. split; [lia|]. vm_compute. reflexivity.
Qed.
Print Assumptions C05_refuted_on_box.

(* "specifications given at compile time and at run time agree" is false: a[1:1, ...] on a 1-d array (a valid
   Python index, empty result): the typed-tuple path reads shape[dim] for the trailing ellipsis and throws,
   the run-time list path returns Python's answer *)
Theorem C05_refuted_encodings_agree :
  let shape := [1] in let sls := [SRange (Some 1) (Some 1) None; SEll] in
  multi_dom shape sls = true
  /\ shape_slice_variadic shape sls = None
  /\ shape_slice_dynamic shape sls = Some (map Len (py_shape shape sls)).
Proof. vm_compute. repeat split; reflexivity. Qed.
Print Assumptions C05_refuted_encodings_agree.

(* apart from that read the two paths are the same arithmetic: where the typed-tuple path does not throw, both are Python on multi_dom *)
Theorem C05_encodings_agree_on_domain : forall shape sls,
  multi_dom shape sls = true -> var_oob shape sls = false ->
  shape_slice_variadic shape sls = Some (map Len (py_shape shape sls))
  /\ shape_slice_dynamic shape sls = Some (map Len (py_shape shape sls)).
Proof.
  intros shape sls H Hv. unfold shape_slice_variadic, shape_slice_dynamic. rewrite Hv.
  destruct (multi_axis shape sls H) as [-> _]. split; reflexivity.
Qed.
Print Assumptions C05_encodings_agree_on_domain.

(* view::slice(a, one slice): `nmtools_tuple{slices...}` copy-deduces, so the slice (1,3) reaches shape_slice as the two
   integer parts a[1,3]; on a 1-d array that is not a well-formed index (dim - N_INT wraps, resize throws), while the
   intended a[1:3] is inside the proved domain with Python's shape *)
Theorem C05_refuted_single_range_view :
  wf_slices [5] [SInt 1; SInt 3] = false
  /\ multi_dom [5] [SRange (Some 1) (Some 3) None] = true
  /\ py_shape [5] [SRange (Some 1) (Some 3) None] = [2].
Proof. vm_compute. repeat split; reflexivity. Qed.
Print Assumptions C05_refuted_single_range_view.

(* ---------- non-vacuity ---------- *)
Example C05_nonvacuous_axis :
  axis_dom 5 (Some 1) (Some 4) (Some 2) = true /\ slice_len 5 (Some 1) (Some 4) (Some 2) = Len 2
  /\ compute_index 1 5 (Some 1) (Some 4) (Some 2) = 3
  /\ axis_dom 1000000 (Some (-7)) (Some 2000000) None = true
  /\ axis_dom 6 None None (Some (-2)) = true /\ slice_len 6 None None (Some (-2)) = Len 3
  /\ compute_index 2 6 None None (Some (-2)) = 1.
Proof. vm_compute. repeat split; reflexivity. Qed.
Example C05_nonvacuous_multi :
  let sls := [SInt (-1); SEll; SRange None (Some 3) None; SRange (Some 1) None (Some 2)] in
  multi_dom [4; 5; 6; 7; 8] sls = true
  /\ py_shape [4; 5; 6; 7; 8] sls = [5; 6; 3; 4]
  /\ slice_index [4; 5; 2; 3] [4; 5; 6; 7; 8] sls = [3; 4; 5; 2; 7].
Proof. vm_compute. repeat split; reflexivity. Qed.
