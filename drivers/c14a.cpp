// c14a.cpp — implementation side of the C14 correspondence, extraction of ATTRIBUTE-carrying views:
// every functional/*.hpp get_function_t specialisation that puts run-time or compile-time attributes into the
// extracted function (indexing views, pooling, reductions, accumulations, parameterised ufuncs, concatenate, ...),
// with NON-default attribute values chosen so that a default would give another shape or other elements.
//
// case line:  attr S:<name> A:<a> A:<b> L:<params> L:<expected shape> S:<f64|int>
//   -> reproduces <shape>                       when apply(get_function_composition(v), get_function_operands(v)) has the
//                                                shape AND every element of the view v (compared on the printed %.17g form)
//   -> differs view <view> | apply <result>     otherwise
// The view's shape is checked against the case line (computed by the generator's own shape rules); the view's
// elements are the business of the other properties (C03/C04/C07/C08/C17).
#include "nmtools/array/functional.hpp"
#include "nmtools/array/functional/transpose.hpp"
#include "nmtools/array/functional/pooling.hpp"
#include "nmtools/array/functional/sum.hpp"
#include "nmtools/array/functional/prod.hpp"
#include "nmtools/array/functional/cumsum.hpp"
#include "nmtools/array/functional/cumprod.hpp"
#include "nmtools/array/functional/moveaxis.hpp"
#include "nmtools/array/functional/tile.hpp"
#include "nmtools/array/functional/roll.hpp"
#include "nmtools/array/functional/flip.hpp"
#include "nmtools/array/functional/slice.hpp"
#include "nmtools/array/functional/concatenate.hpp"
#include "nmtools/array/functional/ufuncs/maximum.hpp"
#include "nmtools/array/view/activations/leaky_relu.hpp"
#include "nmtools/array/view/activations/elu.hpp"
#include "nmtools/array/view/activations/celu.hpp"
#include "nmtools/array/view/activations/hardtanh.hpp"
#include "nmtools/array/view/activations/hardshrink.hpp"
#include "nmtools/array/view/activations/softshrink.hpp"
#include "nmtools/array/view/activations/softplus.hpp"
#include "nmtools/array/view/ufuncs/add.hpp"
#include "nmtools/array/view/ufuncs/tanh.hpp"
#include "nmtools/array/view/ufuncs/maximum.hpp"
#include "nmtools/array/view/transpose.hpp"
#include "nmtools/array/view/moveaxis.hpp"
#include "nmtools/array/view/reshape.hpp"
#include "nmtools/array/view/broadcast_to.hpp"
#include "nmtools/array/view/tile.hpp"
#include "nmtools/array/view/repeat.hpp"
#include "nmtools/array/view/flip.hpp"
#include "nmtools/array/view/roll.hpp"
#include "nmtools/array/view/expand_dims.hpp"
#include "nmtools/array/view/slice.hpp"
#include "nmtools/array/view/pooling.hpp"
#include "nmtools/array/view/sum.hpp"
#include "nmtools/array/view/prod.hpp"
#include "nmtools/array/view/cumsum.hpp"
#include "nmtools/array/view/cumprod.hpp"
#include "nmtools/array/view/matmul.hpp"
#include "nmtools/array/view/where.hpp"
#include "nmtools/array/view/concatenate.hpp"
#include "show.hpp"
#include <cstring>

namespace fn = nmtools::functional;
namespace view = nmtools::view;
using namespace vd;

template <typename V>
static std::string attr_case(const V& v) {
    auto f = fn::get_function_composition(v);
    auto ops = fn::get_function_operands(v);
    auto r = fn::apply(f, ops);
    std::string sv = show(v), sr = show(r);
    if (sv == sr && sv.rfind("ok ", 0) == 0) return "reproduces " + sv.substr(3, sv.find(" ;") - 3);
    return "differs view " + sv + " | apply " + sr;
}

static std::string handle(const Case& c) {
    if (c.op != "attr") return "unsupported";
    const std::string name = c.args[0].raw.substr(2);
    auto a = make_array(c.args[1]); auto b = make_array(c.args[2]);
    // double operands travel as their 64-bit patterns (S:f64): values that are NOT representable in binary32
    const bool f64 = c.args.size() > 5 && c.args[5].raw == "S:f64";
    auto mkd = [&](const Arg& g) {
        auto arr = make_array<dyn_t<double>>(g);
        if (f64) { double* p = nm::data(arr); for (size_t i = 0; i < g.list.size(); i++) std::memcpy(&p[i], &g.list[i], sizeof(double)); }
        return arr;
    };
    auto ad = mkd(c.args[1]); auto bd = mkd(c.args[2]);
    const auto& P = c.args[3].list;
    auto q = [&](size_t k) { return (double)P.at(k) / 10.0; };       // activation parameters travel in tenths: not exact in binary32
    using i2 = std::array<size_t, 2>;
#define X(nm_, expr) if (name == nm_) return attr_case(expr);
    // ---- indexing views (functional/indexing.hpp: the whole indexer, i.e. every argument, is the attribute)
    X("transpose",    view::transpose(a, vec_of<int>(P)))
    X("moveaxis",     view::moveaxis(a, (int)P.at(0), (int)P.at(1)))
    X("reshape",      view::reshape(a, vec_of<size_t>(P)))
    X("broadcast_to", view::broadcast_to(a, vec_of<size_t>(P)))
    X("tile",         view::tile(a, vec_of<size_t>(P)))
    X("repeat",       view::repeat(a, (size_t)P.at(0), (int)P.at(1)))
    // (view::take: get_function is GET_FUNCTION_UNSUPPORTED for take_t views - rejected at compile time, not in the table)
    X("flip",         view::flip(a, (int)P.at(0)))
    X("roll",         view::roll(a, (int)P.at(0), (int)P.at(1)))
    X("expand_dims",  view::expand_dims(a, vec_of<int>(P)))
    X("slice2",       view::slice(a, nmtools_tuple{(int)P.at(0), (int)P.at(1), (int)P.at(2)}, nmtools_tuple{(int)P.at(3), (int)P.at(4), (int)P.at(5)}))
    // ---- pooling (functional/pooling.hpp): kernel, stride, ceil_mode with BOTH values
    X("max_pool2d_ceil",  view::max_pool2d(ad, i2{(size_t)P.at(0), (size_t)P.at(1)}, i2{(size_t)P.at(2), (size_t)P.at(3)}, nm::True))
    X("max_pool2d_floor", view::max_pool2d(ad, i2{(size_t)P.at(0), (size_t)P.at(1)}, i2{(size_t)P.at(2), (size_t)P.at(3)}, nm::False))
    X("avg_pool2d_ceil",  view::avg_pool2d(ad, i2{(size_t)P.at(0), (size_t)P.at(1)}, i2{(size_t)P.at(2), (size_t)P.at(3)}, nm::True))
    X("avg_pool2d_floor", view::avg_pool2d(ad, i2{(size_t)P.at(0), (size_t)P.at(1)}, i2{(size_t)P.at(2), (size_t)P.at(3)}, nm::False))
    X("tanh_max_pool2d_ceil", view::tanh(view::max_pool2d(ad, i2{(size_t)P.at(0), (size_t)P.at(1)}, i2{(size_t)P.at(2), (size_t)P.at(3)}, nm::True)))
    // ---- reductions / accumulations (functional/ufunc/reduce.hpp, accumulate.hpp): axis, dtype, initial, keepdims
    X("sum_keep",     view::sum(a, (int)P.at(0), nm::None, (ll)P.at(1), nm::True))
    X("sum_nokeep",   view::sum(a, (int)P.at(0), nm::None, (ll)P.at(1)))
    X("sum_f64",      view::sum(a, (int)P.at(0), nm::float64, (double)P.at(1), nm::True))
    X("sum_axes",     view::sum(a, vec_of<int>(P)))
    X("prod_keep",    view::prod(a, (int)P.at(0), nm::None, (ll)P.at(1), nm::True))
    X("amax_init",    view::reduce_maximum(a, (int)P.at(0), nm::None, (ll)P.at(1), nm::True))
    X("cumsum",       view::cumsum(a, (int)P.at(0)))
    X("cumprod",      view::cumprod(a, (int)P.at(0)))
    // ---- parameterised unary ufuncs (functional/ufunc/ufunc.hpp: view.attributes() carries the op with its parameters)
    X("leaky_relu",   view::leaky_relu(ad, q(0)))
    X("elu",          view::elu(ad, q(0)))
    X("celu",         view::celu(ad, q(0)))
    X("hardtanh",     view::hardtanh(ad, q(0), q(1)))
    X("hardshrink",   view::hardshrink(ad, q(0)))
    X("softshrink",   view::softshrink(ad, q(0)))
    X("softplus",     view::softplus(ad, q(0), q(1)))
    X("leaky_relu_of_add", view::leaky_relu(view::add(ad, bd), q(0)))
    X("sum_of_hardtanh",   view::sum(view::hardtanh(ad, q(0), q(1)), (int)P.at(2), nm::None, 0.5, nm::True))
    // ---- other specialisations: arctan2, matmul, where, concatenate(axis)
    // (view::arctan2: its get_function_t specialisation is ambiguous with the generic binary-ufunc one - rejected at compile time)
    X("matmul",       view::matmul(a, b))
    X("where",        view::where(a, b, a))
    X("concatenate",  view::concatenate(a, b, (int)P.at(0)))
#undef X
    return "unsupported";
}

int main() { return vd::run_main(handle); }
