// c10.cpp — implementation side of the C10 correspondence: eager evaluation of a
// composed view (row-major resolver, column-major resolver, supplied output, inner
// view materialised first in either layout and the outer operation applied to the
// concrete array) against element-wise reads of the lazy view.
//   ev I:<composition> A:<shape>:<data> A:<shape>:<data>
// prints  lazy <view> | row <shape ; raw buffer> | col <shape ; raw buffer> |
//         two <array> | twoc <array> | sup <array> | sup2 <array: wrong-shaped supplied output, must stay untouched>
// Built in parts (-DPART=0..NPART-1 selects compositions id % NPART == PART).
#include "nmtools/array/view/transpose.hpp"
#include "nmtools/array/view/reshape.hpp"
#include "nmtools/array/view/flip.hpp"
#include "nmtools/array/view/tile.hpp"
#include "nmtools/array/view/sum.hpp"
#include "nmtools/array/view/prod.hpp"
#include "nmtools/array/view/ufuncs/add.hpp"
#include "nmtools/array/view/ufuncs/subtract.hpp"
#include "nmtools/array/view/ufuncs/multiply.hpp"
#include "nmtools/array/view/ufuncs/maximum.hpp"
#include "nmtools/array/view/broadcast_to.hpp"
#include "nmtools/array/view/expand_dims.hpp"
#include "nmtools/array/view/pad.hpp"
#include "nmtools/array/view/roll.hpp"
#include "nmtools/array/view/repeat.hpp"
#include "nmtools/array/view/concatenate.hpp"
#include "nmtools/array/view/cumsum.hpp"
#include "nmtools/array/view/matmul.hpp"
#include "nmtools/array/view/activations/relu.hpp"
#include "nmtools/array/view/slice.hpp"
#include "nmtools/array/eval.hpp"
#include "show.hpp"

namespace view = nmtools::view;
namespace na = nmtools::array;
using namespace vd;

#ifndef PART
#define PART 0
#endif
#ifndef NPART
#define NPART 1
#endif

template <typename T, typename = void> struct has_data_member : std::false_type {};
template <typename T> struct has_data_member<T, std::void_t<decltype(std::declval<const T&>().data_)>> : std::true_type {};

// shape ; raw buffer in memory order (the layout is visible here)
template <typename R>
static std::string showbuf(const R& r) {
    if constexpr (meta::is_maybe_v<R>) {
        if (!nm::has_value(r)) return "nothing";
        return showbuf(*r);
    } else if constexpr (meta::is_num_v<R>) {
        return " ; " + num_str(r);
    } else if constexpr (has_data_member<R>::value) {
        std::string s = show_index(nm::shape(r)) + " ;";
        size_t n = nm::len(r.data_);
        for (size_t i = 0; i < n; i++) s += (i ? "," : " ") + num_str(nm::at(r.data_, i));
        return s;
    } else {
        return "noraw " + show(r);
    }
}

static std::vector<size_t> shape_of(const dyn_t<ll>& a) { auto s = a.shape(); return std::vector<size_t>(s.begin(), s.end()); }
static std::vector<size_t> flat_shape(const dyn_t<ll>& a) { size_t n = 1; for (auto e : a.shape()) n *= e; return {n}; }
static std::vector<size_t> rot_axes(const dyn_t<ll>& a) { size_t d = a.shape().size(); std::vector<size_t> p; for (size_t i = 0; i < d; i++) p.push_back((i + 1) % d); return p; }
static std::vector<size_t> reps_of(size_t d) { std::vector<size_t> r(d, 1); r[0] = 2; if (d > 1) r[d - 1] = 2; return r; }
static std::vector<size_t> widths_of(size_t d) { std::vector<size_t> w(2 * d, 0); for (size_t i = 0; i < d; i++) { w[i] = 1; w[d + i] = (i % 2); } return w; }
static std::vector<size_t> prepend2(const dyn_t<ll>& a) { auto s = shape_of(a); s.insert(s.begin(), 2); return s; }

template <typename Inner, typename Outer>
static std::string run(Inner inner, Outer outer, const dyn_t<ll>& a, const dyn_t<ll>& b) {
    auto in = inner(a, b);
    auto lazy = outer(in);
    std::string s = "lazy " + show(lazy);
    if constexpr (meta::is_maybe_v<decltype(lazy)>) { if (!nm::has_value(lazy)) return s; }
    const auto& lz = nm::unwrap(lazy);
    auto row = na::eval(lz, nm::None, nm::None, na::RowMajorResolver);
    s += " | row " + showbuf(row);
    auto col = na::eval(lz, nm::None, nm::None, na::ColumnMajorResolver);
    s += " | col " + showbuf(col);
    {   // evaluate the inner view to a concrete (row-major) array first, then apply the outer operation
        auto mid = na::eval(nm::unwrap(in), nm::None, nm::None, na::RowMajorResolver);
        auto two = outer(mid);
        s += " | two " + show(na::eval(two));
    }
    {   // same through a column-major intermediate
        auto mid = na::eval(nm::unwrap(in), nm::None, nm::None, na::ColumnMajorResolver);
        auto two = outer(mid);
        s += " | twoc " + show(na::eval(two));
    }
    {   // caller-supplied output of the right shape, pre-filled with a sentinel
        auto shp_ = nm::shape(lz);
        std::vector<size_t> shp; { auto n = (size_t)nm::len(shp_); for (size_t i = 0; i < n; i++) shp.push_back((size_t)nm::at(shp_, i)); }
        dyn_t<ll> out; out.resize(shp);
        for (auto& x : out.data_) x = -99;
        na::eval(lz, nm::None, out);
        s += " | sup " + show(out);
        // a supplied output with the SAME element count but another shape (flattened, or with an extra unit axis):
        // the evaluator must return without writing (eval.hpp: silent return on shape mismatch)
        size_t n = 1; for (auto e : shp) n *= e;
        std::vector<size_t> shp2 = shp.size() >= 2 ? std::vector<size_t>{n} : std::vector<size_t>{n, 1};
        dyn_t<ll> out2; out2.resize(shp2);
        for (auto& x : out2.data_) x = -99;
        na::eval(lz, nm::None, out2);
        s += " | sup2 " + show(out2);
    }
    {   // caller-supplied outputs of OTHER container kinds, right shape, sentinel-filled: nested std::vector (whose member size()
        // is the outer extent only) for 2-d / 3-d results, a flat std::vector for 1-d results
        auto shp_ = nm::shape(lz); size_t d = (size_t)nm::len(shp_);
        std::vector<size_t> e; for (size_t i = 0; i < d; i++) e.push_back((size_t)nm::at(shp_, i));
        std::string o = " | sup3 ";
        bool empty = false; for (auto x : e) if (x == 0) empty = true;      // a nested vector with no rows has no shape of its own
        if (empty) o += "-";
        else if (d == 1) {
            std::vector<ll> v(e[0], -99); na::eval(lz, nm::None, v);
            o += "ok " + std::to_string(e[0]) + " ;"; for (size_t i = 0; i < e[0]; i++) o += (i ? "," : " ") + num_str(v[i]);
        } else if (d == 2) {
            std::vector<std::vector<ll>> v(e[0], std::vector<ll>(e[1], -99)); na::eval(lz, nm::None, v);
            o += "ok " + std::to_string(e[0]) + "," + std::to_string(e[1]) + " ;"; bool f = true;
            for (auto& r : v) for (auto x : r) { o += (f ? " " : ",") + num_str(x); f = false; }
        } else if (d == 3) {
            std::vector<std::vector<std::vector<ll>>> v(e[0], std::vector<std::vector<ll>>(e[1], std::vector<ll>(e[2], -99))); na::eval(lz, nm::None, v);
            o += "ok " + std::to_string(e[0]) + "," + std::to_string(e[1]) + "," + std::to_string(e[2]) + " ;"; bool f = true;
            for (auto& p : v) for (auto& r : p) for (auto x : r) { o += (f ? " " : ",") + num_str(x); f = false; }
        } else o += "-";
        s += o;
    }
    return s;
}

#define COMP(ID, INNER, OUTER) \
    if (id == ID) { if constexpr ((ID % NPART) == PART) { \
        return run([&](const auto& a, const auto& b) { (void)b; return INNER; }, [&](const auto& x) { return OUTER; }, A, B); } \
        else return "unsupported"; }

static std::string handle(const Case& c) {
    if (c.op != "ev") return "unsupported";
    int id = (int)c.args[0].val;
    auto A = make_array(c.args[1]);
    auto B = make_array(c.args[2]);
    size_t d = A.shape().size();
    size_t last = d - 1;
    // ---- any dimension >= 1
    COMP(1, view::transpose(a), view::reshape(x, flat_shape(A)))
    COMP(2, view::reshape(a, flat_shape(A)), view::tile(x, std::vector<size_t>{2}))
    COMP(3, view::add(a, b), view::transpose(x))
    COMP(4, view::flip(a, 0), view::cumsum(x, 0))
    COMP(5, view::roll(a, 1, 0), view::pad(x, widths_of(d)))
    COMP(6, view::repeat(a, 2, 0), view::transpose(x))
    COMP(7, view::concatenate(a, b, 0), view::flip(x, 0))
    COMP(8, view::broadcast_to(a, prepend2(A)), view::sum(x, 0))
    COMP(9, view::expand_dims(a, 0), view::tile(x, reps_of(d + 1)))
    COMP(10, view::subtract(a, b), view::reshape(x, flat_shape(A)))
    COMP(11, view::tile(a, reps_of(d)), view::roll(x, 1, (int)last))
    COMP(12, view::pad(a, widths_of(d)), view::transpose(x))
    COMP(13, view::cumsum(a, (int)last), view::multiply(x, B))
    COMP(14, view::multiply(a, 3), view::subtract(x, B))
    COMP(15, view::transpose(a, rot_axes(A)), view::add(x, x))
    COMP(16, view::relu(view::subtract(a, b)), view::transpose(x))
    // ---- dimension >= 2 (a reduction leaves an array)
    COMP(20, view::multiply(a, b), view::sum(x, 0))
    COMP(21, view::sum(a, (int)last, nm::None, nm::None, nm::True), view::add(x, B))
    COMP(22, view::maximum(a, b), view::prod(x, (int)last))
    COMP(23, view::transpose(a), view::sum(x, (int)last))
    // ---- dimension == 2
    COMP(30, view::matmul(a, view::transpose(b)), view::add(x, x))
    COMP(31, view::transpose(b), view::matmul(A, x))
    // ---- empty results (an extent 0 produced by an empty slice), any dimension >= 1
    COMP(40, view::slice(a, nmtools_tuple{1, 1}, nm::Ellipsis), view::transpose(x))
    COMP(41, view::multiply(a, b), view::slice(x, nm::Ellipsis, nmtools_tuple{2, 1}))
    COMP(42, view::slice(a, nmtools_tuple{1, 1}, nm::Ellipsis), view::add(x, x))
    return "unsupported";
}

int main() { return vd::run_main(handle, 16); }
