// c17_show.hpp — printing of C17 results: like vd::show but every element is first converted to T
// (pool2d returns a 0-dim reduction view per element; norms return double) and doubles are printed with %.17g.
#pragma once
#include "show.hpp"
namespace vd {
template <typename T, typename V>
inline std::string show_cast(const V& v) {
    if constexpr (meta::is_either_v<V>) {
        using L = meta::get_either_left_t<V>; using R = meta::get_either_right_t<V>;
        if (auto l = nm::get_if<L>(&v)) return show_cast<T>(*l);
        else return show_cast<T>(*nm::get_if<R>(&v));
    } else if constexpr (meta::is_maybe_v<V>) {
        if (!nm::has_value(v)) return "nothing";
        return show_cast<T>(*v);
    } else if constexpr (meta::is_num_v<V>) {
        return "ok  ; " + num_str(static_cast<T>(v));
    } else if constexpr (meta::is_fail_v<V>) {
        return "unsupported";
    } else {
        const auto shp_ = nm::shape(v);
        if constexpr (meta::is_maybe_v<std::decay_t<decltype(shp_)>>) { if (!nm::has_value(shp_)) return "nothing"; }
        const auto shp = nm::unwrap(shp_);
        std::string o = "ok " + show_index(shp) + " ;";
        std::vector<size_t> ext;
        if constexpr (meta::is_tuple_v<std::decay_t<decltype(shp)>>) { constexpr auto N = meta::len_v<std::decay_t<decltype(shp)>>; meta::template_for<N>([&](auto i){ ext.push_back((size_t)nm::at(shp, i)); }); }
        else { auto n = (size_t)nm::len(shp); for (size_t i = 0; i < n; i++) ext.push_back((size_t)nm::at(shp, i)); }
        size_t total = 1; for (auto e : ext) { total *= e; if (e > 4096 || total > 200000) return "trap huge-result"; }
        std::vector<size_t> idx(ext.size(), 0);
        for (size_t c = 0; c < total; c++) {
            o += (c ? "," : " ") + num_str(static_cast<T>(nm::apply_at(v, idx)));
            for (int d = (int)ext.size() - 1; d >= 0; d--) { if (++idx[d] < ext[d]) break; idx[d] = 0; }
        }
        return o;
    }
}
}
