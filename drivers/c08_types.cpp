// c08_types.cpp — C08 at TYPE-WIDTH boundaries (same driver key as c08_stat.cpp; each answers "unsupported" for the other's ops):
//   rdims S:<axtype> S:<axkind> S:<shapekind> S:<kd> L:<shape> <axis: I:k | L:..>   index::remove_dims on a bare shape
//   tsum  S:<axtype> S:<axkind> S:<kd> A:<arr> <axis>                                view::sum(int64 data) with a typed axis argument
//   tred  S:<sum|prod> S:<src> S:<dtype> S:<kd> A:<arr> <axis: N | L:..> <init>      view::sum / prod with source element type and result dtype
//   tini  S:<sum|prod|amax|amin|radd> S:<src> S:<initT> S:<int|list|none> A:<arr> <axis> I:<n>   initial of ANOTHER type than the element type
//   tacc  S:<cumsum|cumprod|add> S:<src> S:<dtype> A:<arr> I:<axis>                  cumsum / cumprod / accumulate_add with a result dtype
// axtype: i8 u8 i16 u16 i32 u32 i64 u64 (the axis argument's (element) type)   axkind: scalar | vec | arr
// shapekind: vec | arr    kd: def | rt0 | rt1 | ct0 | ct1     src: u8 i8 i32     dtype: none i8 u8 i16 i32 i64 u64 f32 f64
#include "nmtools/array/index/remove_dims.hpp"
#include "nmtools/array/view/sum.hpp"
#include "nmtools/array/view/prod.hpp"
#include "nmtools/array/view/cumsum.hpp"
#include "nmtools/array/view/cumprod.hpp"
#include "nmtools/array/view/ufuncs/add.hpp"
#include "nmtools/array/view/ufuncs/amax.hpp"
#include "nmtools/array/view/ufuncs/amin.hpp"
#include "show.hpp"
#include <cstdint>

namespace view = nmtools::view;
namespace ix = nmtools::index;
using namespace vd;
using nm::None; using nm::True; using nm::False;

// ---- the axis argument in a given element type and container
// MAXN: the largest fixed-size axis array that may be instantiated (a fixed-rank shape with more axes than
// dimensions is rejected at compile time)
template <typename T, size_t MAXN, typename F>
static std::string with_axis_kind(const std::string& akind, const Arg& ax, F&& f) {
    if (akind == "scalar") return f((T)ax.val);
    if (akind == "vec") return f(vec_of<T>(ax.list));
    if (akind == "arr") {
        switch (ax.list.size()) {
            case 1: if constexpr (MAXN >= 1) return f(arr_of<T,1>(ax.list)); break;
            case 2: if constexpr (MAXN >= 2) return f(arr_of<T,2>(ax.list)); break;
            case 3: if constexpr (MAXN >= 3) return f(arr_of<T,3>(ax.list)); break;
        }
    }
    return "unsupported";
}
template <size_t MAXN, typename F>
static std::string with_axis_type(const std::string& t, const std::string& akind, const Arg& ax, F&& f) {
    if (t == "i8") return with_axis_kind<int8_t, MAXN>(akind, ax, f);    if (t == "u8") return with_axis_kind<uint8_t, MAXN>(akind, ax, f);
    if (t == "i16") return with_axis_kind<int16_t, MAXN>(akind, ax, f);  if (t == "u16") return with_axis_kind<uint16_t, MAXN>(akind, ax, f);
    if (t == "i32") return with_axis_kind<int32_t, MAXN>(akind, ax, f);  if (t == "u32") return with_axis_kind<uint32_t, MAXN>(akind, ax, f);
    if (t == "i64") return with_axis_kind<int64_t, MAXN>(akind, ax, f);  if (t == "u64") return with_axis_kind<uint64_t, MAXN>(akind, ax, f);
    return "unsupported";
}

template <typename shape_t, typename axis_t>
static std::string rdims_kd(const std::string& kd, const shape_t& shp, const axis_t& axis) {
    if (kd == "ct0" || kd == "def") return "ok " + show_index(ix::remove_dims(shp, axis, False));
    if (kd == "ct1") return "ok " + show_index(ix::remove_dims(shp, axis, True));
    if (kd == "rt0") return "ok " + show_index(ix::remove_dims(shp, axis, false));
    if (kd == "rt1") return "ok " + show_index(ix::remove_dims(shp, axis, true));
    return "unsupported";
}

// ---- source element type x result dtype
template <typename F> static std::string with_dtype(const std::string& d, F&& f) {
    if (d == "none") return f(None);
    if (d == "i8") return f(nm::int8);   if (d == "u8") return f(nm::uint8);  if (d == "i16") return f(nm::int16);
    if (d == "i32") return f(nm::int32); if (d == "i64") return f(nm::int64); if (d == "u64") return f(nm::uint64);
    if (d == "f32") return f(nm::float32); if (d == "f64") return f(nm::float64);
    return "unsupported";
}
// only the (source, dtype) pairs the generator uses are instantiated
template <typename F> static std::string with_src_dtype(const std::string& src, const std::string& d, const Arg& A, F&& f) {
    auto ok = [&](std::initializer_list<const char*> l) { for (auto x : l) if (d == x) return true; return false; };
    if (src == "u8" && ok({"none", "i8", "i32", "u64", "f64"})) {
        auto a = make_array<dyn_t<uint8_t>>(A);
        if (d == "none") return f(a, None); if (d == "i8") return f(a, nm::int8); if (d == "i32") return f(a, nm::int32);
        if (d == "u64") return f(a, nm::uint64); return f(a, nm::float64);
    }
    if (src == "i8" && ok({"none", "u8", "i16", "i64", "f32"})) {
        auto a = make_array<dyn_t<int8_t>>(A);
        if (d == "none") return f(a, None); if (d == "u8") return f(a, nm::uint8); if (d == "i16") return f(a, nm::int16);
        if (d == "i64") return f(a, nm::int64); return f(a, nm::float32);
    }
    if (src == "i32" && ok({"none", "i8", "i64", "f64"})) {
        auto a = make_array<dyn_t<int32_t>>(A);
        if (d == "none") return f(a, None); if (d == "i8") return f(a, nm::int8); if (d == "i64") return f(a, nm::int64);
        return f(a, nm::float64);
    }
    return "unsupported";
}

// a 0-dim *view* (axis=None, keepdims=False) is converted to its element type before printing (show.hpp would print a floating
// 0-dim view through long long)
template <typename V>
static std::string showf(const V& v) {
    if constexpr (meta::is_either_v<V>) {
        using L = meta::get_either_left_t<V>; using R = meta::get_either_right_t<V>;
        if (auto l = nm::get_if<L>(&v)) return showf(*l); else return showf(*nm::get_if<R>(&v));
    } else if constexpr (meta::is_maybe_v<V>) { if (!nm::has_value(v)) return "nothing"; return showf(*v); }
    else if constexpr (meta::is_num_v<V> && !std::is_arithmetic_v<V>) { using T = meta::get_element_type_t<V>; return "ok  ; " + num_str(static_cast<T>(v)); }
    else return show(v);
}

static std::string handle(const Case& c) {
    if (c.op == "rdims") {
        const std::string t = c.args[0].raw.substr(2), akind = c.args[1].raw.substr(2), sk = c.args[2].raw.substr(2), kd = c.args[3].raw.substr(2);
        const auto& shape = c.args[4].list;
        if (sk == "vec") return with_axis_type<3>(t, akind, c.args[5], [&](const auto& axis) { return rdims_kd(kd, vec_of<size_t>(shape), axis); });
        if (sk == "arr") switch (shape.size()) {
            case 1: return with_axis_type<1>(t, akind, c.args[5], [&](const auto& axis) { return rdims_kd(kd, arr_of<size_t,1>(shape), axis); });
            case 2: return with_axis_type<2>(t, akind, c.args[5], [&](const auto& axis) { return rdims_kd(kd, arr_of<size_t,2>(shape), axis); });
            case 3: return with_axis_type<3>(t, akind, c.args[5], [&](const auto& axis) { return rdims_kd(kd, arr_of<size_t,3>(shape), axis); });
        }
        return "unsupported";
    }
    if (c.op == "tsum") {
        const std::string t = c.args[0].raw.substr(2), akind = c.args[1].raw.substr(2), kd = c.args[2].raw.substr(2);
        // instantiation budget: all containers for the 8-bit types, scalar + std::array for 16 bit, scalar for 32 / 64 bit
        const bool narrow = (t == "i8" || t == "u8"), mid = (t == "i16" || t == "u16");
        if (!(narrow || (mid && akind != "vec") || akind == "scalar")) return "unsupported";
        auto a = make_array(c.args[3]);
        auto f = [&](const auto& axis) -> std::string {
            if (kd == "def") return show(view::sum(a, axis));
            if (kd == "rt1") return show(view::sum(a, axis, None, None, true));
            return "unsupported";
        };
        const Arg& ax = c.args[4];
        if (narrow) { if (t == "i8") return with_axis_kind<int8_t, 3>(akind, ax, f); return with_axis_kind<uint8_t, 3>(akind, ax, f); }
        if (mid) {
            if (akind == "scalar") { if (t == "i16") return f((int16_t)ax.val); return f((uint16_t)ax.val); }
            switch (ax.list.size()) {
                case 1: if (t == "i16") return f(arr_of<int16_t,1>(ax.list)); return f(arr_of<uint16_t,1>(ax.list));
                case 2: if (t == "i16") return f(arr_of<int16_t,2>(ax.list)); return f(arr_of<uint16_t,2>(ax.list));
            }
            return "unsupported";
        }
        if (t == "i32") return f((int32_t)ax.val); if (t == "u32") return f((uint32_t)ax.val);
        if (t == "i64") return f((int64_t)ax.val); if (t == "u64") return f((uint64_t)ax.val);
        return "unsupported";
    }
    if (c.op == "tred") {
        const std::string fn = c.args[0].raw.substr(2), src = c.args[1].raw.substr(2), d = c.args[2].raw.substr(2), kd = c.args[3].raw.substr(2);
        const Arg& ax = c.args[5]; const Arg& init = c.args[6];
        return with_src_dtype(src, d, c.args[4], [&](const auto& a, auto dtype) -> std::string {
            auto go = [&](const auto& axis, auto ini) -> std::string {
                if (fn == "sum") return show(view::sum(a, axis, dtype, ini));
                if (fn == "prod") return show(view::prod(a, axis, dtype, ini));
                return "unsupported";
            };
            // axis None without initial; an axis list with and without initial
            if (ax.kind == 'N') { if (init.kind != 'N') return std::string("unsupported"); return go(None, None); }
            if (init.kind == 'N') return go(vec_of<int>(ax.list), None);
            return go(vec_of<int>(ax.list), (ll)init.val);
        });
    }
    if (c.op == "tini") {
        // tini S:<sum|prod|amax|amin|radd> S:<src> S:<initT> S:<int|list|none> A:<arr> <axis> I:<n>
        //   an initial value of ANOTHER type than the element / result type: it is converted to the result type first and the fold runs there.
        //   src f64: data x/4; floating initial: n/4.  axis form: int + default keepdims | list + run-time keepdims=true | None + default
        const std::string fn = c.args[0].raw.substr(2), p = c.args[1].raw.substr(2) + ":" + c.args[2].raw.substr(2), af = c.args[3].raw.substr(2);
        const Arg& A = c.args[4]; const Arg& ax = c.args[5]; const ll n = c.args[6].val;
        auto run = [&](const auto& a, auto ini) -> std::string {
            auto go = [&](const auto& axis, auto... kd) -> std::string {
                if (fn == "sum") return showf(view::sum(a, axis, None, ini, kd...));
                if (fn == "prod") return showf(view::prod(a, axis, None, ini, kd...));
                if (fn == "amax") return showf(view::amax(a, axis, None, ini, kd...));
                if (fn == "amin") return showf(view::amin(a, axis, None, ini, kd...));
                if (fn == "radd") return showf(view::reduce(view::add_t<>{}, a, axis, None, ini, kd...));
                return "unsupported";
            };
            if (af == "int") return go((int)ax.val);
            if (af == "list") return go(vec_of<int>(ax.list), true);
            if (af == "none") return go(None);
            return "unsupported";
        };
        auto darr = [&]() { auto a = make_array<dyn_t<double>>(A); std::vector<size_t> shp(A.shape.begin(), A.shape.end()), idx(shp.size(), 0);
            size_t tot = 1; for (auto e : shp) tot *= e;
            for (size_t k = 0; k < tot; k++) { a(idx) = (double)A.list[k] / 4; for (int d = (int)shp.size() - 1; d >= 0; d--) { if (++idx[d] < shp[d]) break; idx[d] = 0; } }
            return a; };
        if (p == "f64:i32") return run(darr(), (int)n);
        if (p == "f64:f32") return run(darr(), (float)n / 4);
        if (p == "i64:i32") return run(make_array<dyn_t<int64_t>>(A), (int)n);
        if (p == "i32:f64") return run(make_array<dyn_t<int32_t>>(A), (double)n);
        return "unsupported";
    }
    if (c.op == "tacc") {
        const std::string fn = c.args[0].raw.substr(2), src = c.args[1].raw.substr(2), d = c.args[2].raw.substr(2);
        int axis = (int)c.args[4].val;
        return with_src_dtype(src, d, c.args[3], [&](const auto& a, auto dtype) -> std::string {
            if (fn == "cumsum") return show(view::cumsum(a, axis, dtype));
            if (fn == "cumprod") return show(view::cumprod(a, axis, dtype));
            if (fn == "add") return show(view::accumulate_add(a, axis, dtype));
            return "unsupported";
        });
    }
    return "unsupported";
}
int main() { return vd::run_main(handle); }
