// c07_dtype.cpp — C07 part (c): the element type of binary element-wise views for every pair of element
// types, read off the view TYPE (nothing is evaluated):  dtype S:<op> S:<T1> S:<T2>  ->  "ok <type>"
// types: i8 u8 i16 u16 i32 u32 i64 u64 f32 f64; ops: add subtract multiply divide (arithmetic), less equal (comparison),
// sum (reduction keeps the operand element type: T2 ignored)
#include "nmtools/array/view/ufuncs/add.hpp"
#include "nmtools/array/view/ufuncs/subtract.hpp"
#include "nmtools/array/view/ufuncs/multiply.hpp"
#include "nmtools/array/view/ufuncs/divide.hpp"
#include "nmtools/array/view/ufuncs/less.hpp"
#include "nmtools/array/view/ufuncs/equal.hpp"
#include "nmtools/array/view/sum.hpp"
#include "show.hpp"
#include <cstdint>

namespace view = nmtools::view;
using namespace vd;

template <typename T> static std::string tname() {
    if constexpr (std::is_same_v<T, bool>) return "bool";
    else if constexpr (std::is_floating_point_v<T>) return sizeof(T) == 4 ? "f32" : "f64";
    else if constexpr (std::is_integral_v<T>) return std::string(std::is_signed_v<T> ? "i" : "u") + std::to_string(8 * sizeof(T));
    else return "other";
}
template <typename V> struct strip { using type = V; };
template <typename V> struct strip<nmtools_maybe<V>> { using type = V; };
template <typename V> using elem_of = meta::get_element_type_t<typename strip<meta::remove_cvref_t<V>>::type>;

struct o_add { template <typename A, typename B> auto operator()(const A& a, const B& b) const { return view::add(a, b); } };
struct o_sub { template <typename A, typename B> auto operator()(const A& a, const B& b) const { return view::subtract(a, b); } };
struct o_mul { template <typename A, typename B> auto operator()(const A& a, const B& b) const { return view::multiply(a, b); } };
struct o_div { template <typename A, typename B> auto operator()(const A& a, const B& b) const { return view::divide(a, b); } };
struct o_less { template <typename A, typename B> auto operator()(const A& a, const B& b) const { return view::less(a, b); } };
struct o_eq { template <typename A, typename B> auto operator()(const A& a, const B& b) const { return view::equal(a, b); } };

template <typename Op, typename T1, typename T2> static std::string res2() {
    using V = decltype(std::declval<Op>()(std::declval<const dyn_t<T1>&>(), std::declval<const dyn_t<T2>&>()));
    return "ok " + tname<elem_of<V>>();
}
template <typename Op, typename T1> static std::string with_t2(const std::string& t2) {
    if (t2 == "i8") return res2<Op, T1, int8_t>();   if (t2 == "u8") return res2<Op, T1, uint8_t>();
    if (t2 == "i16") return res2<Op, T1, int16_t>(); if (t2 == "u16") return res2<Op, T1, uint16_t>();
    if (t2 == "i32") return res2<Op, T1, int32_t>(); if (t2 == "u32") return res2<Op, T1, uint32_t>();
    if (t2 == "i64") return res2<Op, T1, int64_t>(); if (t2 == "u64") return res2<Op, T1, uint64_t>();
    if (t2 == "f32") return res2<Op, T1, float>();   if (t2 == "f64") return res2<Op, T1, double>();
    return "unsupported";
}
template <typename Op> static std::string with_t1(const std::string& t1, const std::string& t2) {
    if (t1 == "i8") return with_t2<Op, int8_t>(t2);   if (t1 == "u8") return with_t2<Op, uint8_t>(t2);
    if (t1 == "i16") return with_t2<Op, int16_t>(t2); if (t1 == "u16") return with_t2<Op, uint16_t>(t2);
    if (t1 == "i32") return with_t2<Op, int32_t>(t2); if (t1 == "u32") return with_t2<Op, uint32_t>(t2);
    if (t1 == "i64") return with_t2<Op, int64_t>(t2); if (t1 == "u64") return with_t2<Op, uint64_t>(t2);
    if (t1 == "f32") return with_t2<Op, float>(t2);   if (t1 == "f64") return with_t2<Op, double>(t2);
    return "unsupported";
}
template <typename T> static std::string sum_t() {
    using V = decltype(view::sum(std::declval<const dyn_t<T>&>(), 0));
    return "ok " + tname<elem_of<V>>();
}

static std::string handle(const Case& c) {
    if (c.op != "dtype") return "unsupported";
    const std::string op = c.args[0].raw.substr(2), t1 = c.args[1].raw.substr(2), t2 = c.args[2].raw.substr(2);
    if (op == "add") return with_t1<o_add>(t1, t2);
    if (op == "multiply") return with_t1<o_mul>(t1, t2);
    if (op == "less") return with_t1<o_less>(t1, t2);
#ifndef VD_LIGHT
    if (op == "subtract") return with_t1<o_sub>(t1, t2);
    if (op == "divide") return with_t1<o_div>(t1, t2);
    if (op == "equal") return with_t1<o_eq>(t1, t2);
#endif
    if (op == "sum") {
        if (t1 == "i8") return sum_t<int8_t>();   if (t1 == "u8") return sum_t<uint8_t>();
        if (t1 == "i16") return sum_t<int16_t>(); if (t1 == "u16") return sum_t<uint16_t>();
        if (t1 == "i32") return sum_t<int32_t>(); if (t1 == "u32") return sum_t<uint32_t>();
        if (t1 == "i64") return sum_t<int64_t>(); if (t1 == "u64") return sum_t<uint64_t>();
        if (t1 == "f32") return sum_t<float>();   if (t1 == "f64") return sum_t<double>();
    }
    return "unsupported";
}
int main() { return vd::run_main(handle); }
