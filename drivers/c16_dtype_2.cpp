// part 2 of c16_dtype_1.cpp (edit that file; touch this one to invalidate the driver cache)
#define VD_PART 2
#include "c16_dtype_1.cpp"
