// c12.cpp — C12 correspondence (b)/(c): array::fn(args..., simd context) on run-time shaped
// std::vector-backed operands, printed bit for bit.  One translation unit per context:
//   C12_CTX = 0 none (default scalar evaluator), 1 x86_SSE, 2 x86_AVX (default of this file),
//             3 vector_128, 4 vector_256, 5 vector_512, 6 simde_AVX512
// (c12_<ctx>.cpp are one-line wrappers: the harness keys its binary cache by source file name).
// Case lines (every line names its context; other contexts answer "unsupported"):
//   unary  S:ctx S:f32|f64 S:op I:den A:x [S:col]
//   binary S:ctx S:dt S:op I:den A:lhs A:rhs [S:col]       (col: lhs is column-major)
//   outer  S:ctx S:dt S:op I:den A:lhs A:rhs
//   reduce S:ctx S:dt S:op I:den A:x  N|I:axis  S:kT|kF|kt|kf  N|I:initial
//   unaryx  S:ctx S:dt S:op L:shape S:<hex,hex,...>                          (adversarial values: every element is the
//   binaryx S:ctx S:dt S:op L:lshape S:<hex,...> L:rshape S:<hex,...>         bit pattern of a double, cast to the dtype)
//   lay S:ctx S:dt S:unary|binary|outer|reduce S:op S:<operand layouts r|c per operand> S:R|C I:den A:x [A:y | I:axis S:kT|kF]
//        operand layouts: r = row-major ndarray, c = column_major ndarray; result layout through Row/ColumnMajorResolver
// element = integer/den (den a power of two), 900001 -> -0.0, 900002 -> +inf, 900003 -> -inf, 900004 -> NaN
// result: "ok <shape> ; <hex bit patterns>" (NaN printed as "nan").
#ifndef C12_CTX
#define C12_CTX 2
#endif

#if C12_CTX == 1
#include "nmtools/array/eval/simd/x86_sse.hpp"
#define CTXV nmtools::array::simd::x86_SSE
static const char* CTX_NAME = "sse";
#elif C12_CTX == 2
#include "nmtools/array/eval/simd/x86_avx.hpp"
#define CTXV nmtools::array::simd::x86_AVX
static const char* CTX_NAME = "avx";
#elif C12_CTX == 3
#include "nmtools/array/eval/simd/vector_128.hpp"
#define CTXV nmtools::array::simd::vector_128
static const char* CTX_NAME = "v128";
#elif C12_CTX == 4
#include "nmtools/array/eval/simd/vector_256.hpp"
#define CTXV nmtools::array::simd::vector_256
static const char* CTX_NAME = "v256";
#elif C12_CTX == 5
#include "nmtools/array/eval/simd/vector_512.hpp"
#define CTXV nmtools::array::simd::vector_512
static const char* CTX_NAME = "v512";
#elif C12_CTX == 6
#include "nmtools/array/eval/simd/simde_avx512.hpp"
#define CTXV nmtools::array::simd::simde_AVX512
static const char* CTX_NAME = "simde";
#else
static const char* CTX_NAME = "none";
#endif

#if C12_CTX == 0
#define CALL(fn, ...) fn(__VA_ARGS__)
#define CALLR(fn, res, ...) fn(__VA_ARGS__, nmtools::None, nmtools::None, res)
#else
#define CALL(fn, ...) fn(__VA_ARGS__, CTXV)
#define CALLR(fn, res, ...) fn(__VA_ARGS__, CTXV, nmtools::None, res)
#endif

#include "nmtools/array/array/ufuncs/sqrt.hpp"
#include "nmtools/array/array/ufuncs/ceil.hpp"
#include "nmtools/array/array/ufuncs/floor.hpp"
#include "nmtools/array/array/ufuncs/add.hpp"
#include "nmtools/array/array/ufuncs/multiply.hpp"
#include "nmtools/array/array/ufuncs/subtract.hpp"
#include "nmtools/array/array/ufuncs/divide.hpp"
#include "nmtools/array/array/activations/relu.hpp"
#include "nmtools/array/array/activations/relu6.hpp"
#include "show.hpp"
#include <cmath>
#include <cstring>
#include <limits>

namespace na = nmtools::array;
using namespace vd;

template <typename T> static std::string bits(T v) {
    char b[32];
    if (v != v) return "nan";
    if constexpr (sizeof(T) == 4) { uint32_t u; std::memcpy(&u, &v, 4); snprintf(b, sizeof b, "%08x", u); }
    else { uint64_t u; std::memcpy(&u, &v, 8); snprintf(b, sizeof b, "%016llx", (unsigned long long)u); }
    return b;
}

// the printer of show.hpp, with bit patterns instead of decimal
template <typename V>
static std::string showbits(const V& v) {
    if constexpr (meta::is_either_v<V>) {
        using L = meta::get_either_left_t<V>; using R = meta::get_either_right_t<V>;
        if (auto l = nm::get_if<L>(&v)) return showbits(*l);
        else return showbits(*nm::get_if<R>(&v));
    } else if constexpr (meta::is_maybe_v<V>) {
        if (!nm::has_value(v)) return "nothing";
        return showbits(*v);
    } else if constexpr (meta::is_num_v<V>) {
        return "ok  ; " + bits(v);
    } else if constexpr (meta::is_fail_v<V>) {
        return "unsupported";
    } else {
        const auto shp_ = nm::shape(v);
        if constexpr (meta::is_maybe_v<std::decay_t<decltype(shp_)>>) { if (!nm::has_value(shp_)) return "nothing"; }
        const auto shp = nm::unwrap(shp_);
        std::string o = "ok " + show_index(shp) + " ;";
        std::vector<size_t> ext; auto n = (size_t)nm::len(shp);
        for (size_t i = 0; i < n; i++) ext.push_back((size_t)nm::at(shp, i));
        size_t total = 1; for (auto e : ext) total *= e;
        if (total > 2000000) return "trap huge-result";
        std::vector<size_t> idx(ext.size(), 0);
        for (size_t c = 0; c < total; c++) {
            o += (c ? "," : " ") + bits(nm::apply_at(v, idx));
            for (int d = (int)ext.size() - 1; d >= 0; d--) { if (++idx[d] < ext[d]) break; idx[d] = 0; }
        }
        return o;
    }
}

template <typename T> static T elem(ll v, ll den) {
    if (v == 900001) return (T)-0.0;
    if (v == 900002) return std::numeric_limits<T>::infinity();
    if (v == 900003) return -std::numeric_limits<T>::infinity();
    if (v == 900004) return std::numeric_limits<T>::quiet_NaN();
    return (T)((double)v / (double)den);
}

template <typename array_t>
static array_t mk(const Arg& a, ll den) {
    using T = typename array_t::value_type;
    array_t r;
    std::vector<size_t> shp(a.shape.begin(), a.shape.end());
    r.resize(shp);
    std::vector<size_t> idx(shp.size(), 0);
    size_t n = 1; for (auto e : shp) n *= e;
    for (size_t c = 0; c < n; c++) {
        r(idx) = elem<T>(c < a.list.size() ? a.list[c] : 0, den);
        for (int d = (int)shp.size() - 1; d >= 0; d--) { if (++idx[d] < shp[d]) break; idx[d] = 0; }
    }
    return r;
}

// array from a shape list and a comma separated list of 64-bit hex patterns (doubles), row-major
template <typename array_t>
static array_t mkx(const Arg& shape, const Arg& hex) {
    using T = typename array_t::value_type;
    array_t r;
    std::vector<size_t> shp(shape.list.begin(), shape.list.end());
    r.resize(shp);
    std::vector<double> vals;
    { std::string body = hex.raw.substr(2); size_t p = 0;
      while (p < body.size()) { size_t q = body.find(',', p); if (q == std::string::npos) q = body.size();
          uint64_t u = std::stoull(body.substr(p, q - p), nullptr, 16); double d; std::memcpy(&d, &u, 8); vals.push_back(d); p = q + 1; } }
    std::vector<size_t> idx(shp.size(), 0);
    size_t n = 1; for (auto e : shp) n *= e;
    for (size_t c = 0; c < n; c++) {
        r(idx) = (T)(c < vals.size() ? vals[c] : 0.0);
        for (int d = (int)shp.size() - 1; d >= 0; d--) { if (++idx[d] < shp[d]) break; idx[d] = 0; }
    }
    return r;
}

template <typename T>
static std::string unaryx(const Case& c) {
    const std::string op = c.args[2].raw.substr(2);
    auto x = mkx<dyn_t<T>>(c.args[3], c.args[4]);
    if (op == "sqrt") return showbits(CALL(na::sqrt, x));
    if (op == "ceil") return showbits(CALL(na::ceil, x));
    if (op == "floor") return showbits(CALL(na::floor, x));
    if (op == "relu") return showbits(CALL(na::relu, x));
    if (op == "relu6") return showbits(CALL(na::relu6, x));
    return "unsupported";
}

template <typename T>
static std::string binaryx(const Case& c) {
    if (c.args.size() < 7) return "unsupported";
    const std::string op = c.args[2].raw.substr(2);
    auto l = mkx<dyn_t<T>>(c.args[3], c.args[4]);
    auto r = mkx<dyn_t<T>>(c.args[5], c.args[6]);
    if (op == "add") return showbits(CALL(na::add, l, r));
    if (op == "subtract") return showbits(CALL(na::subtract, l, r));
    if (op == "multiply") return showbits(CALL(na::multiply, l, r));
    if (op == "divide") return showbits(CALL(na::divide, l, r));
    return "unsupported";
}

template <typename T>
static std::string unary(const Case& c) {
    const std::string op = c.args[2].raw.substr(2);
    ll den = c.args[3].val;
    bool col = c.args.size() > 5 && c.args[5].raw == "S:col";
    auto go = [&](const auto& x) -> std::string {
        if (op == "sqrt") return showbits(CALL(na::sqrt, x));
        if (op == "ceil") return showbits(CALL(na::ceil, x));
        if (op == "floor") return showbits(CALL(na::floor, x));
        if (op == "relu") return showbits(CALL(na::relu, x));
        if (op == "relu6") return showbits(CALL(na::relu6, x));
        return "unsupported";
    };
    if (col) {
#ifdef VD_LIGHT
        return "unsupported";
#else
        if (op != "sqrt") return "unsupported";
        auto x = mk<dyn_col_t<T>>(c.args[4], den);
        return showbits(CALL(na::sqrt, x));
#endif
    }
    return go(mk<dyn_t<T>>(c.args[4], den));
}

template <typename T>
static std::string binary(const Case& c) {
    const std::string op = c.args[2].raw.substr(2);
    ll den = c.args[3].val;
    bool col = c.args.size() > 6 && c.args[6].raw == "S:col";
    auto r = mk<dyn_t<T>>(c.args[5], den);
    if (col) {
#ifdef VD_LIGHT
        return "unsupported";
#else
        if (op != "add") return "unsupported";
        auto l = mk<dyn_col_t<T>>(c.args[4], den);
        return showbits(CALL(na::add, l, r));
#endif
    }
    auto l = mk<dyn_t<T>>(c.args[4], den);
    if (op == "add") return showbits(CALL(na::add, l, r));
    if (op == "subtract") return showbits(CALL(na::subtract, l, r));
    if (op == "multiply") return showbits(CALL(na::multiply, l, r));
    if (op == "divide") return showbits(CALL(na::divide, l, r));
    return "unsupported";
}

template <typename T>
static std::string outer(const Case& c) {
    const std::string op = c.args[2].raw.substr(2);
    ll den = c.args[3].val;
    auto l = mk<dyn_t<T>>(c.args[4], den);
    auto r = mk<dyn_t<T>>(c.args[5], den);
    if (op == "add") return showbits(CALL(na::add.outer, l, r, nm::None));
    if (op == "multiply") return showbits(CALL(na::multiply.outer, l, r, nm::None));
    if (op == "subtract") return showbits(CALL(na::subtract.outer, l, r, nm::None));
    return "unsupported";
}

template <typename T, typename F>
static std::string reduce_with(const Case& c, F&& red) {
    // red(x, axis, initial, keepdims)
    ll den = c.args[3].val;
    auto x = mk<dyn_t<T>>(c.args[4], den);
    const Arg& ax = c.args[5]; const std::string kd = c.args[6].raw.substr(2); const Arg& in = c.args[7];
    auto with_kd = [&](auto axis, auto initial) -> std::string {
        if (kd == "kT") return red(x, axis, initial, nm::True);
        if (kd == "kF") return red(x, axis, initial, nm::False);
#ifndef VD_LIGHT
        if (kd == "kt") return red(x, axis, initial, true);
        if (kd == "kf") return red(x, axis, initial, false);
#endif
        return "unsupported";
    };
    auto with_init = [&](auto axis) -> std::string {
        if (in.kind == 'N') return with_kd(axis, nm::None);
        return with_kd(axis, elem<T>(in.val, den));
    };
    if (ax.kind == 'N') return with_init(nm::None);
    return with_init((int)ax.val);
}

template <typename T>
static std::string reduce(const Case& c) {
    const std::string op = c.args[2].raw.substr(2);
    if (op == "add") return reduce_with<T>(c, [](const auto& x, auto axis, auto initial, auto kd) {
        return showbits(CALL(na::add.reduce, x, axis, nm::None, initial, kd)); });
    if (op == "multiply") return reduce_with<T>(c, [](const auto& x, auto axis, auto initial, auto kd) {
        return showbits(CALL(na::multiply.reduce, x, axis, nm::None, initial, kd)); });
    return "unsupported";
}

// ---- operand layout x result layout, every SIMD entry (elements are printed by logical index)
template <typename F>
static std::string with_res(const std::string& res, F&& f) {
    if (res == "R") return f(na::RowMajorResolver);
    if (res == "C") return f(na::ColumnMajorResolver);
    return "unsupported";
}
template <typename T, typename F>
static std::string with_operand(char lay, const Arg& a, ll den, F&& f) {
    if (lay == 'r') return f(mk<dyn_t<T>>(a, den));
    if (lay == 'c') return f(mk<dyn_col_t<T>>(a, den));
    return "unsupported";
}

template <typename T>
static std::string lay(const Case& c) {
    if (c.args.size() < 8) return "unsupported";
    const std::string kind = c.args[2].raw.substr(2), op = c.args[3].raw.substr(2), lo = c.args[4].raw.substr(2), res = c.args[5].raw.substr(2);
    ll den = c.args[6].val;
    if (kind == "unary") {
        if (op != "sqrt" || lo.size() != 1) return "unsupported";
        return with_operand<T>(lo[0], c.args[7], den, [&](const auto& x) {
            return with_res(res, [&](auto r) { return showbits(CALLR(na::sqrt, r, x)); }); });
    }
    if (kind == "binary" || kind == "outer") {
        if (lo.size() != 2 || c.args.size() < 9 || lo == "rc") return "unsupported";
        return with_operand<T>(lo[0], c.args[7], den, [&](const auto& x) {
            return with_operand<T>(lo[1], c.args[8], den, [&](const auto& y) {
                return with_res(res, [&](auto r) -> std::string {
                    if (kind == "binary") {
                        if (op == "add") return showbits(CALLR(na::add, r, x, y));
                        if (op == "subtract") return showbits(CALLR(na::subtract, r, x, y));
                    } else {
                        if (op == "subtract") return showbits(CALLR(na::subtract.outer, r, x, y, nm::None));
                    }
                    return "unsupported"; }); }); });
    }
    if (kind == "reduce") {
        if (op != "add" || lo.size() != 1 || c.args.size() < 10) return "unsupported";
        int axis = (int)c.args[8].val; const std::string kd = c.args[9].raw.substr(2);
        return with_operand<T>(lo[0], c.args[7], den, [&](const auto& x) {
            return with_res(res, [&](auto r) -> std::string {
                if (kd == "kT") return showbits(CALLR(na::add.reduce, r, x, axis, nm::None, nm::None, nm::True));
                if (kd == "kF") return showbits(CALLR(na::add.reduce, r, x, axis, nm::None, nm::None, nm::False));
                return "unsupported"; }); });
    }
    return "unsupported";
}

static std::string handle(const Case& c) {
    if (c.args.size() < 5) return "unsupported";
    if (c.args[0].raw.substr(2) != CTX_NAME) return "unsupported";
    const std::string dt = c.args[1].raw.substr(2);
    auto go = [&](auto tag) -> std::string {
        using T = decltype(tag);
        if (c.op == "lay") return lay<T>(c);
        if (c.op == "unaryx") return unaryx<T>(c);
        if (c.op == "binaryx") return binaryx<T>(c);
        if (c.op == "unary") return unary<T>(c);
        if (c.op == "binary") return binary<T>(c);
        if (c.op == "outer") return outer<T>(c);
        if (c.op == "reduce") return reduce<T>(c);
        return "unsupported";
    };
    if (dt == "f32") return go(float{});
    if (dt == "f64") return go(double{});
    return "unsupported";
}

int main() { return vd::run_main(handle); }
