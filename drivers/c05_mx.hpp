// c05_mx.hpp — body shared by the generated multi-axis C05 drivers (inlined into each generated TU).
//   mx S:<enc> S:<combo> L:<shape> <part> ...     index level: shape + source multi-index of every result index
//   vw S:<enc> S:<combo> L:<shape> <part> ...     view level : shape + every element of a view over 0,1,2,...
//   part = S:i,<v> | S:e | S:r,<a>,<b>,<c>   (a,b in {N,int}; c in {N,O,int})  — the TYPES come from the combo
// enc: var = tuple of typed parts through index::apply_* / view::apply_slice
//      tup = index::shape_slice / index::slice / view::slice called variadically
//      each generated combination fixes the TYPE of every part (run-time int / size_t, compile-time constant k_ct / ct_v<k>, Last, None),
//      the kind of the source shape at index level (std::vector, std::array, static_vector, tuple of constants) and the kind of
//      the source array at view level (dynamic ndarray, fixed-dim ndarray, raw C array, fixed_ndarray)
//      dyn = std::vector<either<int,either<ellipsis_t,either<std::array<int,3>,TUPLE>>>> through the same entry points
#include "nmtools/array/index/slice.hpp"
#include "nmtools/array/view/slice.hpp"
#include "show.hpp"
#include <functional>
#include <map>

namespace c05 {
using namespace vd;
namespace ix = nm::index;

inline std::vector<std::string> split(const std::string& s, char d) {
    std::vector<std::string> r; size_t p = 0;
    while (true) { size_t q = s.find(d, p); if (q == std::string::npos) { r.push_back(s.substr(p)); break; } r.push_back(s.substr(p, q - p)); p = q + 1; }
    return r;
}
// typed parts from a token "S:r,a,b,c" / "S:i,v"
inline int part_i(const Arg& x) { return std::stoi(split(x.raw.substr(2), ',')[1]); }
template <typename T> inline T bound_of(const std::string& t) { if constexpr (std::is_same_v<T, int>) return std::stoi(t); else return T{}; }
template <typename A, typename B, typename C> inline auto part_r3(const Arg& x) {
    auto f = split(x.raw.substr(2), ','); return nmtools_tuple<A, B, C>{bound_of<A>(f[1]), bound_of<B>(f[2]), bound_of<C>(f[3])};
}
template <typename A, typename B> inline auto part_r2(const Arg& x) {
    auto f = split(x.raw.substr(2), ','); return nmtools_tuple<A, B>{bound_of<A>(f[1]), bound_of<B>(f[2])};
}
inline std::array<int,3> part_a3(const Arg& x) { auto f = split(x.raw.substr(2), ','); return {std::stoi(f[1]), std::stoi(f[2]), std::stoi(f[3])}; }

inline bool sane(const std::vector<long long>& shp) {
    long long t = 1; for (auto e : shp) { if (e < 0 || e > 64) return false; t *= e; if (t > 4096) return false; } return true;
}
template <typename S> inline std::vector<long long> to_ll(const S& s) {
    std::vector<long long> r;
    if constexpr (meta::is_tuple_v<S>) { constexpr auto N = meta::len_v<S>; meta::template_for<N>([&](auto i){ r.push_back((long long)nm::at(s, i)); }); }
    else if constexpr (meta::is_constant_index_array_v<S>) { return to_ll(meta::to_value_v<S>); }
    else { auto n = (size_t)nm::len(s); for (size_t i = 0; i < n; i++) r.push_back((long long)nm::at(s, i)); }
    return r;
}
inline std::string join_ll(const std::vector<long long>& v) { std::string s; for (size_t i = 0; i < v.size(); i++) { if (i) s += ","; s += std::to_string(v[i]); } return s; }

// walk every index of `shp` in row-major order
template <typename F> inline void for_index(const std::vector<long long>& shp, F&& f) {
    long long total = 1; for (auto e : shp) total *= e;
    std::vector<size_t> idx(shp.size(), 0);
    for (long long c = 0; c < total; c++) {
        f(idx);
        for (int d = (int)shp.size() - 1; d >= 0; d--) { if ((long long)++idx[d] < shp[d]) break; idx[d] = 0; }
    }
}

// index level; ShapeF(): result shape, IndexF(idx): source multi-index
template <typename ShapeF, typename IndexF>
inline std::string report_index(ShapeF&& shape_f, IndexF&& index_f) {
    try {
        auto shp = to_ll(shape_f());
        std::string o = "ok " + join_ll(shp) + " ;";
        if (!sane(shp)) return o;
        bool first = true;
        for_index(shp, [&](const std::vector<size_t>& idx){ o += (first ? " " : "|"); first = false; o += join_ll(to_ll(index_f(idx))); });
        return o;
    } catch (std::out_of_range&) { return "trap out_of_range"; }   // at() on the shape / indices refused an index
}
template <typename V>
inline std::string report_view(const V& v) {
    if constexpr (meta::is_maybe_v<V>) { if (!nm::has_value(v)) return "nothing"; return report_view(*v); }
    else {
        const auto shape_ = nm::shape(v);
        auto shp = to_ll(shape_);
        std::string o = "ok " + join_ll(shp) + " ;";
        {   // the dim / size accessors must agree with the shape
            long long d = (long long)nm::dim(v), sz = (long long)nm::size(v), prod = 1; for (auto e : shp) prod *= e;
            if (d != (long long)shp.size() || sz != prod) o = "ok " + join_ll(shp) + " !dim=" + std::to_string(d) + ",size=" + std::to_string(sz) + " ;";
        }
        if (!sane(shp)) return o;
        bool first = true;
        for_index(shp, [&](const std::vector<size_t>& idx){
            o += (first ? " " : ","); first = false;
            try { o += std::to_string((long long)nm::apply_at(v, idx)); } catch (std::exception&) { o += "X"; }
        });
        return o;
    }
}
template <size_t N> inline std::array<size_t, N> arr_n(const std::vector<size_t>& v) { std::array<size_t, N> a{}; for (size_t i = 0; i < N && i < v.size(); i++) a[i] = v[i]; return a; }

// ---- typed parts
inline int fld(const Arg& x, int k) { return std::stoi(split(x.raw.substr(2), ',')[k]); }      // k-th field of "S:r,a,b,c" / "S:i,v"
// ---- source shapes (index level)
template <size_t N> inline auto sv_of(const std::vector<ll>& v) { nmtools_static_vector<size_t, N> a; a.resize(v.size()); for (size_t i = 0; i < v.size(); i++) a[i] = (size_t)v[i]; return a; }
// ---- source arrays (view level), all holding 0,1,2,... in row-major order
inline auto iota_dyn(const std::vector<ll>& sh) { std::vector<ll> data; size_t n = 1; for (auto e : sh) n *= e; for (size_t i = 0; i < n; i++) data.push_back(i); return make_array(sh, data); }
template <size_t DIM> inline auto iota_fs(const std::vector<ll>& sh) {
    using array_t = nm::array::ndarray_t<std::vector<ll>, std::array<size_t, DIM>>;
    std::vector<ll> data; size_t n = 1; for (auto e : sh) n *= e; for (size_t i = 0; i < n; i++) data.push_back(i);
    array_t a; a.resize(arr_n<DIM>(vec_of<size_t>(sh)));
    std::vector<size_t> idx(sh.size(), 0);
    for (size_t c = 0; c < n; c++) { a(arr_n<DIM>(idx)) = (ll)c; for (int d = (int)sh.size() - 1; d >= 0; d--) { if ((ll)++idx[d] < sh[d]) break; idx[d] = 0; } }
    return a;
}
template <typename raw_t> inline void iota_raw(raw_t& a, size_t n) { ll* q = (ll*)&a; for (size_t i = 0; i < n; i++) q[i] = (ll)i; }

// IK = 0: indices are std::vector<size_t>; 1: std::array<size_t,RDIM>
template <int IK, size_t RDIM> inline auto mk_idx(const std::vector<size_t>& v) { if constexpr (IK == 0) return v; else return arr_n<RDIM>(v); }

template <int IK, size_t RDIM, typename shape_t, typename... P>
inline std::string run_index(const Case& c, const shape_t& shp, const P&... p) {
    std::string enc = c.args[0].raw.substr(2);
    if (enc == "var") {
        auto pack = nmtools_tuple<P...>{p...};
        return report_index([&]{ return ix::apply_shape_slice(shp, pack); },
                            [&](const std::vector<size_t>& idx){ return ix::apply_slice(mk_idx<IK,RDIM>(idx), shp, pack); });
    } else {
        return report_index([&]{ return ix::shape_slice(shp, p...); },
                            [&](const std::vector<size_t>& idx){ return ix::slice(mk_idx<IK,RDIM>(idx), shp, p...); });
    }
}
template <typename array_t, typename... P>
inline std::string run_view(const Case& c, const array_t& a, const P&... p) {
    std::string enc = c.args[0].raw.substr(2);
    try {
        if (enc == "var") { auto pack = nmtools_tuple<P...>{p...}; return report_view(nm::view::apply_slice(a, pack)); }
        else return report_view(nm::view::slice(a, p...));
    } catch (std::out_of_range&) { return "trap out_of_range"; }   // thrown while the view computes its shape
}

// dyn encoding: one element type for the whole list
template <typename TUP>
struct dynk {
    using arr_t = std::array<int,3>;
    using rng_t = nmtools_either<arr_t, TUP>;
    using in_t  = nmtools_either<nm::ellipsis_t, rng_t>;
    using slice_t = nmtools_either<int, in_t>;
    static slice_t I(int v) { return slice_t{v}; }
    static slice_t E() { return slice_t{in_t{nm::Ellipsis}}; }
    static slice_t A(arr_t a) { return slice_t{in_t{rng_t{a}}}; }
    static slice_t T(TUP t) { return slice_t{in_t{rng_t{t}}}; }
};
template <typename slice_t>
inline std::string run_dyn(const Case& c, const std::vector<slice_t>& pack) {
    auto shape = vec_of<size_t>(c.args[2].list);
    if (c.op == "mx") {
        return report_index([&]{ return ix::apply_shape_slice(shape, pack); },
                            [&](const std::vector<size_t>& idx){ return ix::apply_slice(idx, shape, pack); });
    } else {
        std::vector<ll> sh(c.args[2].list), data; size_t n = 1; for (auto e : sh) n *= e; for (size_t i = 0; i < n; i++) data.push_back(i);
        auto a = make_array(sh, data);
        return report_view(nm::view::apply_slice(a, pack));
    }
}

using combo_fn = std::string (*)(const Case&);
} // namespace c05
