// c19.cpp — implementation side of the C19 correspondence: the STL-free containers over operation histories.
// Every allocation of the utl containers goes through nmtools_malloc / nmtools_free (utl/vector.hpp); they are
// redirected here to a counting allocator that also detects frees of blocks that are not live.
// Case line:  <kind> <op> <op> ...        two objects A and B (both default-constructed first)
//   sequence kinds  vec (utl::vector<int>)  svec (utl::static_vector<int,4>)  small (small_vector<int,4> over utl types)
//                   smalls (small_vector<int,4> in its default configuration: std::variant<utl::static_vector, std::vector>)
//                   arr (utl::array<int,4>: only w / k / a / b / s / f)
//     d        A = fresh default-constructed object        c<n>     A = fresh object from the sized constructor
//     p<v>     A.push_back(v)        r<n>  A.resize(n)     w<i>.<v> if (i < A.size()) A[i] = v
//     k        B = fresh copy-constructed from A           a  B = A (assignment)     b  A = B     s  A = A
//     f        swap the roles of A and B (pointer swap)
//   may (utl::maybe<int>)   mayt (utl::maybe<Tr>, Tr a counting non-trivial type)
//     d / n  A = empty      v<x>  A = x (assignment)      c<x>  A = fresh object constructed from x     k a b s f
//   eit (utl::either<int,long>)  eitt (utl::either<Tr,long>)
//     d   A = fresh default     l<x> A = (left)x     q<x> A = (right)x     k a b s f
// Result: "A <contents> B <contents> | std A <contents> B <contents> | heap a=<allocs> f=<frees> bad=<n> [obj ctor= dtor= asg= asgraw= live= baddestroy=]"
// the std part is the same history on std::vector / bounded std::vector / std::optional / std::variant in this process.
#include <cstdlib>
#include <cstring>
#include <set>
static long g_allocs = 0, g_frees = 0, g_bad = 0;
static std::set<void*>& g_blocks() { static std::set<void*> s; return s; }
static void* vd_malloc(size_t n) { void* p = ::malloc(n); g_allocs++; if (p) g_blocks().insert(p); return p; }
static void vd_free(void* p) {
    auto& b = g_blocks(); auto it = b.find(p);
    if (it == b.end()) { g_bad++; return; }     // double free / free of a foreign pointer: recorded, not executed
    b.erase(it); g_frees++; ::free(p);
}
#define nmtools_malloc vd_malloc
#define nmtools_free vd_free
#include "nmtools/utl/vector.hpp"
#include "nmtools/utl/static_vector.hpp"
#include "nmtools/utl/array.hpp"
#include "nmtools/utl/maybe.hpp"
#include "nmtools/utl/either.hpp"
#include "nmtools/utility/small_vector.hpp"
#include "common.hpp"
#include <memory>
#include <optional>
#include <variant>
#include <vector>

using namespace vd;
namespace utl = nmtools::utl;
static const size_t CAP = 4;

// std reference of a capacity-bounded vector: operations beyond the capacity are refused, contents unchanged
struct bounded {
    std::vector<int> v; bool valid = true;
    bounded() {}
    explicit bounded(size_t n) { if (n <= CAP) v.assign(n, 0); }   // a refused sized construction leaves the fresh, empty object
    void push_back(int x) { if (v.size() + 1 <= CAP) v.push_back(x); }
    void resize(size_t n) { if (n <= CAP) v.resize(n); }
    size_t size() const { return v.size(); }
    int& operator[](size_t i) { return v[i]; }
};
struct stdarr { int v[4] = {0, 0, 0, 0}; size_t size() const { return 4; } int& operator[](size_t i) { return v[i]; } };
struct utlarr { utl::array<int, 4> v = {}; size_t size() const { return 4; } int& operator[](size_t i) { return v[i]; } };

static int num(const std::string& s, size_t from) { return std::atoi(s.c_str() + from); }

template <typename V> static std::string show_seq(V& v, size_t limit) {
    size_t n = (size_t)v.size();
    std::string s = "n=" + std::to_string(n) + " [";
    if (n > limit) return s + "over-capacity]";
    for (size_t i = 0; i < n; i++) { if (i) s += ","; s += std::to_string((ll)v[i]); }
    return s + "]";
}

template <typename V, typename S, bool GROW>
static std::string run_seq(const Case& c, size_t limit) {
    std::string out;
    {
        std::unique_ptr<V> A(new V()), B(new V()); std::unique_ptr<S> SA(new S()), SB(new S());
        for (auto& a : c.args) {
            const std::string& t = a.raw; char o = t[0];
            if (o == 'd') { A.reset(new V()); SA.reset(new S()); }
            else if (o == 'k') { B.reset(new V(*A)); SB.reset(new S(*SA)); }
            else if (o == 'a') { *B = *A; *SB = *SA; }
            else if (o == 'b') { *A = *B; *SA = *SB; }
            else if (o == 's') { V& r = *A; *A = r; S& q = *SA; *SA = q; }
            else if (o == 'f') { std::swap(A, B); std::swap(SA, SB); }
            else if (o == 'w') { size_t dot = t.find('.'); size_t i = num(t, 1); int v = num(t, dot + 1);
                if (i < (size_t)A->size() && i < limit) (*A)[i] = v; if (i < SA->size()) (*SA)[i] = v; }
            else if constexpr (GROW) {
                if (o == 'c') { size_t n = num(t, 1); A.reset(new V(n)); std::unique_ptr<S> ns(new S(n));
                    if constexpr (std::is_same_v<S, bounded>) { if (ns->valid) SA = std::move(ns); } else SA = std::move(ns); }
                else if (o == 'p') { A->push_back(num(t, 1)); SA->push_back(num(t, 1)); }
                else if (o == 'r') { A->resize(num(t, 1)); SA->resize(num(t, 1)); }
            }
        }
        out = "A " + show_seq(*A, limit) + " B " + show_seq(*B, limit) + " | std A " + show_seq(*SA, 1u << 30) + " B " + show_seq(*SB, 1u << 30);
    }
    return out;
}

// counting non-trivial element type.  Every construction / assignment / destruction of a payload object is counted;
// an assignment whose target was never constructed (or already destroyed) is counted as "asgraw", a destructor call on
// such storage as "baddestroy".  Whether storage holds a constructed object is read off a magic word, so the containers
// under test live in buffers that are filled with 0xAB before every construction ("dirty storage": what a reused heap
// block or stack slot looks like) — the counts are then a deterministic function of the history.
struct Tr {
    static long ctor, dtor, asg, asgraw, baddestroy;
    static const int MAGIC = 0x5eed1234;
    int v = 0; int magic = MAGIC;
    Tr() { ctor++; } Tr(int x) : v(x) { ctor++; } Tr(const Tr& o) : v(o.v) { ctor++; }
    Tr& operator=(const Tr& o) { asg++; if (magic != MAGIC) asgraw++; v = o.v; return *this; }
    ~Tr() { if (magic != MAGIC) baddestroy++; else dtor++; magic = 0; }
    static void reset() { ctor = dtor = asg = asgraw = baddestroy = 0; }
};
long Tr::ctor = 0, Tr::dtor = 0, Tr::asg = 0, Tr::asgraw = 0, Tr::baddestroy = 0;
static int val_of(int x) { return x; } static int val_of(long x) { return (int)x; } static int val_of(const Tr& t) { return t.v; }

// an object of type V living in dirty storage
template <typename V> struct Dirty {
    alignas(V) unsigned char buf[sizeof(V)]; V* p = nullptr;
    template <typename... A> void make(const A&... a) {
        destroy();
        volatile unsigned char* q = buf; for (size_t i = 0; i < sizeof(V); i++) q[i] = 0xAB;   // not elidable (lifetime-dse)
        asm volatile("" : : "r"(buf) : "memory");
        p = new (buf) V(a...);
    }
    void destroy() { if (p) { p->~V(); p = nullptr; } }
    V& operator*() { return *p; }
    ~Dirty() { destroy(); }
};

template <typename T> static std::string show_opt(const utl::maybe<T>& m) { return m.has_value() ? "some " + std::to_string(val_of(*m)) : "none"; }
template <typename T> static std::string show_opt(const std::optional<T>& m) { return m.has_value() ? "some " + std::to_string(val_of(*m)) : "none"; }

template <typename T>
static std::string run_maybe(const Case& c) {
    using V = utl::maybe<T>; using S = std::optional<int>;
    std::string out;
    {
        Dirty<V> SA_, SB_; Dirty<V>* A = &SA_; Dirty<V>* B = &SB_; A->make(); B->make();
        std::unique_ptr<S> SA(new S()), SB(new S());
        for (auto& a : c.args) {
            const std::string& t = a.raw; char o = t[0];
            if (o == 'd') { A->make(); SA.reset(new S()); }
            else if (o == 'n') { **A = utl::nothing; *SA = std::nullopt; }
            else if (o == 'v') { **A = T(num(t, 1)); *SA = num(t, 1); }
            else if (o == 'c') { A->make(T(num(t, 1))); SA.reset(new S(num(t, 1))); }
            else if (o == 'k') { const V& src = **A; B->make(src); SB.reset(new S(*SA)); }     // copy-CONSTRUCTION into dirty storage
            else if (o == 'a') { **B = **A; *SB = *SA; }
            else if (o == 'b') { **A = **B; *SA = *SB; }
            else if (o == 's') { V& r = **A; **A = r; }
            else if (o == 'f') { std::swap(A, B); std::swap(SA, SB); }
        }
        out = "A " + show_opt(**A) + " B " + show_opt(**B) + " | std A " + show_opt(*SA) + " B " + show_opt(*SB);
    }
    return out;
}

template <typename E> static std::string show_var(const E& e) {
    using L = typename E::left_type; using R = typename E::right_type;
    if (auto l = e.template get_if<L>()) return "L " + std::to_string(val_of(*l));
    return "R " + std::to_string(val_of(*e.template get_if<R>()));
}
static std::string show_var(const std::variant<int, long>& e) {
    if (auto l = std::get_if<0>(&e)) return "L " + std::to_string(*l);
    return "R " + std::to_string(*std::get_if<1>(&e));
}
template <typename T>
static std::string run_either(const Case& c) {
    using V = utl::either<T, long>; using S = std::variant<int, long>;
    std::string out;
    {
        Dirty<V> SA_, SB_; Dirty<V>* A = &SA_; Dirty<V>* B = &SB_; A->make(); B->make();
        std::unique_ptr<S> SA(new S()), SB(new S());
        for (auto& a : c.args) {
            const std::string& t = a.raw; char o = t[0];
            if (o == 'd') { A->make(); SA.reset(new S()); }
            else if (o == 'l') { **A = T(num(t, 1)); *SA = (int)num(t, 1); }
            else if (o == 'q') { **A = (long)num(t, 1); *SA = (long)num(t, 1); }
            else if (o == 'k') { const V& src = **A; B->make(src); SB.reset(new S(*SA)); }     // copy-CONSTRUCTION into dirty storage
            else if (o == 'a') { **B = **A; *SB = *SA; }
            else if (o == 'b') { **A = **B; *SA = *SB; }
            else if (o == 's') { V& r = **A; **A = r; }
            else if (o == 'f') { std::swap(A, B); std::swap(SA, SB); }
        }
        out = "A " + show_var(**A) + " B " + show_var(**B) + " | std A " + show_var(*SA) + " B " + show_var(*SB);
    }
    return out;
}

static std::string handle(const Case& c) {
    g_allocs = g_frees = g_bad = 0; Tr::reset();
    std::string r; bool obj = false;
    if (c.op == "vec") r = run_seq<utl::vector<int>, std::vector<int>, true>(c, 1u << 30);
    else if (c.op == "svec") r = run_seq<utl::static_vector<int, CAP>, bounded, true>(c, CAP);
    else if (c.op == "small") r = run_seq<nmtools::small_vector<int, CAP, utl::either, utl::static_vector, utl::vector>, std::vector<int>, true>(c, 1u << 30);
    else if (c.op == "smalls") r = run_seq<nmtools::small_vector<int, CAP>, std::vector<int>, true>(c, 1u << 30);
    else if (c.op == "arr") r = run_seq<utlarr, stdarr, false>(c, 4);
    else if (c.op == "may") r = run_maybe<int>(c);
    else if (c.op == "mayt") { r = run_maybe<Tr>(c); obj = true; }
    else if (c.op == "eit") r = run_either<int>(c);
    else if (c.op == "eitt") { r = run_either<Tr>(c); obj = true; }
    else return "unsupported";
    // every object of the history has been destroyed here
    r += " | heap a=" + std::to_string(g_allocs) + " f=" + std::to_string(g_frees) + " bad=" + std::to_string(g_bad);
    if (obj) r += " obj ctor=" + std::to_string(Tr::ctor) + " dtor=" + std::to_string(Tr::dtor) + " asg=" + std::to_string(Tr::asg) +
                  " asgraw=" + std::to_string(Tr::asgraw) + " live=" + std::to_string(Tr::ctor - Tr::dtor) + " baddestroy=" + std::to_string(Tr::baddestroy);
    return r;
}

int main() { return vd::run_main(handle); }
