// c17_conv1d.cpp — C17 conv1d driver (body shared with conv2d in c17_conv.inc)
#define C17_ND 1
// rev 2 (bump when c17_conv.inc / c17_show.hpp change: the driver cache hashes this file only)
#include "c17_conv.inc"
