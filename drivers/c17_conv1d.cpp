// c17_conv1d.cpp — C17 conv1d driver (body shared with conv2d in c17_conv.inc)
#define C17_ND 1
#include "c17_conv.inc"
