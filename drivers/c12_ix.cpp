// c12_ix.cpp — C12 correspondence (a): the SIMD index enumerators of
// include/nmtools/array/eval/simd/index/ufunc.hpp, context independent (no intrinsics).
//   ix_b2d  I:N L:out L:lhs L:rhs      raw (tag:offset) triples of binary_2d_simd_enumerator
//   ix_b2dc I:N L:out L:lhs L:rhs      the same entries decoded the way eval_binary reads them:
//                                      (output cell : lhs cell : rhs cell), sorted by output cell
//   ix_red  I:N S:H|V L:inp I:axis     raw entries of reduction_2d_enumerator (out shape = keepdims form)
//   ix_outer I:N L:lhs L:rhs           raw entries of outer_simd_enumerator
#include "nmtools/array/eval/simd/index.hpp"
#include "show.hpp"
#include <algorithm>

namespace ix = nmtools::index;
using namespace vd;

static std::string ent(int tag, size_t off) { return std::to_string(tag) + ":" + std::to_string((ll)off); }

template <size_t N>
static std::string b2d(const Case& c, bool cells) {
    auto out = vec_of<size_t>(c.args[1].list), lhs = vec_of<size_t>(c.args[2].list), rhs = vec_of<size_t>(c.args[3].list);
    auto en = ix::binary_2d_simd_enumerator(meta::as_type_v<N>, out, lhs, rhs);
    auto shp = ix::binary_2d_simd_shape(meta::as_type_v<N>, out, lhs, rhs);
    std::string s = "ok " + std::to_string((ll)nm::at(shp, 0)) + "," + std::to_string((ll)nm::at(shp, 1)) + " ;";
    size_t n = en.size();
    if (n > 100000) return "trap huge";
    std::vector<std::array<ll, 3>> cs;
    for (size_t i = 0; i < n; i++) {
        auto e = en[i];
        auto o = nm::get<0>(e); auto l = nm::get<1>(e); auto r = nm::get<2>(e);
        int ot = (int)nm::get<0>(o), lt = (int)nm::get<0>(l), rt = (int)nm::get<0>(r);
        size_t oo = nm::get<1>(o), lo = nm::get<1>(l), ro = nm::get<1>(r);
        if (!cells) { s += (i ? "," : " ") + ent(ot, oo) + "/" + ent(lt, lo) + "/" + ent(rt, ro); continue; }
        // eval_binary: PACKED result -> N lanes, operand PACKED -> consecutive cells, else one cell broadcast
        if (ot == (int)ix::SIMD::PACKED) {
            for (size_t t = 0; t < N; t++)
                cs.push_back({(ll)(oo + t), (ll)(lt == (int)ix::SIMD::PACKED ? lo + t : lo), (ll)(rt == (int)ix::SIMD::PACKED ? ro + t : ro)});
        } else cs.push_back({(ll)oo, (ll)lo, (ll)ro});
    }
    if (cells) {
        std::stable_sort(cs.begin(), cs.end(), [](const auto& a, const auto& b){ return a[0] < b[0]; });
        for (size_t i = 0; i < cs.size(); i++)
            s += (i ? "," : " ") + std::to_string(cs[i][0]) + ":" + std::to_string(cs[i][1]) + ":" + std::to_string(cs[i][2]);
    }
    return s;
}

template <size_t N, ix::ReductionKind K>
static std::string red(const Case& c) {
    auto inp = vec_of<size_t>(c.args[2].list);
    int axis = (int)c.args[3].val;
    auto out = inp; out[axis] = 1;
    auto en = ix::reduction_2d_enumerator(meta::as_type_v<K>, meta::as_type_v<N>, out, inp, axis);
    auto shp = ix::reduction_2d_shape(meta::as_type_v<K>, meta::as_type_v<N>, inp, out, axis);
    std::string s = "ok " + std::to_string((ll)nm::at(shp, 0)) + "," + std::to_string((ll)nm::at(shp, 1)) + " ;";
    size_t n = en.size();
    if (n > 100000) return "trap huge";
    for (size_t i = 0; i < n; i++) {
        auto e = en[i];
        auto o = nm::get<0>(e); auto in = nm::get<1>(e);
        s += (i ? "," : " ") + ent((int)nm::get<0>(o), nm::get<1>(o)) + "/" + ent((int)nm::get<0>(in), nm::get<1>(in));
    }
    return s;
}

template <size_t N>
static std::string outer(const Case& c) {
    auto lhs = vec_of<size_t>(c.args[1].list), rhs = vec_of<size_t>(c.args[2].list);
    auto out = lhs; out.insert(out.end(), rhs.begin(), rhs.end());
    auto en = ix::outer_simd_enumerator(meta::as_type_v<N>, out, lhs, rhs);
    auto shp = ix::outer_simd_shape(meta::as_type_v<N>, out, lhs, rhs);
    std::string s = "ok " + show_index(shp) + " ;";
    size_t n = en.size();
    if (n > 100000) return "trap huge";
    for (size_t i = 0; i < n; i++) {
        auto e = en[i];
        auto o = nm::get<0>(e); auto l = nm::get<1>(e); auto r = nm::get<2>(e);
        s += (i ? "," : " ") + ent((int)nm::get<0>(o), nm::get<1>(o)) + "/" + ent((int)nm::get<0>(l), nm::get<1>(l)) + "/" + ent((int)nm::get<0>(r), nm::get<1>(r));
    }
    return s;
}

template <size_t N>
static std::string handle_n(const Case& c) {
    if (c.op == "ix_b2d") return b2d<N>(c, false);
    if (c.op == "ix_b2dc") return b2d<N>(c, true);
    if (c.op == "ix_red") {
        if (c.args[1].raw == "S:H") return red<N, ix::ReductionKind::HORIZONTAL>(c);
        return red<N, ix::ReductionKind::VERTICAL>(c);
    }
    if (c.op == "ix_outer") return outer<N>(c);
    return "unsupported";
}

static std::string handle(const Case& c) {
    if (c.op.rfind("ix_", 0) != 0) return "unsupported";
    ll n = c.args[0].val;
    switch (n) {
        case 2: return handle_n<2>(c);
        case 4: return handle_n<4>(c);
        case 8: return handle_n<8>(c);
        case 16: return handle_n<16>(c);
        default: return "unsupported";
    }
}

int main() { return vd::run_main(handle); }
