// c17_nnp.cpp — scalar parameters (eps, ord, keepdims, axis, wrappers) of the C17 float routines, DOUBLE operands
#define C17_FT double
#define C17_SUFFIX ""
#define C17_PREFIX ""
#define C17_PREFIX_R ""
#include "c17_nnp.inc"
