// c07.cpp — implementation side of the C07 correspondence, part (a): which operand element feeds which
// output element.  int64 data, exact comparison.
//   ufunc1 S:<negative|square|lin1> S:<kind> <A>
//   ufunc2 S:<add|subtract|multiply|lin|less> S:<kindA> S:<kindB> <A> <B>     operand: A:shape:data | I:v (scalar)
//   ufunc3 S:where <A> <B> <C>
//   outer  S:<add|subtract|lin> <A> <B>
// kind: arr (the array itself) | view (an element-wise view of it: negative(negative(a))) | fix (fixed-rank array)
// lin  = view::ufunc with a custom op 3*x - y  (non-commutative, non-associative)
#include "nmtools/array/view/ufuncs/add.hpp"
#include "nmtools/array/view/ufuncs/subtract.hpp"
#include "nmtools/array/view/ufuncs/multiply.hpp"
#include "nmtools/array/view/ufuncs/negative.hpp"
#include "nmtools/array/view/ufuncs/square.hpp"
#include "nmtools/array/view/ufuncs/less.hpp"
#include "nmtools/array/view/where.hpp"
#include "show.hpp"

namespace view = nmtools::view;
using namespace vd;

struct lin1_t { template <typename T> constexpr auto operator()(const T& t) const { return 7 * t + 1; } };
struct lin2_t { template <typename T, typename U> constexpr auto operator()(const T& t, const U& u) const { return 3 * t - u; } };

template <size_t N> using fix_t = nm::array::ndarray_t<std::vector<ll>, std::array<size_t, N>>;

// call f with the operand described by (kind, arg)
template <typename F>
static std::string with_operand(const std::string& kind, const Arg& A, F&& f) {
    if (A.kind == 'I') return f((ll)A.val);
    if (kind == "arr") return f(make_array(A));
    if (kind == "view") { auto a = make_array(A); return f(view::negative(view::negative(a))); }
#ifndef VD_LIGHT
    if (kind == "fix") {
        switch (A.shape.size()) {
            case 1: return f(make_array<fix_t<1>>(A)); case 2: return f(make_array<fix_t<2>>(A));
            case 3: return f(make_array<fix_t<3>>(A));
        }
    }
#endif
    return "unsupported";
}

static std::string handle(const Case& c) {
    const std::string op = c.args[0].raw.substr(2);
    if (c.op == "ufunc1") {
        return with_operand(c.args[1].raw.substr(2), c.args[2], [&](const auto& a) -> std::string {
            if (op == "negative") return show(view::negative(a));
            if (op == "square") return show(view::square(a));
            if (op == "lin1") return show(view::unary_ufunc(lin1_t{}, a));
            return "unsupported";
        });
    }
    if (c.op == "ufunc2") {
        const std::string ka = c.args[1].raw.substr(2), kb = c.args[2].raw.substr(2);
        // the second operand is an array or a scalar; view / fixed-rank kinds only on the first (instantiation count)
        return with_operand(ka, c.args[3], [&](const auto& a) -> std::string {
            auto go = [&](const auto& b) -> std::string {
                if (op == "add") return show(view::add(a, b));
                if (op == "subtract") return show(view::subtract(a, b));
                if (op == "multiply") return show(view::multiply(a, b));
                if (op == "less") return show(view::less(a, b));
                if (op == "lin") return show(view::broadcast_binary_ufunc(lin2_t{}, a, b));
                return "unsupported";
            };
            if (c.args[4].kind == 'I') return go((ll)c.args[4].val);
            if (kb == "arr") return go(make_array(c.args[4]));
            if (kb == "view") { auto b = make_array(c.args[4]); return go(view::negative(view::negative(b))); }
            return "unsupported";
        });
    }
    if (c.op == "ufunc3") {
        // view::where(condition, x, y); x / y arrays or scalars.  (view::clip and the n-ary view::ufunc with
        // three operands do not instantiate in the pinned tree for any operand kind tried — dynamic, fixed
        // nested std::array, scalars: static_assert in ufunc.hpp:102 / broadcast_arrays.hpp:23; the suite's
        // clip test is commented out of tests/array/CMakeLists.txt as well — so they have no driver here.)
        if (op != "where") return "unsupported";
        const Arg& B = c.args[2]; const Arg& D = c.args[3];
        auto a = make_array(c.args[1]);
        if (B.kind == 'A' && D.kind == 'A') return show(view::where(a, make_array(B), make_array(D)));
        if (B.kind == 'I' && D.kind == 'A') return show(view::where(a, (ll)B.val, make_array(D)));
        if (B.kind == 'A' && D.kind == 'I') return show(view::where(a, make_array(B), (ll)D.val));
        if (B.kind == 'I' && D.kind == 'I') return show(view::where(a, (ll)B.val, (ll)D.val));
        return "unsupported";
    }
    if (c.op == "outer") {
        auto a = make_array(c.args[1]); auto b = make_array(c.args[2]);
        if (op == "add") return show(view::outer_add(a, b));
        if (op == "subtract") return show(view::outer_subtract(a, b));
        if (op == "lin") return show(view::outer(lin2_t{}, a, b));
        return "unsupported";
    }
    return "unsupported";
}

int main() { return vd::run_main(handle); }
