// c07.cpp — implementation side of the C07 correspondence, part (a): which operand element feeds which
// output element.  int64 data, exact comparison.
//   ufunc1 S:<negative|square|lin1> S:<kind> <A>
//   ufunc2 S:<add|subtract|multiply|lin|less> S:<kindA> S:<kindB> <A> <B>     operand: A:shape:data | I:v (scalar)
//   ufunc3 S:where <A> <B> <C>
//   outer  S:<add|subtract|lin> <A> <B>
//   defer  S:<u1|binl|binr|bins|outl|outr|outs|wh> S:<dyn|fs> <A1> <B1> I:<c1> <A2> <B2> I:<c2>   (deferred evaluation, below)
// kind: arr (the array itself) | view (an element-wise view of it: negative(negative(a))) | fix (fixed-rank array)
// lin  = view::ufunc with a custom op 3*x - y  (non-commutative, non-associative)
#include "nmtools/array/view/ufuncs/add.hpp"
#include "nmtools/array/view/ufuncs/subtract.hpp"
#include "nmtools/array/view/ufuncs/multiply.hpp"
#include "nmtools/array/view/ufuncs/negative.hpp"
#include "nmtools/array/view/ufuncs/square.hpp"
#include "nmtools/array/view/ufuncs/less.hpp"
#include "nmtools/array/view/where.hpp"
#include "show.hpp"

namespace view = nmtools::view;
using namespace vd;

struct lin1_t { template <typename T> constexpr auto operator()(const T& t) const { return 7 * t + 1; } };
struct lin2_t { template <typename T, typename U> constexpr auto operator()(const T& t, const U& u) const { return 3 * t - u; } };

template <size_t N> using fix_t = nm::array::ndarray_t<std::vector<ll>, std::array<size_t, N>>;

// call f with the operand described by (kind, arg)
template <typename F>
static std::string with_operand(const std::string& kind, const Arg& A, F&& f) {
    if (A.kind == 'I') return f((ll)A.val);
    if (kind == "arr") return f(make_array(A));
    if (kind == "view") { auto a = make_array(A); return f(view::negative(view::negative(a))); }
#ifndef VD_LIGHT
    if (kind == "fix") {
        switch (A.shape.size()) {
            case 1: return f(make_array<fix_t<1>>(A)); case 2: return f(make_array<fix_t<2>>(A));
            case 3: return f(make_array<fix_t<3>>(A));
        }
    }
#endif
    return "unsupported";
}

// ---- deferred evaluation: a view is a VALUE over its leaf arrays.  Each helper builds a composed view from TEMPORARY
// operand views / scalars in its own frame and returns it by value; the caller invokes the helper twice with different
// data before reading either result, so a view that kept a pointer / reference to a temporary operand view reads a
// dead (and meanwhile re-used) stack frame.  k is a scalar that exists only inside the helper.
#define VD_NOINLINE __attribute__((noinline))
template <typename A> VD_NOINLINE static auto d_u1(const A& a) { auto t = view::negative(a); return view::unary_ufunc(lin1_t{}, t); }
template <typename A, typename B> VD_NOINLINE static auto d_binl(const A& a, const B& b) { auto t = view::negative(a); return view::broadcast_binary_ufunc(lin2_t{}, t, b); }
template <typename A, typename B> VD_NOINLINE static auto d_binr(const A& a, const B& b) { return view::broadcast_binary_ufunc(lin2_t{}, a, view::negative(b)); }
template <typename A, typename B> VD_NOINLINE static auto d_bins(const A& a, const B& b, ll c) {
    ll k = c + 1; auto x = view::add(a, k); auto y = view::multiply(b, k + 1);
    return view::broadcast_binary_ufunc(lin2_t{}, x, y);
}
template <typename A, typename B> VD_NOINLINE static auto d_outl(const A& a, const B& b) { auto t = view::negative(a); return view::outer(lin2_t{}, t, b); }
template <typename A, typename B> VD_NOINLINE static auto d_outr(const A& a, const B& b) { return view::outer(lin2_t{}, a, view::negative(b)); }
template <typename A, typename B> VD_NOINLINE static auto d_outs(const A& a, const B& b, ll c) {
    ll k = c + 1; auto x = view::unary_ufunc(lin1_t{}, a); auto y = view::negative(view::negative(b));
    return view::outer_subtract(view::negative(x), view::square(y));
    (void)k;
}
template <typename A, typename B> VD_NOINLINE static auto d_wh(const A& a, const B& b, ll c) {
    ll k = c + 1; auto cond = view::negative(a); auto x = view::negative(b);
    return view::where(cond, x, k);
}

// printer for the deferred stream: like vd::show, but a result of compile-time rank is indexed with a std::array index
// (views over nested std::array cannot be indexed with a run-time-length index)
template <typename V>
static std::string showd(const V& v) {
    if constexpr (meta::is_maybe_v<V>) { if (!nm::has_value(v)) return "nothing"; return showd(*v); }
    else {
        const auto shp = nm::unwrap(nm::shape(v));
        using shp_t = std::decay_t<decltype(shp)>;
        constexpr auto R = meta::len_v<shp_t>;
        if constexpr (R > 0) {
            std::array<size_t, R> ext{}, idx{};
            if constexpr (meta::is_tuple_v<shp_t>) meta::template_for<R>([&](auto i) { ext[i] = (size_t)nm::at(shp, i); });
            else for (size_t i = 0; i < R; i++) ext[i] = (size_t)nm::at(shp, i);
            size_t total = 1; for (auto e : ext) total *= e;
            std::string o = "ok " + joinc(ext) + " ;";
            for (size_t c = 0; c < total; c++) {
                o += (c ? "," : " ") + num_str(nm::apply_at(v, idx));
                for (int d = (int)R - 1; d >= 0; d--) { if (++idx[d] < ext[d]) break; idx[d] = 0; }
            }
            return o;
        } else return show(v);
    }
}

template <typename A, typename B>
static std::string defer_case(const std::string& form, const A& a1, const B& b1, ll c1, const A& a2, const B& b2, ll c2) {
    auto both = [](const auto& e1, const auto& e2) { return showd(e1) + " | " + showd(e2); };
    if (form == "u1") { auto e1 = d_u1(a1); auto e2 = d_u1(a2); return both(e1, e2); }
    if (form == "binl") { auto e1 = d_binl(a1, b1); auto e2 = d_binl(a2, b2); return both(e1, e2); }
    if (form == "binr") { auto e1 = d_binr(a1, b1); auto e2 = d_binr(a2, b2); return both(e1, e2); }
    if (form == "bins") { auto e1 = d_bins(a1, b1, c1); auto e2 = d_bins(a2, b2, c2); return both(e1, e2); }
    if (form == "outl") { auto e1 = d_outl(a1, b1); auto e2 = d_outl(a2, b2); return both(e1, e2); }
    if (form == "outr") { auto e1 = d_outr(a1, b1); auto e2 = d_outr(a2, b2); return both(e1, e2); }
    if (form == "outs") { auto e1 = d_outs(a1, b1, c1); auto e2 = d_outs(a2, b2, c2); return both(e1, e2); }
    if (form == "wh") { auto e1 = d_wh(a1, b1, c1); auto e2 = d_wh(a2, b2, c2); return both(e1, e2); }
    return "unsupported";
}

static std::string handle(const Case& c) {
    if (c.op == "defer") {
        // defer S:<form> S:<dyn|fs> <A1> <B1> I:<c1> <A2> <B2> I:<c2>     fs: A is (2,3), B is (3) as nested std::array
        const std::string form = c.args[0].raw.substr(2), kind = c.args[1].raw.substr(2);
        ll c1 = c.args[4].val, c2 = c.args[7].val;
        if (kind == "dyn") return defer_case(form, make_array(c.args[2]), make_array(c.args[3]), c1, make_array(c.args[5]), make_array(c.args[6]), c2);
        if (kind == "fs") {
            using A23 = std::array<std::array<ll,3>,2>; using B3 = std::array<ll,3>;
            auto mkA = [](const Arg& x) { A23 a{}; for (int i = 0; i < 6; i++) a[i / 3][i % 3] = x.list[i]; return a; };
            auto mkB = [](const Arg& x) { B3 b{}; for (int i = 0; i < 3; i++) b[i] = x.list[i]; return b; };
            if (c.args[2].list.size() != 6 || c.args[3].list.size() != 3) return "unsupported";
            return defer_case(form, mkA(c.args[2]), mkB(c.args[3]), c1, mkA(c.args[5]), mkB(c.args[6]), c2);
        }
        return "unsupported";
    }
    const std::string op = c.args[0].raw.substr(2);
    if (c.op == "ufunc1") {
        return with_operand(c.args[1].raw.substr(2), c.args[2], [&](const auto& a) -> std::string {
            if (op == "negative") return show(view::negative(a));
            if (op == "square") return show(view::square(a));
            if (op == "lin1") return show(view::unary_ufunc(lin1_t{}, a));
            return "unsupported";
        });
    }
    if (c.op == "ufunc2") {
        const std::string ka = c.args[1].raw.substr(2), kb = c.args[2].raw.substr(2);
        // the second operand is an array or a scalar; view / fixed-rank kinds only on the first (instantiation count)
        return with_operand(ka, c.args[3], [&](const auto& a) -> std::string {
            auto go = [&](const auto& b) -> std::string {
                if (op == "add") return show(view::add(a, b));
                if (op == "subtract") return show(view::subtract(a, b));
                if (op == "multiply") return show(view::multiply(a, b));
                if (op == "less") return show(view::less(a, b));
                if (op == "lin") return show(view::broadcast_binary_ufunc(lin2_t{}, a, b));
                return "unsupported";
            };
            if (c.args[4].kind == 'I') return go((ll)c.args[4].val);
            if (kb == "arr") return go(make_array(c.args[4]));
            if (kb == "view") { auto b = make_array(c.args[4]); return go(view::negative(view::negative(b))); }
            return "unsupported";
        });
    }
    if (c.op == "ufunc3") {
        // view::where(condition, x, y); x / y arrays or scalars.  (view::clip and the n-ary view::ufunc with
        // three operands do not instantiate in the pinned tree for any operand kind tried — dynamic, fixed
        // nested std::array, scalars: static_assert in ufunc.hpp:102 / broadcast_arrays.hpp:23; the suite's
        // clip test is commented out of tests/array/CMakeLists.txt as well — so they have no driver here.)
        if (op != "where") return "unsupported";
        const Arg& B = c.args[2]; const Arg& D = c.args[3];
        auto a = make_array(c.args[1]);
        if (B.kind == 'A' && D.kind == 'A') return show(view::where(a, make_array(B), make_array(D)));
        if (B.kind == 'I' && D.kind == 'A') return show(view::where(a, (ll)B.val, make_array(D)));
        if (B.kind == 'A' && D.kind == 'I') return show(view::where(a, make_array(B), (ll)D.val));
        if (B.kind == 'I' && D.kind == 'I') return show(view::where(a, (ll)B.val, (ll)D.val));
        return "unsupported";
    }
    if (c.op == "outer") {
        auto a = make_array(c.args[1]); auto b = make_array(c.args[2]);
        if (op == "add") return show(view::outer_add(a, b));
        if (op == "subtract") return show(view::outer_subtract(a, b));
        if (op == "lin") return show(view::outer(lin2_t{}, a, b));
        return "unsupported";
    }
    return "unsupported";
}

int main() { return vd::run_main(handle); }
