// c14f.cpp — C14, NAME-TO-NAME sweep over the public functor objects of include/nmtools/array/functional/:
// functor `x` called with its attributes and operands must equal the view call `view::x` (shape and every element).
// One row per `constexpr inline auto <name> = functor_t{...}` object (for each ufunc <op>: fn::<op>, fn::reduce_<op>,
// fn::accumulate_<op>, fn::outer_<op>; the activations; the non-ufunc functors).  The table was generated once by
// compiling every candidate row on its own against the unchanged tree; rows the library itself rejects are listed below.
// Two builds of this source (-DC14F_PART=1: ufunc families and activations, =2: the other functors).
//
// case line:  fnview S:<name> A:<a 3x4, quarters> A:<b 3x4, quarters>   ->  same <shape> | differs fn <..> | view <..>
//
// COMPILE-REJECTED on the unchanged tree (unsupported, not guessed):
//   clip         static assertion failed: please provide at least two arrays for broadcast_arrays
//   squeeze      invalid cast from type ‘std::optional<long unsigned int>’ to type ‘nmtools::size_t’ {aka ‘long unsigned int’}
//   arange       invalid ‘static_cast’ from type ‘std::vector<long unsigned int>’ to type ‘nmtools::view::arange_t<int, int, in
//   alias        static assertion failed: invalid identifier for view type
// not functors of their own (generic constructors, exercised through every row above): indexing, unary_ufunc, binary_ufunc,
// broadcast_binary_ufunc, reduce, accumulate, outer, apply_slice; combinators swap/dup_n/dig_n/bury_n: drivers/c14.cpp;
// conv1d_bias / conv2d_bias: need a bias operand of matching channel count, not in this table.
#ifndef C14F_PART
#define C14F_PART 1
#endif
#include "nmtools/array/functional.hpp"
#include "nmtools/array/functional/combinator.hpp"
#include "nmtools/array/functional/arange.hpp"
#include "nmtools/array/functional/atleast_1d.hpp"
#include "nmtools/array/functional/atleast_2d.hpp"
#include "nmtools/array/functional/atleast_nd.hpp"
#include "nmtools/array/functional/batch_norm.hpp"
#include "nmtools/array/functional/broadcast_to.hpp"
#include "nmtools/array/functional/combinator.hpp"
#include "nmtools/array/functional/compress.hpp"
#include "nmtools/array/functional/concatenate.hpp"
#include "nmtools/array/functional/conv1d.hpp"
#include "nmtools/array/functional/conv2d.hpp"
#include "nmtools/array/functional/cumprod.hpp"
#include "nmtools/array/functional/cumsum.hpp"
#include "nmtools/array/functional/expand.hpp"
#include "nmtools/array/functional/expand_dims.hpp"
#include "nmtools/array/functional/flatten.hpp"
#include "nmtools/array/functional/flip.hpp"
#include "nmtools/array/functional/full.hpp"
#include "nmtools/array/functional/hstack.hpp"
#include "nmtools/array/functional/indexing.hpp"
#include "nmtools/array/functional/matmul.hpp"
#include "nmtools/array/functional/mean.hpp"
#include "nmtools/array/functional/moveaxis.hpp"
#include "nmtools/array/functional/ones.hpp"
#include "nmtools/array/functional/pad.hpp"
#include "nmtools/array/functional/pooling.hpp"
#include "nmtools/array/functional/prod.hpp"
#include "nmtools/array/functional/repeat.hpp"
#include "nmtools/array/functional/reshape.hpp"
#include "nmtools/array/functional/resize.hpp"
#include "nmtools/array/functional/roll.hpp"
#include "nmtools/array/functional/slice.hpp"
#include "nmtools/array/functional/sliding_window.hpp"
#include "nmtools/array/functional/softmax.hpp"
#include "nmtools/array/functional/softmin.hpp"
#include "nmtools/array/functional/squeeze.hpp"
#include "nmtools/array/functional/stack.hpp"
#include "nmtools/array/functional/stddev.hpp"
#include "nmtools/array/functional/sum.hpp"
#include "nmtools/array/functional/take.hpp"
#include "nmtools/array/functional/tile.hpp"
#include "nmtools/array/functional/transpose.hpp"
#include "nmtools/array/functional/var.hpp"
#include "nmtools/array/functional/vstack.hpp"
#include "nmtools/array/functional/where.hpp"
#include "nmtools/array/functional/zeros.hpp"
#include "nmtools/array/functional/activations/celu.hpp"
#include "nmtools/array/functional/activations/elu.hpp"
#include "nmtools/array/functional/activations/hardshrink.hpp"
#include "nmtools/array/functional/activations/hardswish.hpp"
#include "nmtools/array/functional/activations/hardtanh.hpp"
#include "nmtools/array/functional/activations/leaky_relu.hpp"
#include "nmtools/array/functional/activations/log_sigmoid.hpp"
#include "nmtools/array/functional/activations/mish.hpp"
#include "nmtools/array/functional/activations/prelu.hpp"
#include "nmtools/array/functional/activations/relu.hpp"
#include "nmtools/array/functional/activations/relu6.hpp"
#include "nmtools/array/functional/activations/selu.hpp"
#include "nmtools/array/functional/activations/sigmoid.hpp"
#include "nmtools/array/functional/activations/silu.hpp"
#include "nmtools/array/functional/activations/softplus.hpp"
#include "nmtools/array/functional/activations/softshrink.hpp"
#include "nmtools/array/functional/activations/softsign.hpp"
#include "nmtools/array/functional/activations/tanhshrink.hpp"
#include "nmtools/array/functional/ufuncs/add.hpp"
#include "nmtools/array/functional/ufuncs/arccos.hpp"
#include "nmtools/array/functional/ufuncs/arccosh.hpp"
#include "nmtools/array/functional/ufuncs/arcsin.hpp"
#include "nmtools/array/functional/ufuncs/arcsinh.hpp"
#include "nmtools/array/functional/ufuncs/arctan.hpp"
#include "nmtools/array/functional/ufuncs/arctan2.hpp"
#include "nmtools/array/functional/ufuncs/arctanh.hpp"
#include "nmtools/array/functional/ufuncs/cbrt.hpp"
#include "nmtools/array/functional/ufuncs/ceil.hpp"
#include "nmtools/array/functional/ufuncs/clip.hpp"
#include "nmtools/array/functional/ufuncs/cos.hpp"
#include "nmtools/array/functional/ufuncs/cosh.hpp"
#include "nmtools/array/functional/ufuncs/divide.hpp"
#include "nmtools/array/functional/ufuncs/exp.hpp"
#include "nmtools/array/functional/ufuncs/exp2.hpp"
#include "nmtools/array/functional/ufuncs/expm1.hpp"
#include "nmtools/array/functional/ufuncs/fabs.hpp"
#include "nmtools/array/functional/ufuncs/floor.hpp"
#include "nmtools/array/functional/ufuncs/invert.hpp"
#include "nmtools/array/functional/ufuncs/isfinite.hpp"
#include "nmtools/array/functional/ufuncs/isinf.hpp"
#include "nmtools/array/functional/ufuncs/isnan.hpp"
#include "nmtools/array/functional/ufuncs/log.hpp"
#include "nmtools/array/functional/ufuncs/log10.hpp"
#include "nmtools/array/functional/ufuncs/log1p.hpp"
#include "nmtools/array/functional/ufuncs/log2.hpp"
#include "nmtools/array/functional/ufuncs/maximum.hpp"
#include "nmtools/array/functional/ufuncs/minimum.hpp"
#include "nmtools/array/functional/ufuncs/multiply.hpp"
#include "nmtools/array/functional/ufuncs/negative.hpp"
#include "nmtools/array/functional/ufuncs/positive.hpp"
#include "nmtools/array/functional/ufuncs/reciprocal.hpp"
#include "nmtools/array/functional/ufuncs/rint.hpp"
#include "nmtools/array/functional/ufuncs/signbit.hpp"
#include "nmtools/array/functional/ufuncs/sin.hpp"
#include "nmtools/array/functional/ufuncs/sinh.hpp"
#include "nmtools/array/functional/ufuncs/sqrt.hpp"
#include "nmtools/array/functional/ufuncs/square.hpp"
#include "nmtools/array/functional/ufuncs/subtract.hpp"
#include "nmtools/array/functional/ufuncs/tan.hpp"
#include "nmtools/array/functional/ufuncs/tanh.hpp"
#include "show.hpp"
namespace fn = nmtools::functional;
namespace view = nmtools::view;
using namespace vd;
using namespace nmtools::literals;

// same <shape> when the functor call and the view call of the SAME NAME agree in shape and in every element (printed %.17g)
template <typename F, typename V> static std::string same(const F& f, const V& v) {
    std::string sf = show(f), sv = show(v);
    if (sf == sv && sv.rfind("ok", 0) == 0) return "same " + sv.substr(3, sv.find(" ;") - 3);
    return "differs fn " + sf + " | view " + sv;
}
static std::string handle(const Case& c) {
    if (c.op != "fnview") return "unsupported";
    const std::string name = c.args[0].raw.substr(2);
    auto ai = make_array(c.args[1]); auto bi = make_array(c.args[2]);
    auto ad = make_array<dyn_t<double>>(c.args[1]); auto bd = make_array<dyn_t<double>>(c.args[2]);
    // the case line carries quarters: 2-d operands with distinct entries incl. negatives and non-integers
    { double* p = nm::data(ad); double* r = nm::data(bd); for (size_t i = 0; i < c.args[1].list.size(); i++) p[i] = c.args[1].list[i] / 4.0; for (size_t i = 0; i < c.args[2].list.size(); i++) r[i] = c.args[2].list[i] / 4.0; }
    const auto ax = nmtools_array{1, 0}; const auto reps = nmtools_array<size_t, 2>{2, 3}; const auto k2 = nmtools_array<size_t, 2>{2, 2};
    const std::vector<size_t> shp{4, 3}, bshp{2, 3, 4}; const std::vector<int> pw{1, 0, 0, 2}, idx{2, 0, 3}; const std::vector<bool> cond{true, false, true, true};
    // rank 3 / 4 operands for conv / pooling / batch_norm, built from the same 12 / 12 elements
    std::vector<ll> sh3{1, 2, 6}, sh4{1, 1, 3, 4}, shw3{1, 2, 3}, shw4{1, 1, 2, 2}, sh1{1};
    auto a3 = make_array<dyn_t<double>>(sh3, c.args[1].list); auto a4 = make_array<dyn_t<double>>(sh4, c.args[1].list);
    auto w3 = make_array<dyn_t<double>>(shw3, c.args[2].list); auto w4 = make_array<dyn_t<double>>(shw4, c.args[2].list);
    auto m1 = make_array<dyn_t<double>>(sh1, std::vector<ll>{2}); auto m1p = make_array<dyn_t<double>>(sh1, std::vector<ll>{3});
    const auto sl0 = nmtools_tuple{0, 2}; const auto sl1 = nmtools_tuple{1, 3}; (void)sl0; (void)sl1;
    (void)bi; (void)ai; (void)ax; (void)reps; (void)k2;
#define X(nm_, f, v) if (name == nm_) return same(f, v);
#if C14F_PART == 1
    X("arccosh", fn::arccosh(ad), view::arccosh(ad))
    X("sqrt", fn::sqrt(ad), view::sqrt(ad))
    X("arctan", fn::arctan(ad), view::arctan(ad))
    X("arccos", fn::arccos(ad), view::arccos(ad))
    X("exp2", fn::exp2(ad), view::exp2(ad))
    X("log1p", fn::log1p(ad), view::log1p(ad))
    X("signbit", fn::signbit(ad), view::signbit(ad))
    X("arcsinh", fn::arcsinh(ad), view::arcsinh(ad))
    X("cosh", fn::cosh(ad), view::cosh(ad))
    X("arctanh", fn::arctanh(ad), view::arctanh(ad))
    X("positive", fn::positive(ad), view::positive(ad))
    X("square", fn::square(ad), view::square(ad))
    X("exp", fn::exp(ad), view::exp(ad))
    X("expm1", fn::expm1(ad), view::expm1(ad))
    X("tan", fn::tan(ad), view::tan(ad))
    X("isfinite", fn::isfinite(ad), view::isfinite(ad))
    X("sinh", fn::sinh(ad), view::sinh(ad))
    X("cbrt", fn::cbrt(ad), view::cbrt(ad))
    X("log10", fn::log10(ad), view::log10(ad))
    X("cos", fn::cos(ad), view::cos(ad))
    X("floor", fn::floor(ad), view::floor(ad))
    X("arcsin", fn::arcsin(ad), view::arcsin(ad))
    X("fabs", fn::fabs(ad), view::fabs(ad))
    X("log", fn::log(ad), view::log(ad))
    X("reciprocal", fn::reciprocal(ad), view::reciprocal(ad))
    X("tanh", fn::tanh(ad), view::tanh(ad))
    X("rint", fn::rint(ad), view::rint(ad))
    X("isinf", fn::isinf(ad), view::isinf(ad))
    X("isnan", fn::isnan(ad), view::isnan(ad))
    X("sin", fn::sin(ad), view::sin(ad))
    X("log2", fn::log2(ad), view::log2(ad))
    X("negative", fn::negative(ad), view::negative(ad))
    X("ceil", fn::ceil(ad), view::ceil(ad))
    X("relu", fn::relu(ad), view::relu(ad))
    X("relu6", fn::relu6(ad), view::relu6(ad))
    X("sigmoid", fn::sigmoid(ad), view::sigmoid(ad))
    X("silu", fn::silu(ad), view::silu(ad))
    X("selu", fn::selu(ad), view::selu(ad))
    X("log_sigmoid", fn::log_sigmoid(ad), view::log_sigmoid(ad))
    X("mish", fn::mish(ad), view::mish(ad))
    X("softsign", fn::softsign(ad), view::softsign(ad))
    X("hardswish", fn::hardswish(ad), view::hardswish(ad))
    X("tanhshrink", fn::tanhshrink(ad), view::tanhshrink(ad))
    X("invert", fn::invert(ai), view::invert(ai))
    X("leaky_relu", fn::leaky_relu[0.3](ad), view::leaky_relu(ad, 0.3))
    X("elu", fn::elu[2.5](ad), view::elu(ad, 2.5))
    X("celu", fn::celu[0.7](ad), view::celu(ad, 0.7))
    X("hardshrink", fn::hardshrink[0.8](ad), view::hardshrink(ad, 0.8))
    X("softshrink", fn::softshrink[0.6](ad), view::softshrink(ad, 0.6))
    X("hardtanh", fn::hardtanh[-0.7][1.3](ad), view::hardtanh(ad, -0.7, 1.3))
    X("softplus", fn::softplus[2.5][1.5](ad), view::softplus(ad, 2.5, 1.5))
    X("prelu", fn::prelu[0.3](ad), view::prelu(ad, 0.3))
    X("add", fn::add(ad, bd), view::add(ad, bd))
    X("multiply", fn::multiply(ad, bd), view::multiply(ad, bd))
    X("minimum", fn::minimum(ad, bd), view::minimum(ad, bd))
    X("maximum", fn::maximum(ad, bd), view::maximum(ad, bd))
    X("subtract", fn::subtract(ad, bd), view::subtract(ad, bd))
    X("divide", fn::divide(ad, bd), view::divide(ad, bd))
    X("arctan2", fn::arctan2(ad, bd), view::arctan2(ad, bd))
    X("reduce_add", fn::reduce_add[1](ad), view::reduce_add(ad, 1))
    X("accumulate_add", fn::accumulate_add[1](ad), view::accumulate_add(ad, 1))
    X("outer_add", fn::outer_add(ad, bd), view::outer_add(ad, bd))
    X("reduce_multiply", fn::reduce_multiply[1](ad), view::reduce_multiply(ad, 1))
    X("accumulate_multiply", fn::accumulate_multiply[1](ad), view::accumulate_multiply(ad, 1))
    X("outer_multiply", fn::outer_multiply(ad, bd), view::outer_multiply(ad, bd))
    X("reduce_minimum", fn::reduce_minimum[1](ad), view::reduce_minimum(ad, 1))
    X("accumulate_minimum", fn::accumulate_minimum[1](ad), view::accumulate_minimum(ad, 1))
    X("outer_minimum", fn::outer_minimum(ad, bd), view::outer_minimum(ad, bd))
    X("reduce_maximum", fn::reduce_maximum[1](ad), view::reduce_maximum(ad, 1))
    X("accumulate_maximum", fn::accumulate_maximum[1](ad), view::accumulate_maximum(ad, 1))
    X("outer_maximum", fn::outer_maximum(ad, bd), view::outer_maximum(ad, bd))
    X("reduce_subtract", fn::reduce_subtract[1](ad), view::reduce_subtract(ad, 1))
    X("accumulate_subtract", fn::accumulate_subtract[1](ad), view::accumulate_subtract(ad, 1))
    X("outer_subtract", fn::outer_subtract(ad, bd), view::outer_subtract(ad, bd))
#else
    X("sum", fn::sum[1](ad), view::sum(ad, 1))
    X("prod", fn::prod[1](ad), view::prod(ad, 1))
    X("mean", fn::mean[1](ad), view::mean(ad, 1))
    X("var", fn::var[1](ad), view::var(ad, 1))
    X("stddev", fn::stddev[1](ad), view::stddev(ad, 1))
    X("softmax", fn::softmax[1](ad), view::softmax(ad, 1))
    X("softmin", fn::softmin[1](ad), view::softmin(ad, 1))
    X("cumsum", fn::cumsum[1](ad), view::cumsum(ad, 1))
    X("cumprod", fn::cumprod[1](ad), view::cumprod(ad, 1))
    X("atleast_1d", fn::atleast_1d(ad), view::atleast_1d(ad))
    X("atleast_2d", fn::atleast_2d(ad), view::atleast_2d(ad))
    X("atleast_nd", fn::atleast_nd[3_ct](ad), view::atleast_nd(ad, 3_ct))
    X("vstack", fn::vstack(ad, bd), view::vstack(ad, bd))
    X("hstack", fn::hstack(ad, bd), view::hstack(ad, bd))
    X("stack", fn::stack[1](ad, bd), view::stack(ad, bd, 1))
    X("concatenate", fn::concatenate[1](ad, bd), view::concatenate(ad, bd, 1))
    X("expand_dims", fn::expand_dims[1](ad), view::expand_dims(ad, 1))
    X("flatten", fn::flatten(ad), view::flatten(ad))
    X("transpose", fn::transpose[ax](ad), view::transpose(ad, ax))
    X("moveaxis", fn::moveaxis[0][1](ad), view::moveaxis(ad, 0, 1))
    X("flip", fn::flip[1](ad), view::flip(ad, 1))
    X("fliplr", fn::fliplr(ad), view::fliplr(ad))
    X("flipud", fn::flipud(ad), view::flipud(ad))
    X("tile", fn::tile[reps](ad), view::tile(ad, reps))
    X("repeat", fn::repeat[2][1](ad), view::repeat(ad, 2, 1))
    X("roll", fn::roll[1][1](ad), view::roll(ad, 1, 1))
    X("reshape", fn::reshape[shp](ad), view::reshape(ad, shp))
    X("broadcast_to", fn::broadcast_to[bshp](ad), view::broadcast_to(ad, bshp))
    X("resize", fn::resize[shp](ad), view::resize(ad, shp))
    X("pad", fn::pad[pw](ad), view::pad(ad, pw))
    X("take", fn::take[idx][1](ad), view::take(ad, idx, 1))
    X("compress", fn::compress[cond][1](ad), view::compress(cond, ad, 1))
    X("slice", fn::slice[sl0][sl1](ad), view::slice(ad, sl0, sl1))
    X("expand", fn::expand[1][1](ad), view::expand(ad, 1, 1))
    X("where", fn::where(ai, ad, bd), view::where(ai, ad, bd))
    X("matmul", fn::matmul(ad, view::transpose(bd)), view::matmul(ad, view::transpose(bd)))
    X("max_pool2d", fn::max_pool2d[k2][k2][nm::True](a4), view::max_pool2d(a4, k2, k2, nm::True))
    X("avg_pool2d", fn::avg_pool2d[k2][k2][nm::True](a4), view::avg_pool2d(a4, k2, k2, nm::True))
    X("conv1d", fn::conv1d(a3, w3), view::conv1d(a3, w3))
    X("conv2d", fn::conv2d(a4, w4), view::conv2d(a4, w4))
    X("batch_norm", fn::batch_norm(a4, m1, m1p, m1, m1), view::batch_norm(a4, m1, m1p, m1, m1))
    X("full", fn::full[shp][2.5](), view::full(shp, 2.5))
    X("ones", fn::ones[shp][nm::float64](), view::ones(shp, nm::float64))
    X("zeros", fn::zeros[shp][nm::float64](), view::zeros(shp, nm::float64))
#endif
#undef X
    return "unsupported";
}
int main() { return vd::run_main(handle); }
