// c19_tuple.cpp — C19 correspondence for utl::tuple (hand-written tuple1..tuple12) and utl::tuplev2 against std::tuple:
// EVERY arity 1..12, every constructor / assignment form of the header, all-distinct element values and mixed element
// types (int, long, float, double, size_t cyclically, rotated by r) so that a swapped or duplicated slot shows.
// Case line:  tup S:<impl> S:<form> I:n I:r I:r2 I:base [I:n2]
//   impl  utl | v2
//   form  val   value constructor, every get<I>
//         copy  same-type copy constructor            asg   same-type copy assignment over different values
//         conv  converting copy constructor to the element types rotated by r2     casg  assignment from that tuple
//         def   default constructor (value-initialised elements)
//         mk    utl::make_tuple (arity 1..4: returns tupleN; fields value1..)       [utl only]
//         cat   utility::tuple_cat(left arity n, right arity n2), n + n2 <= 12       app  utility::tuple_append(t, value)
// Element I of the arity-n source with rotation r holds base + 7*I + 1 converted to type (I + r) mod 5.
// Result: "ok e0,e1,... | std e0,e1,..."  (the same operations on std::tuple in this process).
#include "nmtools/utl/tuple.hpp"
#include "nmtools/utl/tuplev2.hpp"
#include "nmtools/utility/tuple_cat.hpp"
#include "nmtools/utility/get.hpp"
#include "common.hpp"
#include <tuple>
#include <utility>

using namespace vd;
namespace utl = nmtools::utl;

template <size_t K> struct ty;
template <> struct ty<0> { using type = int; };
template <> struct ty<1> { using type = long; };
template <> struct ty<2> { using type = float; };
template <> struct ty<3> { using type = double; };
template <> struct ty<4> { using type = size_t; };
template <size_t I, size_t R> using el_t = typename ty<(I + R) % 5>::type;

template <template <typename...> class TT, size_t R, typename Seq> struct tup_of;
template <template <typename...> class TT, size_t R, size_t... I> struct tup_of<TT, R, std::index_sequence<I...>> {
    using type = TT<el_t<I, R>...>;
    static type make(ll base) { return type{(el_t<I, R>)(base + 7 * (ll)I + 1)...}; }
};
template <template <typename...> class TT, size_t N, size_t R> using tup_t = typename tup_of<TT, R, std::make_index_sequence<N>>::type;
template <template <typename...> class TT, size_t N, size_t R> auto make_tup(ll base) { return tup_of<TT, R, std::make_index_sequence<N>>::make(base); }

template <size_t I, typename... A> decltype(auto) gget(const utl::tuple<A...>& t) { return utl::get<I>(t); }
template <size_t I, typename... A> decltype(auto) gget(const utl::tuplev2<A...>& t) { return utl::get<I>(t); }
template <size_t I, typename... A> decltype(auto) gget(const std::tuple<A...>& t) { return std::get<I>(t); }

template <typename T, size_t... I> static std::string show_impl(const T& t, std::index_sequence<I...>) {
    std::string s; bool first = true;
    ((s += (first ? "" : ","), first = false, s += std::to_string((ll)gget<I>(t))), ...);
    return s;
}
template <template <typename...> class TT, typename... A> static std::string show_t(const TT<A...>& t) { return show_impl(t, std::make_index_sequence<sizeof...(A)>{}); }

// the forms on one tuple family TT for arity N, source rotation R, destination rotation R2
template <template <typename...> class TT, size_t N, size_t R, size_t R2>
static std::string forms(const std::string& form, ll base) {
    using S = tup_t<TT, N, R>; using D = tup_t<TT, N, R2>;
    if (form == "val") { S s = make_tup<TT, N, R>(base); return show_t(s); }
    if (form == "copy") { S s = make_tup<TT, N, R>(base); S c(s); return show_t(c); }
    if (form == "asg") { S s = make_tup<TT, N, R>(base); S c = make_tup<TT, N, R>(base + 500); c = s; return show_t(c); }
    if (form == "conv") { S s = make_tup<TT, N, R>(base); D d(s); return show_t(d); }
    if (form == "casg") { S s = make_tup<TT, N, R>(base); D d = make_tup<TT, N, R2>(base + 500); d = D(s); return show_t(d); }
    if (form == "def") { S s{}; return show_t(s); }
    return "unsupported";
}

template <template <typename...> class TT, size_t N>
static std::string by_rot(const std::string& form, ll r, ll r2, ll base) {
    if (r == 0 && r2 == 1) return forms<TT, N, 0, 1>(form, base);
    if (r == 0 && r2 == 3) return forms<TT, N, 0, 3>(form, base);
    if (r == 2 && r2 == 1) return forms<TT, N, 2, 1>(form, base);
    if (r == 2 && r2 == 4) return forms<TT, N, 2, 4>(form, base);
    return "unsupported";
}
template <template <typename...> class TT>
static std::string by_arity(ll n, const std::string& form, ll r, ll r2, ll base) {
    switch (n) {
        case 1: return by_rot<TT, 1>(form, r, r2, base);  case 2: return by_rot<TT, 2>(form, r, r2, base);
        case 3: return by_rot<TT, 3>(form, r, r2, base);  case 4: return by_rot<TT, 4>(form, r, r2, base);
        case 5: return by_rot<TT, 5>(form, r, r2, base);  case 6: return by_rot<TT, 6>(form, r, r2, base);
        case 7: return by_rot<TT, 7>(form, r, r2, base);  case 8: return by_rot<TT, 8>(form, r, r2, base);
        case 9: return by_rot<TT, 9>(form, r, r2, base);  case 10: return by_rot<TT, 10>(form, r, r2, base);
        case 11: return by_rot<TT, 11>(form, r, r2, base); case 12: return by_rot<TT, 12>(form, r, r2, base);
    }
    return "unsupported";
}

// utility::tuple_cat / tuple_append (defined for any tuple template) — std::tuple_cat / tuple_cat with a 1-tuple as reference
template <template <typename...> class TT, size_t N, size_t M>
static std::string cat(ll base) {
    if constexpr (N + M <= 12) {
        auto l = make_tup<TT, N, 0>(base); auto r = make_tup<TT, M, 2>(base + 100);
        return show_t(nmtools::utility::tuple_cat(l, r));
    } else return "unsupported";
}
template <template <typename...> class TT, size_t N>
static std::string cat_m(ll m, ll base) {
    switch (m) { case 1: return cat<TT, N, 1>(base); case 2: return cat<TT, N, 2>(base); case 3: return cat<TT, N, 3>(base);
                 case 4: return cat<TT, N, 4>(base); case 5: return cat<TT, N, 5>(base); case 6: return cat<TT, N, 6>(base); }
    return "unsupported";
}
template <template <typename...> class TT>
static std::string cat_n(ll n, ll m, ll base) {
    switch (n) { case 1: return cat_m<TT, 1>(m, base); case 2: return cat_m<TT, 2>(m, base); case 3: return cat_m<TT, 3>(m, base);
                 case 4: return cat_m<TT, 4>(m, base); case 5: return cat_m<TT, 5>(m, base); case 6: return cat_m<TT, 6>(m, base);
                 case 7: return cat_m<TT, 7>(m, base); case 8: return cat_m<TT, 8>(m, base); }
    return "unsupported";
}
template <template <typename...> class TT, size_t N>
static std::string app(ll base) {
    if constexpr (N + 1 <= 12) { auto l = make_tup<TT, N, 0>(base); return show_t(nmtools::utility::tuple_append(l, (double)(base + 300))); }
    else return "unsupported";
}
template <template <typename...> class TT>
static std::string app_n(ll n, ll base) {
    switch (n) { case 1: return app<TT, 1>(base); case 2: return app<TT, 2>(base); case 3: return app<TT, 3>(base); case 4: return app<TT, 4>(base);
                 case 5: return app<TT, 5>(base); case 6: return app<TT, 6>(base); case 7: return app<TT, 7>(base); case 8: return app<TT, 8>(base);
                 case 9: return app<TT, 9>(base); case 10: return app<TT, 10>(base); case 11: return app<TT, 11>(base); }
    return "unsupported";
}

// utl::make_tuple: arity 1..4, returns the tupleN structs
static std::string mk(ll n, ll base) {
    auto v = [&](ll i) { return base + 7 * i + 1; };
    if (n == 1) { auto t = utl::make_tuple((int)v(0)); return std::to_string((ll)t.value1); }
    if (n == 2) { auto t = utl::make_tuple((int)v(0), (long)v(1)); return std::to_string((ll)t.value1) + "," + std::to_string((ll)t.value2); }
    if (n == 3) { auto t = utl::make_tuple((int)v(0), (long)v(1), (float)v(2));
                  return std::to_string((ll)t.value1) + "," + std::to_string((ll)t.value2) + "," + std::to_string((ll)t.value3); }
    if (n == 4) { auto t = utl::make_tuple((int)v(0), (long)v(1), (float)v(2), (double)v(3));
                  return std::to_string((ll)t.value1) + "," + std::to_string((ll)t.value2) + "," + std::to_string((ll)t.value3) + "," + std::to_string((ll)t.value4); }
    return "unsupported";
}

template <template <typename...> class TT>
static std::string run(const std::string& form, const std::vector<Arg>& a) {
    ll n = a[2].val, r = a[3].val, r2 = a[4].val, base = a[5].val;
    if (form == "cat") return cat_n<TT>(n, a[6].val, base);
    if (form == "app") return app_n<TT>(n, base);
    return by_arity<TT>(n, form, r, r2, base);
}

static std::string handle(const Case& c) {
    if (c.op != "tup") return "unsupported";
    std::string impl = c.args[0].raw.substr(2), form = c.args[1].raw.substr(2);
    std::string r, s;
    if (form == "mk") { if (impl != "utl") return "unsupported"; r = mk(c.args[2].val, c.args[5].val);
        // std reference: std::make_tuple of the same values
        ll n = c.args[2].val, base = c.args[5].val; for (ll i = 0; i < n; i++) s += (i ? "," : "") + std::to_string(base + 7 * i + 1);
        return r == "unsupported" ? r : "ok " + r + " | std " + s; }
    if (impl == "utl") r = run<utl::tuple>(form, c.args);
    else if (impl == "v2") r = run<utl::tuplev2>(form, c.args);
    else return "unsupported";
    if (r == "unsupported") return r;
    s = run<std::tuple>(form, c.args);
    return "ok " + r + " | std " + s;
}

int main() { return vd::run_main(handle); }
