// c17_conv2d.cpp — C17 conv2d driver (body shared with conv1d in c17_conv.inc)
#define C17_ND 2
// rev 2 (bump when c17_conv.inc / c17_show.hpp change: the driver cache hashes this file only)
#include "c17_conv.inc"
