// c17_conv2d.cpp — C17 conv2d driver (body shared with conv1d in c17_conv.inc)
#define C17_ND 2
#include "c17_conv.inc"
