// c17_pool.cpp — implementation side of the C17 correspondence, pooling part:
// view::max_pool2d / view::avg_pool2d on run-time shaped operands.
//   max_pool2d S:<kind> A:array L:kernel L:stride I:ceil      integer data, exact
//   avg_pool2d S:<kind> A:array L:kernel L:stride I:ceil      double data (integer valued), tolerance
// kinds of the (kernel, stride, ceil_mode) arguments:
//   arr  std::array<int,2>, run-time bool      vec  std::vector<int>, run-time bool
//   ct   std::array<int,2>, compile-time True_/False_ constant
#include "nmtools/array/view/pooling.hpp"
#include "c17_show.hpp"

namespace view = nmtools::view;
using namespace vd;

template <typename array_t, typename F>
static std::string with_args(const std::string& kind, const Case& c, const array_t& a, F&& f) {
    const auto& kv = c.args[2].list; const auto& sv = c.args[3].list; bool ceil = c.args[4].val != 0;
    if (kv.size() != 2 || sv.size() != 2) return "unsupported";
    if (kind == "arr") return f(a, arr_of<int, 2>(kv), arr_of<int, 2>(sv), ceil);
#ifndef VD_LIGHT
    if (kind == "vec") return f(a, vec_of<int>(kv), vec_of<int>(sv), ceil);
    if (kind == "ct") {
        if (ceil) return f(a, arr_of<int, 2>(kv), arr_of<int, 2>(sv), nm::True);
        else return f(a, arr_of<int, 2>(kv), arr_of<int, 2>(sv), nm::False);
    }
#endif
    return "unsupported";
}

static std::string handle(const Case& c) {
    if (c.args.size() != 5) return "unsupported";
    std::string kind = c.args[0].raw.substr(2);
    if (c.op == "max_pool2d") {
        auto a = make_array(c.args[1]);
        return with_args(kind, c, a, [](const auto& a, const auto& k, const auto& s, auto ceil) { return show_cast<ll>(view::max_pool2d(a, k, s, ceil)); });
    }
    if (c.op == "avg_pool2d") {
        auto a = make_array<dyn_t<double>>(c.args[1]);
        return with_args(kind, c, a, [](const auto& a, const auto& k, const auto& s, auto ceil) { return show_cast<double>(view::avg_pool2d(a, k, s, ceil)); });
    }
    return "unsupported";
}

int main() { return vd::run_main(handle, 16, 20); }
