// one-line wrapper: c12.cpp compiled for context v128 (the harness keys its binary cache by file name)
#define C12_CTX 3
#include "c12.cpp"
