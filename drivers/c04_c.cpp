// c04_c.cpp — implementation side of the C04 correspondence, part C: ELEMENT TYPES and ARGUMENT VALUE variety.
// Every joining / selecting / generating view is run with operands of different element types
// (int8 / int32 / int64 / float / double, both orders; fractional and large values), conditions / index lists in
// int8 / uint8 / int32 / int64 / size_t / bool containers with non-0/1 truthy entries, fill values of another type,
// and the generators with every dtype.  A typed array argument is  T:<dtype>:<shape>:<data>  with integer data;
// for the floating dtypes an entry x means x/4 (exact in binary floating point).  Elements are printed with "%.17g".
// (array/concatenate.hpp must not be visible here, see c04_b.cpp; the eager typed concatenate lives in c04_a.cpp.)
#include "nmtools/array/view/concatenate.hpp"
#include "nmtools/array/view/stack.hpp"
#include "nmtools/array/view/hstack.hpp"
#include "nmtools/array/view/vstack.hpp"
#include "nmtools/array/view/dstack.hpp"
#include "nmtools/array/view/column_stack.hpp"
#include "nmtools/array/view/where.hpp"
#include "nmtools/array/view/take.hpp"
#include "nmtools/array/view/compress.hpp"
#include "nmtools/array/view/pad.hpp"
#include "nmtools/array/view/expand.hpp"
#include "nmtools/array/view/tile.hpp"
#include "nmtools/array/view/repeat.hpp"
#include "nmtools/array/view/roll.hpp"
#include "nmtools/array/view/resize.hpp"
#include "nmtools/array/view/sliding_window.hpp"
#include "nmtools/array/view/diagonal.hpp"
#include "nmtools/array/view/diagflat.hpp"
#include "nmtools/array/view/tril.hpp"
#include "nmtools/array/view/triu.hpp"
#include "nmtools/array/view/tri.hpp"
#include "nmtools/array/view/eye.hpp"
#include "nmtools/array/view/full.hpp"
#include "nmtools/array/view/zeros.hpp"
#include "nmtools/array/view/ones.hpp"
#include "nmtools/array/view/arange.hpp"
#include "nmtools/array/view/linspace.hpp"
#include "nmtools/array/array/hstack.hpp"
#include "nmtools/array/array/stack.hpp"
#include "nmtools/array/array/where.hpp"
#include "nmtools/array/array/pad.hpp"
#include "nmtools/array/array/full.hpp"
#include "show.hpp"
#include "c04_common.hpp"
#include "c04_typed.hpp"

namespace ix = nmtools::index;
namespace view = nmtools::view;
namespace na = nmtools::array;
using namespace vd;
using nm::None;

// results computed in floating point with a rounded step (linspace) are marked "ok~": compared at float32 resolution
static std::string approx(std::string r) { if (r.rfind("ok ", 0) == 0) r = "ok~" + r.substr(2); return r; }

static std::string handle(const Case& c) {
    const std::string& op = c.op;
    auto kind = [&](size_t i) { return c.args[i].raw.substr(2); };
    auto T = [&](size_t i) { return parse_typed(c.args[i].raw); };

    // ------------------------------------------------------------------ two array operands of different element types
    if (op == "tconcat") {         // tconcat T:lhs T:rhs I:axis|N      every ordered pair of element types
        auto ta = T(0), tb = T(1);
        return with_typed(ta, [&](const auto& a) { return with_typed(tb, [&](const auto& b) -> std::string {
            if (c.args[2].kind == 'N') return show1(view::concatenate(a, b, None));
            return show(view::concatenate(a, b, (int)c.args[2].val));
        }); });
    }
    if (op == "tstack" || op == "thstack" || op == "tvstack" || op == "tdstack" || op == "tcolumn_stack"
        || op == "tstack_e" || op == "thstack_e") {   // the pairs of with_typed_pair
        auto ta = T(0), tb = T(1);
        return with_typed_pair(ta, tb, [&](const auto& a, const auto& b) -> std::string {
            if (op == "tstack") return show(view::stack(a, b, (int)c.args[2].val));
            if (op == "tstack_e") return show(na::stack(a, b, (int)c.args[2].val));
            if (op == "thstack") return show(view::hstack(a, b));
            if (op == "thstack_e") return show(na::hstack(a, b));
            if (op == "tvstack") return show(view::vstack(a, b));
            if (op == "tdstack") return show(view::dstack(a, b));
            return show(view::column_stack(a, b));
        });
    }
    // where: condition of any integer type with non-0/1 truthy entries; x / y of different element types
    if (op == "twhere" || op == "twhere_e") {
        auto tc = T(0), tx = T(1), ty = T(2);
        return with_typed_cond(tc, [&](const auto& cnd) { return with_typed_pair(tx, ty, [&](const auto& x, const auto& y) -> std::string {
            if (op == "twhere_e") return show(na::where(cnd, x, y));
            return show(view::where(cnd, x, y));
        }); });
    }
    // ------------------------------------------------------------------ index / condition containers
    if (op == "ttake") {           // ttake S:idxtype T:src L:indices I:axis|N
        auto ts = T(1);
        return with_typed(ts, [&](const auto& a) { return with_index_list(kind(0), c.args[2].list, [&](const auto& ind) -> std::string {
            if (c.args[3].kind == 'N') return show1(view::take(a, ind, None));
            return show(view::take(a, ind, (int)c.args[3].val));
        }); });
    }
    if (op == "tcompress") {       // tcompress S:condtype L:condition T:src I:axis|N
        auto ts = T(2);
        return with_typed_few(ts, [&](const auto& a) { return with_cond_list(kind(0), c.args[1].list, [&](const auto& cond) -> std::string {
            if (c.args[3].kind == 'N') return show1(view::compress(cond, a, None));
            return show(view::compress(cond, a, (int)c.args[3].val));
        }); });
    }
    if (op == "compress_ix") {     // compress_ix S:condtype L:condition L:shape L:idx I:axis -> "ok <shape_compress> ; <index::compress>"
        int ax = (int)c.args[4].val;
        auto shp = vec_of<size_t>(c.args[2].list); auto idx = vec_of<size_t>(c.args[3].list);
        return with_cond_list(kind(0), c.args[1].list, [&](const auto& cond) -> std::string {
            auto dst = ix::shape_compress(cond, shp, ax);
            auto src = ix::compress(idx, cond, shp, ax);
            return "ok " + show_index(dst) + " ; " + show_index(src);
        });
    }
    // ------------------------------------------------------------------ fill values of another type
    if (op == "tpad" || op == "tpad_e") {   // tpad T:src L:widths S:i|d I:value   (d: value/4 as double)
        auto ts = T(0); auto w = vec_of<int>(c.args[1].list); ll v = c.args[3].val; bool dbl = kind(2) == "d";
        return with_typed(ts, [&](const auto& a) -> std::string {
            if (op == "tpad_e") return dbl ? show(na::pad(a, w, (double)v / 4.0)) : show(na::pad(a, w, (int)v));
            return dbl ? show(view::pad(a, w, (double)v / 4.0)) : show(view::pad(a, w, (int)v));
        });
    }
    if (op == "texpand") {         // texpand T:src I:axis I:spacing S:i|d I:value
        auto ts = T(0); int ax = (int)c.args[1].val, sp = (int)c.args[2].val; ll v = c.args[4].val; bool dbl = kind(3) == "d";
        return with_typed_few(ts, [&](const auto& a) -> std::string {
            return dbl ? show(view::expand(a, ax, sp, (double)v / 4.0)) : show(view::expand(a, ax, sp, (int)v));
        });
    }
    // ------------------------------------------------------------------ one typed operand: elements are copies in the source type
    if (op == "tsel") {            // tsel S:<routine> T:src <args of the routine>
        auto ts = T(1); std::string r = kind(0);
        return with_typed_few(ts, [&](const auto& a) -> std::string {
            if (r == "tile") return show(view::tile(a, vec_of<int>(c.args[2].list)));
            if (r == "repeat") { if (c.args[3].kind == 'N') return show1(view::repeat(a, (int)c.args[2].val, None)); return show(view::repeat(a, (int)c.args[2].val, (int)c.args[3].val)); }
            if (r == "roll") { if (c.args[3].kind == 'N') return show(view::roll(a, (int)c.args[2].val)); return show(view::roll(a, (int)c.args[2].val, (int)c.args[3].val)); }
            if (r == "resize") return show(view::resize(a, vec_of<int>(c.args[2].list)));
            if (r == "sw") return show(view::sliding_window(a, vec_of<int>(c.args[2].list), vec_of<int>(c.args[3].list)));
            if (r == "diagonal") return show(view::diagonal(a, (int)c.args[2].val, (int)c.args[3].val, (int)c.args[4].val));
            if (r == "diagflat") return show(view::diagflat(a, (int)c.args[2].val));
            if (r == "tril") return show(view::tril(a, (int)c.args[2].val));
            if (r == "triu") return show(view::triu(a, (int)c.args[2].val));
            return "unsupported";
        });
    }
    // ------------------------------------------------------------------ generators with every dtype
    if (op == "tfull" || op == "tfull_e") {   // tfull S:dtype L:shape I:value   (floating dtypes: value/4)
        auto shp = vec_of<int>(c.args[1].list); ll v = c.args[2].val;
        return with_dtype(kind(0), [&](auto tag) -> std::string {
            using E = decltype(tag); E val = is_fp<E> ? (E)((double)v / 4.0) : (E)v;
            if (op == "tfull_e") return show(na::full(shp, val));
            return show(view::full(shp, val));
        });
    }
    if (op == "tzeros" || op == "tones" || op == "ttri" || op == "teye") {
        return with_dtype(kind(0), [&](auto tag) -> std::string {
            using E = decltype(tag); auto dt = nm::dtype_t<E>{};
            if (op == "tzeros") return show(view::zeros(vec_of<int>(c.args[1].list), dt));
            if (op == "tones") return show(view::ones(vec_of<int>(c.args[1].list), dt));
            int n = (int)c.args[1].val, m = (int)c.args[2].val, k = (int)c.args[3].val;
            if (op == "ttri") return show(view::tri(n, m, k, dt));
            return show(view::eye(n, m, k, dt));
        });
    }
    if (op == "tarange") {         // tarange S:dtype I:start I:stop I:p I:q  (step p/q; q > 1 only with floating dtypes)
        int start = (int)c.args[1].val, stop = (int)c.args[2].val; ll p = c.args[3].val, q = c.args[4].val;
        return with_dtype(kind(0), [&](auto tag) -> std::string {
            using E = decltype(tag); auto dt = nm::dtype_t<E>{};
            if (q == 1) return show1(view::arange(start, stop, (int)p, dt));
            if constexpr (is_fp<E>) return show1(view::arange(start, stop, (E)((double)p / (double)q), dt));
            else return "unsupported";
        });
    }
    if (op == "tlinspace") {       // tlinspace S:f32|f64 I:start I:stop I:num I:endpoint   (start, stop in quarters)
        size_t num = (size_t)c.args[3].val; bool e = c.args[4].val != 0;
        return with_dtype(kind(0), [&](auto tag) -> std::string {
            using E = decltype(tag);
            if constexpr (is_fp<E>) {
                E start = (E)((double)c.args[1].val / 4.0), stop = (E)((double)c.args[2].val / 4.0);
                return approx(e ? show(view::linspace(start, stop, num, nm::True)) : show(view::linspace(start, stop, num, nm::False)));
            } else return "unsupported";
        });
    }
    return "unsupported";
}

int main() { return vd::run_main(handle); }
