// c14g.cpp — implementation side of the C14 correspondence, compute graph of view DAGs:
// leaves named with view::alias(array, id), sub-views held in variables and used several times
// (shared sub-expressions with fan-out 2 and 3 at several depths, nested diamonds, the same leaf
// reached through both operands at different depths, non-commutative operations with mirrored
// operands, operand ids that are permutations / have equal sums).
//
// case line:  dag S:<program>      program = bindings "v=L<k>" (leaf alias id k) | "v=op(u,w)", root = last binding
//   -> dag nodes <n> <names> | edges <m> <name>name,... (RAW out-edge lists: duplicates visible) | distinct <k>/<vars>
// A node id is printed as the name of the first variable of the program whose view has that id
// (ids themselves are hashes and are not compared); "distinct" = number of different ids among the variables.
#include "nmtools/array/functional/functor.hpp"
#include "nmtools/array/functional/ufunc/ufunc.hpp"
#include "nmtools/array/view/ufuncs/add.hpp"
#include "nmtools/array/view/ufuncs/subtract.hpp"
#include "nmtools/array/view/ufuncs/multiply.hpp"
#include "nmtools/array/view/ufuncs/divide.hpp"
#include "nmtools/array/view/ufuncs/power.hpp"
#include "nmtools/array/view/ufuncs/negative.hpp"
#include "nmtools/array/view/ufuncs/exp.hpp"
#include "nmtools/array/view/ufuncs/tanh.hpp"
#include "nmtools/array/view/ufuncs/cos.hpp"
#include "nmtools/array/view/ufuncs/sin.hpp"
#include "nmtools/array/view/alias.hpp"
#include "common.hpp"
#include <array>
#include <algorithm>
#include <set>

namespace nm = nmtools;
namespace fn = nmtools::functional;
namespace view = nmtools::view;
namespace meta = nmtools::meta;
using namespace vd;
using namespace nmtools::literals;

template <typename view_t>
static constexpr long id_of(const view_t&) {
    return (long)meta::remove_cvref_t<decltype(nm::unwrap(meta::declval<view_t>()))>::id_type::value;
}

struct Named { const char* name; long id; };

template <typename Root>
static std::string report(const Root& root, std::initializer_list<Named> vars) {
    auto graph_ = fn::get_compute_graph(root);
    const auto& graph = nm::unwrap(graph_);
    auto name_of = [&](long id) { for (auto& v : vars) if (v.id == id) return std::string(v.name); return "#" + std::to_string(id); };
    std::vector<std::string> nodes, edges;
    {
        auto keys = graph.nodes();
        constexpr auto N = meta::len_v<std::decay_t<decltype(keys)>>;
        meta::template_for<N>([&](auto i) { nodes.push_back(name_of((long)nm::at(keys, i))); });
    }
    {
        auto out = graph.out_edges();      // every (source, destination) of every out-edge list, as stored
        constexpr auto N = meta::len_v<std::decay_t<decltype(out)>>;
        meta::template_for<N>([&](auto i) { auto e = nm::at(out, i);
            edges.push_back(name_of((long)nm::get<0>(e)) + ">" + name_of((long)nm::get<1>(e))); });
    }
    std::sort(nodes.begin(), nodes.end()); std::sort(edges.begin(), edges.end());
    std::set<long> ids; for (auto& v : vars) ids.insert(v.id);
    std::string o = "dag nodes " + std::to_string(nodes.size());
    for (size_t k = 0; k < nodes.size(); k++) o += (k ? "," : " ") + nodes[k];
    o += " | edges " + std::to_string(edges.size());
    for (size_t k = 0; k < edges.size(); k++) o += (k ? "," : " ") + edges[k];
    o += " | distinct " + std::to_string(ids.size()) + "/" + std::to_string(vars.size());
    return o;
}

// Two tables = two translation units of the same source (-DC14G_PART=1 / 2): a graph of 6..9 nodes costs
// 3-6 s of template instantiation, the parts are built in different build groups.
#ifndef C14G_PART
#define C14G_PART 1
#endif
#if C14G_PART == 1
// the table (generated once from the program strings; one row = the program and the same program as C++)
#define DAGS(X) \
  X("x=L0;d=exp(x)", auto x_ = view::alias(arr0, 0_ct); auto d_ = view::exp(x_); return report(d_, {{"x", id_of(x_)}, {"d", id_of(d_)}});) \
  X("x=L0;y=L1;d=sub(x,y)", auto x_ = view::alias(arr0, 0_ct); auto y_ = view::alias(arr1, 1_ct); auto d_ = view::subtract(x_, y_); return report(d_, {{"x", id_of(x_)}, {"y", id_of(y_)}, {"d", id_of(d_)}});) \
  X("x=L0;y=L1;d=sub(y,x)", auto x_ = view::alias(arr0, 0_ct); auto y_ = view::alias(arr1, 1_ct); auto d_ = view::subtract(y_, x_); return report(d_, {{"x", id_of(x_)}, {"y", id_of(y_)}, {"d", id_of(d_)}});) \
  X("x=L0;d=mul(x,x)", auto x_ = view::alias(arr0, 0_ct); auto d_ = view::multiply(x_, x_); return report(d_, {{"x", id_of(x_)}, {"d", id_of(d_)}});) \
  X("i=L0;m=exp(i);s=sub(i,m);e=tanh(s);r=cos(s);d=add(e,r)", auto i_ = view::alias(arr0, 0_ct); auto m_ = view::exp(i_); auto s_ = view::subtract(i_, m_); auto e_ = view::tanh(s_); auto r_ = view::cos(s_); auto d_ = view::add(e_, r_); return report(d_, {{"i", id_of(i_)}, {"m", id_of(m_)}, {"s", id_of(s_)}, {"e", id_of(e_)}, {"r", id_of(r_)}, {"d", id_of(d_)}});) \
  X("x=L0;y=L1;p=sub(x,y);q=sub(y,x);d=mul(p,q)", auto x_ = view::alias(arr0, 0_ct); auto y_ = view::alias(arr1, 1_ct); auto p_ = view::subtract(x_, y_); auto q_ = view::subtract(y_, x_); auto d_ = view::multiply(p_, q_); return report(d_, {{"x", id_of(x_)}, {"y", id_of(y_)}, {"p", id_of(p_)}, {"q", id_of(q_)}, {"d", id_of(d_)}});) \
  X("x=L0;u=exp(x);p=tanh(u);q=cos(u);r=sin(u);s=add(p,q);d=sub(s,r)", auto x_ = view::alias(arr0, 0_ct); auto u_ = view::exp(x_); auto p_ = view::tanh(u_); auto q_ = view::cos(u_); auto r_ = view::sin(u_); auto s_ = view::add(p_, q_); auto d_ = view::subtract(s_, r_); return report(d_, {{"x", id_of(x_)}, {"u", id_of(u_)}, {"p", id_of(p_)}, {"q", id_of(q_)}, {"r", id_of(r_)}, {"s", id_of(s_)}, {"d", id_of(d_)}});) \
  X("x=L0;y=L1;s=sub(x,y);e=exp(s);t=tanh(s);a=add(e,t);c=cos(a);n=sin(a);d=div(c,n)", auto x_ = view::alias(arr0, 0_ct); auto y_ = view::alias(arr1, 1_ct); auto s_ = view::subtract(x_, y_); auto e_ = view::exp(s_); auto t_ = view::tanh(s_); auto a_ = view::add(e_, t_); auto c_ = view::cos(a_); auto n_ = view::sin(a_); auto d_ = view::divide(c_, n_); return report(d_, {{"x", id_of(x_)}, {"y", id_of(y_)}, {"s", id_of(s_)}, {"e", id_of(e_)}, {"t", id_of(t_)}, {"a", id_of(a_)}, {"c", id_of(c_)}, {"n", id_of(n_)}, {"d", id_of(d_)}});) \
  X("x=L0;u=exp(x);v=tanh(u);d=sub(v,x)", auto x_ = view::alias(arr0, 0_ct); auto u_ = view::exp(x_); auto v_ = view::tanh(u_); auto d_ = view::subtract(v_, x_); return report(d_, {{"x", id_of(x_)}, {"u", id_of(u_)}, {"v", id_of(v_)}, {"d", id_of(d_)}});) \
  X("x=L0;u=exp(x);v=tanh(u);d=sub(x,v)", auto x_ = view::alias(arr0, 0_ct); auto u_ = view::exp(x_); auto v_ = view::tanh(u_); auto d_ = view::subtract(x_, v_); return report(d_, {{"x", id_of(x_)}, {"u", id_of(u_)}, {"v", id_of(v_)}, {"d", id_of(d_)}});) \
  X("x=L0;y=L1;p=div(x,y);q=div(y,x);r=pow(x,y);s=pow(y,x);t=sub(p,q);u=sub(r,s);d=add(t,u)", auto x_ = view::alias(arr0, 0_ct); auto y_ = view::alias(arr1, 1_ct); auto p_ = view::divide(x_, y_); auto q_ = view::divide(y_, x_); auto r_ = view::power(x_, y_); auto s_ = view::power(y_, x_); auto t_ = view::subtract(p_, q_); auto u_ = view::subtract(r_, s_); auto d_ = view::add(t_, u_); return report(d_, {{"x", id_of(x_)}, {"y", id_of(y_)}, {"p", id_of(p_)}, {"q", id_of(q_)}, {"r", id_of(r_)}, {"s", id_of(s_)}, {"t", id_of(t_)}, {"u", id_of(u_)}, {"d", id_of(d_)}});) \
  X("x=L0;y=L1;z=L2;w=L3;p=sub(x,w);q=sub(y,z);r=sub(w,x);s=mul(p,q);d=add(s,r)", auto x_ = view::alias(arr0, 0_ct); auto y_ = view::alias(arr1, 1_ct); auto z_ = view::alias(arr2, 2_ct); auto w_ = view::alias(arr3, 3_ct); auto p_ = view::subtract(x_, w_); auto q_ = view::subtract(y_, z_); auto r_ = view::subtract(w_, x_); auto s_ = view::multiply(p_, q_); auto d_ = view::add(s_, r_); return report(d_, {{"x", id_of(x_)}, {"y", id_of(y_)}, {"z", id_of(z_)}, {"w", id_of(w_)}, {"p", id_of(p_)}, {"q", id_of(q_)}, {"r", id_of(r_)}, {"s", id_of(s_)}, {"d", id_of(d_)}});) \
  X("x=L0;y=L1;z=L2;p=sub(x,y);q=sub(y,z);r=sub(z,x);s=mul(p,q);d=add(s,r)", auto x_ = view::alias(arr0, 0_ct); auto y_ = view::alias(arr1, 1_ct); auto z_ = view::alias(arr2, 2_ct); auto p_ = view::subtract(x_, y_); auto q_ = view::subtract(y_, z_); auto r_ = view::subtract(z_, x_); auto s_ = view::multiply(p_, q_); auto d_ = view::add(s_, r_); return report(d_, {{"x", id_of(x_)}, {"y", id_of(y_)}, {"z", id_of(z_)}, {"p", id_of(p_)}, {"q", id_of(q_)}, {"r", id_of(r_)}, {"s", id_of(s_)}, {"d", id_of(d_)}});) \
  X("x=L0;y=L1;p=add(x,y);q=sub(p,x);r=mul(q,x);d=div(r,p)", auto x_ = view::alias(arr0, 0_ct); auto y_ = view::alias(arr1, 1_ct); auto p_ = view::add(x_, y_); auto q_ = view::subtract(p_, x_); auto r_ = view::multiply(q_, x_); auto d_ = view::divide(r_, p_); return report(d_, {{"x", id_of(x_)}, {"y", id_of(y_)}, {"p", id_of(p_)}, {"q", id_of(q_)}, {"r", id_of(r_)}, {"d", id_of(d_)}});) \
  X("x=L0;u=exp(x);s=sub(u,x);p=tanh(s);q=mul(p,s);d=add(q,s)", auto x_ = view::alias(arr0, 0_ct); auto u_ = view::exp(x_); auto s_ = view::subtract(u_, x_); auto p_ = view::tanh(s_); auto q_ = view::multiply(p_, s_); auto d_ = view::add(q_, s_); return report(d_, {{"x", id_of(x_)}, {"u", id_of(u_)}, {"s", id_of(s_)}, {"p", id_of(p_)}, {"q", id_of(q_)}, {"d", id_of(d_)}});) \
  X("x=L0;y=L1;s=sub(x,y);t=sub(y,x);u=mul(s,t);v=div(s,t);w=div(t,s);k=sub(u,v);d=add(k,w)", auto x_ = view::alias(arr0, 0_ct); auto y_ = view::alias(arr1, 1_ct); auto s_ = view::subtract(x_, y_); auto t_ = view::subtract(y_, x_); auto u_ = view::multiply(s_, t_); auto v_ = view::divide(s_, t_); auto w_ = view::divide(t_, s_); auto k_ = view::subtract(u_, v_); auto d_ = view::add(k_, w_); return report(d_, {{"x", id_of(x_)}, {"y", id_of(y_)}, {"s", id_of(s_)}, {"t", id_of(t_)}, {"u", id_of(u_)}, {"v", id_of(v_)}, {"w", id_of(w_)}, {"k", id_of(k_)}, {"d", id_of(d_)}});)
#else
// random DAGs (offline seeded generator, fixed): random sharing and operand order
#define DAGS(X) \
  X("l0=L0;v0=tanh(l0);v1=div(l0,v0);v2=exp(v0);v3=sin(v2);v4=exp(v1);v5=sub(v3,v4)", auto l0_ = view::alias(arr0, 0_ct); auto v0_ = view::tanh(l0_); auto v1_ = view::divide(l0_, v0_); auto v2_ = view::exp(v0_); auto v3_ = view::sin(v2_); auto v4_ = view::exp(v1_); auto v5_ = view::subtract(v3_, v4_); return report(v5_, {{"l0", id_of(l0_)}, {"v0", id_of(v0_)}, {"v1", id_of(v1_)}, {"v2", id_of(v2_)}, {"v3", id_of(v3_)}, {"v4", id_of(v4_)}, {"v5", id_of(v5_)}});) \
  X("l0=L0;v0=exp(l0);v1=add(l0,v0);v2=tanh(l0);v3=sub(v1,v0);v4=sin(v2);v5=sub(v3,v4)", auto l0_ = view::alias(arr0, 0_ct); auto v0_ = view::exp(l0_); auto v1_ = view::add(l0_, v0_); auto v2_ = view::tanh(l0_); auto v3_ = view::subtract(v1_, v0_); auto v4_ = view::sin(v2_); auto v5_ = view::subtract(v3_, v4_); return report(v5_, {{"l0", id_of(l0_)}, {"v0", id_of(v0_)}, {"v1", id_of(v1_)}, {"v2", id_of(v2_)}, {"v3", id_of(v3_)}, {"v4", id_of(v4_)}, {"v5", id_of(v5_)}});) \
  X("l0=L0;v0=sin(l0);v1=div(l0,v0);v2=add(v0,l0);v3=sub(v2,v0);v4=sub(v1,v3)", auto l0_ = view::alias(arr0, 0_ct); auto v0_ = view::sin(l0_); auto v1_ = view::divide(l0_, v0_); auto v2_ = view::add(v0_, l0_); auto v3_ = view::subtract(v2_, v0_); auto v4_ = view::subtract(v1_, v3_); return report(v4_, {{"l0", id_of(l0_)}, {"v0", id_of(v0_)}, {"v1", id_of(v1_)}, {"v2", id_of(v2_)}, {"v3", id_of(v3_)}, {"v4", id_of(v4_)}});) \
  X("l0=L0;l1=L1;v0=neg(l1);v1=neg(v0);v2=div(v0,l0);v3=div(l1,v2);v4=sub(v1,v3)", auto l0_ = view::alias(arr0, 0_ct); auto l1_ = view::alias(arr1, 1_ct); auto v0_ = view::negative(l1_); auto v1_ = view::negative(v0_); auto v2_ = view::divide(v0_, l0_); auto v3_ = view::divide(l1_, v2_); auto v4_ = view::subtract(v1_, v3_); return report(v4_, {{"l0", id_of(l0_)}, {"l1", id_of(l1_)}, {"v0", id_of(v0_)}, {"v1", id_of(v1_)}, {"v2", id_of(v2_)}, {"v3", id_of(v3_)}, {"v4", id_of(v4_)}});) \
  X("l0=L0;l1=L1;v0=pow(l1,l0);v1=div(l1,l0);v2=sin(l0);v3=pow(v2,v0);v4=sub(v1,v3)", auto l0_ = view::alias(arr0, 0_ct); auto l1_ = view::alias(arr1, 1_ct); auto v0_ = view::power(l1_, l0_); auto v1_ = view::divide(l1_, l0_); auto v2_ = view::sin(l0_); auto v3_ = view::power(v2_, v0_); auto v4_ = view::subtract(v1_, v3_); return report(v4_, {{"l0", id_of(l0_)}, {"l1", id_of(l1_)}, {"v0", id_of(v0_)}, {"v1", id_of(v1_)}, {"v2", id_of(v2_)}, {"v3", id_of(v3_)}, {"v4", id_of(v4_)}});) \
  X("l0=L0;v0=sin(l0);v1=exp(l0);v2=div(v1,l0);v3=pow(v1,v0);v4=sub(v2,v3)", auto l0_ = view::alias(arr0, 0_ct); auto v0_ = view::sin(l0_); auto v1_ = view::exp(l0_); auto v2_ = view::divide(v1_, l0_); auto v3_ = view::power(v1_, v0_); auto v4_ = view::subtract(v2_, v3_); return report(v4_, {{"l0", id_of(l0_)}, {"v0", id_of(v0_)}, {"v1", id_of(v1_)}, {"v2", id_of(v2_)}, {"v3", id_of(v3_)}, {"v4", id_of(v4_)}});) \
  X("l0=L0;v0=cos(l0);v1=exp(v0);v2=pow(l0,v0);v3=sub(l0,v1);v4=sub(v2,v3)", auto l0_ = view::alias(arr0, 0_ct); auto v0_ = view::cos(l0_); auto v1_ = view::exp(v0_); auto v2_ = view::power(l0_, v0_); auto v3_ = view::subtract(l0_, v1_); auto v4_ = view::subtract(v2_, v3_); return report(v4_, {{"l0", id_of(l0_)}, {"v0", id_of(v0_)}, {"v1", id_of(v1_)}, {"v2", id_of(v2_)}, {"v3", id_of(v3_)}, {"v4", id_of(v4_)}});) \
  X("l0=L0;v0=cos(l0);v1=sin(l0);v2=mul(v1,v0);v3=neg(v1);v4=add(v3,v1);v5=sub(v2,v4)", auto l0_ = view::alias(arr0, 0_ct); auto v0_ = view::cos(l0_); auto v1_ = view::sin(l0_); auto v2_ = view::multiply(v1_, v0_); auto v3_ = view::negative(v1_); auto v4_ = view::add(v3_, v1_); auto v5_ = view::subtract(v2_, v4_); return report(v5_, {{"l0", id_of(l0_)}, {"v0", id_of(v0_)}, {"v1", id_of(v1_)}, {"v2", id_of(v2_)}, {"v3", id_of(v3_)}, {"v4", id_of(v4_)}, {"v5", id_of(v5_)}});)
#endif

static std::string handle(const Case& c) {
    if (c.op == "dag") {
        std::string p = c.args[0].raw.substr(2);
        std::array<float, 4> arr0{0.1f, 0.2f, 0.3f, 0.4f}, arr1{4.f, 3.f, 2.f, 1.f}, arr2{1.5f, 2.5f, 3.5f, 4.5f}, arr3{2.f, 7.f, 1.f, 8.f};
        (void)arr1; (void)arr2; (void)arr3;
#define X(prog, ...) if (p == prog) { __VA_ARGS__ }
        DAGS(X)
#undef X
        return "unsupported";
    }
    return "unsupported";
}

int main() { return vd::run_main(handle); }
