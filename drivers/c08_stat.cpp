// c08_stat.cpp — C08 derived statistics on double data (element = x/7 of the integer case data):
//   stat S:<mean|var|stddev> S:<kd> A:<arr> <axis: N | I:k | L:..> I:<ddof>
//   vnorm S:<kd> A:<arr> <axis> I:<ord>          (view::vector_norm)
//   trace A:<arr>                                (view::trace, default offset/axes, integer data)
//   u8 S:<sum|prod|cumsum> S:<def|rt1|ct0> A:<arr> <axis> <init>   (uint8 data: accumulation mod 256)
//   dt S:<sum|prod> S:<f64|i32> S:<kd> A:<arr> <axis> <init>   (explicit result dtype on int64 data)
// kd: def | rt0 | rt1 | ct0 | ct1.  Results are printed with %.17g and compared with relative tolerance 1e-9.
#include "nmtools/array/view/mean.hpp"
#include "nmtools/array/view/var.hpp"
#include "nmtools/array/view/stddev.hpp"
#include "nmtools/array/view/vector_norm.hpp"
#include "nmtools/array/view/trace.hpp"
#include "nmtools/array/view/sum.hpp"
#include "nmtools/array/view/prod.hpp"
#include "nmtools/array/view/cumsum.hpp"
#include "nmtools/array/array/sum.hpp"
#include "nmtools/array/array/prod.hpp"
#include "nmtools/array/array/cumsum.hpp"
#include "nmtools/array/array/cumprod.hpp"
#include "nmtools/array/array/mean.hpp"
#include <cstdint>
#include <optional>
#include "show.hpp"

namespace view = nmtools::view;
using namespace vd;
using nm::None; using nm::True; using nm::False;

// show.hpp prints a number through (long long)v; a 0-dim *view* (axis=None, keepdims=False) must first be
// converted to its element type, otherwise a double result would be truncated by the printer
template <typename V>
static std::string showf(const V& v) {
    if constexpr (meta::is_either_v<V>) {
        using L = meta::get_either_left_t<V>; using R = meta::get_either_right_t<V>;
        if (auto l = nm::get_if<L>(&v)) return showf(*l); else return showf(*nm::get_if<R>(&v));
    } else if constexpr (meta::is_maybe_v<V>) {
        if (!nm::has_value(v)) return "nothing"; return showf(*v);
    } else if constexpr (meta::is_num_v<V> && !std::is_arithmetic_v<V>) {
        using T = meta::get_element_type_t<V>;
        return "ok  ; " + num_str(static_cast<T>(v));
    } else return show(v);
}

static dyn_t<double> make_darray(const Arg& A) {
    auto a = make_array<dyn_t<double>>(A);
    std::vector<size_t> shp(A.shape.begin(), A.shape.end());
    std::vector<size_t> idx(shp.size(), 0);
    size_t n = 1; for (auto e : shp) n *= e;
    for (size_t c = 0; c < n; c++) {
        a(idx) = (double)A.list[c] / 7.0;
        for (int d = (int)shp.size() - 1; d >= 0; d--) { if (++idx[d] < shp[d]) break; idx[d] = 0; }
    }
    return a;
}

template <typename F, typename axis_t>
static std::string stat_kd(const std::string& kd, F&& f, const axis_t& ax) {
    if (kd == "def") return showf(f(ax));
    if (kd == "rt0") return showf(f(ax, false));
    if (kd == "rt1") return showf(f(ax, true));
    if (kd == "ct0") return showf(f(ax, False));
    if (kd == "ct1") return showf(f(ax, True));
    return "unsupported";
}
template <typename F>
static std::string stat_axis(const Arg& ax, const std::string& kd, F&& f) {
    if (ax.kind == 'N') return stat_kd(kd, f, None);
    if (ax.kind == 'I') return stat_kd(kd, f, (int)ax.val);
    return stat_kd(kd, f, vec_of<int>(ax.list));
}

// ---- eager array:: overload arities (see c08_forms.cpp): values + element type of the evaluated array
template <typename T> static std::string tname() {
    if constexpr (std::is_floating_point_v<T>) return sizeof(T) == 4 ? "f32" : "f64";
    else if constexpr (std::is_integral_v<T>) return std::string(std::is_signed_v<T> ? "i" : "u") + std::to_string(8 * sizeof(T));
    else return "other";
}
template <typename V>
static std::string tagged(const V& v) {
    if constexpr (meta::is_maybe_v<V>) { if (!nm::has_value(v)) return "nothing"; return tagged(*v); }
    else if constexpr (std::is_arithmetic_v<V>) return "ok  ; " + num_str(v) + " ; view=" + tname<V>();
    else { using T = meta::get_element_type_t<V>; return show(v) + " ; view=" + tname<T>(); }
}
#define F(NAME, EXPR) if (form == NAME) return tagged(EXPR);
static std::string eager_form(const Case& c) {
    namespace na = nmtools::array;
    const std::string form = c.args[0].raw.substr(2);
    auto a = make_array<dyn_t<int8_t>>(c.args[4]);
    const int ax = (int)c.args[5].val; const ll ini = c.args[6].val;
    const auto dt = nm::int32; const auto fd = nm::float64;
    F("asum2", na::sum(a, ax)) F("asum3", na::sum(a, ax, dt)) F("asum4", na::sum(a, ax, dt, ini)) F("asum5", na::sum(a, ax, dt, ini, True))
    F("aprod2", na::prod(a, ax)) F("aprod3", na::prod(a, ax, dt)) F("aprod4", na::prod(a, ax, dt, ini)) F("aprod5", na::prod(a, ax, dt, ini, True))
    F("acumsum2", na::cumsum(a, ax)) F("acumsum3", na::cumsum(a, ax, dt)) F("acumprod2", na::cumprod(a, ax)) F("acumprod3", na::cumprod(a, ax, dt))
    F("amean2", na::mean(a, ax)) F("amean3", na::mean(a, ax, fd)) F("amean4", na::mean(a, ax, fd, True))
    return "unsupported";
}

static std::string handle(const Case& c) {
    if (c.op == "form") return eager_form(c);
    if (c.op == "stat") {
        const std::string fn = c.args[0].raw.substr(2), kd = c.args[1].raw.substr(2);
        auto a = make_darray(c.args[2]); const Arg& ax = c.args[3]; size_t ddof = (size_t)c.args[4].val;
        if (fn == "mean") return stat_axis(ax, kd, [&](const auto& axis, auto... k) { return view::mean(a, axis, None, k...); });
        if (fn == "var") return stat_axis(ax, kd, [&](const auto& axis, auto... k) { return view::var(a, axis, None, ddof, k...); });
        if (fn == "stddev") return stat_axis(ax, kd, [&](const auto& axis, auto... k) { return view::stddev(a, axis, None, ddof, k...); });
        return "unsupported";
    }
    if (c.op == "dt") {
        // dt S:<sum|prod> S:<f64|i32> S:<kd> A:<arr> <axis> <init> — an explicitly requested result dtype on int64 data
        // (values small: the cast changes the element type, not the value); result type printed too
        const std::string fn = c.args[0].raw.substr(2), dt = c.args[1].raw.substr(2), kd = c.args[2].raw.substr(2);
        auto a = make_array(c.args[3]); const Arg& ax = c.args[4]; const Arg& init = c.args[5];
        auto go = [&](auto dtype, auto ini) -> std::string {
            auto f = [&](const auto& axis, auto... k) {
                if constexpr (sizeof...(k) == 0) { if (fn == "sum") return showf(view::sum(a, axis, dtype, ini)); else return showf(view::prod(a, axis, dtype, ini)); }
                else { if (fn == "sum") return showf(view::sum(a, axis, dtype, ini, k...)); else return showf(view::prod(a, axis, dtype, ini, k...)); }
            };
            auto wrap = [&](const auto& axis, auto... k) { return std::optional<std::string>(f(axis, k...)); };
            (void)wrap;
            if (ax.kind == 'N') { if (kd == "def") return f(None); if (kd == "rt0") return f(None, false); if (kd == "rt1") return f(None, true); if (kd == "ct0") return f(None, False); return f(None, True); }
            if (ax.kind == 'I') { int x = (int)ax.val; if (kd == "def") return f(x); if (kd == "rt0") return f(x, false); if (kd == "rt1") return f(x, true); if (kd == "ct0") return f(x, False); return f(x, True); }
            auto v = vec_of<int>(ax.list);
            if (kd == "def") return f(v); if (kd == "rt0") return f(v, false); if (kd == "rt1") return f(v, true); if (kd == "ct0") return f(v, False); return f(v, True);
        };
        auto with_init = [&](auto dtype) -> std::string { if (init.kind == 'N') return go(dtype, None); return go(dtype, (ll)init.val); };
        if (dt == "f64") return with_init(nm::float64);
        if (dt == "i32") return with_init(nm::int32);
        return "unsupported";
    }
    if (c.op == "u8") {
        // u8 S:<sum|prod|cumsum> S:<kd> A:<arr> <axis> <init> — uint8 data: the accumulator has the operand's element type,
        // so every step is reduced mod 256 (unsigned wrap-around is defined behaviour)
        const std::string fn = c.args[0].raw.substr(2), kd = c.args[1].raw.substr(2);
        auto a = make_array<dyn_t<unsigned char>>(c.args[2]); const Arg& ax = c.args[3]; const Arg& init = c.args[4];
        if (fn == "cumsum") return showf(view::cumsum(a, (int)ax.val, None));   // 3-argument form: the 2-argument one is ambiguous with array::cumsum here
        auto go = [&](auto ini) -> std::string {
            auto f = [&](const auto& axis, auto... k) {
                if constexpr (sizeof...(k) == 0) { if (fn == "sum") return showf(view::sum(a, axis, None, ini)); else return showf(view::prod(a, axis, None, ini)); }
                else { if (fn == "sum") return showf(view::sum(a, axis, None, ini, k...)); else return showf(view::prod(a, axis, None, ini, k...)); }
            };
            if (ax.kind == 'N') { if (kd == "def") return f(None); if (kd == "rt1") return f(None, true); return f(None, False); }
            if (ax.kind == 'I') { int x = (int)ax.val; if (kd == "def") return f(x); if (kd == "rt1") return f(x, true); return f(x, False); }
            auto v = vec_of<int>(ax.list);
            if (kd == "def") return f(v); if (kd == "rt1") return f(v, true); return f(v, False);
        };
        if (init.kind == 'N') return go(None);
        return go((unsigned char)init.val);
    }
    if (c.op == "vnorm") {
        const std::string kd = c.args[0].raw.substr(2);
        auto a = make_darray(c.args[1]); const Arg& ax = c.args[2]; int ord = (int)c.args[3].val;
        auto f = [&](const auto& axis, auto... k) {
            if constexpr (sizeof...(k) == 0) return view::vector_norm(a, axis, False, ord);
            else return view::vector_norm(a, axis, k..., ord);
        };
        return stat_axis(ax, kd, f);
    }
    if (c.op == "trace") {
        auto a = make_array(c.args[0]);
        return showf(view::trace(a));
    }
    return "unsupported";
}

int main() { return vd::run_main(handle); }
