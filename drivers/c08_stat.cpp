// c08_stat.cpp — C08 derived statistics on double data (element = x/7 of the integer case data):
//   stat S:<mean|var|stddev> S:<kd> A:<arr> <axis: N | I:k | L:..> I:<ddof>
//   vnorm S:<kd> A:<arr> <axis> I:<ord>          (view::vector_norm)
//   trace A:<arr>                                (view::trace, default offset/axes, integer data)
// kd: def | rt0 | rt1 | ct0 | ct1.  Results are printed with %.17g and compared with relative tolerance 1e-9.
#include "nmtools/array/view/mean.hpp"
#include "nmtools/array/view/var.hpp"
#include "nmtools/array/view/stddev.hpp"
#include "nmtools/array/view/vector_norm.hpp"
#include "nmtools/array/view/trace.hpp"
#include "show.hpp"

namespace view = nmtools::view;
using namespace vd;
using nm::None; using nm::True; using nm::False;

// show.hpp prints a number through (long long)v; a 0-dim *view* (axis=None, keepdims=False) must first be
// converted to its element type, otherwise a double result would be truncated by the printer
template <typename V>
static std::string showf(const V& v) {
    if constexpr (meta::is_either_v<V>) {
        using L = meta::get_either_left_t<V>; using R = meta::get_either_right_t<V>;
        if (auto l = nm::get_if<L>(&v)) return showf(*l); else return showf(*nm::get_if<R>(&v));
    } else if constexpr (meta::is_maybe_v<V>) {
        if (!nm::has_value(v)) return "nothing"; return showf(*v);
    } else if constexpr (meta::is_num_v<V> && !std::is_arithmetic_v<V>) {
        using T = meta::get_element_type_t<V>;
        return "ok  ; " + num_str(static_cast<T>(v));
    } else return show(v);
}

static dyn_t<double> make_darray(const Arg& A) {
    auto a = make_array<dyn_t<double>>(A);
    std::vector<size_t> shp(A.shape.begin(), A.shape.end());
    std::vector<size_t> idx(shp.size(), 0);
    size_t n = 1; for (auto e : shp) n *= e;
    for (size_t c = 0; c < n; c++) {
        a(idx) = (double)A.list[c] / 7.0;
        for (int d = (int)shp.size() - 1; d >= 0; d--) { if (++idx[d] < shp[d]) break; idx[d] = 0; }
    }
    return a;
}

template <typename F, typename axis_t>
static std::string stat_kd(const std::string& kd, F&& f, const axis_t& ax) {
    if (kd == "def") return showf(f(ax));
    if (kd == "rt0") return showf(f(ax, false));
    if (kd == "rt1") return showf(f(ax, true));
    if (kd == "ct0") return showf(f(ax, False));
    if (kd == "ct1") return showf(f(ax, True));
    return "unsupported";
}
template <typename F>
static std::string stat_axis(const Arg& ax, const std::string& kd, F&& f) {
    if (ax.kind == 'N') return stat_kd(kd, f, None);
    if (ax.kind == 'I') return stat_kd(kd, f, (int)ax.val);
    return stat_kd(kd, f, vec_of<int>(ax.list));
}

static std::string handle(const Case& c) {
    if (c.op == "stat") {
        const std::string fn = c.args[0].raw.substr(2), kd = c.args[1].raw.substr(2);
        auto a = make_darray(c.args[2]); const Arg& ax = c.args[3]; size_t ddof = (size_t)c.args[4].val;
        if (fn == "mean") return stat_axis(ax, kd, [&](const auto& axis, auto... k) { return view::mean(a, axis, None, k...); });
        if (fn == "var") return stat_axis(ax, kd, [&](const auto& axis, auto... k) { return view::var(a, axis, None, ddof, k...); });
        if (fn == "stddev") return stat_axis(ax, kd, [&](const auto& axis, auto... k) { return view::stddev(a, axis, None, ddof, k...); });
        return "unsupported";
    }
    if (c.op == "vnorm") {
        const std::string kd = c.args[0].raw.substr(2);
        auto a = make_darray(c.args[1]); const Arg& ax = c.args[2]; int ord = (int)c.args[3].val;
        auto f = [&](const auto& axis, auto... k) {
            if constexpr (sizeof...(k) == 0) return view::vector_norm(a, axis, False, ord);
            else return view::vector_norm(a, axis, k..., ord);
        };
        return stat_axis(ax, kd, f);
    }
    if (c.op == "trace") {
        auto a = make_array(c.args[0]);
        return showf(view::trace(a));
    }
    return "unsupported";
}

int main() { return vd::run_main(handle); }
