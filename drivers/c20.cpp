// c20.cpp — implementation side of the C20 correspondence, part 1: operation
// histories on the generic array::ndarray_t (every shape-container kind x buffer
// kind that has a resize member or a constant shape, row- and column-major).
// C20_FORMS_REV 1
//
// case line:  hist S:<shape kind>/<buffer kind>/<layout> S:<op>;<op>;...
//             histcast S:<kind> S:<ops> S:<kind tag>      (the history, then nm::cast(array, kind::<tag>))
//   shape kind  d (std::vector)  f2 f3 (std::array)  b3 (utl::static_vector<.,3>)  h3 (array::static_vector<.,3>)
//               l3x4 (tuple of clipped_size_t<3>,<4>)  l6x6 (std::array<clipped_size_t<6>,2>)  c2x3 (tuple of ct)
//   buffer kind d (std::vector)  f6 f12 (std::array)  b12 (utl::static_vector<.,12>)  h12 (array::static_vector<.,12>)
//   layout      r | c
//   op   r<form>2,3  resize to (2,3), the request passed in the given argument form (c20_forms.hpp; no letter = v)
//                    -> flag T/F; after an ACCEPTED resize a distinct value 1000*step+k is written through operator()
//                    at the k-th index (nested-loop order) of EVERY index, so that every later read is determined
//        w5=7    write 7 at the 5-th (mod size) index in nested-loop order
//        c       copy-construct, continue on the copy (the original is scribbled on and destroyed)
//        a2,3    assign from another array of the same type that was resized to (2,3) and filled with 100+k
// result: one record per state (initial state first), separated by " ; ":
//   <flag>|<shape>|<strides()>|<offset functor strides>|<size()>|<len(data_)>|<all elements via operator()>|<raw buffer data_[0..]>
#include "nmtools/array/ndarray.hpp"
#include "nmtools/utl/static_vector.hpp"
#include "nmtools/utility/cast.hpp"
#include "c20_forms.hpp"
#include <memory>

namespace na = nmtools::array;
namespace kind = nmtools::array::kind;
using namespace vd;

template <typename C>
static std::vector<size_t> to_vec(const C& c) {
    std::vector<size_t> r;
    if constexpr (meta::is_tuple_v<C>) {
        constexpr auto N = meta::len_v<C>;
        meta::template_for<N>([&](auto i){ r.push_back((size_t)nm::at(c, i)); });
    } else {
        auto n = (size_t)nm::len(c);
        for (size_t i = 0; i < n; i++) r.push_back((size_t)nm::at(c, i));
    }
    return r;
}
static std::string joinv(const std::vector<size_t>& v) { return join(v.begin(), v.end()); }

static void next_index(std::vector<size_t>& idx, const std::vector<size_t>& ext) {
    for (int d = (int)ext.size() - 1; d >= 0; d--) { if (++idx[d] < ext[d]) break; idx[d] = 0; }
}
static size_t total_of(const std::vector<size_t>& ext) { size_t t = 1; for (auto e : ext) t *= e; return t; }
static std::vector<size_t> unravel(size_t k, const std::vector<size_t>& ext) {
    std::vector<size_t> idx(ext.size(), 0);
    for (int d = (int)ext.size() - 1; d >= 0; d--) { idx[d] = k % ext[d]; k /= ext[d]; }
    return idx;
}

template <typename T>
static std::string dump(const T& a, const char* flag) {
    auto ext = to_vec(a.shape());
    std::string o = std::string(flag) + "|" + joinv(ext) + "|" + joinv(to_vec(a.strides())) + "|"
        + joinv(to_vec(a.offset_.strides_)) + "|" + std::to_string((ll)(size_t)a.size()) + "|"
        + std::to_string((ll)nm::len(a.data_)) + "|";
    size_t total = total_of(ext);
    if (total > 100000) return o + "huge";
    std::vector<size_t> idx(ext.size(), 0);
    for (size_t c = 0; c < total; c++) { o += (c ? "," : "") + std::to_string((ll)a(idx)); next_index(idx, ext); }
    o += "|";
    auto n = (size_t)nm::len(a.data_);
    for (size_t c = 0; c < n; c++) o += (c ? "," : "") + std::to_string((ll)nm::at(a.data_, c));
    return o;
}

template <typename T>
static void fill(T& a, ll base) {
    auto ext = to_vec(a.shape()); size_t total = total_of(ext);
    std::vector<size_t> idx(ext.size(), 0);
    for (size_t c = 0; c < total; c++) { a(idx) = base + (ll)c; next_index(idx, ext); }
}

template <typename T>
static void scribble(T& a) {
    auto n = (size_t)nm::len(a.data_);
    for (size_t i = 0; i < n; i++) nm::at(a.data_, i) = -7;
    if constexpr (!meta::is_constant_index_array_v<typename T::shape_type>) {
        std::vector<size_t> one(to_vec(a.shape()).size(), 1);
        a.resize(one);
    }
}

// run the history; returns false (and the reason in `out`) when an operation is not expressible for T
template <typename T>
static bool run_ops(std::unique_ptr<T>& cur, const std::string& ops, std::string& out) {
    cur = std::make_unique<T>();
    out = dump(*cur, "-");
    size_t p = 0; int step = 0;
    while (p < ops.size()) {
        size_t q = ops.find(';', p); if (q == std::string::npos) q = ops.size();
        std::string o = ops.substr(p, q - p); p = q + 1;
        if (o.empty()) continue;
        step++;
        std::string flag = "-";
        if (o[0] == 'r') {
            if constexpr (meta::is_constant_index_array_v<typename T::shape_type>) { out = "unsupported"; return false; }
            else {
                char form = 'v'; size_t at = 1;
                if (o.size() > 1 && !isdigit((unsigned char)o[1])) { form = o[1]; at = 2; }
                auto sizes = parse_list(o.substr(at));
                // ndarray_t::resize indexes the request with a run-time i (loops at ndarray.hpp:104,149,162), so a tuple
                // request (run-time or ct) never compiles although the signature accepts it; with a tuple shape_type the
                // copy loop is unrolled with compile-time indices, so a fixed-size request must have exactly that rank
                constexpr size_t fix = meta::is_tuple_v<typename T::shape_type> ? (size_t)meta::len_v<typename T::shape_type> : 99;
                flag = c20::call_with_form<0, false, fix>(form, sizes, [&](const auto&... xs) -> std::string { return cur->resize(xs...) ? "T" : "F"; });
                if (flag == "U") { out = "unsupported"; return false; }
                if (flag == "T") fill(*cur, 1000 * (ll)step);
            }
        } else if (o[0] == 'w') {
            size_t e = o.find('=');
            size_t k = (size_t)std::stoll(o.substr(1, e - 1)); ll v = std::stoll(o.substr(e + 1));
            auto ext = to_vec(cur->shape()); size_t total = total_of(ext);
            if (total > 0) { auto idx = unravel(k % total, ext); (*cur)(idx) = v; }
        } else if (o[0] == 'c') {
            auto nb = std::make_unique<T>(*cur);
            scribble(*cur);
            cur = std::move(nb);
        } else if (o[0] == 'a') {
            T other;
            if constexpr (!meta::is_constant_index_array_v<typename T::shape_type>) {
                auto sizes = vec_of<size_t>(parse_list(o.substr(1)));
                other.resize(sizes);
            }
            fill(other, 100);
            *cur = other;
            scribble(other);
        } else { out = "unsupported"; return false; }
        out += " ; " + dump(*cur, flag.c_str());
    }
    return true;
}

// printer for the result of a cast: fixed / hybrid legacy arrays only take an index of their static arity
template <typename X>
static std::string show_any(const X& x) {
    auto ext = to_vec(nm::shape(x));
    std::string o = "ok " + joinv(ext) + " ;";
    size_t total = total_of(ext);
    std::vector<size_t> idx(ext.size(), 0);
    constexpr auto DIM = meta::fixed_dim_v<X>;
    for (size_t c = 0; c < total; c++) {
        if constexpr (!meta::is_fail_v<decltype(DIM)>) {
            std::array<size_t, (size_t)DIM> ai{}; for (size_t d = 0; d < (size_t)DIM; d++) ai[d] = idx[d];
            o += (c ? "," : " ") + num_str(nm::apply_at(x, ai));
        } else o += (c ? "," : " ") + num_str(nm::apply_at(x, idx));
        next_index(idx, ext);
    }
    return o;
}

template <typename Src, typename K>
static std::string to_kind(const Src& src, const K& k) {
    using ret_t = meta::resolve_optype_t<nm::cast_kind_t, Src, K>;
    if constexpr (meta::is_fail_v<ret_t>) return "unsupported";
    else { auto x = nm::cast(src, k); return show_any(x); }
}

template <typename T>
static std::string run_case(const std::string& op, const std::string& ops, const std::string& tag) {
    std::unique_ptr<T> cur; std::string out;
    if (!run_ops(cur, ops, out)) return out;
    if (op == "hist") return out;
#ifndef C20_NO_CAST
#define K(name) if (tag == #name) return to_kind(*cur, kind::name);
    K(dynamic) K(hybrid) K(fixed) K(ndarray_ls_db) K(ndarray_ls_hb)
    // the ndarray_kind_t resolver (ndarray.hpp:731-752) evaluates its clipped-shape arm for every kind tag and reads
    // Args[0] there: for a source with a fixed or bounded dim and a non-clipped tag that is a hard compile error
    // (not a fail_t), so those combinations are only instantiated for sources with a dynamic or constant shape
    using shape_t = typename T::shape_type;
    if constexpr (std::is_same_v<shape_t, std::vector<size_t>> || meta::is_constant_index_array_v<shape_t>) {
        K(ndarray_ds_db) K(ndarray_hs_hb) K(ndarray_fs_fb) K(ndarray_fs_db) K(ndarray_hs_db) K(ndarray_cs_fb) K(ndarray_ds_hb)
    }
#undef K
#endif
    return "unsupported";
}

template <typename buffer_t, typename shape_t>
static std::string with_layout(const std::string& lay, const std::string& op, const std::string& ops, const std::string& tag) {
    if (lay == "r") return run_case<na::ndarray_t<buffer_t, shape_t>>(op, ops, tag);
    if (lay == "c") return run_case<na::column_major_ndarray_t<buffer_t, shape_t>>(op, ops, tag);
    return "unsupported";
}

using sv_d  = std::vector<size_t>;
using sv_f2 = std::array<size_t, 2>;
using sv_f3 = std::array<size_t, 3>;
using sv_b3 = nm::utl::static_vector<size_t, 3>;
using sv_h3 = na::static_vector<size_t, 3>;
using sv_l34 = nmtools_tuple<nm::clipped_size_t<3>, nm::clipped_size_t<4>>;
using sv_l66 = std::array<nm::clipped_size_t<6>, 2>;
using sv_c23 = nmtools_tuple<meta::ct<2>, meta::ct<3>>;
using bv_d   = std::vector<ll>;
using bv_f6  = std::array<ll, 6>;
using bv_f12 = std::array<ll, 12>;
using bv_b12 = nm::utl::static_vector<ll, 12>;
using bv_h12 = na::static_vector<ll, 12>;

static std::string handle(const Case& c) {
    if (c.op != "hist" && c.op != "histcast") return "unsupported";
    std::string kd = c.args[0].raw.substr(2);
    std::string ops = c.args.size() > 1 ? c.args[1].raw.substr(2) : std::string();
    std::string tag = c.args.size() > 2 ? c.args[2].raw.substr(2) : std::string();
    size_t a = kd.find('/'), b = kd.rfind('/');
    std::string s = kd.substr(0, a), bk = kd.substr(a + 1, b - a - 1), lay = kd.substr(b + 1);
    std::string sb = s + "/" + bk;
#define KIND(name, B, S) if (sb == name) return with_layout<B, S>(lay, c.op, ops, tag);
#ifdef C20_PART_A
    KIND("d/d", bv_d, sv_d)     KIND("d/f6", bv_f6, sv_d)    KIND("d/f12", bv_f12, sv_d)  KIND("d/b12", bv_b12, sv_d)
    KIND("f2/d", bv_d, sv_f2)   KIND("f2/f6", bv_f6, sv_f2)  KIND("f2/b12", bv_b12, sv_f2) KIND("f3/d", bv_d, sv_f3)
#endif
#ifdef C20_PART_B
    KIND("b3/d", bv_d, sv_b3)   KIND("b3/f12", bv_f12, sv_b3) KIND("b3/b12", bv_b12, sv_b3) KIND("h3/h12", bv_h12, sv_h3)
    KIND("l3x4/d", bv_d, sv_l34) KIND("l3x4/b12", bv_b12, sv_l34) KIND("l6x6/d", bv_d, sv_l66)
    KIND("c2x3/f6", bv_f6, sv_c23) KIND("c2x3/d", bv_d, sv_c23)
#endif
#undef KIND
    return "unsupported";
}

int main() { return vd::run_main(handle); }
