// c20.cpp — implementation side of the C20 correspondence, part 1: operation
// histories on the generic array::ndarray_t (every shape-container kind x buffer
// kind that has a resize member or a constant shape, row- and column-major).
//
// case line:  hist S:<shape kind>/<buffer kind>/<layout> S:<op>;<op>;...
//   shape kind  d (std::vector)  f2 f3 (std::array)  b3 (utl::static_vector<.,3>)  h3 (array::static_vector<.,3>)
//               l3x4 (tuple of clipped_size_t<3>,<4>)  l6x6 (std::array<clipped_size_t<6>,2>)  c2x3 (tuple of ct)
//   buffer kind d (std::vector)  f6 f12 (std::array)  b12 (utl::static_vector<.,12>)  h12 (array::static_vector<.,12>)
//   layout      r | c
//   op   r2,3    resize to (2,3)                      -> flag T/F
//        w5=7    write 7 at the 5-th (mod size) index in nested-loop order
//        c       copy-construct, continue on the copy (the original is scribbled on and destroyed)
//        a2,3    assign from another array of the same type that was resized to (2,3) and filled with 100+k
// result: one record per state (initial state first), separated by " ; ":
//        <flag>|<shape>|<strides()>|<offset functor strides>|<size()>|<len(data_)>|<all elements via operator()>
#include "nmtools/array/ndarray.hpp"
#include "nmtools/utl/static_vector.hpp"
#include "show.hpp"
#include <memory>

namespace na = nmtools::array;
using namespace vd;

template <typename C>
static std::vector<size_t> to_vec(const C& c) {
    std::vector<size_t> r;
    if constexpr (meta::is_tuple_v<C>) {
        constexpr auto N = meta::len_v<C>;
        meta::template_for<N>([&](auto i){ r.push_back((size_t)nm::at(c, i)); });
    } else {
        auto n = (size_t)nm::len(c);
        for (size_t i = 0; i < n; i++) r.push_back((size_t)nm::at(c, i));
    }
    return r;
}
static std::string joinv(const std::vector<size_t>& v) { return join(v.begin(), v.end()); }

static void next_index(std::vector<size_t>& idx, const std::vector<size_t>& ext) {
    for (int d = (int)ext.size() - 1; d >= 0; d--) { if (++idx[d] < ext[d]) break; idx[d] = 0; }
}
static size_t total_of(const std::vector<size_t>& ext) { size_t t = 1; for (auto e : ext) t *= e; return t; }
static std::vector<size_t> unravel(size_t k, const std::vector<size_t>& ext) {
    std::vector<size_t> idx(ext.size(), 0);
    for (int d = (int)ext.size() - 1; d >= 0; d--) { idx[d] = k % ext[d]; k /= ext[d]; }
    return idx;
}

template <typename T>
static std::string dump(const T& a, const char* flag) {
    auto ext = to_vec(a.shape());
    std::string o = std::string(flag) + "|" + joinv(ext) + "|" + joinv(to_vec(a.strides())) + "|"
        + joinv(to_vec(a.offset_.strides_)) + "|" + std::to_string((ll)(size_t)a.size()) + "|"
        + std::to_string((ll)nm::len(a.data_)) + "|";
    size_t total = total_of(ext);
    if (total > 100000) return o + "huge";
    std::vector<size_t> idx(ext.size(), 0);
    for (size_t c = 0; c < total; c++) { o += (c ? "," : "") + std::to_string((ll)a(idx)); next_index(idx, ext); }
    return o;
}

template <typename T>
static void scribble(T& a) {
    auto n = (size_t)nm::len(a.data_);
    for (size_t i = 0; i < n; i++) nm::at(a.data_, i) = -7;
    if constexpr (!meta::is_constant_index_array_v<typename T::shape_type>) {
        std::vector<size_t> one(to_vec(a.shape()).size(), 1);
        a.resize(one);
    }
}

template <typename T>
static std::string run_history(const std::string& ops) {
    auto cur = std::make_unique<T>();
    std::string out = dump(*cur, "-");
    size_t p = 0;
    while (p < ops.size()) {
        size_t q = ops.find(';', p); if (q == std::string::npos) q = ops.size();
        std::string o = ops.substr(p, q - p); p = q + 1;
        if (o.empty()) continue;
        const char* flag = "-";
        if (o[0] == 'r') {
            if constexpr (meta::is_constant_index_array_v<typename T::shape_type>) return "unsupported";
            else {
                auto sizes = vec_of<size_t>(parse_list(o.substr(1)));
                bool r = cur->resize(sizes);
                flag = r ? "T" : "F";
            }
        } else if (o[0] == 'w') {
            size_t e = o.find('=');
            size_t k = (size_t)std::stoll(o.substr(1, e - 1)); ll v = std::stoll(o.substr(e + 1));
            auto ext = to_vec(cur->shape()); size_t total = total_of(ext);
            if (total > 0) { auto idx = unravel(k % total, ext); (*cur)(idx) = v; }
        } else if (o[0] == 'c') {
            auto nb = std::make_unique<T>(*cur);
            scribble(*cur);
            cur = std::move(nb);
        } else if (o[0] == 'a') {
            T other;
            if constexpr (!meta::is_constant_index_array_v<typename T::shape_type>) {
                auto sizes = vec_of<size_t>(parse_list(o.substr(1)));
                other.resize(sizes);
            }
            auto ext = to_vec(other.shape()); size_t total = total_of(ext);
            std::vector<size_t> idx(ext.size(), 0);
            for (size_t c = 0; c < total; c++) { other(idx) = (ll)(100 + c); next_index(idx, ext); }
            *cur = other;
            scribble(other);
        } else return "unsupported";
        out += " ; " + dump(*cur, flag);
    }
    return out;
}

template <typename buffer_t, typename shape_t>
static std::string with_layout(const std::string& lay, const std::string& ops) {
    if (lay == "r") return run_history<na::ndarray_t<buffer_t, shape_t>>(ops);
    if (lay == "c") return run_history<na::column_major_ndarray_t<buffer_t, shape_t>>(ops);
    return "unsupported";
}

using sv_d  = std::vector<size_t>;
using sv_f2 = std::array<size_t, 2>;
using sv_f3 = std::array<size_t, 3>;
using sv_b3 = nm::utl::static_vector<size_t, 3>;
using sv_h3 = na::static_vector<size_t, 3>;
using sv_l34 = nmtools_tuple<nm::clipped_size_t<3>, nm::clipped_size_t<4>>;
using sv_l66 = std::array<nm::clipped_size_t<6>, 2>;
using sv_c23 = nmtools_tuple<meta::ct<2>, meta::ct<3>>;
using bv_d   = std::vector<ll>;
using bv_f6  = std::array<ll, 6>;
using bv_f12 = std::array<ll, 12>;
using bv_b12 = nm::utl::static_vector<ll, 12>;
using bv_h12 = na::static_vector<ll, 12>;

static std::string handle(const Case& c) {
    if (c.op != "hist") return "unsupported";
    std::string kind = c.args[0].raw.substr(2);
    std::string ops = c.args.size() > 1 ? c.args[1].raw.substr(2) : std::string();
    size_t a = kind.find('/'), b = kind.rfind('/');
    std::string s = kind.substr(0, a), bk = kind.substr(a + 1, b - a - 1), lay = kind.substr(b + 1);
    std::string sb = s + "/" + bk;
#define KIND(name, B, S) if (sb == name) return with_layout<B, S>(lay, ops);
#ifdef C20_PART_A
    KIND("d/d", bv_d, sv_d)     KIND("d/f6", bv_f6, sv_d)    KIND("d/f12", bv_f12, sv_d)  KIND("d/b12", bv_b12, sv_d)
    KIND("f2/d", bv_d, sv_f2)   KIND("f2/f6", bv_f6, sv_f2)  KIND("f2/b12", bv_b12, sv_f2) KIND("f3/d", bv_d, sv_f3)
#endif
#ifdef C20_PART_B
    KIND("b3/d", bv_d, sv_b3)   KIND("b3/f12", bv_f12, sv_b3) KIND("b3/b12", bv_b12, sv_b3) KIND("h3/h12", bv_h12, sv_h3)
    KIND("l3x4/d", bv_d, sv_l34) KIND("l3x4/b12", bv_b12, sv_l34) KIND("l6x6/d", bv_d, sv_l66)
    KIND("c2x3/f6", bv_f6, sv_c23) KIND("c2x3/d", bv_d, sv_c23)
#endif
#undef KIND
    return "unsupported";
}

int main() { return vd::run_main(handle); }
