// c18.cpp — implementation side of the C18 correspondence: utils::isequal / utils::isclose.
// Case lines:  <eq|cl>_<form> args... [I:eps]      (cl: last argument is eps; values and eps are
// integers scaled by 4 on the wire: the C++ operand is v/4.0 (exact in binary), eps/4.0)
//   nn  I:a I:b                     scalar / scalar
//   ii  S:ka S:kb L:a L:b           integer containers  (vec | arr | tup | ct)   public entry point
//   dii S:ka S:kb L:a L:b           same through utils::detail::isequal (the entry the library itself uses)
//   aa  S:ka S:kb A:a A:b           ndarrays (dyn | ref | rsh | fix)
//   ia  S:k L:a A:b   /  ai S:k A:a L:b
//   mm  M M  / ma M A / am A M      M = N | A:..      (nmtools_maybe<dyn>)
//   ee  E E  / ea E A / ae A E / en E I / ne I E      E = A:.. (left, dyn) | I:.. (right, scalar)
//   tt  A A A A                     tuple<dyn,dyn> vs tuple<dyn,dyn>
//   tm  M I M I                     tuple<maybe<dyn>,scalar> vs same
//   mt  M I M I                     maybe<tuple<dyn,scalar>> (empty when M = N) vs same
//   sf  S:kind A:a                  ALIASING: the SAME object is passed as both operands (by reference); kinds as for aa plus
//                                   vec1 (std::vector<T>, flattened)
//   sfm M / sfe E / sft A A         the same maybe<dyn> / either<dyn,scalar> / tuple<dyn,dyn> object on both sides
// Layout suffix on the forms with "A:" operands other than aa:  <form>.rc / .cr / .cc  = the arrays of the first / second
// operand are row-major (r) or column-major (c) ndarray_t objects holding the SAME logical content; aa has the kind "col".
//   wi  S:ta S:tb S:vec|nd|sc L:a L:b  integer element types of different WIDTH (i8 u8 i16 u16 i32 i64): vector<ta> vs vector<tb>
//                                   (index-array arm), ndarray_t of shape (1,n) (ndarray arm), first elements as scalars
// Prefix aeq_ / acl_: the same form through utils::apply_isequal / utils::apply_isclose (the entry the testing macros use;
//   apply_isclose has no eps parameter: the default 1e-6, i.e. equality on the wire's quarter grid).
// Result: "ok 1" / "ok 0"; "unsupported" = the pairing is rejected at compile time (guarded here).
#include "nmtools/utility/isequal.hpp"
#include "nmtools/utility/isclose.hpp"
#include "nmtools/utility/apply_isequal.hpp"
#include "nmtools/utility/apply_isclose.hpp"
#include <cstdint>
#include "nmtools/array/ndarray.hpp"
#include "nmtools/array/view/ref.hpp"
#include "nmtools/array/view/reshape.hpp"
#include "nmtools/constants.hpp"
#include "show.hpp"
#include <optional>
#include <variant>

using namespace vd;
using namespace nmtools::literals;
namespace utils = nmtools::utils;
namespace view = nmtools::view;

// isclose operands: wire integers are quarters; the codes 9000001.. stand for non-finite / extreme values
//   9000001 NaN  2 +inf  3 -inf  4 -0.0  5 denormal (DBL_TRUE_MIN)  6 DBL_MAX  7 -DBL_MAX  8 FLT_MAX  9 -FLT_MAX
#include <limits>
#include <cfloat>
static double fp_value(ll v) {
    switch (v) {
        case 9000001: return std::numeric_limits<double>::quiet_NaN();
        case 9000002: return std::numeric_limits<double>::infinity();
        case 9000003: return -std::numeric_limits<double>::infinity();
        case 9000004: return -0.0;
        case 9000005: return std::numeric_limits<double>::denorm_min();
        case 9000006: return DBL_MAX;  case 9000007: return -DBL_MAX;
        case 9000008: return (double)FLT_MAX; case 9000009: return -(double)FLT_MAX;
    }
    return (double)v / 4.0;
}
template <bool CL, bool AP = false> struct Mode {
    using elem_t = std::conditional_t<CL, double, ll>;
    using int_t = std::conditional_t<CL, int, int>;
    double eps = 0;
    static elem_t conv(ll v) { if constexpr (CL) return fp_value(v); else return (elem_t)v; }
    template <typename A, typename B> std::string cmp(const A& a, const B& b) const {
        if constexpr (AP && CL) return utils::apply_isclose(a, b) ? "ok 1" : "ok 0";
        else if constexpr (AP) return utils::apply_isequal(a, b) ? "ok 1" : "ok 0";
        else if constexpr (CL) {
            using r_t = decltype(utils::isclose(a, b, eps));
            if constexpr (meta::is_fail_v<r_t>) return "unsupported"; else return utils::isclose(a, b, eps) ? "ok 1" : "ok 0";
        } else {
            using r_t = decltype(utils::isequal(a, b));
            if constexpr (meta::is_fail_v<r_t>) return "unsupported"; else return utils::isequal(a, b) ? "ok 1" : "ok 0";
        }
    }
};

template <typename T, typename A = dyn_t<T>> static A mk(const std::vector<ll>& shape, const std::vector<ll>& data, bool cl) {
    A a; std::vector<size_t> shp(shape.begin(), shape.end()); a.resize(shp);
    std::vector<size_t> idx(shp.size(), 0); size_t n = 1; for (auto e : shp) n *= e;
    for (size_t c = 0; c < n; c++) {
        a(idx) = cl ? (T)fp_value(data[c]) : (T)data[c];
        for (int d = (int)shp.size() - 1; d >= 0; d--) { if (++idx[d] < shp[d]) break; idx[d] = 0; }
    }
    return a;
}
template <typename T, typename A = dyn_t<T>> static A mk(const Arg& a, bool cl) { return mk<T, A>(a.shape, a.list, cl); }

template <typename T, typename F>
static std::string with_arr(const std::string& kind, const Arg& a, bool cl, F&& f) {
    if (kind == "dyn") return f(mk<T>(a, cl));
    if (kind == "dynf") { if (cl) return f(mk<float, dyn_t<float>>(a, cl)); return "unsupported"; }   // float elements (isclose only)
    if (kind == "col") return f(mk<T, dyn_col_t<T>>(a, cl));      // column-major buffer, same logical content
    if (kind == "cref") { auto base = mk<T, dyn_col_t<T>>(a, cl); return f(view::ref(base)); }
    if (kind == "ref") { auto base = mk<T>(a, cl); return f(view::ref(base)); }
    if (kind == "rsh") {
        auto flat = mk<T>(std::vector<ll>{(ll)a.list.size()}, a.list, cl);
        auto shp = vec_of<size_t>(a.shape);
        return f(view::reshape(flat, shp));
    }
#ifndef VD_LIGHT
    if (kind == "fix") {
        auto v = [&](size_t i) { return cl ? (T)fp_value(a.list[i]) : (T)a.list[i]; };
        if (a.shape == std::vector<ll>{2, 3}) { std::array<std::array<T, 3>, 2> x{}; for (size_t i = 0; i < 6; i++) x[i / 3][i % 3] = v(i); return f(x); }
        if (a.shape == std::vector<ll>{3, 2}) { std::array<std::array<T, 2>, 3> x{}; for (size_t i = 0; i < 6; i++) x[i / 2][i % 2] = v(i); return f(x); }
        if (a.shape == std::vector<ll>{2, 2}) { std::array<std::array<T, 2>, 2> x{}; for (size_t i = 0; i < 4; i++) x[i / 2][i % 2] = v(i); return f(x); }
        if (a.shape == std::vector<ll>{6}) { std::array<T, 6> x{}; for (size_t i = 0; i < 6; i++) x[i] = v(i); return f(x); }
        return "unsupported";
    }
#endif
    return "unsupported";
}

// integer containers; ct tuples exist for a fixed set of contents
template <typename F>
static std::string with_idx(const std::string& kind, const std::vector<ll>& v, F&& f) {
    if (kind == "vec") return f(vec_of<int>(v));
    if (kind == "vecu") return f(vec_of<size_t>(v));
#ifndef VD_LIGHT
    if (kind == "arr") return with_list<size_t>("arr", v, f);
    if (kind == "tup") return with_list<int>("tup", v, f);
    if (kind == "ct") {
        if (v == std::vector<ll>{2, 3}) return f(nmtools_tuple{2_ct, 3_ct});
        if (v == std::vector<ll>{3, 2}) return f(nmtools_tuple{3_ct, 2_ct});
        if (v == std::vector<ll>{2, 3, 4}) return f(nmtools_tuple{2_ct, 3_ct, 4_ct});
        if (v == std::vector<ll>{6}) return f(nmtools_tuple{6_ct});
        if (v == std::vector<ll>{4, 3}) return f(nmtools_tuple{4_ct, 3_ct});
        if (v == std::vector<ll>{2, 9, 4}) return f(nmtools_tuple{2_ct, 9_ct, 4_ct});
        return "unsupported";
    }
#endif
    return "unsupported";
}

// both operands have a compile-time length ("packed"): the public entry static_asserts equal lengths
template <typename A, typename B> constexpr bool packed_mismatch() {
    if constexpr (meta::has_tuple_size_v<A> && meta::has_tuple_size_v<B>) return meta::len_v<A> != meta::len_v<B>;
    else return false;
}

// integer element types by tag
template <typename F> static std::string with_int(const std::string& t, F&& f) {
    if (t == "i8") return f(int8_t{}); if (t == "u8") return f(uint8_t{}); if (t == "i32") return f(int32_t{}); if (t == "i64") return f(int64_t{});
#ifndef VD_LIGHT
    if (t == "i16") return f(int16_t{}); if (t == "u16") return f(uint16_t{});
#endif
    return "unsupported";
}
template <bool CL>
static std::string run_width(const Case& c) {
    Mode<CL> m; auto& a = c.args; if (CL) m.eps = (double)a.back().val / 4.0;
    std::string form = a[2].raw.substr(2);
    return with_int(a[0].raw.substr(2), [&](auto ta) {
        return with_int(a[1].raw.substr(2), [&](auto tb) -> std::string {
            using TA = decltype(ta); using TB = decltype(tb);
            const auto& x = a[3].list; const auto& y = a[4].list;
            if (form == "sc") return m.cmp((TA)x[0], (TB)y[0]);
            if (form == "vec") { if constexpr (CL) return "unsupported"; else return m.cmp(std::vector<TA>(x.begin(), x.end()), std::vector<TB>(y.begin(), y.end())); }
            if (form == "nd") {
                nm::array::ndarray_t<std::vector<TA>, std::vector<size_t>> p; p.resize(std::vector<size_t>{1, x.size()});
                nm::array::ndarray_t<std::vector<TB>, std::vector<size_t>> q; q.resize(std::vector<size_t>{1, y.size()});
                for (size_t i = 0; i < x.size(); i++) p(0, i) = (TA)x[i];
                for (size_t i = 0; i < y.size(); i++) q(0, i) = (TB)y[i];
                return m.cmp(p, q);
            }
            return "unsupported";
        });
    });
}

template <bool CL, bool C1, bool C2, bool AP = false>
static std::string run(const Case& c, const std::string& form) {
    Mode<CL, AP> m; using T = typename Mode<CL, AP>::elem_t;
    using A1 = std::conditional_t<C1, dyn_col_t<T>, dyn_t<T>>; using A2 = std::conditional_t<C2, dyn_col_t<T>, dyn_t<T>>;
    auto& a = c.args;
    if (CL) m.eps = (double)a.back().val / 4.0;
    auto kind = [&](size_t i) { return a[i].raw.substr(2); };
    using M1 = nmtools_maybe<A1>; using M2 = nmtools_maybe<A2>;
    using E1 = nmtools_either<A1, T>; using E2 = nmtools_either<A2, T>;
    auto mkM1 = [&](const Arg& x) -> M1 { if (x.kind == 'N') return M1{meta::Nothing}; return M1{mk<T, A1>(x, CL)}; };
    auto mkM2 = [&](const Arg& x) -> M2 { if (x.kind == 'N') return M2{meta::Nothing}; return M2{mk<T, A2>(x, CL)}; };
    auto mkE1 = [&](const Arg& x) -> E1 { if (x.kind == 'I') return E1{Mode<CL, AP>::conv(x.val)}; return E1{mk<T, A1>(x, CL)}; };
    auto mkE2 = [&](const Arg& x) -> E2 { if (x.kind == 'I') return E2{Mode<CL, AP>::conv(x.val)}; return E2{mk<T, A2>(x, CL)}; };
    if constexpr (!C1 && !C2) {
    if (form == "nn") {
        if constexpr (CL) return m.cmp(Mode<CL, AP>::conv(a[0].val), (float)Mode<CL, AP>::conv(a[1].val));
        else return m.cmp((int)a[0].val, (long)a[1].val);
    }
    if constexpr (!AP) {
    if (form == "ii") {
        return with_idx(kind(0), a[2].list, [&](const auto& x) {
            return with_idx(kind(1), a[3].list, [&](const auto& y) -> std::string {
                if constexpr (packed_mismatch<std::decay_t<decltype(x)>, std::decay_t<decltype(y)>>()) return "unsupported";
                else return m.cmp(x, y);
            });
        });
    }
    if (form == "dii") {
        if constexpr (!CL) {
            return with_idx(kind(0), a[2].list, [&](const auto& x) {
                return with_idx(kind(1), a[3].list, [&](const auto& y) -> std::string {
                    return utils::detail::isequal(x, y) ? "ok 1" : "ok 0";
                });
            });
        } else return "unsupported";
    }
    }   // index-array forms: not through apply_*
    if (form == "aa") {
        return with_arr<T>(kind(0), a[2], CL, [&](const auto& x) {
            return with_arr<T>(kind(1), a[3], CL, [&](const auto& y) -> std::string {
                using X = std::decay_t<decltype(x)>; using Y = std::decay_t<decltype(y)>;
                // two nested std::arrays are "packed" for the public entry: different static shapes do not compile
                if constexpr (meta::has_tuple_size_v<X> && meta::has_tuple_size_v<Y> && !std::is_same_v<X, Y>) return "unsupported";
                else return m.cmp(x, y);
            });
        });
    }
    }   // layout-free forms
    if (form == "ia") {
        auto y = mk<T, A2>(a[2], CL);
        return with_idx(kind(0), a[1].list, [&](const auto& x) -> std::string {
            if constexpr (meta::is_ndarray_v<std::decay_t<decltype(x)>>) return m.cmp(x, y); else return "unsupported";
        });
    }
    if (form == "ai") {
        auto x = mk<T, A1>(a[1], CL);
        return with_idx(kind(0), a[2].list, [&](const auto& y) -> std::string {
            if constexpr (meta::is_ndarray_v<std::decay_t<decltype(y)>>) return m.cmp(x, y); else return "unsupported";
        });
    }
    if constexpr (!C1 && !C2) {
    if (form == "sf" && kind(0) == "vec1") { std::vector<T> v; for (auto e : a[1].list) v.push_back(CL ? (T)fp_value(e) : (T)e); return m.cmp(v, v); }
    if (form == "sf") return with_arr<T>(kind(0), a[1], CL, [&](const auto& x) -> std::string {
        if constexpr (AP && meta::has_tuple_size_v<std::decay_t<decltype(x)>>) return "unsupported";   // apply_* does not take nested std::array
        else return m.cmp(x, x); });
    if (form == "sfm") { auto x = mkM1(a[0]); return m.cmp(x, x); }
    if (form == "sft") { auto x = nmtools_tuple{mk<T, A1>(a[0], CL), mk<T, A1>(a[1], CL)}; return m.cmp(x, x); }
    if constexpr (!AP) { if (form == "sfe") { auto x = mkE1(a[0]); return m.cmp(x, x); } }
    }
    if (form == "mm") return m.cmp(mkM1(a[0]), mkM2(a[1]));
    if (form == "ma") return m.cmp(mkM1(a[0]), mk<T, A2>(a[1], CL));
    if (form == "am") return m.cmp(mk<T, A1>(a[0], CL), mkM2(a[1]));
    if (form == "ee") return m.cmp(mkE1(a[0]), mkE2(a[1]));
    if (form == "ea") return m.cmp(mkE1(a[0]), mk<T, A2>(a[1], CL));
    if (form == "ae") return m.cmp(mk<T, A1>(a[0], CL), mkE2(a[1]));
    if (form == "en") return m.cmp(mkE1(a[0]), Mode<CL, AP>::conv(a[1].val));
    if (form == "ne") return m.cmp(Mode<CL, AP>::conv(a[0].val), mkE2(a[1]));
    if (form == "tt") {
        auto x = nmtools_tuple{mk<T, A1>(a[0], CL), mk<T, A1>(a[1], CL)};
        auto y = nmtools_tuple{mk<T, A2>(a[2], CL), mk<T, A2>(a[3], CL)};
        return m.cmp(x, y);
    }
    if (form == "tm") {
        auto x = nmtools_tuple{mkM1(a[0]), Mode<CL, AP>::conv(a[1].val)};
        auto y = nmtools_tuple{mkM2(a[2]), Mode<CL, AP>::conv(a[3].val)};
        return m.cmp(x, y);
    }
    if (form == "mt") {
        if constexpr (!CL) {
            using TP1 = nmtools_tuple<A1, T>; using TP2 = nmtools_tuple<A2, T>;
            using MT1 = nmtools_maybe<TP1>; using MT2 = nmtools_maybe<TP2>;
            auto mk1 = [&](const Arg& p, const Arg& q) -> MT1 { if (p.kind == 'N') return MT1{meta::Nothing}; return MT1{TP1{mk<T, A1>(p, CL), Mode<CL, AP>::conv(q.val)}}; };
            auto mk2 = [&](const Arg& p, const Arg& q) -> MT2 { if (p.kind == 'N') return MT2{meta::Nothing}; return MT2{TP2{mk<T, A2>(p, CL), Mode<CL, AP>::conv(q.val)}}; };
            return m.cmp(mk1(a[0], a[1]), mk2(a[2], a[3]));
        } else return "unsupported";   // detail::isclose has no tuple arm: maybe<tuple> is ISCLOSE_UNSUPPORTED
    }
    return "unsupported";
}

template <bool CL>
static std::string run_layout(const Case& c, const std::string& form, const std::string& lay) {
    if (lay == "" || lay == "rr") return run<CL, false, false>(c, form);
    if (lay == "rc") return run<CL, false, true>(c, form);
    if (lay == "cr") return run<CL, true, false>(c, form);
    if (lay == "cc") return run<CL, true, true>(c, form);
    return "unsupported";
}

static std::string handle(const Case& c) {
    auto us = c.op.find('_'); if (us == std::string::npos) return "unsupported";
    std::string pre = c.op.substr(0, us), form = c.op.substr(us + 1), lay;
    auto dot = form.find('.'); if (dot != std::string::npos) { lay = form.substr(dot + 1); form = form.substr(0, dot); }
    if (form == "wi") { if (pre == "eq") return run_width<false>(c); if (pre == "cl") return run_width<true>(c); return "unsupported"; }
    if (pre == "eq") return run_layout<false>(c, form, lay);
    if (pre == "cl") return run_layout<true>(c, form, lay);
    if (pre == "aeq" && lay == "") return run<false, false, false, true>(c, form);
    if (pre == "acl" && lay == "") return run<true, false, false, true>(c, form);
    return "unsupported";
}

int main() { return vd::run_main(handle); }
