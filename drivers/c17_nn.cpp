// c17_nn.cpp — C17 floating-point routines on run-time shaped DOUBLE operands (body in c17_nn.inc)
#define C17_FT double
#define C17_SUFFIX ""
#define C17_PREFIX ""
#include "c17_nn.inc"
