// c17_nn.cpp — implementation side of the C17 correspondence, floating-point routines on run-time shaped
// double operands (array data arrive as integers and are divided by 8.0, exactly as the OCaml oracle does):
//   softmax A:x I:axis | softmin A:x I:axis | batch_norm A:x A:mean A:var A:weight A:bias
//   layer_norm A:x A:weight A:bias | instance_norm I:nd A:x A:weight A:bias | group_norm A:x I:groups A:weight A:bias
//   linear A:x A:w <A:b|N> | bilinear A:x1 A:x2 A:w <A:b|N> | pairwise_distance A:x A:y | cosine_similarity A:x A:y I:axis
#include "nmtools/array/view/softmax.hpp"
#include "nmtools/array/view/softmin.hpp"
#include "nmtools/array/view/batch_norm.hpp"
#include "nmtools/array/view/layer_norm.hpp"
#include "nmtools/array/view/instance_norm.hpp"
#include "nmtools/array/view/group_norm.hpp"
#include "nmtools/array/view/linear.hpp"
#include "nmtools/array/view/bilinear.hpp"
#include "nmtools/array/view/pairwise_distance.hpp"
#include "nmtools/array/view/cosine_similarity.hpp"
#include "c17_show.hpp"

namespace view = nmtools::view;
using namespace vd;
using namespace nmtools::literals;

static dyn_t<double> farr(const Arg& a) {
    auto r = make_array<dyn_t<double>>(a);
    std::vector<size_t> shp(a.shape.begin(), a.shape.end());
    std::vector<size_t> idx(shp.size(), 0);
    size_t n = 1; for (auto e : shp) n *= e;
    for (size_t c = 0; c < n; c++) {
        r(idx) = (double)a.list[c] / 8.0;
        for (int d = (int)shp.size() - 1; d >= 0; d--) { if (++idx[d] < shp[d]) break; idx[d] = 0; }
    }
    return r;
}
template <typename V> static std::string sd(const V& v) { return show_cast<double>(v); }

static std::string handle(const Case& c) {
    const auto& op = c.op; const auto& a = c.args;
    const double eps5 = 1e-5;
    if (op == "softmax") { auto x = farr(a[0]); return sd(view::softmax(x, (int)a[1].val)); }
    if (op == "softmin") { auto x = farr(a[0]); return sd(view::softmin(x, (int)a[1].val)); }
    if (op == "batch_norm") {
        auto x = farr(a[0]), m = farr(a[1]), v = farr(a[2]), w = farr(a[3]), b = farr(a[4]);
        return sd(view::batch_norm(x, m, v, w, b, eps5));
    }
    if (op == "layer_norm") { auto x = farr(a[0]), w = farr(a[1]), b = farr(a[2]); return sd(view::layer_norm(x, w, b, eps5)); }
    if (op == "instance_norm") {
        auto x = farr(a[1]), w = farr(a[2]), b = farr(a[3]);
        switch (a[0].val) {
            case 1: return sd(view::instance_norm_1d(x, w, b, eps5));
            case 2: return sd(view::instance_norm_2d(x, w, b, eps5));
            default: return "unsupported";
        }
    }
    if (op == "group_norm") { auto x = farr(a[0]), w = farr(a[2]), b = farr(a[3]); return sd(view::group_norm(x, (int)a[1].val, w, b, eps5)); }
    if (op == "linear") {
        auto x = farr(a[0]), w = farr(a[1]);
        if (a[2].kind == 'N') return sd(view::linear(x, w));
        auto b = farr(a[2]); return sd(view::linear(x, w, b));
    }
    if (op == "bilinear") {
        auto x1 = farr(a[0]), x2 = farr(a[1]), w = farr(a[2]);
        if (a[3].kind == 'N') return sd(view::bilinear(x1, x2, w));
        auto b = farr(a[3]); return sd(view::bilinear(x1, x2, w, b));
    }
    if (op == "pairwise_distance") { auto x = farr(a[0]), y = farr(a[1]); return sd(view::pairwise_distance(x, y, 2_ct, 1e-6)); }
    if (op == "cosine_similarity") { auto x = farr(a[0]), y = farr(a[1]); return sd(view::cosine_similarity(x, y, (int)a[2].val, 1e-8)); }
    return "unsupported";
}

int main() { return vd::run_main(handle, 16, 20); }
