// c17_nn32.cpp — C17 floating-point routines on run-time shaped FLOAT operands (body in c17_nn.inc); ops "softmax32" ...
#define C17_FT float
#define C17_SUFFIX "32"
#define C17_PREFIX "f32 "
#include "c17_nn.inc"
