// c04_typed.hpp — typed operands of c04_c.cpp (and the typed eager concatenate of c04_a.cpp).
//   T:<dtype>:<shape>:<data>   dtype in i8 i32 i64 f32 f64 (u8 for conditions); integer data, for f32/f64 an entry x means x/4
#pragma once
#include "show.hpp"
#include <array>
#include <cstdint>
#include <type_traits>

namespace vd {

struct TArg { std::string dt; std::vector<ll> shape; std::vector<ll> data; };

inline TArg parse_typed(const std::string& raw) {   // raw = "T:f32:2,3:1,2,..."
    TArg t; size_t p1 = raw.find(':', 2); size_t p2 = raw.find(':', p1 + 1);
    t.dt = raw.substr(2, p1 - 2); t.shape = parse_list(raw.substr(p1 + 1, p2 - p1 - 1)); t.data = parse_list(raw.substr(p2 + 1));
    return t;
}

template <typename E> constexpr bool is_fp = std::is_floating_point_v<E>;

template <typename E>
inline dyn_t<E> make_typed(const TArg& t) {
    dyn_t<E> a; std::vector<size_t> shp(t.shape.begin(), t.shape.end()); a.resize(shp);
    std::vector<size_t> idx(shp.size(), 0); size_t n = 1; for (auto e : shp) n *= e;
    for (size_t c = 0; c < n; c++) {
        ll x = c < t.data.size() ? t.data[c] : 0;
        a(idx) = is_fp<E> ? (E)((double)x / 4.0) : (E)x;
        for (int d = (int)shp.size() - 1; d >= 0; d--) { if (++idx[d] < shp[d]) break; idx[d] = 0; }
    }
    return a;
}

// every element type
template <typename F>
inline std::string with_typed(const TArg& t, F&& f) {
    if (t.dt == "i32") return f(make_typed<int32_t>(t));
    if (t.dt == "f32") return f(make_typed<float>(t));
    if (t.dt == "f64") return f(make_typed<double>(t));
#ifndef VD_LIGHT
    if (t.dt == "i8") return f(make_typed<int8_t>(t));
    if (t.dt == "i64") return f(make_typed<long long>(t));
#endif
    return "unsupported";
}
// single-operand routines: three structurally different element types are enough
template <typename F>
inline std::string with_typed_few(const TArg& t, F&& f) {
    if (t.dt == "f64") return f(make_typed<double>(t));
    if (t.dt == "i8") return f(make_typed<int8_t>(t));
#ifndef VD_LIGHT
    if (t.dt == "f32") return f(make_typed<float>(t));
#endif
    return "unsupported";
}
// x / y of where: the pairs whose common type differs from both or from one side
template <typename F>
inline std::string with_typed_pair(const TArg& x, const TArg& y, F&& f) {
    const std::string p = x.dt + "," + y.dt;
    if (p == "i32,f32") return f(make_typed<int32_t>(x), make_typed<float>(y));
    if (p == "f32,i32") return f(make_typed<float>(x), make_typed<int32_t>(y));
    if (p == "i64,f64") return f(make_typed<long long>(x), make_typed<double>(y));
#ifndef VD_LIGHT
    if (p == "f64,i64") return f(make_typed<double>(x), make_typed<long long>(y));
    if (p == "i8,i64") return f(make_typed<int8_t>(x), make_typed<long long>(y));
    if (p == "i64,f32") return f(make_typed<long long>(x), make_typed<float>(y));
    if (p == "f32,f64") return f(make_typed<float>(x), make_typed<double>(y));
#endif
    return "unsupported";
}
// condition arrays of where
template <typename F>
inline std::string with_typed_cond(const TArg& t, F&& f) {
    if (t.dt == "u8") return f(make_typed<uint8_t>(t));
    if (t.dt == "i32") return f(make_typed<int32_t>(t));
#ifndef VD_LIGHT
    if (t.dt == "i64") return f(make_typed<long long>(t));
    if (t.dt == "i8") return f(make_typed<int8_t>(t));
#endif
    return "unsupported";
}
// index lists of take
template <typename F>
inline std::string with_index_list(const std::string& k, const std::vector<ll>& v, F&& f) {
    if (k == "i32") return f(vec_of<int32_t>(v));
    if (k == "i64") return f(vec_of<long long>(v));
#ifndef VD_LIGHT
    if (k == "i8") return f(vec_of<int8_t>(v));
    if (k == "u64") return f(vec_of<size_t>(v));
#endif
    return "unsupported";
}
// condition lists of compress: integer containers (any non-zero entry is true) and bool containers
template <typename F>
inline std::string with_cond_list(const std::string& k, const std::vector<ll>& v, F&& f) {
    if (k == "i32") return f(vec_of<int32_t>(v));
    if (k == "u8") return f(vec_of<uint8_t>(v));
#ifndef VD_LIGHT
    if (k == "i64") return f(vec_of<long long>(v));
    if (k == "i8") return f(vec_of<int8_t>(v));
    if (k == "bool") {
        switch (v.size()) {
            case 1: { std::array<bool,1> a{}; for (size_t i = 0; i < 1; i++) a[i] = v[i] != 0; return f(a); }
            case 2: { std::array<bool,2> a{}; for (size_t i = 0; i < 2; i++) a[i] = v[i] != 0; return f(a); }
            case 3: { std::array<bool,3> a{}; for (size_t i = 0; i < 3; i++) a[i] = v[i] != 0; return f(a); }
            case 4: { std::array<bool,4> a{}; for (size_t i = 0; i < 4; i++) a[i] = v[i] != 0; return f(a); }
            default: return "unsupported";
        }
    }
#endif
    return "unsupported";
}
// a value of the element type named by the tag
template <typename F>
inline std::string with_dtype(const std::string& k, F&& f) {
    if (k == "i32") return f(int32_t{});
    if (k == "f32") return f(float{});
    if (k == "f64") return f(double{});
#ifndef VD_LIGHT
    if (k == "i8") return f(int8_t{});
    if (k == "i64") return f((long long)0);
#endif
    return "unsupported";
}

} // namespace vd
