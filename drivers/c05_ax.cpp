// c05_ax.cpp — implementation side of the C05 correspondence, ONE axis.
//   ax S:<enc> I:<n> <start> <stop> <step>      parts: N | I:v ; step may be O (2-part slice)
// The None/int pattern of a slice is a TYPE, so all 12 patterns are instantiated for every encoding:
//   var  index::apply_shape_slice / apply_slice with a tuple of one typed slice   (variadic shape_slice / slice)
//   dyn  the same entry points with std::vector<either<int,either<ellipsis_t,tuple<...>>>>  (shape_dynamic_slice / dynamic_slice)
//   arr  std::vector<std::array<int,K>> (only the all-integer patterns exist in this encoding)
//   tup  index::shape_slice / index::slice called directly with the typed slice and std::array shape / indices
//   ct   the same direct call with compile-time-constant parts (a fixed table of values, negative ones included)
// prints  ok <len> ; src_0,...   (all elements when 0 <= len <= 64; `~ first,second,last` when 64 < len < 2^62;
//         nothing otherwise: a wrong length may be negative or astronomically large)
#include "nmtools/array/index/slice.hpp"
#include "show.hpp"
#include "c05_common.hpp"

using namespace vd;
using namespace c05;

template <typename ShapeOf, typename IndexOf>
static std::string report(ShapeOf&& shape_of, IndexOf&& index_of) {
    long long len = shape_of();
    std::string o = "ok " + std::to_string(len) + " ;";
    if (len >= 0 && len <= 64)
        for (long long k = 0; k < len; k++) o += (k ? "," : " ") + std::to_string((long long)index_of((size_t)k));
    else if (len > 64 && len < (1LL << 62))     // long result (large extents): first two and last source index
        o += " ~ " + std::to_string((long long)index_of(0)) + "," + std::to_string((long long)index_of(1)) + "," + std::to_string((long long)index_of((size_t)(len - 1)));
    return o;
}

template <typename slice_t>
static std::string run_axis(const std::string& enc, size_t n, const slice_t& sl) {
    namespace ix = nm::index;
    std::vector<size_t> shape{n};
    if (enc == "var") {
        auto pack = nmtools_tuple<slice_t>{sl};
        return report([&]{ auto r = ix::apply_shape_slice(shape, pack); return (long long)nm::at(r, 0); },
                      [&](size_t k){ std::vector<size_t> idx{k}; auto q = ix::apply_slice(idx, shape, pack); return nm::at(q, 0); });
    }
    if (enc == "tup") {
        std::array<size_t,1> shp{n};
        return report([&]{ auto r = ix::shape_slice(shp, sl); return (long long)nm::at(r, 0); },
                      [&](size_t k){ std::array<size_t,1> idx{k}; auto q = ix::slice(idx, shp, sl); return nm::at(q, 0); });
    }
    if (enc == "dyn") {
        using inner_t = nmtools_either<nm::ellipsis_t, slice_t>;
        using elem_t  = nmtools_either<int, inner_t>;
        std::vector<elem_t> pack{ (elem_t)(inner_t)sl };
        return report([&]{ auto r = ix::apply_shape_slice(shape, pack); return (long long)nm::at(r, 0); },
                      [&](size_t k){ std::vector<size_t> idx{k}; auto q = ix::apply_slice(idx, shape, pack); return nm::at(q, 0); });
    }
    if (enc == "arr") {
        if constexpr (all_int_v<slice_t>) {
            constexpr auto K = std::tuple_size_v<slice_t>;
            std::array<int,K> a{}; fill_array(a, sl);
            std::vector<std::array<int,K>> pack{ a };
            return report([&]{ auto r = ix::apply_shape_slice(shape, pack); return (long long)nm::at(r, 0); },
                          [&](size_t k){ std::vector<size_t> idx{k}; auto q = ix::apply_slice(idx, shape, pack); return nm::at(q, 0); });
        } else return "unsupported";
    }
    return "unsupported";
}

// ct: slice parts that are compile-time constants (meta::ct_v<V> = integral_constant<int,V>, negative values included).
// A/B = 1000 encodes None, C = 0 encodes a 2-part slice.
template <int V> static auto ct_part() { if constexpr (V == 1000) return nm::None; else return meta::ct_v<V>; }
template <int A, int B, int C>
static std::string run_ct(size_t n) {
    namespace ix = nm::index;
    std::vector<size_t> shape{n};
    auto go = [&](const auto& sl) {
        return report([&]{ auto r = ix::shape_slice(shape, sl); return (long long)nm::at(r, 0); },
                      [&](size_t k){ std::vector<size_t> idx{k}; auto q = ix::slice(idx, shape, sl); return nm::at(q, 0); });
    };
    if constexpr (C == 0) return go(nmtools_tuple{ct_part<A>(), ct_part<B>()});
    else return go(nmtools_tuple{ct_part<A>(), ct_part<B>(), ct_part<C>()});
}
template <int A, int B>
static std::string ct_c(int c, size_t n) {
    switch (c) { case 0: return run_ct<A,B,0>(n); case -1: return run_ct<A,B,-1>(n); case 2: return run_ct<A,B,2>(n); default: return "unsupported"; }
}
template <int A>
static std::string ct_b(int b, int c, size_t n) {
    switch (b) { case 1000: return ct_c<A,1000>(c, n); case -1: return ct_c<A,-1>(c, n); case 1: return ct_c<A,1>(c, n); case 5: return ct_c<A,5>(c, n); default: return "unsupported"; }
}
static std::string ct_a(int a, int b, int c, size_t n) {
    switch (a) { case 1000: return ct_b<1000>(b, c, n); case -2: return ct_b<-2>(b, c, n); case 0: return ct_b<0>(b, c, n); case 2: return ct_b<2>(b, c, n); default: return "unsupported"; }
}

static std::string handle(const Case& c) {
    if (c.op != "ax") return "unsupported";
    std::string enc = c.args[0].raw.substr(2);
    size_t n = (size_t)c.args[1].val;
    if (enc == "ct") {
        auto v = [](const Arg& x, int none){ return x.kind == 'I' ? (int)x.val : none; };
        if (c.args[4].kind == 'N') return "unsupported";       // a None step has no constant form distinct from the typed tuple
        return ct_a(v(c.args[2], 1000), v(c.args[3], 1000), v(c.args[4], 0), n);
    }
    return with_range(c.args[2], c.args[3], c.args[4], [&](const auto& sl){ return run_axis(enc, n, sl); });
}

int main() { return vd::run_main(handle); }
