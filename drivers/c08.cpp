// c08.cpp — implementation side of the C08 correspondence: view::reduce with an arbitrary binary op
// (add / multiply / subtract / maximum / minimum / lin (non-commutative, non-associative: pins the whole fold order)) through the
// general entry point view::reduce(op, a, axis, dtype, initial, keepdims) and through the named entry
// points reduce_add / reduce_subtract / ... / sum / prod / amax / amin; accumulate (cumsum / cumprod /
// accumulate_subtract).
//   reduce S:<op> S:<api> S:<axiskind> S:<kd> S:<arraykind> A:<arr> <axis: N | I:k | L:..> <init: N | I:v>
// axiskind: none | int | vec (std::vector<int>) | arr (std::array<int,N>) | ct (tuple of meta::ct, fixed table) | cti (meta::ct)
//   accum  S:<op> S:<arraykind> A:<arr> I:<axis>
//   defer  S:<red|redk|acc|sumv> S:<dyn|fs> <A1> <A2> I:<axis> I:<c>     (deferred evaluation of a reduction over a temporary view)
// kd: def (argument absent) | rt0 | rt1 (run-time bool: the either<> path) | ct0 | ct1 (False / True)
// arraykind: dyn (std::vector shape: run-time loops) | fix (std::array shape: the template_for arms)
#include "nmtools/array/view/ufuncs/add.hpp"
#include "nmtools/array/view/ufuncs/multiply.hpp"
#include "nmtools/array/view/ufuncs/subtract.hpp"
#include "nmtools/array/view/ufuncs/maximum.hpp"
#include "nmtools/array/view/ufuncs/minimum.hpp"
#include "nmtools/array/view/ufuncs/amax.hpp"
#include "nmtools/array/view/ufuncs/amin.hpp"
#include "nmtools/array/view/sum.hpp"
#include "nmtools/array/view/prod.hpp"
#include "nmtools/array/view/cumsum.hpp"
#include "nmtools/array/view/cumprod.hpp"
#include "nmtools/array/view/ufuncs/negative.hpp"
#include "show.hpp"

namespace view = nmtools::view;
using namespace vd;
using nm::None; using nm::True; using nm::False;

// a deliberately non-commutative, non-associative operation: every change of the ORDER in which the
// elements enter the fold (not only of the seed) changes the result:  f(acc, x) = (3*acc + x) mod 1000003  (>= 0)
struct lin_t {
    template <typename T, typename U>
    constexpr auto operator()(const T& t, const U& u) const {
        ll r = (3 * (ll)t + (ll)u) % 1000003LL; return r < 0 ? r + 1000003LL : r;
    }
};

template <size_t N> using fix_t = nm::array::ndarray_t<std::vector<ll>, std::array<size_t, N>>;

// the general entry point: any op, any axis container
struct api_reduce {
    template <typename op_t, typename... A> static auto go(op_t op, const A&... a) { return view::reduce(op, a...); }
};
// the named entry points (op tag selects the function)
struct t_add {}; struct t_mul {}; struct t_sub {}; struct t_max {}; struct t_min {};
struct t_sum {}; struct t_prod {}; struct t_amax {}; struct t_amin {};
template <typename... A> static auto named(t_add, const A&... a) { return view::reduce_add(a...); }
template <typename... A> static auto named(t_mul, const A&... a) { return view::reduce_multiply(a...); }
template <typename... A> static auto named(t_sub, const A&... a) { return view::reduce_subtract(a...); }
template <typename... A> static auto named(t_max, const A&... a) { return view::reduce_maximum(a...); }
template <typename... A> static auto named(t_min, const A&... a) { return view::reduce_minimum(a...); }
template <typename... A> static auto named(t_sum, const A&... a) { return view::sum(a...); }
template <typename... A> static auto named(t_prod, const A&... a) { return view::prod(a...); }
template <typename... A> static auto named(t_amax, const A&... a) { return view::amax(a...); }
template <typename... A> static auto named(t_amin, const A&... a) { return view::amin(a...); }

// f(array, axis, dtype, initial [, keepdims]) for the five keepdims spellings
template <typename F, typename arr_t, typename axis_t, typename init_t>
static std::string with_kd(const std::string& kd, F&& f, const arr_t& a, const axis_t& ax, init_t init) {
    if (kd == "def") return show(f(a, ax, None, init));
    if (kd == "rt0") return show(f(a, ax, None, init, false));
    if (kd == "rt1") return show(f(a, ax, None, init, true));
    if (kd == "ct0") return show(f(a, ax, None, init, False));
    if (kd == "ct1") return show(f(a, ax, None, init, True));
    return "unsupported";
}
template <typename F, typename arr_t, typename axis_t>
static std::string with_init(const Arg& init, const std::string& kd, F&& f, const arr_t& a, const axis_t& ax) {
    if (init.kind == 'N') return with_kd(kd, f, a, ax, None);
    return with_kd(kd, f, a, ax, (ll)init.val);
}
// axis argument: None | int | std::vector<int> | std::array<int,N>
template <bool single_only, size_t MAXN, bool CT = false, typename F, typename arr_t>
static std::string with_axis(const std::string& akind, const Arg& ax, const Arg& init, const std::string& kd, F&& f, const arr_t& a) {
    if (ax.kind == 'N') { if constexpr (single_only) return "unsupported"; else return with_init(init, kd, f, a, None); }
    if (ax.kind == 'I' && akind != "cti") return with_init(init, kd, f, a, (int)ax.val);
    if constexpr (single_only) return "unsupported";
    else {
        if (akind == "vec") return with_init(init, kd, f, a, vec_of<int>(ax.list));
#ifndef VD_LIGHT
        if (akind == "arr") {
            switch (ax.list.size()) {
                case 1: if constexpr (MAXN >= 1) return with_init(init, kd, f, a, arr_of<int,1>(ax.list)); break;
                case 2: if constexpr (MAXN >= 2) return with_init(init, kd, f, a, arr_of<int,2>(ax.list)); break;
                case 3: if constexpr (MAXN >= 3) return with_init(init, kd, f, a, arr_of<int,3>(ax.list)); break;
                case 4: if constexpr (MAXN >= 4) return with_init(init, kd, f, a, arr_of<int,4>(ax.list)); break;
            }
        }
#endif
#ifndef VD_LIGHT
        // compile-time axes (meta::ct / tuple of ct): a fixed table, reached with run-time-rank arrays only
        if constexpr (CT) if (akind == "ct") {
            const auto& l = ax.list;
            auto is = [&](std::initializer_list<ll> w) { return std::vector<ll>(w) == l; };
            using meta::ct_v;
            if (is({0})) return with_init(init, kd, f, a, nmtools_tuple{ct_v<0>});
            if (is({-1})) return with_init(init, kd, f, a, nmtools_tuple{ct_v<-1>});
            if (is({0, 1})) return with_init(init, kd, f, a, nmtools_tuple{ct_v<0>, ct_v<1>});
            if (is({-1, 0})) return with_init(init, kd, f, a, nmtools_tuple{ct_v<-1>, ct_v<0>});
            if (is({2, 0})) return with_init(init, kd, f, a, nmtools_tuple{ct_v<2>, ct_v<0>});
            if (is({1, -3, 2})) return with_init(init, kd, f, a, nmtools_tuple{ct_v<1>, ct_v<-3>, ct_v<2>});
        }
        if constexpr (CT) if (akind == "cti") {
            if (ax.val == 1) return with_init(init, kd, f, a, meta::ct_v<1>);
            if (ax.val == -2) return with_init(init, kd, f, a, meta::ct_v<-2>);
        }
#endif
        return "unsupported";
    }
}

template <bool full, size_t MAXN, typename arr_t>
static std::string reduce_case(const Case& c, const arr_t& a) {
    const std::string op = c.args[0].raw.substr(2), api = c.args[1].raw.substr(2), akind = c.args[2].raw.substr(2), kd = c.args[3].raw.substr(2);
    const Arg& ax = c.args[6]; const Arg& init = c.args[7];
    if (api == "reduce") {
        auto run = [&](auto o) { return with_axis<false, MAXN>(akind, ax, init, kd, [o](const auto&... x) { return view::reduce(o, x...); }, a); };
        // compile-time axis constants: add and lin only, run-time-rank arrays only (instantiation count)
        auto run_ct = [&](auto o) { return with_axis<false, MAXN, (MAXN == 4)>(akind, ax, init, kd, [o](const auto&... x) { return view::reduce(o, x...); }, a); };
        if (op == "add") return run_ct(view::add_t<>{});
        if (op == "subtract") return run(view::subtract_t<>{});
        if (op == "lin") return run_ct(lin_t{});
        if constexpr (full) {
            if (op == "multiply") return run(view::multiply_t<>{});
            if (op == "maximum") return run(view::maximum_t<>{});
            if (op == "minimum") return run(view::minimum_t<>{});
        }
        return "unsupported";
    }
    if constexpr (!full) return "unsupported"; else {
    auto run = [&](auto tag) { return with_axis<false, MAXN>(akind, ax, init, kd, [tag](const auto&... x) { return named(tag, x...); }, a); };
    if (op == "add") return run(t_add{});
    if (op == "multiply") return run(t_mul{});
    if (op == "subtract") return with_axis<true, MAXN>(akind, ax, init, kd, [](const auto&... x) { return named(t_sub{}, x...); }, a);
    if (op == "maximum") return run(t_max{});
    if (op == "minimum") return run(t_min{});
    if (op == "sum") return run(t_sum{});
    if (op == "prod") return run(t_prod{});
    if (op == "amax") return run(t_amax{});
    if (op == "amin") return run(t_amin{});
    return "unsupported";
    }
}

template <typename arr_t>
static std::string accum_case(const Case& c, const arr_t& a) {
    const std::string op = c.args[0].raw.substr(2);
    int axis = (int)c.args[3].val;
    if (op == "cumsum") return show(view::cumsum(a, axis));
    if (op == "cumprod") return show(view::cumprod(a, axis));
    if (op == "add") return show(view::accumulate_add(a, axis));
    if (op == "multiply") return show(view::accumulate_multiply(a, axis));
    if (op == "subtract") return show(view::accumulate_subtract(a, axis));
    if (op == "lin") return show(view::accumulate(lin_t{}, a, axis));
    if (op == "maximum") return show(view::accumulate_maximum(a, axis));
    if (op == "minimum") return show(view::accumulate_minimum(a, axis));
    return "unsupported";
}

// ---- deferred evaluation: a reduction / accumulation of a TEMPORARY operand view, built inside a noinline helper and
// returned by value; the helper runs twice with different data before either result is read (a view must own its view
// operands; only leaf arrays are referenced)
#define VD_NOINLINE __attribute__((noinline))
template <typename A> VD_NOINLINE static auto d_red(const A& a, int axis, ll init) { auto t = view::negative(a); return view::reduce(lin_t{}, t, axis, None, init); }
template <typename A> VD_NOINLINE static auto d_redk(const A& a, int axis) { return view::sum(view::negative(a), std::vector<int>{axis}, None, None, true); }
template <typename A> VD_NOINLINE static auto d_acc(const A& a, int axis) { auto t = view::negative(a); return view::accumulate(lin_t{}, t, axis); }
template <typename A> VD_NOINLINE static auto d_sumv(const A& a, int axis, ll c) { ll k = c + 1; return view::sum(view::add(a, k), axis); }

template <typename V>
static std::string showd(const V& v) {
    if constexpr (meta::is_either_v<V>) {
        using L = meta::get_either_left_t<V>; using R = meta::get_either_right_t<V>;
        if (auto l = nm::get_if<L>(&v)) return showd(*l); else return showd(*nm::get_if<R>(&v));
    } else if constexpr (meta::is_maybe_v<V>) { if (!nm::has_value(v)) return "nothing"; return showd(*v); }
    else if constexpr (meta::is_num_v<V>) return show(v);
    else {
        const auto shp = nm::unwrap(nm::shape(v));
        using shp_t = std::decay_t<decltype(shp)>;
        constexpr auto R = meta::len_v<shp_t>;
        if constexpr (R > 0) {
            std::array<size_t, R> ext{}, idx{};
            if constexpr (meta::is_tuple_v<shp_t>) meta::template_for<R>([&](auto i) { ext[i] = (size_t)nm::at(shp, i); });
            else for (size_t i = 0; i < R; i++) ext[i] = (size_t)nm::at(shp, i);
            size_t total = 1; for (auto e : ext) total *= e;
            std::string o = "ok " + joinc(ext) + " ;";
            for (size_t c = 0; c < total; c++) {
                o += (c ? "," : " ") + num_str(nm::apply_at(v, idx));
                for (int d = (int)R - 1; d >= 0; d--) { if (++idx[d] < ext[d]) break; idx[d] = 0; }
            }
            return o;
        } else return show(v);
    }
}
template <typename A>
static std::string defer_case(const std::string& form, const A& a1, const A& a2, int axis, ll c) {
    auto both = [](const auto& e1, const auto& e2) { return showd(e1) + " | " + showd(e2); };
    if (form == "red") { auto e1 = d_red(a1, axis, c); auto e2 = d_red(a2, axis, c + 3); return both(e1, e2); }
    if (form == "redk") { auto e1 = d_redk(a1, axis); auto e2 = d_redk(a2, axis); return both(e1, e2); }
    if (form == "acc") { auto e1 = d_acc(a1, axis); auto e2 = d_acc(a2, axis); return both(e1, e2); }
    if (form == "sumv") { auto e1 = d_sumv(a1, axis, c); auto e2 = d_sumv(a2, axis, c + 3); return both(e1, e2); }
    return "unsupported";
}

static std::string handle(const Case& c) {
    if (c.op == "defer") {
        // defer S:<red|redk|acc|sumv> S:<dyn|fs> <A1> <A2> I:<axis> I:<c>      fs: (2,3) nested std::array
        const std::string form = c.args[0].raw.substr(2), kind = c.args[1].raw.substr(2);
        int axis = (int)c.args[4].val; ll cc = c.args[5].val;
        if (kind == "dyn") return defer_case(form, make_array(c.args[2]), make_array(c.args[3]), axis, cc);
        if (kind == "fs") {
            using A23 = std::array<std::array<ll,3>,2>;
            auto mkA = [](const Arg& x) { A23 a{}; for (int i = 0; i < 6; i++) a[i / 3][i % 3] = x.list[i]; return a; };
            if (c.args[2].list.size() != 6) return "unsupported";
            return defer_case(form, mkA(c.args[2]), mkA(c.args[3]), axis, cc);
        }
        return "unsupported";
    }
    if (c.op == "reduce") {
        const std::string arrk = c.args[4].raw.substr(2); const Arg& A = c.args[5];
        if (arrk == "dyn") return reduce_case<true, 4>(c, make_array(A));
#ifndef VD_LIGHT
        if (arrk == "fix") {
            // fixed-dim arrays: only through the general entry point with add / subtract (compile time)
            switch (A.shape.size()) {
                case 1: return reduce_case<false, 1>(c, make_array<fix_t<1>>(A));
                case 2: return reduce_case<false, 2>(c, make_array<fix_t<2>>(A));
                case 3: return reduce_case<false, 3>(c, make_array<fix_t<3>>(A));
                case 4: return reduce_case<false, 4>(c, make_array<fix_t<4>>(A));
            }
        }
#endif
        return "unsupported";
    }
    if (c.op == "accum") {
        const std::string arrk = c.args[1].raw.substr(2); const Arg& A = c.args[2];
        if (arrk == "dyn") return accum_case(c, make_array(A));
#ifndef VD_LIGHT
        if (arrk == "fix") {
            switch (A.shape.size()) {
                case 1: return accum_case(c, make_array<fix_t<1>>(A));
                case 2: return accum_case(c, make_array<fix_t<2>>(A));
                case 3: return accum_case(c, make_array<fix_t<3>>(A));
                case 4: return accum_case(c, make_array<fix_t<4>>(A));
            }
        }
#endif
        return "unsupported";
    }
    return "unsupported";
}

int main() { return vd::run_main(handle); }
