// c20_cast.cpp — C20 correspondence, part 4: nm::cast to another array kind / element type.
// case lines:
//   castk S:<raw r6|r2x3|r2x3x2|r3x4> S:<kind tag> S:<dtype>
//       raw nested C array of double (elements 7k-4.25) -> nm::cast(raw, kind::<tag>) -> nm::cast<dtype>(.) (dtype "same" = none)
//   castd L:<shape> S:<kind ds_db|dynamic> S:<dtype>
//       run-time shaped ndarray_t<vector<double>,vector> (elements 7k-4.25) -> cast(kind) -> cast<dtype>
// result: ok <shape> ; <elements>   (vd::show)
#include "nmtools/array/ndarray.hpp"
#include "nmtools/utility/cast.hpp"
#include "show.hpp"

namespace na = nmtools::array;
namespace kind = nmtools::array::kind;
using namespace vd;

// printer for any array class: fixed / hybrid ndarrays only take an index pack of their static arity,
// so the index is a std::array of the fixed dimension where there is one, a std::vector otherwise
template <typename X>
static std::string show_any(const X& x) {
    const auto shp = nm::shape(x);
    std::vector<size_t> ext;
    using S = std::decay_t<decltype(shp)>;
    if constexpr (meta::is_tuple_v<S>) { constexpr auto N = meta::len_v<S>; meta::template_for<N>([&](auto i){ ext.push_back((size_t)nm::at(shp, i)); }); }
    else { auto n = (size_t)nm::len(shp); for (size_t i = 0; i < n; i++) ext.push_back((size_t)nm::at(shp, i)); }
    std::string o = "ok " + join(ext.begin(), ext.end()) + " ;";
    size_t total = 1; for (auto e : ext) total *= e;
    std::vector<size_t> idx(ext.size(), 0);
    constexpr auto DIM = meta::fixed_dim_v<X>;
    for (size_t c = 0; c < total; c++) {
        if constexpr (!meta::is_fail_v<decltype(DIM)>) {
            std::array<size_t, (size_t)DIM> ai{}; for (size_t d = 0; d < (size_t)DIM; d++) ai[d] = idx[d];
            o += (c ? "," : " ") + num_str(nm::apply_at(x, ai));
        } else o += (c ? "," : " ") + num_str(nm::apply_at(x, idx));
        for (int d = (int)ext.size() - 1; d >= 0; d--) { if (++idx[d] < ext[d]) break; idx[d] = 0; }
    }
    return o;
}

template <typename X>
static std::string finish(const X& x, const std::string& dt) {
    if (dt == "same") return show_any(x);
    if (dt == "double") return show_any(nm::cast<double>(x));
    if (dt == "float") return show_any(nm::cast<float>(x));
    if (dt == "long") return show_any(nm::cast<long>(x));
    if (dt == "int8") return show_any(nm::cast<int8_t>(x));
    return "unsupported";
}

template <typename Src, typename K>
static std::string to_kind(const Src& src, const K& k, const std::string& dt) {
    using ret_t = meta::resolve_optype_t<nm::cast_kind_t, Src, K>;
    if constexpr (meta::is_fail_v<ret_t>) return "unsupported";
    else { auto x = nm::cast(src, k); return finish(x, dt); }
}

template <typename Src>
static std::string by_tag(const Src& src, const std::string& tag, const std::string& dt) {
#define K(name) if (tag == #name) return to_kind(src, kind::name, dt);
    K(fixed) K(hybrid) K(dynamic)
    K(ndarray_cs_fb) K(ndarray_cs_hb) K(ndarray_cs_db) K(ndarray_fs_fb) K(ndarray_fs_hb) K(ndarray_fs_db)
    K(ndarray_hs_fb) K(ndarray_hs_hb) K(ndarray_hs_db) K(ndarray_ds_fb) K(ndarray_ds_hb) K(ndarray_ds_db)
    K(ndarray_ls_fb) K(ndarray_ls_hb) K(ndarray_ls_db)
#undef K
    return "unsupported";
}

static std::string handle(const Case& c) {
    if (c.op == "castk") {
        std::string raw = c.args[0].raw.substr(2), tag = c.args[1].raw.substr(2), dt = c.args[2].raw.substr(2);
        if (raw == "r6") { double a[6]; for (int k = 0; k < 6; k++) a[k] = 7 * k - 4.25; return by_tag(a, tag, dt); }
        if (raw == "r2x3") { double a[2][3]; for (int k = 0; k < 6; k++) a[k / 3][k % 3] = 7 * k - 4.25; return by_tag(a, tag, dt); }
#ifndef VD_LIGHT
        if (raw == "r2x3x2") { double a[2][3][2]; for (int k = 0; k < 12; k++) a[k / 6][(k / 2) % 3][k % 2] = 7 * k - 4.25; return by_tag(a, tag, dt); }
        if (raw == "r3x4") { double a[3][4]; for (int k = 0; k < 12; k++) a[k / 4][k % 4] = 7 * k - 4.25; return by_tag(a, tag, dt); }
#endif
        return "unsupported";
    }
    if (c.op == "castd") {
        std::string tag = c.args[1].raw.substr(2), dt = c.args[2].raw.substr(2);
        dyn_t<double> a; a.resize(vec_of<size_t>(c.args[0].list));
        for (size_t k = 0; k < a.data_.size(); k++) a.data_[k] = 7 * (double)k - 4.25;   // row-major: buffer order = logical order
        if (tag == "ndarray_ds_db") return to_kind(a, kind::ndarray_ds_db, dt);
        if (tag == "dynamic") return to_kind(a, kind::dynamic, dt);
        return "unsupported";
    }
    return "unsupported";
}

int main() { return vd::run_main(handle); }
