// c04_common.hpp — argument dispatch helpers of the C04 drivers (c04_a.cpp, c04_b.cpp).
//   with_ilist(kind, v, menu, f)  : f(list of int)    kinds vec | arr | tup | ct(menu of compile-time lists)
//   with_ulist(kind, v, f)        : f(list of size_t) kinds vec | arr | tup | sv
//   with_ct_int(x, menu, f)       : f(integral constant) for x in the menu
// Under -DVD_LIGHT (sanitizer flavour) only the run-time sized kinds are compiled.
#pragma once
#include "show.hpp"
#include "nmtools/utl/static_vector.hpp"
#include <utility>

namespace vd {

template <int... Vs> struct ctl {};            // a compile-time list of ints
template <typename... Ls> struct ctmenu {};    // a menu of such lists
template <int... Vs> struct ctints {};         // a menu of compile-time ints

template <typename F, int... Vs>
inline bool try_ct_list(const std::vector<ll>& v, F& f, std::string& out, ctl<Vs...>) {
    const std::vector<ll> m{(ll)Vs...};
    if (v != m) return false;
    out = f(nmtools_tuple{meta::ct<(int)Vs>{}...});
    return true;
}
template <typename F, typename... Ls>
inline std::string with_ct_list(const std::vector<ll>& v, ctmenu<Ls...>, F&& f) {
    std::string out = "unsupported";
    (void)(try_ct_list(v, f, out, Ls{}) || ...);
    return out;
}
template <typename F>
inline std::string with_ct_list(const std::vector<ll>&, ctmenu<>, F&&) { return "unsupported"; }

template <typename F, int... Vs>
inline std::string with_ct_int(ll x, ctints<Vs...>, F&& f) {
    std::string out = "unsupported";
    (void)(((x == (ll)Vs) ? (out = f(meta::ct<(int)Vs>{}), true) : false) || ...);
    return out;
}

template <typename Menu, typename F>
inline std::string with_ilist(const std::string& kind, const std::vector<ll>& v, Menu menu, F&& f) {
    if (kind == "vec") return f(vec_of<int>(v));
#ifndef VD_LIGHT
    if (kind == "arr") return with_list<int>("arr", v, f);
    if (kind == "tup") return with_list<int>("tup", v, f);
    if (kind == "ct") return with_ct_list(v, menu, f);
#endif
    (void)menu;
    return "unsupported";
}

template <typename F>
inline std::string with_ulist(const std::string& kind, const std::vector<ll>& v, F&& f) {
    if (kind == "vec") return f(vec_of<size_t>(v));
#ifndef VD_LIGHT
    if (kind == "arr") {
        switch (v.size()) {
            case 1: return f(arr_of<size_t,1>(v)); case 2: return f(arr_of<size_t,2>(v)); case 3: return f(arr_of<size_t,3>(v));
            case 4: return f(arr_of<size_t,4>(v));
            default: return "unsupported";
        }
    }
    if (kind == "sv") { nm::utl::static_vector<size_t, 8> a; a.resize(v.size()); for (size_t i = 0; i < v.size(); i++) a[i] = v[i]; return f(a); }
#endif
    return "unsupported";
}
// two lists of the same length in the same container kind (shape + index)
template <typename F>
inline std::string with_ulist_pair(const std::string& kind, const std::vector<ll>& v, const std::vector<ll>& u, F&& f) {
    if (v.size() != u.size()) return "unsupported";
    if (kind == "vec") return f(vec_of<size_t>(v), vec_of<size_t>(u));
#ifndef VD_LIGHT
    if (kind == "arr") {
        switch (v.size()) {
            case 1: return f(arr_of<size_t,1>(v), arr_of<size_t,1>(u)); case 2: return f(arr_of<size_t,2>(v), arr_of<size_t,2>(u));
            case 3: return f(arr_of<size_t,3>(v), arr_of<size_t,3>(u)); case 4: return f(arr_of<size_t,4>(v), arr_of<size_t,4>(u));
            default: return "unsupported";
        }
    }
    if (kind == "sv") {
        nm::utl::static_vector<size_t, 8> a, b; a.resize(v.size()); b.resize(u.size());
        for (size_t i = 0; i < v.size(); i++) { a[i] = v[i]; b[i] = u[i]; }
        return f(a, b);
    }
#endif
    return "unsupported";
}
// lists of even length up to 6 (pad widths)
template <typename F>
inline std::string with_ulist2(const std::string& kind, const std::vector<ll>& v, F&& f) {
    if (kind == "vec") return f(vec_of<size_t>(v));
#ifndef VD_LIGHT
    if (kind == "arr") {
        switch (v.size()) {
            case 2: return f(arr_of<size_t,2>(v)); case 4: return f(arr_of<size_t,4>(v)); case 6: return f(arr_of<size_t,6>(v));
            default: return "unsupported";
        }
    }
    if (kind == "sv") { nm::utl::static_vector<size_t, 8> a; a.resize(v.size()); for (size_t i = 0; i < v.size(); i++) a[i] = v[i]; return f(a); }
#endif
    return "unsupported";
}

// print a 1-d result whose element access needs a fixed-size index (v(i)); maybe / either unwrapped as in show()
template <typename V>
inline std::string show1(const V& v) {
    if constexpr (meta::is_either_v<V>) {
        using L = meta::get_either_left_t<V>; using R = meta::get_either_right_t<V>;
        if (auto l = nm::get_if<L>(&v)) return show1(*l);
        else return show1(*nm::get_if<R>(&v));
    } else if constexpr (meta::is_maybe_v<V>) {
        if (!nm::has_value(v)) return "nothing";
        return show1(*v);
    } else {
        const auto shp = nm::shape(v);
        size_t n = (size_t)nm::at(shp, meta::ct_v<0>);
        if (n > 2000000) return "trap huge-result";
        std::string o = "ok " + std::to_string((ll)n) + " ;";
        for (size_t i = 0; i < n; i++) o += (i ? "," : " ") + num_str(v(i));
        return o;
    }
}

// the compile-time menus (mirrored in harness/props/c04.py: CT_MENUS)
using CT_LISTS_NONE = ctmenu<>;
#define CT_LISTS_NONE CT_LISTS_NONE{}
using CT_LISTS_POS_t  = ctmenu<ctl<2>, ctl<3>, ctl<1,2>, ctl<2,1>, ctl<2,2>, ctl<2,1,2>>;           // tile reps
#define CT_LISTS_POS CT_LISTS_POS_t{}
using CT_LISTS_AXES_t = ctmenu<ctl<0>, ctl<0,1>, ctl<1,0>, ctl<-1,0>, ctl<0,2>>;                    // roll axes
#define CT_LISTS_AXES CT_LISTS_AXES_t{}
using CT_LISTS_PAD_t  = ctmenu<ctl<1,2>, ctl<0,1>, ctl<1,0,2,1>, ctl<0,2,1,0>, ctl<1,0,1,0,1,2>>;   // pad widths
#define CT_LISTS_PAD CT_LISTS_PAD_t{}
using CT_LISTS_TAKE_t = ctmenu<ctl<0>, ctl<1,0>, ctl<0,0,1>, ctl<1,1>>;                              // take indices
#define CT_LISTS_TAKE CT_LISTS_TAKE_t{}
using CT_LISTS_RESIZE_t = ctmenu<ctl<4>, ctl<2,5>, ctl<3,1>, ctl<1,2,4>>;                           // resize target shapes
#define CT_LISTS_RESIZE CT_LISTS_RESIZE_t{}
using CT_LISTS_WIN_t = ctmenu<ctl<2>, ctl<1,2>, ctl<2,2>, ctl<2,1,2>>;                               // sliding windows (axis None)
#define CT_LISTS_WIN CT_LISTS_WIN_t{}
using CT_INTS_OFF_t = ctints<0, 1, -1, 2>;                                                          // offsets / k
#define CT_INTS_OFF CT_INTS_OFF_t{}
using CT_INTS_POS_t   = ctints<1, 2, 3>;
#define CT_INTS_POS CT_INTS_POS_t{}
using CT_INTS_AXIS_t  = ctints<0, 1, 2, -1>;
#define CT_INTS_AXIS CT_INTS_AXIS_t{}

} // namespace vd
