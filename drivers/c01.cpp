// c01.cpp — implementation side of the C01 correspondence: calls the real
// nmtools addressing functions for every index-container kind.
#include "nmtools/array/index/compute_strides.hpp"
#include "nmtools/array/index/compute_offset.hpp"
#include "nmtools/array/index/compute_indices.hpp"
#include "nmtools/array/index/ndindex.hpp"
#include "nmtools/array/index/product.hpp"
#include "nmtools/array/index/reverse.hpp"
#include "nmtools/array/ndarray.hpp"
#include "nmtools/utl/static_vector.hpp"
#include "nmtools/utl/vector.hpp"
#include "common.hpp"
#include <array>
#include <tuple>
#include <numeric>

namespace nm = nmtools;
namespace ix = nmtools::index;
using vd::ll; using vd::Case; using vd::Arg;

// ---- generic printing of any index container (vector / array / tuple / static_vector ...)
template <typename C>
static std::string show_idx(const C& c) {
    std::string s; auto n = (size_t)nm::len(c);
    if constexpr (nm::meta::is_tuple_v<C>) {
        constexpr auto N = nm::meta::len_v<C>; bool first = true;
        nm::meta::template_for<N>([&](auto i){ if (!first) s += ","; first = false; s += std::to_string((ll)nm::at(c, i)); });
    } else {
        for (size_t i = 0; i < n; i++) { if (i) s += ","; s += std::to_string((ll)nm::at(c, i)); }
    }
    return s;
}

// ---- container construction per kind
template <typename T> static std::vector<T> mk_vec(const std::vector<ll>& v) { return std::vector<T>(v.begin(), v.end()); }
template <typename T, size_t N> static std::array<T, N> mk_arr(const std::vector<ll>& v) { std::array<T, N> a{}; for (size_t i = 0; i < N; i++) a[i] = (T)v[i]; return a; }
template <typename T> static nm::utl::static_vector<T, 8> mk_sv(const std::vector<ll>& v) { nm::utl::static_vector<T, 8> a; a.resize(v.size()); for (size_t i = 0; i < v.size(); i++) a[i] = (T)v[i]; return a; }
template <typename T> static nm::utl::vector<T> mk_uv(const std::vector<ll>& v) { nm::utl::vector<T> a; a.resize(v.size()); for (size_t i = 0; i < v.size(); i++) a[i] = (T)v[i]; return a; }
template <typename T, size_t... I> static auto mk_tup_impl(const std::vector<ll>& v, std::index_sequence<I...>) { return nmtools_tuple{(T)v[I]...}; }
template <typename T, size_t N> static auto mk_tup(const std::vector<ll>& v) { return mk_tup_impl<T>(v, std::make_index_sequence<N>{}); }

// run f on the container of kind `kind` built from `v` (element type size_t)
template <typename F>
static std::string with_kind(const std::string& kind, const std::vector<ll>& v, F&& f) {
    using T = size_t;
    size_t n = v.size();
    if (kind == "vec") return f(mk_vec<T>(v));
    if (kind == "sv")  { if (n > 8) return "unsupported"; return f(mk_sv<T>(v)); }
    if (kind == "uv")  return f(mk_uv<T>(v));
    if (kind == "arr") {
        switch (n) {
            case 1: return f(mk_arr<T,1>(v)); case 2: return f(mk_arr<T,2>(v)); case 3: return f(mk_arr<T,3>(v));
            case 4: return f(mk_arr<T,4>(v)); case 5: return f(mk_arr<T,5>(v)); case 6: return f(mk_arr<T,6>(v));
            default: return "unsupported";
        }
    }
    if (kind == "tup") {
        switch (n) {
            case 1: return f(mk_tup<T,1>(v)); case 2: return f(mk_tup<T,2>(v)); case 3: return f(mk_tup<T,3>(v));
            case 4: return f(mk_tup<T,4>(v)); case 5: return f(mk_tup<T,5>(v)); case 6: return f(mk_tup<T,6>(v));
            default: return "unsupported";
        }
    }
    return "unsupported";
}
// 32-bit unsigned elements: extents / strides fit, products may not (compute_offset must widen BEFORE multiplying)
template <typename F>
static std::string with_kind_u32(const std::string& kind, const std::vector<ll>& v, F&& f) {
    using T = unsigned int;
    size_t n = v.size();
    for (auto x : v) if (x < 0 || x > 4294967295LL) return "unsupported";
    if (kind == "vecu") return f(mk_vec<T>(v));
    if (kind == "tupu") {
        switch (n) {
            case 1: return f(mk_tup<T,1>(v)); case 2: return f(mk_tup<T,2>(v)); case 3: return f(mk_tup<T,3>(v));
            case 4: return f(mk_tup<T,4>(v)); case 5: return f(mk_tup<T,5>(v)); case 6: return f(mk_tup<T,6>(v));
            default: return "unsupported";
        }
    }
    if (kind == "arru") {
        switch (n) {
            case 1: return f(mk_arr<T,1>(v)); case 2: return f(mk_arr<T,2>(v)); case 3: return f(mk_arr<T,3>(v));
            case 4: return f(mk_arr<T,4>(v)); case 5: return f(mk_arr<T,5>(v)); case 6: return f(mk_arr<T,6>(v));
            default: return "unsupported";
        }
    }
    return "unsupported";
}
// same with int elements (the index type the views use)
template <typename F>
static std::string with_kind_int(const std::string& kind, const std::vector<ll>& v, F&& f) {
    using T = int;
    size_t n = v.size();
    if (kind == "veci") return f(mk_vec<T>(v));
    if (kind == "arri") {
        switch (n) {
            case 1: return f(mk_arr<T,1>(v)); case 2: return f(mk_arr<T,2>(v)); case 3: return f(mk_arr<T,3>(v));
            case 4: return f(mk_arr<T,4>(v)); case 5: return f(mk_arr<T,5>(v)); case 6: return f(mk_arr<T,6>(v));
            default: return "unsupported";
        }
    }
    return "unsupported";
}

template <template <typename...> typename offset_t>
using dyn_array_t = nm::array::ndarray_t<std::vector<ll>, std::vector<size_t>, nm::array::resolve_stride_type_t, offset_t>;

template <typename array_t>
static bool make_iota(array_t& a, const std::vector<ll>& shape) {
    auto shp = mk_vec<size_t>(shape);
    if (!a.resize(shp)) return false;
    size_t n = 1; for (auto e : shape) n *= (size_t)e;
    for (size_t k = 0; k < n; k++) a.data_[k] = (ll)k;
    return true;
}

// nested-loop enumeration written here, independent of nmtools
static void nested(const std::vector<ll>& shape, const std::function<void(const std::vector<size_t>&)>& f) {
    std::vector<size_t> idx(shape.size(), 0);
    size_t n = 1; for (auto e : shape) n *= (size_t)e;
    for (size_t c = 0; c < n; c++) {
        f(idx);
        for (int d = (int)shape.size() - 1; d >= 0; d--) { if (++idx[d] < (size_t)shape[d]) break; idx[d] = 0; }
    }
}

template <typename array_t>
static std::string arr_ops(const Case& c) {
    const auto& shape = c.args[1].list;
    array_t a;
    if (!make_iota(a, shape)) return "refused";
    if (c.op == "aget") {
        auto idx = mk_vec<size_t>(c.args[2].list);
        return "ok " + std::to_string((ll)a(idx));
    }
    if (c.op == "ameta") {
        return "ok " + show_idx(a.shape()) + " ; " + show_idx(a.strides()) + " ; " + std::to_string((ll)a.size());
    }
    if (c.op == "aenum") {
        std::string s = "ok";
        nested(shape, [&](const std::vector<size_t>& idx){ s += " " + std::to_string((ll)a(idx)); });
        return s;
    }
    if (c.op == "asetget") {
        // write through operator() at idx, then report which buffer cells changed
        auto idx = mk_vec<size_t>(c.args[2].list);
        a(idx) = -7;
        std::string s = "ok"; size_t n = a.data_.size();
        for (size_t k = 0; k < n; k++) if (a.data_[k] != (ll)k) s += " " + std::to_string((ll)k);
        return s;
    }
    return "unsupported";
}

static std::string handle(const Case& c) {
    const std::string& op = c.op;
    if (op == "aget" || op == "ameta" || op == "aenum" || op == "asetget") {
        const std::string& L = c.args[0].raw;
        if (L == "S:row") return arr_ops<dyn_array_t<nm::array::row_major_offset_t>>(c);
        if (L == "S:col") return arr_ops<dyn_array_t<nm::array::column_major_offset_t>>(c);
        return "unsupported";
    }
    std::string kind = c.args[0].raw.substr(2);
    bool is_int = (kind == "veci" || kind == "arri");
    bool is_u32 = (kind == "vecu" || kind == "arru" || kind == "tupu");
    auto dispatch = [&](const std::vector<ll>& v, auto&& f) -> std::string {
        return is_int ? with_kind_int(kind, v, f) : is_u32 ? with_kind_u32(kind, v, f) : with_kind(kind, v, f);
    };
    if (op == "strides") {
        return dispatch(c.args[1].list, [&](const auto& shape){ return "ok " + show_idx(ix::compute_strides(shape)); });
    }
    if (op == "product") {
        return dispatch(c.args[1].list, [&](const auto& shape){ return "ok " + std::to_string((ll)ix::product(shape)); });
    }
    if (op == "offset") {
        // indices and strides both of the requested kind
        return dispatch(c.args[1].list, [&](const auto& idx){
            return dispatch(c.args[2].list, [&](const auto& st) -> std::string {
                if constexpr (nm::meta::len_v<std::decay_t<decltype(idx)>> != nm::meta::len_v<std::decay_t<decltype(st)>>) return "unsupported";
                else return "ok " + std::to_string((ll)ix::compute_offset(idx, st));
            });
        });
    }
    if (op == "indices") {
        size_t k = (size_t)c.args[1].val;
        return dispatch(c.args[2].list, [&](const auto& shape){ return "ok " + show_idx(ix::compute_indices(k, shape)); });
    }
    if (op == "roundtrip") {
        // offset(indices(k, shape), strides(shape)) computed entirely by nmtools
        size_t k = (size_t)c.args[1].val;
        return dispatch(c.args[2].list, [&](const auto& shape){
            auto st = ix::compute_strides(shape);
            auto idx = ix::compute_indices(k, shape, st);
            return "ok " + std::to_string((ll)ix::compute_offset(idx, st));
        });
    }
    if (op == "ndenum") {
        return dispatch(c.args[1].list, [&](const auto& shape){
            auto nd = ix::ndindex(shape); std::string s = "ok"; size_t n = nd.size();
            for (size_t k = 0; k < n; k++) { s += (k ? " ; " : " ") + show_idx(nd[k]); }
            return s;
        });
    }
    return "unsupported";
}

int main() { return vd::run_main(handle); }
