// c16_forms.cpp — C16 argument FORMS: the routines called with their arguments OMITTED where the API has defaults
// (trace / diagonal: offset, axis1, axis2; tensordot: axes) and with compile-time-constant arguments (meta::ct) next
// to the run-time forms of c16.cpp.  The Spec side uses NumPy's documented defaults (offset=0, axis1=0, axis2=1; axes=2).
//   trace_d|diagonal_d   S:<view|eval|fix> A:a                       all defaults
//   trace_o|diagonal_o   S:<view|eval|fix> A:a I:off                 axes defaulted, run-time offset
//   trace_oc|diagonal_oc S:<view|eval> A:a I:off                     axes defaulted, constant offset (-1,0,1)
//   trace_oa|diagonal_oa S:<view|eval> A:a I:off I:ax1               axis2 defaulted
//   trace_ct|diagonal_ct S:<view|eval> A:a I:off I:ax1 I:ax2         all constants (offset -1..1, listed axis pairs)
//   trace_dt             S:<view|eval> S:<T> S:<D> A:a I:off I:ax1 I:ax2   the dtype ARGUMENT, run-time offset / axes, element type T
//   trace_dtc            S:<view|eval> S:<T> S:<D> A:a I:off I:ax1 I:ax2   the dtype argument with constant offset (0,1) / axes ((0,1),(-2,-1))
//   vecdot_dt            S:<view|eval> S:<TA> S:<TB> S:<D> A:a A:b         vecdot(a, b, dtype)
//        -> "<values> ; view=<type> eval=<type> evalsame=<1|0>"   ((T,D) / (TA,TB,D) combinations of the generator only)
//   tdot_d               S:<view|eval|fix> A:a A:b                   axes defaulted (2)
//   tdot_ct              S:<view|eval> A:a A:b I:n                   constant integer axes 0..3
//   tdotx_ct             S:<view|eval> A:a A:b L:axa L:axb           constant explicit axes (listed pairings)
#include "nmtools/array/view/tensordot.hpp"
#include "nmtools/array/view/trace.hpp"
#include "nmtools/array/view/diagonal.hpp"
#include "nmtools/array/array/tensordot.hpp"
#include "nmtools/array/array/trace.hpp"
#include "nmtools/array/array/diagonal.hpp"
#include "nmtools/array/view/vecdot.hpp"
#include "nmtools/array/array/vecdot.hpp"
#include "nmtools/array/eval.hpp"
#include "show.hpp"
#include <cstdint>

namespace view = nmtools::view;
namespace arr = nmtools::array;
using namespace vd;
using nmtools::meta::ct_v;

template <size_t M, size_t N> static std::array<std::array<ll, N>, M> fx2(const std::vector<ll>& d) {
    std::array<std::array<ll, N>, M> a{}; for (size_t i = 0; i < M; i++) for (size_t j = 0; j < N; j++) a[i][j] = d[i * N + j]; return a; }
template <size_t L, size_t M, size_t N> static std::array<std::array<std::array<ll, N>, M>, L> fx3(const std::vector<ll>& d) {
    std::array<std::array<std::array<ll, N>, M>, L> a{};
    for (size_t h = 0; h < L; h++) for (size_t i = 0; i < M; i++) for (size_t j = 0; j < N; j++) a[h][i][j] = d[(h * M + i) * N + j]; return a; }
static std::string shp(const Arg& a) { return joinc(a.shape); }

// f(a, trace?) for the chosen library entry point
#define CALL(isview, fn, ...) ((isview) ? show(view::fn(__VA_ARGS__)) : show(arr::fn(__VA_ARGS__)))

template <typename A, typename... Args>
static std::string td(bool tr, bool v, const A& a, Args... args) {
    if (tr) return CALL(v, trace, a, args...);
    return CALL(v, diagonal, a, args...);
}

#ifndef VD_LIGHT
template <typename A, typename O>
static std::string with_ct_axes(bool tr, bool v, const A& a, O off, int ax1, int ax2) {
    if (ax1 == 0 && ax2 == 1) return td(tr, v, a, off, ct_v<0>, ct_v<1>);
    if (ax1 == 1 && ax2 == 0) return td(tr, v, a, off, ct_v<1>, ct_v<0>);
    if (ax1 == 1 && ax2 == 2) return td(tr, v, a, off, ct_v<1>, ct_v<2>);
    if (ax1 == 0 && ax2 == 2) return td(tr, v, a, off, ct_v<0>, ct_v<2>);
    if (ax1 == -2 && ax2 == -1) return td(tr, v, a, off, ct_v<-2>, ct_v<-1>);
    if (ax1 == -1 && ax2 == 0) return td(tr, v, a, off, ct_v<-1>, ct_v<0>);
    return "unsupported";
}
#endif


// ---- typed operands and the element type tag (conventions of c16_dtype_1.cpp: floating data are halves)
template <typename T> static std::string tname() {
    if constexpr (std::is_floating_point_v<T>) return sizeof(T) == 4 ? "f32" : "f64";
    else if constexpr (std::is_integral_v<T>) return std::string(std::is_signed_v<T> ? "i" : "u") + std::to_string(8 * sizeof(T));
    else return "other";
}
template <typename V> static std::string elem_name(const V&) { return tname<meta::get_element_type_t<meta::remove_cvref_t<V>>>(); }
template <typename T> static dyn_t<T> typed_array(const Arg& a) {
    dyn_t<T> r; std::vector<size_t> shp(a.shape.begin(), a.shape.end()); r.resize(shp);
    std::vector<size_t> idx(shp.size(), 0); size_t n = 1; for (auto e : shp) n *= e;
    for (size_t c = 0; c < n; c++) {
        if constexpr (std::is_floating_point_v<T>) r(idx) = (T)a.list[c] / (T)2; else r(idx) = (T)a.list[c];
        for (int k = (int)shp.size() - 1; k >= 0; k--) { if (++idx[k] < shp[k]) break; idx[k] = 0; }
    }
    return r;
}
// view given: values + type of the view, of its evaluation, and whether they agree; eager result given: its values + type
template <typename MV> static std::string show_tag(const MV& mv, bool is_view) {
    if constexpr (meta::is_maybe_v<MV>) { if (!nm::has_value(mv)) return "nothing"; }
    const auto& v = nm::unwrap(mv);
    using V = meta::remove_cvref_t<decltype(v)>;
    std::string tag; if constexpr (meta::is_num_v<V>) tag = tname<V>(); else tag = elem_name(v);
    if (!is_view) return show(v) + " ; view=" + tag + " eval=" + tag + " evalsame=1";      // eager API: one object
    if constexpr (meta::is_num_v<V>) return show(v) + " ; view=" + tag + " eval=" + tag + " evalsame=1";
    else {
        auto r = nm::array::eval(v, nm::None, nm::None, meta::as_value_v<nm::array::eval_result_t<>>);
        const auto& rr = nm::unwrap(r);
        using R = meta::remove_cvref_t<decltype(rr)>;
        std::string et; if constexpr (meta::is_num_v<R>) et = tname<R>(); else et = elem_name(rr);
        return show(v) + " ; view=" + tag + " eval=" + et + " evalsame=" + (show(rr) == show(v) ? "1" : "0");
    }
}
template <typename T, typename D> static std::string trace_dtype(const Case& c, bool v, bool constant, D dtype) {
    auto a = typed_array<T>(c.args[3]);
    int off = (int)c.args[4].val, ax1 = (int)c.args[5].val, ax2 = (int)c.args[6].val;
    if (!constant) return v ? show_tag(view::trace(a, off, ax1, ax2, dtype), true) : show_tag(arr::trace(a, off, ax1, ax2, dtype), false);
#ifndef VD_LIGHT
    #define TRC(O, P, Q) if (off == O && ax1 == P && ax2 == Q) return v ? show_tag(view::trace(a, ct_v<O>, ct_v<P>, ct_v<Q>, dtype), true) : show_tag(arr::trace(a, ct_v<O>, ct_v<P>, ct_v<Q>, dtype), false);
    TRC(0, 0, 1) TRC(1, 0, 1) TRC(0, -2, -1) TRC(1, -2, -1)
    #undef TRC
#endif
    return "unsupported";
}
template <typename TA, typename TB, typename D> static std::string vecdot_dtype(const Case& c, bool v, D dtype) {
    auto a = typed_array<TA>(c.args[4]); auto b = typed_array<TB>(c.args[5]);
    return v ? show_tag(view::vecdot(a, b, dtype), true) : show_tag(arr::vecdot(a, b, dtype), false);
}

static std::string handle(const Case& c) {
    const std::string& op = c.op;
    std::string k = c.args[0].raw.substr(2);
    bool v = (k == "view");
    if (op == "trace_dt" || op == "trace_dtc") {
        if (k != "view" && k != "eval") return "unsupported";
        const std::string t = c.args[1].raw.substr(2), d = c.args[2].raw.substr(2); bool cst = (op == "trace_dtc");
        if (t == "i8" && d == "i32") return trace_dtype<int8_t>(c, v, cst, nm::int32);
        if (t == "i8" && d == "i64") return trace_dtype<int8_t>(c, v, cst, nm::int64);
        if (t == "u8" && d == "i32") return trace_dtype<uint8_t>(c, v, cst, nm::int32);
        if (t == "i16" && d == "f64") return trace_dtype<int16_t>(c, v, cst, nm::float64);
        if (t == "i16" && d == "i64") return trace_dtype<int16_t>(c, v, cst, nm::int64);
        if (t == "i32" && d == "i8") return trace_dtype<int32_t>(c, v, cst, nm::int8);
        if (t == "f32" && d == "f64") return trace_dtype<float>(c, v, cst, nm::float64);
        return "unsupported";
    }
    if (op == "vecdot_dt") {
        if (k != "view" && k != "eval") return "unsupported";
        const std::string f = c.args[1].raw.substr(2) + ":" + c.args[2].raw.substr(2) + ":" + c.args[3].raw.substr(2);
        if (f == "i8:i8:i64") return vecdot_dtype<int8_t, int8_t>(c, v, nm::int64);
        if (f == "u8:i8:i16") return vecdot_dtype<uint8_t, int8_t>(c, v, nm::int16);
        if (f == "i16:i32:f64") return vecdot_dtype<int16_t, int32_t>(c, v, nm::float64);
        if (f == "i32:i32:i8") return vecdot_dtype<int32_t, int32_t>(c, v, nm::int8);
        if (f == "i8:f32:f64") return vecdot_dtype<int8_t, float>(c, v, nm::float64);
        return "unsupported";
    }
    bool is_tr = op.rfind("trace", 0) == 0, is_dg = op.rfind("diagonal", 0) == 0;
    if (is_tr || is_dg) {
        std::string form = op.substr(op.find('_') + 1);
        if (k == "fix") {
#ifndef VD_LIGHT
            std::string s = shp(c.args[1]);
            auto go = [&](const auto& a) -> std::string {
                if (form == "d") return td(is_tr, true, a);
                if (form == "o") return td(is_tr, true, a, (int)c.args[2].val);
                return "unsupported"; };
            if (s == "3,3") return go(fx2<3,3>(c.args[1].list));
            if (s == "2,3,2") return go(fx3<2,3,2>(c.args[1].list));
            if (s == "3,3,3") return go(fx3<3,3,3>(c.args[1].list));
#endif
            return "unsupported";
        }
        if (k != "view" && k != "eval") return "unsupported";
        auto a = make_array(c.args[1]);
        if (form == "d") return td(is_tr, v, a);
        if (form == "o") return td(is_tr, v, a, (int)c.args[2].val);
        if (form == "oa") return td(is_tr, v, a, (int)c.args[2].val, (int)c.args[3].val);
        if (form == "oc") {
            switch ((int)c.args[2].val) {
                case 0: return td(is_tr, v, a, ct_v<0>);
                case 1: return td(is_tr, v, a, ct_v<1>);
                case -1: return td(is_tr, v, a, ct_v<-1>);
                default: return "unsupported";
            }
        }
#ifndef VD_LIGHT
        if (form == "ct") {
            int ax1 = (int)c.args[3].val, ax2 = (int)c.args[4].val;
            switch ((int)c.args[2].val) {
                case 0: return with_ct_axes(is_tr, v, a, ct_v<0>, ax1, ax2);
                case 1: return with_ct_axes(is_tr, v, a, ct_v<1>, ax1, ax2);
                case -1: return with_ct_axes(is_tr, v, a, ct_v<-1>, ax1, ax2);
                default: return "unsupported";
            }
        }
#endif
        return "unsupported";
    }
    if (op == "tdot_d") {
        if (k == "fix") {
#ifndef VD_LIGHT
            std::string s = shp(c.args[1]) + "|" + shp(c.args[2]);
            if (s == "2,3|2,3") return show(view::tensordot(fx2<2,3>(c.args[1].list), fx2<2,3>(c.args[2].list)));
            if (s == "2,2,3|2,3,2") return show(view::tensordot(fx3<2,2,3>(c.args[1].list), fx3<2,3,2>(c.args[2].list)));
#endif
            return "unsupported";
        }
        auto a = make_array(c.args[1]); auto b = make_array(c.args[2]);
        if (k == "view") return show(view::tensordot(a, b));
        if (k == "eval") return show(arr::tensordot(a, b));
        return "unsupported";
    }
    if (op == "tdot_ct") {
        auto a = make_array(c.args[1]); auto b = make_array(c.args[2]);
        if (k != "view" && k != "eval") return "unsupported";
        switch ((int)c.args[3].val) {
            // ct_v<0> does not compile (empty constant axis tuple in reduction_slices): compile-rejected form
            case 1: return CALL(v, tensordot, a, b, ct_v<1>);
            case 2: return CALL(v, tensordot, a, b, ct_v<2>);
            case 3: return CALL(v, tensordot, a, b, ct_v<3>);
            default: return "unsupported";
        }
    }
#ifndef VD_LIGHT
    if (op == "tdotx_ct") {
        auto a = make_array(c.args[1]); auto b = make_array(c.args[2]);
        if (k != "view" && k != "eval") return "unsupported";
        std::string f = joinc(c.args[3].list) + "|" + joinc(c.args[4].list);
        if (f == "0|0") return CALL(v, tensordot, a, b, (nmtools_tuple{nmtools_tuple{ct_v<0>}, nmtools_tuple{ct_v<0>}}));
        if (f == "1|0") return CALL(v, tensordot, a, b, (nmtools_tuple{nmtools_tuple{ct_v<1>}, nmtools_tuple{ct_v<0>}}));
        if (f == "-1|0") return CALL(v, tensordot, a, b, (nmtools_tuple{nmtools_tuple{ct_v<-1>}, nmtools_tuple{ct_v<0>}}));
        if (f == "0,1|1,0") return CALL(v, tensordot, a, b, (nmtools_tuple{nmtools_tuple{ct_v<0>, ct_v<1>}, nmtools_tuple{ct_v<1>, ct_v<0>}}));
        if (f == "1,2|0,1") return CALL(v, tensordot, a, b, (nmtools_tuple{nmtools_tuple{ct_v<1>, ct_v<2>}, nmtools_tuple{ct_v<0>, ct_v<1>}}));
        if (f == "2,0|0,-1") return CALL(v, tensordot, a, b, (nmtools_tuple{nmtools_tuple{ct_v<2>, ct_v<0>}, nmtools_tuple{ct_v<0>, ct_v<-1>}}));
        return "unsupported";
    }
#endif
    return "unsupported";
}

int main() { return vd::run_main(handle); }
