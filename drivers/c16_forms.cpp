// c16_forms.cpp — C16 argument FORMS: the routines called with their arguments OMITTED where the API has defaults
// (trace / diagonal: offset, axis1, axis2; tensordot: axes) and with compile-time-constant arguments (meta::ct) next
// to the run-time forms of c16.cpp.  The Spec side uses NumPy's documented defaults (offset=0, axis1=0, axis2=1; axes=2).
//   trace_d|diagonal_d   S:<view|eval|fix> A:a                       all defaults
//   trace_o|diagonal_o   S:<view|eval|fix> A:a I:off                 axes defaulted, run-time offset
//   trace_oc|diagonal_oc S:<view|eval> A:a I:off                     axes defaulted, constant offset (-1,0,1)
//   trace_oa|diagonal_oa S:<view|eval> A:a I:off I:ax1               axis2 defaulted
//   trace_ct|diagonal_ct S:<view|eval> A:a I:off I:ax1 I:ax2         all constants (offset -1..1, listed axis pairs)
//   tdot_d               S:<view|eval|fix> A:a A:b                   axes defaulted (2)
//   tdot_ct              S:<view|eval> A:a A:b I:n                   constant integer axes 0..3
//   tdotx_ct             S:<view|eval> A:a A:b L:axa L:axb           constant explicit axes (listed pairings)
#include "nmtools/array/view/tensordot.hpp"
#include "nmtools/array/view/trace.hpp"
#include "nmtools/array/view/diagonal.hpp"
#include "nmtools/array/array/tensordot.hpp"
#include "nmtools/array/array/trace.hpp"
#include "nmtools/array/array/diagonal.hpp"
#include "show.hpp"

namespace view = nmtools::view;
namespace arr = nmtools::array;
using namespace vd;
using nmtools::meta::ct_v;

template <size_t M, size_t N> static std::array<std::array<ll, N>, M> fx2(const std::vector<ll>& d) {
    std::array<std::array<ll, N>, M> a{}; for (size_t i = 0; i < M; i++) for (size_t j = 0; j < N; j++) a[i][j] = d[i * N + j]; return a; }
template <size_t L, size_t M, size_t N> static std::array<std::array<std::array<ll, N>, M>, L> fx3(const std::vector<ll>& d) {
    std::array<std::array<std::array<ll, N>, M>, L> a{};
    for (size_t h = 0; h < L; h++) for (size_t i = 0; i < M; i++) for (size_t j = 0; j < N; j++) a[h][i][j] = d[(h * M + i) * N + j]; return a; }
static std::string shp(const Arg& a) { return joinc(a.shape); }

// f(a, trace?) for the chosen library entry point
#define CALL(isview, fn, ...) ((isview) ? show(view::fn(__VA_ARGS__)) : show(arr::fn(__VA_ARGS__)))

template <typename A, typename... Args>
static std::string td(bool tr, bool v, const A& a, Args... args) {
    if (tr) return CALL(v, trace, a, args...);
    return CALL(v, diagonal, a, args...);
}

#ifndef VD_LIGHT
template <typename A, typename O>
static std::string with_ct_axes(bool tr, bool v, const A& a, O off, int ax1, int ax2) {
    if (ax1 == 0 && ax2 == 1) return td(tr, v, a, off, ct_v<0>, ct_v<1>);
    if (ax1 == 1 && ax2 == 0) return td(tr, v, a, off, ct_v<1>, ct_v<0>);
    if (ax1 == 1 && ax2 == 2) return td(tr, v, a, off, ct_v<1>, ct_v<2>);
    if (ax1 == 0 && ax2 == 2) return td(tr, v, a, off, ct_v<0>, ct_v<2>);
    if (ax1 == -2 && ax2 == -1) return td(tr, v, a, off, ct_v<-2>, ct_v<-1>);
    if (ax1 == -1 && ax2 == 0) return td(tr, v, a, off, ct_v<-1>, ct_v<0>);
    return "unsupported";
}
#endif

static std::string handle(const Case& c) {
    const std::string& op = c.op;
    std::string k = c.args[0].raw.substr(2);
    bool v = (k == "view");
    bool is_tr = op.rfind("trace", 0) == 0, is_dg = op.rfind("diagonal", 0) == 0;
    if (is_tr || is_dg) {
        std::string form = op.substr(op.find('_') + 1);
        if (k == "fix") {
#ifndef VD_LIGHT
            std::string s = shp(c.args[1]);
            auto go = [&](const auto& a) -> std::string {
                if (form == "d") return td(is_tr, true, a);
                if (form == "o") return td(is_tr, true, a, (int)c.args[2].val);
                return "unsupported"; };
            if (s == "3,3") return go(fx2<3,3>(c.args[1].list));
            if (s == "2,3,2") return go(fx3<2,3,2>(c.args[1].list));
            if (s == "3,3,3") return go(fx3<3,3,3>(c.args[1].list));
#endif
            return "unsupported";
        }
        if (k != "view" && k != "eval") return "unsupported";
        auto a = make_array(c.args[1]);
        if (form == "d") return td(is_tr, v, a);
        if (form == "o") return td(is_tr, v, a, (int)c.args[2].val);
        if (form == "oa") return td(is_tr, v, a, (int)c.args[2].val, (int)c.args[3].val);
        if (form == "oc") {
            switch ((int)c.args[2].val) {
                case 0: return td(is_tr, v, a, ct_v<0>);
                case 1: return td(is_tr, v, a, ct_v<1>);
                case -1: return td(is_tr, v, a, ct_v<-1>);
                default: return "unsupported";
            }
        }
#ifndef VD_LIGHT
        if (form == "ct") {
            int ax1 = (int)c.args[3].val, ax2 = (int)c.args[4].val;
            switch ((int)c.args[2].val) {
                case 0: return with_ct_axes(is_tr, v, a, ct_v<0>, ax1, ax2);
                case 1: return with_ct_axes(is_tr, v, a, ct_v<1>, ax1, ax2);
                case -1: return with_ct_axes(is_tr, v, a, ct_v<-1>, ax1, ax2);
                default: return "unsupported";
            }
        }
#endif
        return "unsupported";
    }
    if (op == "tdot_d") {
        if (k == "fix") {
#ifndef VD_LIGHT
            std::string s = shp(c.args[1]) + "|" + shp(c.args[2]);
            if (s == "2,3|2,3") return show(view::tensordot(fx2<2,3>(c.args[1].list), fx2<2,3>(c.args[2].list)));
            if (s == "2,2,3|2,3,2") return show(view::tensordot(fx3<2,2,3>(c.args[1].list), fx3<2,3,2>(c.args[2].list)));
#endif
            return "unsupported";
        }
        auto a = make_array(c.args[1]); auto b = make_array(c.args[2]);
        if (k == "view") return show(view::tensordot(a, b));
        if (k == "eval") return show(arr::tensordot(a, b));
        return "unsupported";
    }
    if (op == "tdot_ct") {
        auto a = make_array(c.args[1]); auto b = make_array(c.args[2]);
        if (k != "view" && k != "eval") return "unsupported";
        switch ((int)c.args[3].val) {
            // ct_v<0> does not compile (empty constant axis tuple in reduction_slices): compile-rejected form
            case 1: return CALL(v, tensordot, a, b, ct_v<1>);
            case 2: return CALL(v, tensordot, a, b, ct_v<2>);
            case 3: return CALL(v, tensordot, a, b, ct_v<3>);
            default: return "unsupported";
        }
    }
#ifndef VD_LIGHT
    if (op == "tdotx_ct") {
        auto a = make_array(c.args[1]); auto b = make_array(c.args[2]);
        if (k != "view" && k != "eval") return "unsupported";
        std::string f = joinc(c.args[3].list) + "|" + joinc(c.args[4].list);
        if (f == "0|0") return CALL(v, tensordot, a, b, (nmtools_tuple{nmtools_tuple{ct_v<0>}, nmtools_tuple{ct_v<0>}}));
        if (f == "1|0") return CALL(v, tensordot, a, b, (nmtools_tuple{nmtools_tuple{ct_v<1>}, nmtools_tuple{ct_v<0>}}));
        if (f == "-1|0") return CALL(v, tensordot, a, b, (nmtools_tuple{nmtools_tuple{ct_v<-1>}, nmtools_tuple{ct_v<0>}}));
        if (f == "0,1|1,0") return CALL(v, tensordot, a, b, (nmtools_tuple{nmtools_tuple{ct_v<0>, ct_v<1>}, nmtools_tuple{ct_v<1>, ct_v<0>}}));
        if (f == "1,2|0,1") return CALL(v, tensordot, a, b, (nmtools_tuple{nmtools_tuple{ct_v<1>, ct_v<2>}, nmtools_tuple{ct_v<0>, ct_v<1>}}));
        if (f == "2,0|0,-1") return CALL(v, tensordot, a, b, (nmtools_tuple{nmtools_tuple{ct_v<2>, ct_v<0>}, nmtools_tuple{ct_v<0>, ct_v<-1>}}));
        return "unsupported";
    }
#endif
    return "unsupported";
}

int main() { return vd::run_main(handle); }
