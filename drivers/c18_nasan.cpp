// c18_nasan.cpp — the C18 driver built with NDEBUG *and* AddressSanitizer: shows whether the assert-free
// paths of isequal / isclose read outside an operand (c18.py passes the hash of c18.cpp as a flag so that
// the build cache follows edits of the included file).
#include "c18.cpp"
