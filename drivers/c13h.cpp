// c13h.cpp — the HIP / SYCL route build of c13.cpp (part 3: every composition of the tables, with the extracted function
// mapped to the device through array::as_static as hip/sycl context_t::map_to_device do).  A separate source name only so
// that the harness' binary cache keeps it next to the other builds of c13.cpp.
#define C13_PART 3
#include "c13.cpp"
