// c04_b.cpp — implementation side of the C04 correspondence, part B:
// concatenate, stack / hstack / vstack / dstack / column_stack, split, sliding_window, diagonal, diagflat,
// tril / triu, where and the generators tri, eye / identity, full / zeros / ones (_like), arange, linspace.
#include "nmtools/array/view/concatenate.hpp"
#include "nmtools/array/view/stack.hpp"
#include "nmtools/array/view/hstack.hpp"
#include "nmtools/array/view/vstack.hpp"
#include "nmtools/array/view/dstack.hpp"
#include "nmtools/array/view/column_stack.hpp"
#include "nmtools/array/view/split.hpp"
#include "nmtools/array/view/sliding_window.hpp"
#include "nmtools/array/view/diagonal.hpp"
#include "nmtools/array/view/diagflat.hpp"
#include "nmtools/array/view/tril.hpp"
#include "nmtools/array/view/triu.hpp"
#include "nmtools/array/view/tri.hpp"
#include "nmtools/array/view/eye.hpp"
#include "nmtools/array/view/identity.hpp"
#include "nmtools/array/view/where.hpp"
#include "nmtools/array/view/full.hpp"
#include "nmtools/array/view/zeros.hpp"
#include "nmtools/array/view/ones.hpp"
#include "nmtools/array/view/full_like.hpp"
#include "nmtools/array/view/zeros_like.hpp"
#include "nmtools/array/view/ones_like.hpp"
#include "nmtools/array/view/arange.hpp"
#include "nmtools/array/view/linspace.hpp"
// (array/concatenate.hpp must not be visible here: the unqualified concatenate(...) calls inside view::stack / hstack / vstack /
//  dstack / column_stack become ambiguous through ADL on nmtools::array::ndarray_t operands; concat_e lives in c04_a.cpp)
#include "nmtools/array/array/stack.hpp"
#include "nmtools/array/array/sliding_window.hpp"
#include "nmtools/array/array/diagonal.hpp"
#include "nmtools/array/array/tril.hpp"
#include "nmtools/array/array/triu.hpp"
#include "nmtools/array/array/eye.hpp"
#include "nmtools/array/array/where.hpp"
#include "nmtools/array/array/arange.hpp"
#include "show.hpp"
#include "c04_common.hpp"

namespace ix = nmtools::index;
namespace view = nmtools::view;
namespace na = nmtools::array;
using namespace vd;
using nm::None;

template <typename Parts>
static std::string show_parts(const Parts& parts) {
    std::string o;
    if constexpr (meta::is_tuple_v<Parts>) {
        constexpr auto N = meta::len_v<Parts>; bool first = true;
        meta::template_for<N>([&](auto i){ if (!first) o += " | "; first = false; o += show(nm::at(parts, i)); });
    } else {
        for (size_t i = 0; i < parts.size(); i++) { if (i) o += " | "; o += show(parts[i]); }
    }
    return o;
}

// results computed in floating point with a rounded step (linspace) are marked "ok~": compared at float32 resolution
static std::string approx(std::string r) { if (r.rfind("ok ", 0) == 0) r = "ok~" + r.substr(2); return r; }

static std::string handle(const Case& c) {
    const std::string& op = c.op;
    auto kind = [&](size_t i) { return c.args[i].raw.substr(2); };

    // ------------------------------------------------------------------ concatenate
    if (op == "concat") {          // concat S:kind A:lhs A:rhs I:axis|N
        auto a = make_array(c.args[1]); auto b = make_array(c.args[2]);
        if (c.args[3].kind == 'N') return show1(view::concatenate(a, b, None));
        ll ax = c.args[3].val;
        if (kind(0) == "ct") return with_ct_int(ax, CT_INTS_AXIS, [&](auto axc) -> std::string { return show(view::concatenate(a, b, axc)); });
        if (kind(0) == "u") return ax < 0 ? std::string("unsupported") : show(view::concatenate(a, b, (size_t)ax));
        return show(view::concatenate(a, b, (int)ax));
    }
    if (op == "concat_ix") {       // concat_ix S:kind L:ashape L:bshape L:idx I:axis -> "ok <shape> ; a|b <index>"
        int ax = (int)c.args[4].val;
        return with_ulist_pair(kind(0), c.args[1].list, c.args[2].list, [&](const auto& as, const auto& bs) -> std::string {
            const auto [success, shp] = ix::shape_concatenate(as, bs, ax);
            if (!success) return "nothing";
            auto idx = vec_of<size_t>(c.args[3].list);
            const auto [aflag, bflag, ai, bi] = ix::concatenate(as, bs, idx, ax);
            return "ok " + show_index(shp) + " ; " + (aflag ? "a " + show_index(ai) : bflag ? "b " + show_index(bi) : std::string("neither"));
        });
    }
    if (op == "stack") {           // stack S:kind A:lhs A:rhs I:axis
        auto a = make_array(c.args[1]); auto b = make_array(c.args[2]); ll ax = c.args[3].val;
        if (kind(0) == "ct") return with_ct_int(ax, CT_INTS_AXIS, [&](auto axc) -> std::string { return show(view::stack(a, b, axc)); });
        return show(view::stack(a, b, (int)ax));
    }
    if (op == "stack_e") { auto a = make_array(c.args[0]); auto b = make_array(c.args[1]); return show(na::stack(a, b, (int)c.args[2].val)); }
    if (op == "hstack") { auto a = make_array(c.args[0]); auto b = make_array(c.args[1]); return show(view::hstack(a, b)); }
    if (op == "vstack") { auto a = make_array(c.args[0]); auto b = make_array(c.args[1]); return show(view::vstack(a, b)); }
    if (op == "dstack") { auto a = make_array(c.args[0]); auto b = make_array(c.args[1]); return show(view::dstack(a, b)); }
    if (op == "column_stack") { auto a = make_array(c.args[0]); auto b = make_array(c.args[1]); return show(view::column_stack(a, b)); }

    // ------------------------------------------------------------------ split
    if (op == "split") {           // split A:src I:sections I:axis      -> parts separated by " | "
        auto a = make_array(c.args[0]);
        return show_parts(view::split(a, (int)c.args[1].val, (int)c.args[2].val));
    }
    if (op == "split_l") {         // split_l S:kind A:src L:indices I:axis
        auto a = make_array(c.args[1]); int ax = (int)c.args[3].val;
        return with_ilist(kind(0), c.args[2].list, CT_LISTS_NONE, [&](const auto& ind) -> std::string { return show_parts(view::split(a, ind, ax)); });
    }
    // ------------------------------------------------------------------ sliding_window
    if (op == "sw") {              // sw S:kind A:src L:window L:axes | N
        auto a = make_array(c.args[1]);
        if (c.args[3].kind == 'N')
            return with_ilist(kind(0), c.args[2].list, CT_LISTS_WIN, [&](const auto& w) -> std::string { return show(view::sliding_window(a, w)); });
        auto w = vec_of<int>(c.args[2].list);
        return with_ilist(kind(0), c.args[3].list, CT_LISTS_AXES, [&](const auto& axes) -> std::string { return show(view::sliding_window(a, w, axes)); });
    }
    if (op == "sw1") {             // sw1 S:kind A:src I:window I:axis|N   (scalar window)
        auto a = make_array(c.args[1]); int w = (int)c.args[2].val;
        if (c.args[3].kind == 'N') return show(view::sliding_window(a, w));
        ll ax = c.args[3].val;
        if (kind(0) == "ct") return with_ct_int(ax, CT_INTS_AXIS, [&](auto axc) -> std::string { return show(view::sliding_window(a, w, axc)); });
        return show(view::sliding_window(a, w, (int)ax));
    }
    if (op == "sw_e") { auto a = make_array(c.args[0]); return show(na::sliding_window(a, vec_of<int>(c.args[1].list), vec_of<int>(c.args[2].list))); }
    if (op == "sw_ix") {           // sw_ix S:kind L:shape L:window L:axes L:idx -> "ok <shape> ; <index>"
        auto w = vec_of<size_t>(c.args[2].list); auto axes = vec_of<int>(c.args[3].list);
        return with_ulist(kind(0), c.args[1].list, [&](const auto& shp) -> std::string {
            auto dst = ix::shape_sliding_window(shp, w, axes);
            auto idx = vec_of<size_t>(c.args[4].list);
            auto src = ix::sliding_window(idx, dst, shp, w, axes);
            return "ok " + show_index(dst) + " ; " + show_index(src);
        });
    }
    // ------------------------------------------------------------------ diagonal / diagflat / tril / triu
    if (op == "diagonal") {        // diagonal S:kind A:src I:offset I:axis1 I:axis2
        auto a = make_array(c.args[1]); int off = (int)c.args[2].val; ll a1 = c.args[3].val, a2 = c.args[4].val;
        if (kind(0) == "ct") {
            if (a1 == 0 && a2 == 1) return with_ct_int(off, CT_INTS_OFF, [&](auto oc) -> std::string { return show(view::diagonal(a, oc, meta::ct_v<0>, meta::ct_v<1>)); });
            return "unsupported";
        }
        return show(view::diagonal(a, off, (int)a1, (int)a2));
    }
    if (op == "diagonal_e") { auto a = make_array(c.args[0]); return show(na::diagonal(a, (int)c.args[1].val, (int)c.args[2].val, (int)c.args[3].val)); }
    if (op == "diagflat") { auto a = make_array(c.args[0]); return show(view::diagflat(a, (int)c.args[1].val)); }
    if (op == "tril") {
        auto a = make_array(c.args[1]); ll k = c.args[2].val;
        if (kind(0) == "ct") return with_ct_int(k, CT_INTS_OFF, [&](auto kc) -> std::string { return show(view::tril(a, kc)); });
        return show(view::tril(a, (int)k));
    }
    if (op == "triu") {
        auto a = make_array(c.args[1]); ll k = c.args[2].val;
        if (kind(0) == "ct") return with_ct_int(k, CT_INTS_OFF, [&](auto kc) -> std::string { return show(view::triu(a, kc)); });
        return show(view::triu(a, (int)k));
    }
    if (op == "tril_e") { auto a = make_array(c.args[0]); return show(na::tril(a, (int)c.args[1].val)); }
    if (op == "triu_e") { auto a = make_array(c.args[0]); return show(na::triu(a, (int)c.args[1].val)); }
    // ------------------------------------------------------------------ where
    if (op == "where") {           // where A:cond A:x A:y
        auto cnd = make_array(c.args[0]); auto x = make_array(c.args[1]); auto y = make_array(c.args[2]);
        return show(view::where(cnd, x, y));
    }
    if (op == "where_e") {
        auto cnd = make_array(c.args[0]); auto x = make_array(c.args[1]); auto y = make_array(c.args[2]);
        return show(na::where(cnd, x, y));
    }
    // ------------------------------------------------------------------ generators
    if (op == "tri") {             // tri I:N I:M|N I:k
        int n = (int)c.args[0].val, k = (int)c.args[2].val;
        if (c.args[1].kind == 'N') return show(view::tri(n, None, k, nm::int64));
        return show(view::tri(n, (int)c.args[1].val, k, nm::int64));
    }
    if (op == "eye") {
        int n = (int)c.args[0].val, k = (int)c.args[2].val;
        if (c.args[1].kind == 'N') return show(view::eye(n, None, k, nm::int64));
        return show(view::eye(n, (int)c.args[1].val, k, nm::int64));
    }
    if (op == "eye_e") { return show(na::eye((int)c.args[0].val, (int)c.args[1].val, (int)c.args[2].val, nm::int64)); }
    if (op == "identity") { return show(view::identity((int)c.args[0].val, nm::int64)); }
    if (op == "full") {            // full S:kind L:shape I:value
        ll v = c.args[2].val;
        return with_ilist(kind(0), c.args[1].list, CT_LISTS_RESIZE, [&](const auto& shp) -> std::string { return show(view::full(shp, v)); });
    }
    if (op == "zeros") { return with_ilist(kind(0), c.args[1].list, CT_LISTS_RESIZE, [&](const auto& shp) -> std::string { return show(view::zeros(shp, nm::int64)); }); }
    if (op == "ones") { return with_ilist(kind(0), c.args[1].list, CT_LISTS_RESIZE, [&](const auto& shp) -> std::string { return show(view::ones(shp, nm::int64)); }); }
    if (op == "full_like") { auto a = make_array(c.args[0]); return show(view::full_like(a, c.args[1].val)); }
    if (op == "zeros_like") { auto a = make_array(c.args[0]); return show(view::zeros_like(a)); }
    if (op == "ones_like") { auto a = make_array(c.args[0]); return show(view::ones_like(a)); }
    if (op == "arange") {          // arange I:start I:stop I:p I:q   step = p/q ; element type int64 when q == 1, double otherwise
        int start = (int)c.args[0].val, stop = (int)c.args[1].val; ll p = c.args[2].val, q = c.args[3].val;
        if (q == 1) return show1(view::arange(start, stop, (int)p, nm::int64));
        return show1(view::arange(start, stop, (double)p / (double)q, nm::float64));
    }
    if (op == "arange2") { return show1(view::arange((int)c.args[0].val, (int)c.args[1].val, nm::int64)); }
    if (op == "arange1") { return show1(view::arange((int)c.args[0].val, nm::int64)); }
    if (op == "arange_e") { return show(na::arange((int)c.args[0].val, (int)c.args[1].val, (int)c.args[2].val, nm::int64)); }
    if (op == "linspace") {        // linspace I:start I:stop I:num I:endpoint   (double)
        double start = (double)c.args[0].val, stop = (double)c.args[1].val; size_t num = (size_t)c.args[2].val;
        if (c.args[3].val) return approx(show(view::linspace(start, stop, num, nm::True)));
        return approx(show(view::linspace(start, stop, num, nm::False)));
    }
    return "unsupported";
}

int main() { return vd::run_main(handle); }
