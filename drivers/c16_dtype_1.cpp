// c16_dtype_1.cpp (+ _2, _3: the same source with VD_PART 2 / 3; three translation units built in parallel, each
// instantiates a third of the element-type pairs and answers "unsupported" for the others) — C16 along the "element types of the two operands" dimension: every routine on operands of DIFFERENT
// element types; the RESULT ELEMENT TYPE of the view and of the evaluated array is printed next to the values.
//   typed  S:<op> S:<TA> S:<TB> A:a A:b [I:n | L:axa L:axb]
//          op: matmul matmulv2 dot inner outer vecdot kron tdot (I:n) tdotx (L L)
//   typed1 S:<trace|diagonal> S:<T> A:a I:off I:ax1 I:ax2
// T: i8 i16 i32 i64 u8 f32 f64.  Data convention: for a floating element type the integers of the case line are HALVES
// (element = n / 2.0), so int x float results are non-integral yet exact.
// Output: "ok <shape> ; <elements> ; view=<type> eval=<type> evalsame=<1|0>"
#ifndef VD_PART
#define VD_PART 1
#endif
#include "nmtools/array/view/matmul.hpp"
#include "nmtools/array/view/dot.hpp"
#include "nmtools/array/view/inner.hpp"
#include "nmtools/array/view/outer.hpp"
#include "nmtools/array/view/vecdot.hpp"
#include "nmtools/array/view/tensordot.hpp"
#include "nmtools/array/view/kron.hpp"
#include "nmtools/array/view/trace.hpp"
#include "nmtools/array/view/diagonal.hpp"
#include "nmtools/array/eval.hpp"
#include "show.hpp"
#include <cstdint>

namespace view = nmtools::view;
using namespace vd;
using nm::None;

template <typename T> static std::string tname() {
    if constexpr (std::is_same_v<T, bool>) return "bool";
    else if constexpr (std::is_floating_point_v<T>) return sizeof(T) == 4 ? "f32" : "f64";
    else if constexpr (std::is_integral_v<T>) return std::string(std::is_signed_v<T> ? "i" : "u") + std::to_string(8 * sizeof(T));
    else return "other";
}
template <typename V> static std::string elem_name(const V&) { return tname<meta::get_element_type_t<meta::remove_cvref_t<V>>>(); }

template <typename T> static dyn_t<T> typed_array(const Arg& a) {
    std::vector<ll> d = a.list;
    dyn_t<T> r; std::vector<size_t> shp(a.shape.begin(), a.shape.end()); r.resize(shp);
    std::vector<size_t> idx(shp.size(), 0); size_t n = 1; for (auto e : shp) n *= e;
    for (size_t c = 0; c < n; c++) {
        if constexpr (std::is_floating_point_v<T>) r(idx) = (T)d[c] / (T)2; else r(idx) = (T)d[c];
        for (int k = (int)shp.size() - 1; k >= 0; k--) { if (++idx[k] < shp[k]) break; idx[k] = 0; }
    }
    return r;
}

template <typename MV>
static std::string show_typed(const MV& mv) {
    if constexpr (meta::is_maybe_v<MV>) { if (!nm::has_value(mv)) return "nothing"; }
    const auto& v = nm::unwrap(mv);
    std::string s = show(v) + " ; view=" + elem_name(v);
    auto r = nm::array::eval(v, None, None, meta::as_value_v<nm::array::eval_result_t<>>);   // the resolver the eager array:: API uses
    if constexpr (meta::is_maybe_v<meta::remove_cvref_t<decltype(r)>>) { if (!nm::has_value(r)) return s + " eval=nothing evalsame=0"; }
    const auto& rr = nm::unwrap(r);
    if constexpr (meta::is_num_v<meta::remove_cvref_t<decltype(rr)>>) s += " eval=" + tname<meta::remove_cvref_t<decltype(rr)>>();
    else s += " eval=" + elem_name(rr);
    s += std::string(" evalsame=") + (show(rr) == show(v) ? "1" : "0");
    return s;
}

template <typename F> static std::string with_T(const std::string& t, F&& f) {
    if (t == "i8") return f(int8_t{}); if (t == "i16") return f(int16_t{}); if (t == "i32") return f(int32_t{}); if (t == "i64") return f(int64_t{});
    if (t == "u8") return f(uint8_t{}); if (t == "f32") return f(float{}); if (t == "f64") return f(double{});
    return "unsupported";
}

template <typename TA, typename TB>
static std::string binary(const Case& c) {
    const std::string op = c.args[0].raw.substr(2);
    auto a = typed_array<TA>(c.args[3]); auto b = typed_array<TB>(c.args[4]);
    if (op == "matmul") return show_typed(view::matmul(a, b));
    if (op == "matmulv2") return show_typed(view::matmulv2(a, b));
    if (op == "dot") return show_typed(view::dot(a, b));
    if (op == "inner") return show_typed(view::inner(a, b));
    if (op == "outer") return show_typed(view::outer(a, b));
    if (op == "vecdot") return show_typed(view::vecdot(a, b));
    if (op == "kron") return show_typed(view::kron(a, b));
    if (op == "tdot") return show_typed(view::tensordot(a, b, (int)c.args[5].val));
    if (op == "tdotx") return show_typed(view::tensordot(a, b, nmtools_tuple{vec_of<int>(c.args[5].list), vec_of<int>(c.args[6].list)}));
    return "unsupported";
}

// the ordered dtype pairs of the generator (21 instantiations of 9 routines): every type with itself is in c16.cpp (ll) only
// for i64; here: narrow x wide, int x float, float x double, unsigned x signed, both orders, plus the narrow same-type pairs
#define PAIR(A, TA_, B, TB_) if (ta == A && tb == B) return binary<TA_, TB_>(c);
static std::string handle(const Case& c) {
    if (c.op == "typed") {
        const std::string ta = c.args[1].raw.substr(2), tb = c.args[2].raw.substr(2);
#if VD_PART == 1
        PAIR("i8", int8_t, "i32", int32_t) PAIR("i32", int32_t, "i8", int8_t) PAIR("i8", int8_t, "i8", int8_t)
        PAIR("u8", uint8_t, "u8", uint8_t) PAIR("i8", int8_t, "i16", int16_t) PAIR("i16", int16_t, "i8", int8_t)
#elif VD_PART == 2
        PAIR("i16", int16_t, "i64", int64_t) PAIR("i64", int64_t, "i16", int16_t) PAIR("u8", uint8_t, "i16", int16_t)
        PAIR("i16", int16_t, "u8", uint8_t)  PAIR("i32", int32_t, "i64", int64_t) PAIR("i32", int32_t, "f64", double)
        PAIR("f64", double, "i32", int32_t)
#else
        PAIR("i8", int8_t, "f32", float)    PAIR("f32", float, "i8", int8_t)   PAIR("f32", float, "f64", double)
        PAIR("f64", double, "f32", float)   PAIR("i64", int64_t, "f32", float) PAIR("f32", float, "i64", int64_t)
        PAIR("u8", uint8_t, "f64", double)  PAIR("f32", float, "f32", float)
#endif
        return "unsupported";
    }
#if VD_PART == 1
    if (c.op == "typed1") {
        const std::string op = c.args[0].raw.substr(2), t = c.args[1].raw.substr(2);
        int off = (int)c.args[3].val, ax1 = (int)c.args[4].val, ax2 = (int)c.args[5].val;
        return with_T(t, [&](auto tag) -> std::string {
            using T = decltype(tag);
            auto a = typed_array<T>(c.args[2]);
            if (op == "trace") return show_typed(view::trace(a, off, ax1, ax2));
            if (op == "diagonal") return show_typed(view::diagonal(a, off, ax1, ax2));
            return "unsupported";
        });
    }
#endif
    return "unsupported";
}
int main() { return vd::run_main(handle); }
