// c20_forms.hpp — every argument form an nmtools resize / shape entry point accepts, built from one
// run-time list of extents.  call_with_form(form, sizes, f) calls f(args...) where the argument pack is
//   v  std::vector<size_t>            i  std::vector<int>
//   a  std::array<size_t,N>           j  std::array<int,N>
//   s  utl::static_vector<size_t,4>   h  array::static_vector<size_t,4> (= hybrid_ndarray<size_t,4,1>)
//   u  utl::vector<size_t>            t  nmtools_tuple of N run-time size_t
//   p  N separate integer arguments (the variadic form  resize(2,3,4))
//   q  N separate int arguments
//   c  nmtools_tuple of compile-time constants (a fixed table of shapes; only with CT = true: ndarray_t::resize
//      accepts the type but its body indexes the request with a run-time i, which does not compile for a ct tuple)
// (N = 1..4).  f must return std::string; a form / rank that cannot be built returns "U".
// NOTE (harness): this header is not part of the driver cache key; bump C20_FORMS_REV in the .cpp files
// that include it when it changes.
#pragma once
#include "nmtools/array/ndarray.hpp"
#include "nmtools/utl/static_vector.hpp"
#include "nmtools/utl/vector.hpp"
#include "show.hpp"

namespace c20 {
using vd::ll;
namespace nm = nmtools;
using namespace nmtools::literals;

template <typename T, size_t N> std::array<T, N> mk_arr(const std::vector<ll>& v) { std::array<T, N> a{}; for (size_t i = 0; i < N; i++) a[i] = (T)v[i]; return a; }

template <typename T, size_t... I, typename F>
std::string as_pack(const std::vector<ll>& v, std::index_sequence<I...>, F&& f) { return f(((T)v[I])...); }
template <typename T, size_t... I, typename F>
std::string as_tuple(const std::vector<ll>& v, std::index_sequence<I...>, F&& f) { return f(nmtools_tuple{((T)v[I])...}); }

#define C20_BY_RANK(EXPR1, EXPR2, EXPR3, EXPR4) { \
    if constexpr (FIX == 99 || FIX == 1) if (v.size() == 1) return EXPR1; \
    if constexpr (FIX == 99 || FIX == 2) if (v.size() == 2) return EXPR2; \
    if constexpr (FIX == 99 || FIX == 3) if (v.size() == 3) return EXPR3; \
    if constexpr (FIX == 99 || FIX == 4) if (v.size() == 4) return EXPR4; \
    return "U"; }

// TUP / CT: also build the run-time tuple / compile-time-constant tuple forms (the entry point must be able to index a
// tuple request: ndarray_t::resize only can when its own shape is a tuple, it indexes with a run-time i otherwise)
// FIX: 99 = fixed-size forms (a j p q) of every rank 1..4, N = only of rank N (an entry point that indexes the request
// with compile-time indices, e.g. ndarray_t with a tuple shape, does not compile for a shorter fixed-size request)
template <size_t TUP = 0, bool CT = false, size_t FIX = 99, typename F>   // TUP: 0 = no tuple form, N = only rank N, 99 = every rank
std::string call_with_form(char form, const std::vector<ll>& v, F&& f) {
    switch (form) {
    case 'v': return f(vd::vec_of<size_t>(v));
    case 'i': return f(vd::vec_of<int>(v));
    case 's': { if (v.size() > 4) return "U"; nm::utl::static_vector<size_t, 4> a; a.resize(v.size()); for (size_t i = 0; i < v.size(); i++) a[i] = (size_t)v[i]; return f(a); }
    case 'h': { if (v.size() > 4 || v.empty()) return "U"; nm::array::static_vector<size_t, 4> a; a.resize(v.size()); for (size_t i = 0; i < v.size(); i++) a(i) = (size_t)v[i]; return f(a); }
    case 'u': { nm::utl::vector<size_t> a; a.resize(v.size()); for (size_t i = 0; i < v.size(); i++) a[i] = (size_t)v[i]; return f(a); }
#ifndef C20_FEW_FORMS
    case 'a': C20_BY_RANK(f(mk_arr<size_t,1>(v)), f(mk_arr<size_t,2>(v)), f(mk_arr<size_t,3>(v)), f(mk_arr<size_t,4>(v)))
    case 'j': C20_BY_RANK(f(mk_arr<int,1>(v)), f(mk_arr<int,2>(v)), f(mk_arr<int,3>(v)), f(mk_arr<int,4>(v)))
    case 't':
        if constexpr (TUP != 0) {
            if constexpr (TUP == 99 || TUP == 1) if (v.size() == 1) return as_tuple<size_t>(v, std::make_index_sequence<1>{}, f);
            if constexpr (TUP == 99 || TUP == 2) if (v.size() == 2) return as_tuple<size_t>(v, std::make_index_sequence<2>{}, f);
            if constexpr (TUP == 99 || TUP == 3) if (v.size() == 3) return as_tuple<size_t>(v, std::make_index_sequence<3>{}, f);
            if constexpr (TUP == 99 || TUP == 4) if (v.size() == 4) return as_tuple<size_t>(v, std::make_index_sequence<4>{}, f);
        }
        return "U";
    case 'p': C20_BY_RANK(as_pack<size_t>(v, std::make_index_sequence<1>{}, f), as_pack<size_t>(v, std::make_index_sequence<2>{}, f),
                          as_pack<size_t>(v, std::make_index_sequence<3>{}, f), as_pack<size_t>(v, std::make_index_sequence<4>{}, f))
    case 'q': C20_BY_RANK(as_pack<int>(v, std::make_index_sequence<1>{}, f), as_pack<int>(v, std::make_index_sequence<2>{}, f),
                          as_pack<int>(v, std::make_index_sequence<3>{}, f), as_pack<int>(v, std::make_index_sequence<4>{}, f))
    case 'c': if constexpr (CT) {
        auto is = [&](std::initializer_list<ll> l) { return std::vector<ll>(l) == v; };
        if (is({2, 3})) return f(nmtools_tuple{2_ct, 3_ct});
        if (is({3, 4})) return f(nmtools_tuple{3_ct, 4_ct});
        if (is({6})) return f(nmtools_tuple{6_ct});
        if (is({2, 3, 2})) return f(nmtools_tuple{2_ct, 3_ct, 2_ct});
        if (is({2, 3, 4})) return f(nmtools_tuple{2_ct, 3_ct, 4_ct});
        if (is({4, 3})) return f(nmtools_tuple{4_ct, 3_ct});
        return "U";
    } else return "U";
#endif
    default: return "U";
    }
}
} // namespace c20
