// c03_lists.cpp — second implementation-side driver of C03: every view that takes a LIST of axes
// (flip, expand_dims, moveaxis source/destination, transpose) called with the list held in each
// container kind the library accepts — std::vector<int|size_t>, utl::static_vector<int,8>,
// std::array<int|size_t,N>, a C array int[N], a tuple of run-time ints, and a tuple of compile-time
// constants — so that lists in every order / sign spelling reach every `if constexpr` arm.
#include "nmtools/array/index/flip.hpp"
#include "nmtools/array/index/expand_dims.hpp"
#include "nmtools/array/index/moveaxis.hpp"
#include "nmtools/array/view/transpose.hpp"
#include "nmtools/array/view/moveaxis.hpp"
#include "nmtools/array/view/expand_dims.hpp"
#include "nmtools/array/view/flip.hpp"
#include "nmtools/array/array/flip.hpp"
#include "nmtools/array/array/expand_dims.hpp"
#include "nmtools/array/array/moveaxis.hpp"
#include "nmtools/utl/static_vector.hpp"
#include "nmtools/constants.hpp"
#include "show.hpp"

namespace ix = nmtools::index;
namespace view = nmtools::view;
namespace na = nmtools::array;
using namespace vd;

static std::string kind_of(const Arg& a) { return a.raw.substr(2); }
template <typename T>
static auto mk_sv(const std::vector<ll>& v) { nm::utl::static_vector<T, 8> a; a.resize(v.size()); for (size_t i = 0; i < v.size(); i++) a[i] = (T)v[i]; return a; }

template <size_t N> using N_ = std::integral_constant<size_t, N>;
template <typename F>
static std::string with_len(size_t n, F&& f) {
    switch (n) { case 1: return f(N_<1>{}); case 2: return f(N_<2>{}); case 3: return f(N_<3>{}); case 4: return f(N_<4>{});
                 default: return "unsupported"; }
}

// one axis list in the container kind `kind`
template <typename F>
static std::string with_axes(const std::string& kind, const std::vector<ll>& v, F&& f) {
    if (kind == "veci") return f(vec_of<int>(v));
    if (kind == "vecu") return f(vec_of<size_t>(v));
    if (kind == "sv") return f(mk_sv<int>(v));
#ifndef VD_LIGHT
    if (kind == "arri") return with_len(v.size(), [&](auto n) -> std::string { return f(arr_of<int, decltype(n)::value>(v)); });
    if (kind == "arru") return with_len(v.size(), [&](auto n) -> std::string { return f(arr_of<size_t, decltype(n)::value>(v)); });
#endif
    return "unsupported";
}
// + a C array int[N] (flip only: the other views let it decay to a pointer and reject it at compile time)
template <typename F>
static std::string with_axes_c(const std::string& kind, const std::vector<ll>& v, F&& f) {
#ifndef VD_LIGHT
    if (kind == "carr") return with_len(v.size(), [&](auto n) -> std::string {
        constexpr size_t N = decltype(n)::value; int c[N]; for (size_t i = 0; i < N; i++) c[i] = (int)v[i]; return f(c); });
#endif
    return with_axes(kind, v, f);
}
// run-time tuples: only where the library compiles them
template <typename F>
static std::string with_tuple(const std::vector<ll>& v, F&& f) {
    return with_len(v.size(), [&](auto n) -> std::string { return f(tup_of<int, decltype(n)::value>(v)); });
}

// ---- tuples of compile-time constants, by name "2x0", "-1x0", ... --------------------------------
template <int... Is> static auto ctl() { return nmtools_tuple{meta::ct_v<Is>...}; }
#define CT_LISTS(X) \
    X("1", 1) X("-1", -1) \
    X("1x0", 1, 0) X("0x1", 0, 1) X("-1x0", -1, 0) X("0x-1", 0, -1) X("-1x-2", -1, -2) \
    X("2x0", 2, 0) X("0x2", 0, 2) X("2x1", 2, 1) X("-1x-3", -1, -3) X("2x-3", 2, -3) X("-3x2", -3, 2) \
    X("2x1x0", 2, 1, 0) X("0x2x1", 0, 2, 1) X("1x2x0", 1, 2, 0) X("-1x0x1", -1, 0, 1) X("-1x-2x-3", -1, -2, -3) X("2x-2x0", 2, -2, 0) \
    X("3x1", 3, 1) X("-1x1", -1, 1) X("2x0x3", 2, 0, 3) X("3x2x1x0", 3, 2, 1, 0) X("1x3x0x2", 1, 3, 0, 2) X("-1x-3x0x2", -1, -3, 0, 2)
template <typename F>
static std::string with_ct_list(const std::string& name, F&& f) {
#define X(NAME, ...) if (name == NAME) return f(ctl<__VA_ARGS__>());
    CT_LISTS(X)
#undef X
    return "unsupported";
}
// (source, destination) pairs of constant lists for moveaxis
#define CT_PAIRS(X) \
    X("1x0_0x1", (ctl<1, 0>()), (ctl<0, 1>())) X("0x1_1x0", (ctl<0, 1>()), (ctl<1, 0>())) \
    X("2x0_0x1", (ctl<2, 0>()), (ctl<0, 1>())) X("-1x0_0x2", (ctl<-1, 0>()), (ctl<0, 2>())) \
    X("2x1_-3x-1", (ctl<2, 1>()), (ctl<-3, -1>())) X("2x1x0_0x1x2", (ctl<2, 1, 0>()), (ctl<0, 1, 2>())) \
    X("1x2x0_2x0x1", (ctl<1, 2, 0>()), (ctl<2, 0, 1>())) X("3x1_0x2", (ctl<3, 1>()), (ctl<0, 2>())) \
    X("-1x-3x0_2x0x1", (ctl<-1, -3, 0>()), (ctl<2, 0, 1>()))

static std::string handle(const Case& c) {
    const std::string& op = c.op;
    const auto& g = c.args;
    // ------------------------------------------------------------------ flip
    if (op == "flipk") {                    // S:kind A:src L:axes
        auto a = make_array(g[1]); std::string k = kind_of(g[0]);
#ifndef VD_LIGHT
        if (k == "tup") return with_tuple(g[2].list, [&](const auto& ax) -> std::string { return show(view::flip(a, ax)); });
#endif
        return with_axes_c(k, g[2].list, [&](const auto& ax) -> std::string { return show(view::flip(a, ax)); });
    }
    if (op == "flipk_eval") {               // S:kind A:src L:axes
        auto a = make_array(g[1]);
        return with_axes(kind_of(g[0]), g[2].list, [&](const auto& ax) -> std::string { return show(na::flip(a, ax)); });
    }
    if (op == "flip_slicesk") {             // S:kind I:dim L:axes
        auto pr = [&](const auto& sl) { std::string s = "ok "; for (size_t i = 0; i < (size_t)nm::len(sl); i++) { if (i) s += ","; s += std::to_string((ll)nm::get<2>(nm::at(sl, i))); } return s; };
        return with_axes(kind_of(g[0]), g[2].list, [&](const auto& ax) -> std::string { return pr(ix::flip_slices((size_t)g[1].val, ax)); });
    }
    if (op == "flip2p") {                   // A:src L:ax1 L:ax2   flip(flip(a,ax1),ax2)
        auto a = make_array(g[0]); auto f = view::flip(a, vec_of<int>(g[1].list)); return show(view::flip(f, vec_of<int>(g[2].list)));
    }
    // ------------------------------------------------------------------ expand_dims
    if (op == "expandk") {                  // S:kind A:src L:axes
        auto a = make_array(g[1]);
        return with_axes(kind_of(g[0]), g[2].list, [&](const auto& ax) -> std::string { return show(view::expand_dims(a, ax)); });
    }
    if (op == "expandk_eval") {
        auto a = make_array(g[1]);
        return with_axes(kind_of(g[0]), g[2].list, [&](const auto& ax) -> std::string { return show(na::expand_dims(a, ax)); });
    }
    if (op == "expand_shapek") {            // S:kind L:shape L:axes
        auto shp = vec_of<size_t>(g[1].list);
        return with_axes(kind_of(g[0]), g[2].list, [&](const auto& ax) -> std::string { return "ok " + show_index(ix::shape_expand_dims(shp, ax)); });
    }
    // ------------------------------------------------------------------ moveaxis (both lists in the same kind)
    if (op == "moveaxisk" || op == "moveaxisk_eval" || op == "moveaxis_orderk") {   // S:kind (A:src | L:shape) L:src L:dst
        std::string k = kind_of(g[0]); const auto& s = g[2].list; const auto& d = g[3].list;
        auto go = [&](const auto& ss, const auto& dd) -> std::string {
            if (op == "moveaxis_orderk") {
                auto r = ix::moveaxis_to_transpose(vec_of<size_t>(g[1].list), ss, dd);
                if (!nm::has_value(r)) return "nothing"; return "ok " + show_index(*r);
            }
            auto a = make_array(g[1]);
            if (op == "moveaxisk_eval") return show(na::moveaxis(a, ss, dd));
            return show(view::moveaxis(a, ss, dd));
        };
        if (k == "veci") return go(vec_of<int>(s), vec_of<int>(d));
        if (k == "vecu") return go(vec_of<size_t>(s), vec_of<size_t>(d));
        if (k == "sv") return go(mk_sv<int>(s), mk_sv<int>(d));
#ifndef VD_LIGHT
        if (s.size() != d.size()) return "unsupported";
        if (k == "arri") return with_len(s.size(), [&](auto n) -> std::string { constexpr size_t N = decltype(n)::value; return go(arr_of<int, N>(s), arr_of<int, N>(d)); });
        if (k == "arru") return with_len(s.size(), [&](auto n) -> std::string { constexpr size_t N = decltype(n)::value; return go(arr_of<size_t, N>(s), arr_of<size_t, N>(d)); });
#endif
        return "unsupported";
    }
    // ------------------------------------------------------------------ transpose
    if (op == "transposek") {               // S:kind A:src L:axes
        auto a = make_array(g[1]); std::string k = kind_of(g[0]);
#ifndef VD_LIGHT
        if (k == "tup") return with_tuple(g[2].list, [&](const auto& ax) -> std::string { return show(view::transpose(a, ax)); });
#endif
        return with_axes(k, g[2].list, [&](const auto& ax) -> std::string { return show(view::transpose(a, ax)); });
    }
#ifndef VD_LIGHT
    // ------------------------------------------------------------------ tuples of compile-time constants
    if (op == "flipct") { auto a = make_array(g[1]); return with_ct_list(kind_of(g[0]), [&](auto ax) -> std::string { return show(view::flip(a, ax)); }); }
    if (op == "expandct") { auto a = make_array(g[1]); return with_ct_list(kind_of(g[0]), [&](auto ax) -> std::string { return show(view::expand_dims(a, ax)); }); }
    if (op == "transposect") { auto a = make_array(g[1]); return with_ct_list(kind_of(g[0]), [&](auto ax) -> std::string { return show(view::transpose(a, ax)); }); }
    if (op == "moveaxisct") {               // S:src_dst A:src
        auto a = make_array(g[1]); std::string name = kind_of(g[0]);
#define X(NAME, S, D) if (name == NAME) return show(view::moveaxis(a, S, D));
        CT_PAIRS(X)
#undef X
        return "unsupported";
    }
#endif
    return "unsupported";
}

int main() { return vd::run_main(handle); }
