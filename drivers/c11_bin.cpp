// c11_bin.cpp — C11 correspondence, second driver: views over TWO operand kinds (broadcasting
// binary ufunc in both operand orders) and a three-operand broadcast with a scalar (where),
// because the static size / shape inference of broadcast views depends on the PAIR of kinds.
//   kb S:<kind of a> S:<kind of b> I:<op>     a from raw int[1][3], b from raw int[4][3]   op 0: add(a,b)  1: add(b,a)  2: multiply(a,b)
//                                              c from raw int[3][1], d from raw int[1][3]   op 3: add(c,d)  4: add(d,c)  5: multiply(add(c,d),add(d,c))   (<kind of b> may be "same")
//   kw S:<kind> I:<variant>                   where(cond[3], -1, y[5][3]) / where(cond[3], x[5][3], 7) / where(cond[5][3], x[3], 2)
// Same output format as c11.cpp (A: = the first operand).  -DKPART / -DNKPART select kinds of the FIRST operand.
#include "nmtools/array/view/ufuncs/add.hpp"
#include "nmtools/array/view/ufuncs/multiply.hpp"
#include "nmtools/array/view/where.hpp"
#include "nmtools/array/view/concatenate.hpp"
#include "nmtools/array/eval.hpp"
#include "nmtools/utility/cast.hpp"
#include "show.hpp"

namespace view = nmtools::view;
namespace na = nmtools::array;
namespace kind = nmtools::array::kind;
using namespace vd;

#ifndef KPART
#define KPART 0
#endif
#ifndef NKPART
#define NKPART 1
#endif

template <typename T> static std::string tv(const T& v) {
    if constexpr (meta::is_fail_v<T>) return "-";
    else if constexpr (meta::is_num_v<T>) return std::to_string((long)v);
    else return show_index(v);
}
template <typename V> static std::string traits() {
    return "fs=" + tv(meta::fixed_shape_v<V>) + " fd=" + tv(meta::fixed_dim_v<V>) + " fz=" + tv(meta::fixed_size_v<V>)
         + " bd=" + tv(meta::bounded_dim_v<V>) + " bz=" + tv(meta::bounded_size_v<V>);
}
template <typename X> static std::string rt(const X& x) {
    return show_index(nm::shape(x)) + " dim=" + std::to_string((long)nm::dim(x)) + " size=" + std::to_string((long)nm::size(x));
}
template <typename X> static std::string elems_of(const X& x) {
    const auto shp = nm::shape(x);
    auto idx = nm::index::ndindex(shp);
    std::string o; size_t n = idx.size();
    for (size_t i = 0; i < n; i++) { o += (i ? "," : "") + num_str(nm::apply_at(x, idx[i])); }
    return o;
}
template <typename R, typename V> static std::string result_of(const R& r_, const V& v) {
    if constexpr (meta::is_maybe_v<R>) { if (!nm::has_value(r_)) return "nothing"; }
    const auto& r = nm::unwrap(r_);
    return show_index(nm::shape(r)) + " ok=" + (elems_of(r) == elems_of(v) ? "1" : "0");
}
template <typename A, typename V> static std::string report(const A& a, const V& v_) {
    if constexpr (meta::is_maybe_v<V>) { if (!nm::has_value(v_)) return "nothing"; }
    const auto& v = nm::unwrap(v_);
    using VT = std::decay_t<decltype(v)>;
    std::string s = "A: " + traits<A>() + " | art=" + rt(a) + " | K: " + traits<VT>() + " | rt=" + rt(v);
    s += " | new=" + result_of(na::eval(v, nm::None, nm::None, na::RowMajorResolver), v);
    s += " | old=" + result_of(na::eval(v), v);
    return s;
}

template <typename A, typename = void> struct can_resize2 : std::false_type {};
template <typename A> struct can_resize2<A, std::void_t<decltype(std::declval<A&>().resize(std::declval<std::array<size_t,2>>()))>> : std::true_type {};

#define KINDS(X) X(0,nested_arr) X(1,fixed) X(2,hybrid) X(3,dynamic) \
    X(4,ndarray_cs_fb) X(5,ndarray_cs_hb) X(6,ndarray_cs_db) X(7,ndarray_fs_fb) X(8,ndarray_fs_hb) X(9,ndarray_fs_db) \
    X(10,ndarray_hs_fb) X(11,ndarray_hs_hb) X(12,ndarray_hs_db) X(13,ndarray_ds_fb) X(14,ndarray_ds_hb) X(15,ndarray_ds_db) \
    X(16,ndarray_ls_fb) X(17,ndarray_ls_hb) X(18,ndarray_ls_db)

template <typename K1, typename K2> static std::string run_bin(K1 k1, K2 k2, int op) {
    int ra[1][3] = {{1, 2, 3}};
    int rb[4][3] = {{10, 20, 30}, {40, 50, 60}, {70, 80, 90}, {100, 110, 120}};
    auto a = nm::cast(ra, k1); auto b = nm::cast(rb, k2);
    if constexpr (meta::is_fail_v<decltype(a)> || meta::is_fail_v<decltype(b)>) return "unsupported"; else {
    switch (op) {
        case 0: return report(a, view::add(a, b));
        case 1: return report(b, view::add(b, a));
        case 2: return report(a, view::multiply(a, b));
        default: break;
    } }
    // two-sided broadcasting: (3,1) op (1,3) -> (3,3); the result has more elements than either operand
    int rc[3][1] = {{1}, {2}, {3}};
    auto c = nm::cast(rc, k1); auto d = nm::cast(ra, k2);
    if constexpr (meta::is_fail_v<decltype(c)> || meta::is_fail_v<decltype(d)>) return "unsupported"; else {
    switch (op) {
        case 3: return report(c, view::add(c, d));
        case 4: return report(d, view::add(d, c));
        case 5: return report(c, view::multiply(view::add(c, d), view::add(d, c)));
        default: return "unsupported";
    } }
}
// outer ufuncs: the static size of the view is derived from BOTH operands' size knowledge (index::size_outer);
// ops 8/9: the second operand is NOT filled to its capacity (resized to (1,2) where its type admits that shape)
template <typename K1, typename K2> static std::string run_outer(K1 k1, K2 k2, int op) {
    int ra[1][3] = {{1, 2, 3}}; int rc[3][1] = {{1}, {2}, {3}};
    auto c = nm::cast(rc, k1); auto d = nm::cast(ra, k2);
    if constexpr (meta::is_fail_v<decltype(c)> || meta::is_fail_v<decltype(d)>) return "unsupported"; else {
    switch (op) {
        case 6: return report(c, view::outer_add(c, d));
        case 7: return report(d, view::outer_add(d, c));
        default: break;
    }
    auto e = nm::cast(ra, k2);
    if constexpr (can_resize2<decltype(e)>::value) {
        std::array<size_t,2> shp{1, 2}; bool ok = true;
        if constexpr (std::is_void_v<decltype(e.resize(shp))>) e.resize(shp); else ok = e.resize(shp);
        { const auto got = nm::shape(e); if (!ok || (size_t)nm::len(got) != 2 || (size_t)nm::at(got,0) != 1 || (size_t)nm::at(got,1) != 2) return "skip"; }
        nm::apply_at(e, std::array<size_t,2>{0,0}) = 5; nm::apply_at(e, std::array<size_t,2>{0,1}) = 7;
        switch (op) {
            case 8: return report(c, view::outer_add(c, e));
            case 9: return report(e, view::outer_add(e, c));
            default: return "unsupported";
        }
    } else return "skip";
    }
}
// concatenate over kind pairs: the static shape / size of the joined view is derived from BOTH operands' knowledge
// (index::shape_concatenate's type rule); ops 12/13: the second operand is NOT filled to its capacity (resized to (1,2))
template <typename K1, typename K2> static std::string run_concat(K1 k1, K2 k2, int op) {
    int ra[1][3] = {{1, 2, 3}}; int rb[2][3] = {{4, 5, 6}, {7, 8, 9}}; int rs[2][2] = {{1, 2}, {3, 4}};
    auto a = nm::cast(rb, k1); auto d = nm::cast(ra, k2);
    if constexpr (meta::is_fail_v<decltype(a)> || meta::is_fail_v<decltype(d)>) return "unsupported"; else {
    switch (op) {
        case 10: return report(a, view::concatenate(a, d, 0));
        case 11: return report(d, view::concatenate(d, a, 0));
        default: break;
    }
    auto c = nm::cast(rs, k1); auto e = nm::cast(ra, k2);
    if constexpr (can_resize2<decltype(e)>::value) {
        std::array<size_t,2> shp{1, 2}; bool ok = true;
        if constexpr (std::is_void_v<decltype(e.resize(shp))>) e.resize(shp); else ok = e.resize(shp);
        { const auto got = nm::shape(e); if (!ok || (size_t)nm::len(got) != 2 || (size_t)nm::at(got,0) != 1 || (size_t)nm::at(got,1) != 2) return "skip"; }
        nm::apply_at(e, std::array<size_t,2>{0,0}) = 5; nm::apply_at(e, std::array<size_t,2>{0,1}) = 7;
        switch (op) {
            case 12: return report(c, view::concatenate(c, e, 0));
            case 13: return report(e, view::concatenate(e, c, 0));
            default: return "unsupported";
        }
    } else return "skip";
    }
}
// second operand kinds: a representative of every shape-knowledge family
template <bool OUTER_OK, typename K1> static std::string run_bin2(K1 k1, const std::string& k2, int op) {
    if (op >= 10) {
        if (k2 == "same") return run_concat(k1, k1, op);
        if (k2 == "fixed") return run_concat(k1, kind::fixed, op);
        if (k2 == "ndarray_fs_db") return run_concat(k1, kind::ndarray_fs_db, op);
        if (k2 == "ndarray_hs_hb") return run_concat(k1, kind::ndarray_hs_hb, op);
        if (k2 == "ndarray_ds_db") return run_concat(k1, kind::ndarray_ds_db, op);
        if (k2 == "ndarray_ls_fb") return run_concat(k1, kind::ndarray_ls_fb, op);
        if (k2 == "ndarray_cs_fb") return run_concat(k1, kind::ndarray_cs_fb, op);
        if (k2 == "ndarray_ls_db") return run_concat(k1, kind::ndarray_ls_db, op);
        return "unsupported";
    }
    if (op >= 6) {
        // fixed-dim std::array-shape (7..9) and clipped-shape (16..18) first operands: the outer view's evaluation is rejected by a
        // static_assert of the library ("unsupported isequal, mismatched size for packed type") — an unsupported combination
        if constexpr (OUTER_OK) {
        if (k2 == "same") return run_outer(k1, k1, op);
        if (k2 == "fixed") return run_outer(k1, kind::fixed, op);
        if (k2 == "ndarray_hs_hb") return run_outer(k1, kind::ndarray_hs_hb, op);
        if (k2 == "ndarray_ds_db") return run_outer(k1, kind::ndarray_ds_db, op);
        }
        return "unsupported";
    }
    if (k2 == "same") return run_bin(k1, k1, op);
    if (k2 == "fixed") return run_bin(k1, kind::fixed, op);
    if (k2 == "ndarray_fs_db") return run_bin(k1, kind::ndarray_fs_db, op);
    if (k2 == "ndarray_hs_hb") return run_bin(k1, kind::ndarray_hs_hb, op);
    if (k2 == "ndarray_ds_db") return run_bin(k1, kind::ndarray_ds_db, op);
    if (k2 == "ndarray_ls_fb") return run_bin(k1, kind::ndarray_ls_fb, op);
    return "unsupported";
}
template <typename K> static std::string run_where(K k, int variant) {
    int rc3[3] = {1, 0, 1}; int rx3[3] = {7, 8, 9};
    int ry[5][3]; int rc53[5][3];
    { int c = 0; for (auto& r : ry) for (auto& x : r) x = ++c; c = 0; for (auto& r : rc53) for (auto& x : r) x = (c++ % 2); }
    auto c3 = nm::cast(rc3, k); auto x3 = nm::cast(rx3, k); auto y = nm::cast(ry, k); auto c53 = nm::cast(rc53, k);
    if constexpr (meta::is_fail_v<decltype(c3)> || meta::is_fail_v<decltype(y)>) return "unsupported"; else {
    switch (variant) {
        case 0: return report(c3, view::where(c3, -1, y));
        case 1: return report(c3, view::where(c3, y, 7));
        case 2: return report(c53, view::where(c53, x3, 2));
        case 3: return report(c3, view::where(c3, x3, y));
        default: return "unsupported";
    } }
}

static std::string handle(const Case& c) {
    std::string k = c.args[0].raw.substr(2);
    if (c.op == "kb") {
        std::string k2 = c.args[1].raw.substr(2); int op = (int)c.args[2].val;
#define X(I, NAME) if (k == #NAME) { if constexpr ((I % NKPART) == KPART) return run_bin2<!((I >= 7 && I <= 9) || I >= 16)>(kind::NAME, k2, op); else return "unsupported"; }
        KINDS(X)
#undef X
    }
    if (c.op == "kw") {
        int variant = (int)c.args[1].val;
        // clipped-shape (16..18) and fixed-dim std::array-shape (7..9) kinds: where over operands of different dimension is rejected by a
        // static_assert of the library ("unsupported isequal, mismatched size for packed type") — an unsupported combination
#define X(I, NAME) if (k == #NAME) { if constexpr (((I % NKPART) == KPART) && (I < 16) && !(I >= 7 && I <= 9)) return run_where(kind::NAME, variant); else return "unsupported"; }
        KINDS(X)
#undef X
    }
    return "unsupported";
}

int main() { return vd::run_main(handle, 8); }
