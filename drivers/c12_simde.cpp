// one-line wrapper: c12.cpp compiled for context simde (the harness keys its binary cache by file name)
#define C12_CTX 6
#include "c12.cpp"
