// c03.cpp — implementation side of the C03 correspondence (rearranging views).
// Every op is called through the real nmtools API: the index-level functions
// (index::shape_reshape, shape_transpose, scatter, reverse, moveaxis_to_transpose,
// swapaxes_to_transpose, shape_expand_dims, shape_squeeze, remove_single_dims,
// shape_atleast_nd, flip_slices, normalize_axis) on several container kinds, the views
// (view::X on run-time shaped vd::dyn_t<long long>) with run-time and compile-time
// arguments, and the eager array::X versions.
#include "nmtools/array/index/reshape.hpp"
#include "nmtools/array/index/transpose.hpp"
#include "nmtools/array/index/scatter.hpp"
#include "nmtools/array/index/reverse.hpp"
#include "nmtools/array/index/moveaxis.hpp"
#include "nmtools/array/index/expand_dims.hpp"
#include "nmtools/array/index/squeeze.hpp"
#include "nmtools/array/index/remove_single_dims.hpp"
#include "nmtools/array/index/atleast_nd.hpp"
#include "nmtools/array/index/flip.hpp"
#include "nmtools/array/index/normalize_axis.hpp"
#include "nmtools/array/view/reshape.hpp"
#include "nmtools/array/view/flatten.hpp"
#include "nmtools/array/view/transpose.hpp"
#include "nmtools/array/view/moveaxis.hpp"
#include "nmtools/array/view/swapaxes.hpp"
#include "nmtools/array/view/expand_dims.hpp"
#include "nmtools/array/view/squeeze.hpp"
#include "nmtools/array/view/atleast_nd.hpp"
#include "nmtools/array/view/atleast_1d.hpp"
#include "nmtools/array/view/atleast_2d.hpp"
#include "nmtools/array/view/flip.hpp"
#include "nmtools/array/array/reshape.hpp"
#include "nmtools/array/array/flatten.hpp"
#include "nmtools/array/array/transpose.hpp"
#include "nmtools/array/array/moveaxis.hpp"
#include "nmtools/array/array/swapaxes.hpp"
#include "nmtools/array/array/expand_dims.hpp"
#include "nmtools/array/array/squeeze.hpp"
// array::atleast_nd is not included: with it in scope the unqualified call inside view::atleast_1d/2d becomes
// ambiguous through ADL on array::ndarray_t (compile-time only; nothing to observe at run time)
#include "nmtools/array/array/flip.hpp"
#include "nmtools/utl/static_vector.hpp"
#include "nmtools/constants.hpp"
#include "show.hpp"

namespace ix = nmtools::index;
namespace view = nmtools::view;
namespace na = nmtools::array;
using namespace vd;
using namespace nmtools::literals;

// ---- container-kind dispatch (never nested more than twice) -------------------------------
// vec: std::vector<size_t>   veci: std::vector<int>   sv: utl::static_vector<int,8>
// arr: std::array<size_t,N>  arri: std::array<int,N>  tup: run-time tuple<int...>
template <typename T>
static auto mk_sv(const std::vector<ll>& v) { nm::utl::static_vector<T, 8> a; a.resize(v.size()); for (size_t i = 0; i < v.size(); i++) a[i] = (T)v[i]; return a; }

// fixed-size arrays only (vd::with_list instantiates the tuple arm as well)
template <typename T, typename F>
static std::string with_arr(const std::vector<ll>& v, F&& f) {
    switch (v.size()) {
        case 1: return f(arr_of<T,1>(v)); case 2: return f(arr_of<T,2>(v)); case 3: return f(arr_of<T,3>(v));
        case 4: return f(arr_of<T,4>(v)); case 5: return f(arr_of<T,5>(v));
        default: return "unsupported";
    }
}
template <typename T, typename F>
static std::string with_tup(const std::vector<ll>& v, F&& f) {
    switch (v.size()) {
        case 1: return f(tup_of<T,1>(v)); case 2: return f(tup_of<T,2>(v)); case 3: return f(tup_of<T,3>(v));
        case 4: return f(tup_of<T,4>(v));
        default: return "unsupported";
    }
}
template <typename F>
static std::string with_kind(const std::string& kind, const std::vector<ll>& v, F&& f) {
    if (kind == "vec") return f(vec_of<size_t>(v));
    if (kind == "veci") return f(vec_of<int>(v));
    if (kind == "sv") return f(mk_sv<int>(v));
#ifndef VD_LIGHT
    if (kind == "arr") return with_arr<size_t>(v, f);
    if (kind == "arri") return with_arr<int>(v, f);
#endif
    return "unsupported";
}
// + run-time tuples (only the functions with an unrolled tuple arm accept them)
template <typename F>
static std::string with_kind_t(const std::string& kind, const std::vector<ll>& v, F&& f) {
#ifndef VD_LIGHT
    if (kind == "tup") return with_tup<int>(v, f);
#endif
    return with_kind(kind, v, f);
}
// signed kinds only (axes, target shapes with -1)
template <typename F>
static std::string with_skind(const std::string& kind, const std::vector<ll>& v, F&& f) {
    if (kind == "veci") return f(vec_of<int>(v));
    if (kind == "sv") return f(mk_sv<int>(v));
#ifndef VD_LIGHT
    if (kind == "arri") return with_arr<int>(v, f);
#endif
    return "unsupported";
}
template <typename F>
static std::string with_skind_t(const std::string& kind, const std::vector<ll>& v, F&& f) {
#ifndef VD_LIGHT
    if (kind == "tup") return with_tup<int>(v, f);
#endif
    return with_skind(kind, v, f);
}

template <typename R>
static std::string show_maybe_index(const R& r) {
    if constexpr (meta::is_fail_v<R>) return "unsupported";
    else if constexpr (meta::is_maybe_v<R>) { if (!nm::has_value(r)) return "nothing"; return "ok " + show_index(*r); }
    else return "ok " + show_index(r);
}

static std::string kind_of(const Arg& a) { return a.raw.substr(2); }

// ---- compile-time argument variants ("ct" arms of the if-constexpr chains) ------------------
template <typename A>
static std::string reshape_ct(const std::string& name, const A& a) {
    if (name == "6") return show(view::reshape(a, nmtools_tuple{6_ct}));
    if (name == "2x3") return show(view::reshape(a, nmtools_tuple{2_ct, 3_ct}));
    if (name == "3x2") return show(view::reshape(a, nmtools_tuple{3_ct, 2_ct}));
    if (name == "12") return show(view::reshape(a, nmtools_tuple{12_ct}));
    if (name == "3x4") return show(view::reshape(a, nmtools_tuple{3_ct, 4_ct}));
    if (name == "2x3x2") return show(view::reshape(a, nmtools_tuple{2_ct, 3_ct, 2_ct}));
    if (name == "2x2x3x1") return show(view::reshape(a, nmtools_tuple{2_ct, 2_ct, 3_ct, 1_ct}));
    if (name == "-1x2") return show(view::reshape(a, nmtools_tuple{meta::ct_v<-1>, 2_ct}));
    if (name == "3x-1") return show(view::reshape(a, nmtools_tuple{3_ct, meta::ct_v<-1>}));
    if (name == "2x-1x2") return show(view::reshape(a, nmtools_tuple{2_ct, meta::ct_v<-1>, 2_ct}));
    return "unsupported";
}
template <typename A>
static std::string transpose_ct(const std::string& name, const A& a) {
    if (name == "10") return show(view::transpose(a, nmtools_tuple{1_ct, 0_ct}));
    if (name == "01") return show(view::transpose(a, nmtools_tuple{0_ct, 1_ct}));
    if (name == "021") return show(view::transpose(a, nmtools_tuple{0_ct, 2_ct, 1_ct}));
    if (name == "120") return show(view::transpose(a, nmtools_tuple{1_ct, 2_ct, 0_ct}));
    if (name == "201") return show(view::transpose(a, nmtools_tuple{2_ct, 0_ct, 1_ct}));
    if (name == "210") return show(view::transpose(a, nmtools_tuple{2_ct, 1_ct, 0_ct}));
    if (name == "2031") return show(view::transpose(a, nmtools_tuple{2_ct, 0_ct, 3_ct, 1_ct}));
    if (name == "3102") return show(view::transpose(a, nmtools_tuple{3_ct, 1_ct, 0_ct, 2_ct}));
    if (name == "1230") return show(view::transpose(a, nmtools_tuple{1_ct, 2_ct, 3_ct, 0_ct}));
    return "unsupported";
}
template <typename F>
static std::string with_ct_axis(ll ax, F&& f) {
    switch (ax) {
        case 0: return f(0_ct); case 1: return f(1_ct); case 2: return f(2_ct); case 3: return f(3_ct); case 4: return f(4_ct);
        case -1: return f(meta::ct_v<-1>); case -2: return f(meta::ct_v<-2>); case -3: return f(meta::ct_v<-3>);
        case -4: return f(meta::ct_v<-4>); case -5: return f(meta::ct_v<-5>);
        default: return "unsupported";
    }
}

static std::string handle(const Case& c) {
    const std::string& op = c.op;
    const auto& g = c.args;
    // ------------------------------------------------------------------ index level
    if (op == "reshape_shape") {            // S:ksrc S:kdst L:src L:dst
        return with_kind(kind_of(g[0]), g[2].list, [&](const auto& src) {
            return with_skind(kind_of(g[1]), g[3].list, [&](const auto& dst) -> std::string {
                return show_maybe_index(ix::shape_reshape(src, dst));
            });
        });
    }
    if (op == "transpose_shape") {          // S:kshape S:kaxes L:shape L:axes|N
        return with_kind_t(kind_of(g[0]), g[2].list, [&](const auto& shp) -> std::string {
            if (g[3].kind == 'N') return show_maybe_index(ix::shape_transpose(shp, nm::None));
            return with_skind_t(kind_of(g[1]), g[3].list, [&](const auto& axes) -> std::string {
                return show_maybe_index(ix::shape_transpose(shp, axes));
            });
        });
    }
    if (op == "scatter") {                  // S:k L:v L:p      (index::scatter(v,p)); fixed-size kinds share one N
        std::string k = kind_of(g[0]); const auto& v = g[1].list; const auto& p = g[2].list;
        if (k == "vec") return show_maybe_index(ix::scatter(vec_of<size_t>(v), vec_of<int>(p)));
        if (k == "veci") return show_maybe_index(ix::scatter(vec_of<int>(v), vec_of<int>(p)));
        if (k == "sv") return show_maybe_index(ix::scatter(mk_sv<int>(v), mk_sv<int>(p)));
#ifndef VD_LIGHT
        if (v.size() != p.size()) return "unsupported";
        auto go = [&](auto n) -> std::string {
            constexpr size_t N = decltype(n)::value;
            if (k == "arr") return show_maybe_index(ix::scatter(arr_of<size_t, N>(v), arr_of<int, N>(p)));
            if (k == "tup") return show_maybe_index(ix::scatter(tup_of<int, N>(v), tup_of<int, N>(p)));
            if (k == "arrct") {   // run-time vector, compile-time axes are exercised through transpose_ct
                return "unsupported";
            }
            return "unsupported";
        };
        switch (v.size()) {
            case 1: return go(std::integral_constant<size_t, 1>{}); case 2: return go(std::integral_constant<size_t, 2>{});
            case 3: return go(std::integral_constant<size_t, 3>{}); case 4: return go(std::integral_constant<size_t, 4>{});
            default: return "unsupported";
        }
#endif
        return "unsupported";
    }
    if (op == "reverse") {                  // S:k L:v
        return with_kind_t(kind_of(g[0]), g[1].list, [&](const auto& v) -> std::string { return show_maybe_index(ix::reverse(v)); });
    }
    if (op == "argsort") {                  // S:k L:keys       (index::argsort(keys))
        const auto& v = g[1].list; const auto k = kind_of(g[0]);
        if (k == "vec") return show_maybe_index(ix::argsort(vec_of<size_t>(v)));
        if (k == "veci") return show_maybe_index(ix::argsort(vec_of<int>(v)));
        if (k == "sv") {
            nm::utl::static_vector<int, 16> a; a.resize(v.size());
            for (size_t i = 0; i < v.size(); i++) a[i] = (int)v[i];
            return show_maybe_index(ix::argsort(a));
        }
        return "unsupported";
    }
    if (op == "normalize_axis") {           // I:axis I:ndim  |  S:k L:axes I:ndim
        if (g[0].kind == 'I') return show_maybe_index(ix::normalize_axis((int)g[0].val, (size_t)g[1].val));
        return with_skind(kind_of(g[0]), g[1].list, [&](const auto& axes) -> std::string {
            return show_maybe_index(ix::normalize_axis(axes, (size_t)g[2].val));
        });
    }
    if (op == "moveaxis_order") {           // S:k L:shape (I:src I:dst | L:src L:dst)
        return with_kind(kind_of(g[0]), g[1].list, [&](const auto& shp) -> std::string {
            if (g[2].kind == 'I') return show_maybe_index(ix::moveaxis_to_transpose(shp, (int)g[2].val, (int)g[3].val));
            return show_maybe_index(ix::moveaxis_to_transpose(shp, vec_of<int>(g[2].list), vec_of<int>(g[3].list)));
        });
    }
    if (op == "swapaxes_order") {           // I:dim I:a1 I:a2
        return show_maybe_index(ix::swapaxes_to_transpose((size_t)g[0].val, (int)g[1].val, (int)g[2].val));
    }
    if (op == "expand_dims_shape") {        // S:k L:shape (I:axis | L:axes)
        return with_kind(kind_of(g[0]), g[1].list, [&](const auto& shp) -> std::string {
            if (g[2].kind == 'I') return show_maybe_index(ix::shape_expand_dims(shp, (int)g[2].val));
            return show_maybe_index(ix::shape_expand_dims(shp, vec_of<int>(g[2].list)));
        });
    }
    if (op == "squeeze_shape") {            // S:k L:shape
        return with_kind(kind_of(g[0]), g[1].list, [&](const auto& shp) -> std::string { return show_maybe_index(ix::shape_squeeze(shp)); });
    }
    if (op == "remove_single_dims") {       // S:k L:shape
        return with_kind(kind_of(g[0]), g[1].list, [&](const auto& shp) -> std::string { return show_maybe_index(ix::remove_single_dims(shp)); });
    }
    if (op == "atleast_shape") {            // S:k L:shape I:nd
        return with_kind(kind_of(g[0]), g[1].list, [&](const auto& shp) -> std::string { return show_maybe_index(ix::shape_atleast_nd(shp, (size_t)g[2].val)); });
    }
    if (op == "flip_slices") {              // I:dim (N | I:axis | L:axes)  -> the step of every slice
        auto pr = [&](const auto& sl) { std::string s = "ok "; for (size_t i = 0; i < (size_t)nm::len(sl); i++) { if (i) s += ","; s += std::to_string((ll)nm::get<2>(nm::at(sl, i))); } return s; };
        if (g[1].kind == 'N') return pr(ix::flip_slices((size_t)g[0].val, nm::None));
        if (g[1].kind == 'I') return pr(ix::flip_slices((size_t)g[0].val, (int)g[1].val));
        return pr(ix::flip_slices((size_t)g[0].val, vec_of<int>(g[1].list)));
    }
    // ------------------------------------------------------------------ views on run-time shaped arrays
    if (op == "reshape") {                  // S:kdst A:src L:dst
        auto a = make_array(g[1]);
        std::string k = kind_of(g[0]);
        if (k == "vec") return show(view::reshape(a, vec_of<size_t>(g[2].list)));   // unsigned target (no -1 present)
        return with_skind(k, g[2].list, [&](const auto& dst) -> std::string { return show(view::reshape(a, dst)); });
    }
    if (op == "reshape_eval") { auto a = make_array(g[0]); return show(na::reshape(a, vec_of<int>(g[1].list))); }
    if (op == "reshape_ct") { auto a = make_array(g[1]); return reshape_ct(kind_of(g[0]), a); }
    if (op == "flatten") { auto a = make_array(g[0]); return show(view::flatten(a)); }
    if (op == "flatten_eval") { auto a = make_array(g[0]); return show(na::flatten(a)); }
    if (op == "transpose") {                // S:kaxes A:src (L:axes | N)
        auto a = make_array(g[1]);
        if (g[2].kind == 'N') return show(view::transpose(a));
        return with_skind(kind_of(g[0]), g[2].list, [&](const auto& axes) -> std::string { return show(view::transpose(a, axes)); });
    }
    if (op == "transpose_eval") {
        auto a = make_array(g[0]);
        if (g[1].kind == 'N') return show(na::transpose(a));
        return show(na::transpose(a, vec_of<int>(g[1].list)));
    }
    if (op == "transpose_ct") { auto a = make_array(g[1]); return transpose_ct(kind_of(g[0]), a); }
    if (op == "transpose2") {               // A:src L:p L:q   transpose(transpose(a,p),q)
        auto a = make_array(g[0]);
        auto t = view::transpose(a, vec_of<int>(g[1].list));
        return show(view::transpose(t, vec_of<int>(g[2].list)));
    }
    if (op == "transpose2d") {              // A:src           transpose(transpose(a))
        auto a = make_array(g[0]); auto t = view::transpose(a); return show(view::transpose(t));
    }
    if (op == "moveaxis") {                 // A:src (I I | L L)
        auto a = make_array(g[0]);
        if (g[1].kind == 'I') return show(view::moveaxis(a, (int)g[1].val, (int)g[2].val));
        return show(view::moveaxis(a, vec_of<int>(g[1].list), vec_of<int>(g[2].list)));
    }
    if (op == "moveaxis_eval") {
        auto a = make_array(g[0]);
        if (g[1].kind == 'I') return show(na::moveaxis(a, (int)g[1].val, (int)g[2].val));
        return show(na::moveaxis(a, vec_of<int>(g[1].list), vec_of<int>(g[2].list)));
    }
    if (op == "moveaxis_ct") {              // A:src I I  (both compile-time constants)
        auto a = make_array(g[0]);
        return with_ct_axis(g[1].val, [&](auto s) { return with_ct_axis(g[2].val, [&](auto d) -> std::string { return show(view::moveaxis(a, s, d)); }); });
    }
    if (op == "swapaxes") { auto a = make_array(g[0]); return show(view::swapaxes(a, (int)g[1].val, (int)g[2].val)); }
    if (op == "swapaxes_eval") { auto a = make_array(g[0]); return show(na::swapaxes(a, (int)g[1].val, (int)g[2].val)); }
    if (op == "expand_dims") {              // A:src (I:axis | L:axes)
        auto a = make_array(g[0]);
        if (g[1].kind == 'I') return show(view::expand_dims(a, (int)g[1].val));
        return show(view::expand_dims(a, vec_of<int>(g[1].list)));
    }
    if (op == "expand_dims_eval") {
        auto a = make_array(g[0]);
        if (g[1].kind == 'I') return show(na::expand_dims(a, (int)g[1].val));
        return show(na::expand_dims(a, vec_of<int>(g[1].list)));
    }
    if (op == "expand_dims_ct") { auto a = make_array(g[0]); return with_ct_axis(g[1].val, [&](auto ax) -> std::string { return show(view::expand_dims(a, ax)); }); }
    if (op == "squeeze") { auto a = make_array(g[0]); return show(view::squeeze(a)); }
    if (op == "squeeze_eval") { auto a = make_array(g[0]); return show(na::squeeze(a)); }
    if (op == "squeeze_expand") {           // A:src I:axis     squeeze(expand_dims(a,axis))
        auto a = make_array(g[0]); auto e = view::expand_dims(a, (int)g[1].val);
        if (!nm::has_value(e)) return "nothing";
        return show(view::squeeze(nm::unwrap(e)));
    }
    if (op == "atleast") {                  // A:src I:nd (run-time nd)
        auto a = make_array(g[0]); return show(view::atleast_nd(a, (size_t)g[1].val));
    }
    if (op == "atleast_ct") {               // A:src I:nd  (atleast_1d / atleast_2d / atleast_nd with ct nd)
        auto a = make_array(g[0]);
        switch (g[1].val) {
            case 1: return show(view::atleast_1d(a)); case 2: return show(view::atleast_2d(a));
            case 3: return show(view::atleast_nd(a, 3_ct)); case 4: return show(view::atleast_nd(a, 4_ct));
            case 5: return show(view::atleast_nd(a, 5_ct));
            default: return "unsupported";
        }
    }
    if (op == "flip") {                     // A:src (N | I:axis | L:axes)
        auto a = make_array(g[0]);
        if (g[1].kind == 'N') return show(view::flip(a, nm::None));
        if (g[1].kind == 'I') return show(view::flip(a, (int)g[1].val));
        return show(view::flip(a, vec_of<int>(g[1].list)));
    }
    if (op == "flip_eval") {
        auto a = make_array(g[0]);
        if (g[1].kind == 'N') return show(na::flip(a, nm::None));
        if (g[1].kind == 'I') return show(na::flip(a, (int)g[1].val));
        return show(na::flip(a, vec_of<int>(g[1].list)));
    }
    if (op == "flip_ct") { auto a = make_array(g[0]); return with_ct_axis(g[1].val, [&](auto ax) -> std::string { return show(view::flip(a, ax)); }); }
    if (op == "flip2") {                    // A:src (N | I | L)   flip(flip(a,ax),ax)
        auto a = make_array(g[0]);
        if (g[1].kind == 'N') { auto f = view::flip(a, nm::None); return show(view::flip(f, nm::None)); }
        if (g[1].kind == 'I') { auto f = view::flip(a, (int)g[1].val); return show(view::flip(f, (int)g[1].val)); }
        auto ax = vec_of<int>(g[1].list); auto f = view::flip(a, ax); return show(view::flip(f, ax));
    }
    return "unsupported";
}

int main() { return vd::run_main(handle); }
