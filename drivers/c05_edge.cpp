// c05_edge.cpp — C05 correspondence on the whole range the theorem claims, index math only, ONE axis.
//   ex S:<enc> I:<n> <start> <stop> <step>
// parts: N (None) | J:v (int64_t) | U:v (size_t, v >= 0); step may also be O (2-part slice).
// (int-typed parts go through c05_ax.cpp, op ax.)  3 x 3 x 4 type patterns, both encodings:
//   var  index::apply_shape_slice / apply_slice with a tuple of one typed slice   (variadic shape_slice / slice)
//   dyn  the same entry points with std::vector<either<int,either<ellipsis_t,tuple<...>>>>  (shape_dynamic_slice / dynamic_slice)
// The extent is a size_t up to 2^62-1; nothing is allocated.
// prints  ok <len> ; all source indices (len <= 64) | ~ first,second,last (64 < len < 2^62)
#include "nmtools/array/index/slice.hpp"
#include "show.hpp"

using namespace vd;

template <typename ShapeOf, typename IndexOf>
static std::string report(ShapeOf&& shape_of, IndexOf&& index_of) {
    long long len = shape_of();
    std::string o = "ok " + std::to_string(len) + " ;";
    if (len >= 0 && len <= 64)
        for (long long k = 0; k < len; k++) o += (k ? "," : " ") + std::to_string((long long)index_of((size_t)k));
    else if (len > 64 && len < (1LL << 62))
        o += " ~ " + std::to_string((long long)index_of(0)) + "," + std::to_string((long long)index_of(1)) + "," + std::to_string((long long)index_of((size_t)(len - 1)));
    return o;
}

template <typename slice_t>
static std::string run_axis(const std::string& enc, size_t n, const slice_t& sl) {
    namespace ix = nm::index;
    std::vector<size_t> shape{n};
    if (enc == "var") {
        auto pack = nmtools_tuple<slice_t>{sl};
        return report([&]{ auto r = ix::apply_shape_slice(shape, pack); return (long long)nm::at(r, 0); },
                      [&](size_t k){ std::vector<size_t> idx{k}; auto q = ix::apply_slice(idx, shape, pack); return nm::at(q, 0); });
    }
    if (enc == "dyn") {
        using inner_t = nmtools_either<nm::ellipsis_t, slice_t>;
        using elem_t  = nmtools_either<int, inner_t>;
        std::vector<elem_t> pack{ (elem_t)(inner_t)sl };
        return report([&]{ auto r = ix::apply_shape_slice(shape, pack); return (long long)nm::at(r, 0); },
                      [&](size_t k){ std::vector<size_t> idx{k}; auto q = ix::apply_slice(idx, shape, pack); return nm::at(q, 0); });
    }
    return "unsupported";
}

static long long sval(const Arg& x) { return std::stoll(x.raw.substr(2)); }
static size_t uval(const Arg& x) { return (size_t)std::stoull(x.raw.substr(2)); }

template <typename F> static std::string with_bound(const Arg& x, F&& f) {
    if (x.kind == 'N') return f(nm::None);
    if (x.raw[0] == 'U') return f(uval(x));      // (common.hpp folds unknown kinds into 'S': look at the raw token)
    return f((int64_t)sval(x));
}
template <typename F> static std::string with_range(const Arg& a, const Arg& b, const Arg& c, F&& f) {
    return with_bound(a, [&](auto av){
        return with_bound(b, [&](auto bv) -> std::string {
            if (c.kind == 'N') return f(nmtools_tuple<decltype(av), decltype(bv), nm::none_t>{av, bv, nm::None});
            if (c.raw[0] == 'J') return f(nmtools_tuple<decltype(av), decltype(bv), int64_t>{av, bv, (int64_t)sval(c)});
            if (c.raw[0] == 'U') return f(nmtools_tuple<decltype(av), decltype(bv), size_t>{av, bv, uval(c)});
            return f(nmtools_tuple<decltype(av), decltype(bv)>{av, bv});
        });
    });
}

static std::string handle(const Case& c) {
    if (c.op != "ex") return "unsupported";
    std::string enc = c.args[0].raw.substr(2);
    size_t n = (size_t)c.args[1].val;
    return with_range(c.args[2], c.args[3], c.args[4], [&](const auto& sl){ return run_axis(enc, n, sl); });
}

int main() { return vd::run_main(handle); }
