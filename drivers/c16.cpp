// c16.cpp — implementation side of the C16 correspondence (linear algebra, all routines except kron).
//   matmul S:<kind> A:a A:b        kind: view | eval | v2 | fix (fixed-shape nested std::array operands, sample shapes)
//   dot|inner|outer|vecdot S:<kind> A:a A:b      kind: view | eval | fix
//   tdot S:<kind> A:a A:b I:n                    tensordot, integer axes
//   tdotx S:<kind> A:a A:b L:axes_a L:axes_b     tensordot, explicit axes
//   trace|diagonal S:<kind> A:a I:offset I:axis1 I:axis2
#include "nmtools/array/view/matmul.hpp"
#include "nmtools/array/view/dot.hpp"
#include "nmtools/array/view/inner.hpp"
#include "nmtools/array/view/outer.hpp"
#include "nmtools/array/view/vecdot.hpp"
#include "nmtools/array/view/tensordot.hpp"
#include "nmtools/array/view/trace.hpp"
#include "nmtools/array/view/diagonal.hpp"
#include "nmtools/array/array/matmul.hpp"
#include "nmtools/array/array/dot.hpp"
#include "nmtools/array/array/inner.hpp"
#include "nmtools/array/array/outer.hpp"
#include "nmtools/array/array/vecdot.hpp"
#include "nmtools/array/array/tensordot.hpp"
#include "nmtools/array/array/trace.hpp"
#include "nmtools/array/array/diagonal.hpp"
#include "show.hpp"

namespace view = nmtools::view;
namespace arr = nmtools::array;
using namespace vd;

// ---- fixed-shape operands (nested std::array): a different code path (shapes are compile-time constants)
template <size_t N> static std::array<ll, N> fx1(const std::vector<ll>& d) { std::array<ll, N> a{}; for (size_t i = 0; i < N; i++) a[i] = d[i]; return a; }
template <size_t M, size_t N> static std::array<std::array<ll, N>, M> fx2(const std::vector<ll>& d) {
    std::array<std::array<ll, N>, M> a{}; for (size_t i = 0; i < M; i++) for (size_t j = 0; j < N; j++) a[i][j] = d[i * N + j]; return a; }
template <size_t L, size_t M, size_t N> static std::array<std::array<std::array<ll, N>, M>, L> fx3(const std::vector<ll>& d) {
    std::array<std::array<std::array<ll, N>, M>, L> a{};
    for (size_t h = 0; h < L; h++) for (size_t i = 0; i < M; i++) for (size_t j = 0; j < N; j++) a[h][i][j] = d[(h * M + i) * N + j]; return a; }

static std::string shp(const Arg& a) { return joinc(a.shape); }

#ifndef VD_LIGHT
// the sample of fixed shapes: f(a,b) is called for the listed pairs only
template <typename F>
static std::string with_fixed_pair(const Arg& a, const Arg& b, F&& f) {
    std::string k = shp(a) + "|" + shp(b);
    if (k == "2,3|3,2") return f(fx2<2,3>(a.list), fx2<3,2>(b.list));
    if (k == "3,2|2,3") return f(fx2<3,2>(a.list), fx2<2,3>(b.list));
    if (k == "2,2,3|3,2") return f(fx3<2,2,3>(a.list), fx2<3,2>(b.list));
    if (k == "1,2,3|2,3,2") return f(fx3<1,2,3>(a.list), fx3<2,3,2>(b.list));
    return "unsupported";
}
template <typename F>
static std::string with_fixed_pair_last(const Arg& a, const Arg& b, F&& f) {   // equal last extents (inner / vecdot)
    std::string k = shp(a) + "|" + shp(b);
    if (k == "3|3") return f(fx1<3>(a.list), fx1<3>(b.list));
    if (k == "2,3|2,3") return f(fx2<2,3>(a.list), fx2<2,3>(b.list));
    if (k == "2,3|3") return f(fx2<2,3>(a.list), fx1<3>(b.list));
    if (k == "2,2,3|2,3") return f(fx3<2,2,3>(a.list), fx2<2,3>(b.list));
    return "unsupported";
}
template <typename F>
static std::string with_fixed_one(const Arg& a, F&& f) {
    std::string k = shp(a);
    if (k == "2,3") return f(fx2<2,3>(a.list));
    if (k == "3,3") return f(fx2<3,3>(a.list));
    if (k == "2,3,2") return f(fx3<2,3,2>(a.list));
    return "unsupported";
}
#endif

static std::string handle(const Case& c) {
    const std::string& op = c.op;
    std::string k = c.args[0].raw.substr(2);
    if (op == "matmul") {
        if (k == "fix") {
#ifndef VD_LIGHT
            return with_fixed_pair(c.args[1], c.args[2], [&](const auto& a, const auto& b) -> std::string { return show(view::matmul(a, b)); });
#else
            return "unsupported";
#endif
        }
        auto a = make_array(c.args[1]); auto b = make_array(c.args[2]);
        if (k == "view") return show(view::matmul(a, b));
        if (k == "eval") return show(arr::matmul(a, b));
        if (k == "v2") return show(view::matmulv2(a, b));
        return "unsupported";
    }
    if (op == "dot" || op == "inner" || op == "outer" || op == "vecdot") {
        if (k == "fix") {
#ifndef VD_LIGHT
            if (op == "dot") return with_fixed_pair(c.args[1], c.args[2], [&](const auto& a, const auto& b) -> std::string { return show(view::dot(a, b)); });
            if (op == "outer") return with_fixed_pair(c.args[1], c.args[2], [&](const auto& a, const auto& b) -> std::string { return show(view::outer(a, b)); });
            if (op == "inner") return with_fixed_pair_last(c.args[1], c.args[2], [&](const auto& a, const auto& b) -> std::string { return show(view::inner(a, b)); });
            if (op == "vecdot") return with_fixed_pair_last(c.args[1], c.args[2], [&](const auto& a, const auto& b) -> std::string { return show(view::vecdot(a, b)); });
#endif
            return "unsupported";
        }
        auto a = make_array(c.args[1]); auto b = make_array(c.args[2]);
        if (k == "view") {
            if (op == "dot") return show(view::dot(a, b));
            if (op == "inner") return show(view::inner(a, b));
            if (op == "outer") return show(view::outer(a, b));
            if (op == "vecdot") return show(view::vecdot(a, b));
        }
        if (k == "eval") {
            if (op == "dot") return show(arr::dot(a, b));
            if (op == "inner") return show(arr::inner(a, b));
            if (op == "outer") return show(arr::outer(a, b));
            if (op == "vecdot") return show(arr::vecdot(a, b));
        }
        return "unsupported";
    }
    if (op == "tdot") {
        auto a = make_array(c.args[1]); auto b = make_array(c.args[2]);
        int n = (int)c.args[3].val;
        if (k == "view") return show(view::tensordot(a, b, n));
        if (k == "eval") return show(arr::tensordot(a, b, n));
        return "unsupported";
    }
    if (op == "tdotx") {
        auto a = make_array(c.args[1]); auto b = make_array(c.args[2]);
        auto axes = nmtools_tuple{vec_of<int>(c.args[3].list), vec_of<int>(c.args[4].list)};
        if (k == "view") return show(view::tensordot(a, b, axes));
        if (k == "eval") return show(arr::tensordot(a, b, axes));
        return "unsupported";
    }
    if (op == "trace" || op == "diagonal") {
        int off = (int)c.args[2].val, ax1 = (int)c.args[3].val, ax2 = (int)c.args[4].val;
        if (k == "fix") {
#ifndef VD_LIGHT
            return with_fixed_one(c.args[1], [&](const auto& a) -> std::string {
                if (op == "trace") return show(view::trace(a, off, ax1, ax2));
                return show(view::diagonal(a, off, ax1, ax2)); });
#else
            return "unsupported";
#endif
        }
        auto a = make_array(c.args[1]);
        if (k == "view") { if (op == "trace") return show(view::trace(a, off, ax1, ax2)); return show(view::diagonal(a, off, ax1, ax2)); }
        if (k == "eval") { if (op == "trace") return show(arr::trace(a, off, ax1, ax2)); return show(arr::diagonal(a, off, ax1, ax2)); }
        return "unsupported";
    }
    return "unsupported";
}

int main() { return vd::run_main(handle); }
