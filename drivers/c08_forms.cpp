// c08_forms.cpp — C08: every convenience OVERLOAD ARITY of the reduction / accumulation wrappers (view:: and array::), each called with
// arguments that make a dropped or misrouted argument visible: int8 data whose sums / products leave int8, dtype = int32 (float64 for the
// statistics), a non-identity initial, keepdims = True; the result ELEMENT TYPE is printed.  The model ignores the call form: the case line
// carries the canonical (fn, dtype, keepdims, axis, initial, ddof) the form stands for.
//   form S:<form> S:<fn> S:<dtype> S:<kd> <A> <axis: I:k | N> <init: I:v | N> I:<ddof>   -> "ok <shape> ; <elements> ; view=<type>"
// (same driver key as c08_stat.cpp / c08_types.cpp; answers "unsupported" for their ops.  The eager array:: forms live in c08_stat.cpp:
// with both view/prod.hpp and array/prod.hpp included, the 2- and 3-argument view::prod / cumsum / cumprod overloads forward with an
// UNQUALIFIED call that ADL makes ambiguous with array::prod / cumsum / cumprod for ndarray_t operands — compile-rejected)
#include "nmtools/array/view/sum.hpp"
#include "nmtools/array/view/prod.hpp"
#include "nmtools/array/view/ufuncs/amax.hpp"
#include "nmtools/array/view/ufuncs/amin.hpp"
#include "nmtools/array/view/ufuncs/add.hpp"
#include "nmtools/array/view/ufuncs/multiply.hpp"
#include "nmtools/array/view/cumsum.hpp"
#include "nmtools/array/view/cumprod.hpp"
#include "nmtools/array/view/mean.hpp"
#include "nmtools/array/view/var.hpp"
#include "nmtools/array/view/stddev.hpp"
#include "show.hpp"
#include <cstdint>

namespace view = nmtools::view;
using namespace vd;
using nm::None; using nm::True;

template <typename T> static std::string tname() {
    if constexpr (std::is_same_v<T, bool>) return "bool";
    else if constexpr (std::is_floating_point_v<T>) return sizeof(T) == 4 ? "f32" : "f64";
    else if constexpr (std::is_integral_v<T>) return std::string(std::is_signed_v<T> ? "i" : "u") + std::to_string(8 * sizeof(T));
    else return "other";
}
// values + element type of any result (view / evaluated array / maybe / either / 0-dim view / number)
template <typename V>
static std::string tagged(const V& v) {
    if constexpr (meta::is_either_v<V>) {
        using L = meta::get_either_left_t<V>; using R = meta::get_either_right_t<V>;
        if (auto l = nm::get_if<L>(&v)) return tagged(*l); else return tagged(*nm::get_if<R>(&v));
    } else if constexpr (meta::is_maybe_v<V>) { if (!nm::has_value(v)) return "nothing"; return tagged(*v); }
    else if constexpr (std::is_arithmetic_v<V>) return "ok  ; " + num_str(v) + " ; view=" + tname<V>();
    else {
        using T = meta::get_element_type_t<V>;
        if constexpr (meta::is_num_v<V>) return "ok  ; " + num_str(static_cast<T>(v)) + " ; view=" + tname<T>();
        else return show(v) + " ; view=" + tname<T>();
    }
}
#define F(NAME, EXPR) if (form == NAME) return tagged(EXPR);

static std::string handle(const Case& c) {
    if (c.op != "form") return "unsupported";
    const std::string form = c.args[0].raw.substr(2);
    auto a = make_array<dyn_t<int8_t>>(c.args[4]);
    const int ax = (int)c.args[5].val; const ll ini = c.args[6].val; const size_t ddof = (size_t)c.args[7].val;
    const auto dt = nm::int32; const auto fd = nm::float64;
    // ---- view::sum / prod: 2..5 arguments, dtype / initial present or None
    F("sum2", view::sum(a, ax)) F("sum3", view::sum(a, ax, dt)) F("sum4", view::sum(a, ax, dt, ini)) F("sum4n", view::sum(a, ax, None, ini))
    F("sum5", view::sum(a, ax, dt, ini, True)) F("sum5n", view::sum(a, ax, None, None, True))
    F("prod2", view::prod(a, ax)) F("prod3", view::prod(a, ax, dt)) F("prod4", view::prod(a, ax, dt, ini)) F("prod4n", view::prod(a, ax, None, ini))
    F("prod5", view::prod(a, ax, dt, ini, True)) F("prod5n", view::prod(a, ax, None, None, True))
    // ---- amax / amin: 1..5 arguments (axis defaults to None)
    F("amax1", view::amax(a)) F("amax2", view::amax(a, ax)) F("amax3", view::amax(a, ax, dt)) F("amax4", view::amax(a, ax, dt, ini)) F("amax5", view::amax(a, ax, dt, ini, True))
    F("amin1", view::amin(a)) F("amin2", view::amin(a, ax)) F("amin3", view::amin(a, ax, dt)) F("amin4", view::amin(a, ax, dt, ini)) F("amin5", view::amin(a, ax, dt, ini, True))
    // ---- reduce_add / reduce_multiply: 2..5 arguments
    F("radd2", view::reduce_add(a, ax)) F("radd3", view::reduce_add(a, ax, dt)) F("radd4", view::reduce_add(a, ax, dt, ini)) F("radd5", view::reduce_add(a, ax, dt, ini, True))
    F("rmul2", view::reduce_multiply(a, ax)) F("rmul3", view::reduce_multiply(a, ax, dt)) F("rmul4", view::reduce_multiply(a, ax, dt, ini)) F("rmul5", view::reduce_multiply(a, ax, dt, ini, True))
    // ---- accumulations: 2..3 arguments
    F("cumsum2", view::cumsum(a, ax)) F("cumsum3", view::cumsum(a, ax, dt)) F("cumprod2", view::cumprod(a, ax)) F("cumprod3", view::cumprod(a, ax, dt))
    F("accadd2", view::accumulate_add(a, ax)) F("accadd3", view::accumulate_add(a, ax, dt)) F("accmul2", view::accumulate_multiply(a, ax)) F("accmul3", view::accumulate_multiply(a, ax, dt))
    // ---- statistics: mean 2..4, var / stddev 2..5 arguments
    F("mean2", view::mean(a, ax)) F("mean3", view::mean(a, ax, fd)) F("mean4", view::mean(a, ax, fd, True))
    F("var2", view::var(a, ax)) F("var3", view::var(a, ax, fd)) F("var4", view::var(a, ax, fd, ddof)) F("var5", view::var(a, ax, fd, ddof, True))
    F("std2", view::stddev(a, ax)) F("std3", view::stddev(a, ax, fd)) F("std4", view::stddev(a, ax, fd, ddof)) F("std5", view::stddev(a, ax, fd, ddof, True))
    return "unsupported";
}
int main() { return vd::run_main(handle); }
