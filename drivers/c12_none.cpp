// one-line wrapper: c12.cpp compiled for context none (the harness keys its binary cache by file name)
#define C12_CTX 0
#include "c12.cpp"
