// c14x.cpp — implementation side of the C14 correspondence, extraction part:
//   get_function_composition / get_function_operands / functional::apply / get_compute_graph
// on a fixed table of view trees of depth 1..4 (a C++ view tree is a type, so the table is compiled in;
// harness/props/c14.py holds the same table and the OCaml handler parses the same tree strings).
//
// case line:  ext S:<kind dyn|fix> S:<g1|g0> S:<tree> A:<a> A:<b> A:<c>
//   -> view <direct view> | apply <apply(composition, operands)> | ops <leaf names, by ADDRESS> | graph <nodes> <edges> <edge list>
// kind fix: leaves are fixed_ndarray<ll,2,2> (fixed shape, trivially destructible shape types); kind dyn: ndarray_t<vector,vector>.
// g0: get_compute_graph is rejected at compile time for this tree (static_assert / fail_t inside the library):
//     an unsupported combination, printed as "graph unsupported" by both sides.
#include "nmtools/array/functional.hpp"
#include "nmtools/array/view/ufuncs/add.hpp"
#include "nmtools/array/view/ufuncs/multiply.hpp"
#include "nmtools/array/view/ufuncs/subtract.hpp"
#include "nmtools/array/view/ufuncs/negative.hpp"
#include "nmtools/array/view/transpose.hpp"
#include "nmtools/array/view/sum.hpp"
#include "nmtools/array/view/matmul.hpp"
#include "show.hpp"

namespace fn = nmtools::functional;
namespace view = nmtools::view;
using namespace vd;

template <typename T> static const void* addr_of(const T& t) { if constexpr (std::is_pointer_v<T>) return (const void*)t; else return (const void*)&t; }
template <typename T> static bool hv(const T& t) { if constexpr (meta::is_maybe_v<T>) return nm::has_value(t); else return true; }

// results over fixed-dim leaves cannot be indexed with a run-time-length index: all of them are (2,2)
template <typename V> static std::string show22(const V& v) {
    if constexpr (meta::is_maybe_v<V>) { if (!nm::has_value(v)) return "nothing"; return show22(*v); }
    else {
        std::string o = "ok " + show_index(nm::unwrap(nm::shape(v))) + " ;";
        for (size_t i = 0; i < 2; i++) for (size_t j = 0; j < 2; j++)
            o += ((i + j) ? "," : " ") + num_str(nm::apply_at(v, std::array<size_t, 2>{i, j}));
        return o;
    }
}
template <bool FIX, typename V> static std::string showx(const V& v) { if constexpr (FIX) return show22(v); else return show(v); }

template <bool GRAPH, typename V>
static std::string graph_str(const V& v) {
    if constexpr (!GRAPH) return "graph unsupported";
    else {
        auto g_ = fn::get_compute_graph(v);
        if (!hv(g_)) return "graph nothing";
        const auto& g = nm::unwrap(g_);
        auto nodes = g.nodes(); auto edges = g.out_edges();
        constexpr auto NN = meta::len_v<std::decay_t<decltype(nodes)>>;
        constexpr auto NE = meta::len_v<std::decay_t<decltype(edges)>>;
        std::vector<long> ids; meta::template_for<NN>([&](auto i) { ids.push_back((long)nm::at(nodes, i)); });
        auto pos = [&](long id) { for (size_t k = 0; k < ids.size(); k++) if (ids[k] == id) return (long)k; return -1L; };
        std::vector<std::pair<long, long>> es;
        meta::template_for<NE>([&](auto i) { auto e = nm::at(edges, i); es.push_back({pos((long)nm::get<0>(e)), pos((long)nm::get<1>(e))}); });
        std::sort(es.begin(), es.end());
        std::string s = "graph " + std::to_string(NN) + " " + std::to_string(NE) + " ";
        for (size_t k = 0; k < es.size(); k++) s += (k ? "," : "") + std::to_string(es[k].first) + ">" + std::to_string(es[k].second);
        return s;
    }
}

template <bool GRAPH, bool FIX = false, typename V, typename LA, typename LB, typename LC>
static std::string run_tree(const V& v, const LA& a, const LB& b, const LC& c) {
    std::string o = "view " + showx<FIX>(v);
    auto f_ = fn::get_function_composition(v);
    auto ops_ = fn::get_function_operands(v);
    if (!hv(f_) || !hv(ops_)) return o + " | apply extraction-nothing";
    auto r = fn::apply(f_, ops_);
    o += " | apply " + showx<FIX>(r);
    const auto& ops = nm::unwrap(ops_);
    constexpr auto N = meta::len_v<std::decay_t<decltype(ops)>>;
    std::string names;
    meta::template_for<N>([&](auto i) {
        const void* p = addr_of(nm::at(ops, i));
        names += (names.empty() ? "" : ",") + std::string(p == (const void*)&a ? "a" : p == (const void*)&b ? "b" : p == (const void*)&c ? "c" : "?");
    });
    o += " | ops " + names + " | " + graph_str<GRAPH>(v);
    return o;
}

// the table: name, 1 = get_compute_graph compiles for this tree (0: rejected inside the library:
// ct_map CT_MAP_OUT_OF_RANGE -> fail_t, an edge is added from a node id that does not exist), view expression over leaves a, b, c
#define TREES(X) \
  X("tr(a)", 1,               view::transpose(a)) \
  X("neg(a)", 1,              view::negative(a)) \
  X("sum0(a)", 1,             view::sum(a, 0)) \
  X("add(a,b)", 1,            view::add(a, b)) \
  X("sub(a,b)", 1,            view::subtract(a, b)) \
  X("add(a,a)", 1,            view::add(a, a)) \
  X("mm(a,b)", 1,             view::matmul(a, b)) \
  X("neg(tr(a))", 1,          view::negative(view::transpose(a))) \
  X("sum0(add(a,b))", 1,      view::sum(view::add(a, b), 0)) \
  X("tr(sub(a,b))", 1,        view::transpose(view::subtract(a, b))) \
  X("mm(tr(a),b)", 0,         view::matmul(view::transpose(a), b)) \
  X("sub(tr(a),b)", 1,        view::subtract(view::transpose(a), b)) \
  X("mul(neg(a),a)", 1,       view::multiply(view::negative(a), a)) \
  X("mm(a,tr(b))", 1,         view::matmul(a, view::transpose(b))) \
  X("sub(a,tr(b))", 1,        view::subtract(a, view::transpose(b))) \
  X("mm(tr(a),tr(b))", 1,     view::matmul(view::transpose(a), view::transpose(b))) \
  X("sub(tr(a),tr(b))", 1,    view::subtract(view::transpose(a), view::transpose(b))) \
  X("mul(neg(a),neg(b))", 1,  view::multiply(view::negative(a), view::negative(b))) \
  X("neg(tr(sub(a,b)))", 1,   view::negative(view::transpose(view::subtract(a, b)))) \
  X("sum0(tr(mul(a,b)))", 1,  view::sum(view::transpose(view::multiply(a, b)), 0)) \
  X("mm(tr(neg(a)),b)", 0,    view::matmul(view::transpose(view::negative(a)), b)) \
  X("tr(mm(tr(a),b))", 0,     view::transpose(view::matmul(view::transpose(a), b))) \
  X("sub(sub(a,b),c)", 1,     view::subtract(view::subtract(a, b), c)) \
  X("sub(a,sub(b,c))", 1,     view::subtract(a, view::subtract(b, c))) \
  X("mm(mm(a,b),c)", 1,       view::matmul(view::matmul(a, b), c)) \
  X("mm(a,mm(b,c))", 1,       view::matmul(a, view::matmul(b, c))) \
  X("neg(mm(a,tr(b)))", 1,    view::negative(view::matmul(a, view::transpose(b)))) \
  X("mm(mm(a,b),tr(c))", 1,   view::matmul(view::matmul(a, b), view::transpose(c))) \
  X("neg(tr(neg(tr(a))))", 1, view::negative(view::transpose(view::negative(view::transpose(a))))) \
  X("tr(mm(tr(neg(a)),b))", 0, view::transpose(view::matmul(view::transpose(view::negative(a)), b)))

// fixed-shape leaves (fixed_ndarray<ll,2,2>): the trees around a broadcasting binary ufunc with a non-leaf operand
#define FIXTREES(X) \
  X("tr(a)", 0,               view::transpose(a)) \
  X("sub(a,b)", 0,            view::subtract(a, b)) \
  X("tr(sub(a,b))", 0,        view::transpose(view::subtract(a, b))) \
  X("sub(tr(a),b)", 0,        view::subtract(view::transpose(a), b)) \
  X("sub(a,tr(b))", 0,        view::subtract(a, view::transpose(b))) \
  X("sub(tr(a),tr(b))", 0,    view::subtract(view::transpose(a), view::transpose(b))) \
  X("sub(sub(a,b),c)", 0,     view::subtract(view::subtract(a, b), c)) \
  X("sub(a,sub(b,c))", 0,     view::subtract(a, view::subtract(b, c)))

template <typename LA, typename LB, typename LC>
static std::string dispatch_fix(const std::string& tree, const LA& a, const LB& b, const LC& c) {
#define X(name, G, expr) if (tree == name) return run_tree<false, true>(expr, a, b, c);
    FIXTREES(X)
#undef X
    return "unsupported";
}

template <bool GRAPH, typename LA, typename LB, typename LC>
static std::string dispatch(const std::string& tree, const LA& a, const LB& b, const LC& c) {
#define X(name, G, expr) if (tree == name) return run_tree<(GRAPH && G)>(expr, a, b, c);
    TREES(X)
#undef X
    return "unsupported";
}

static std::string handle(const Case& c) {
    if (c.op == "ext") {
        std::string kind = c.args[0].raw.substr(2), g = c.args[1].raw.substr(2), tree = c.args[2].raw.substr(2);
        if (kind == "dyn") {
            auto a = make_array(c.args[3]); auto b = make_array(c.args[4]); auto cc = make_array(c.args[5]);
            // get_compute_graph is instantiated in the dyn kind only (one kind: compile time)
            if (g == "g1") return dispatch<true>(tree, a, b, cc);
            return "unsupported";
        }
#ifndef VD_NOFIX
        if (kind == "fix") {
            nm::array::fixed_ndarray<ll, 2, 2> a{}, b{}, cc{};
            for (int i = 0; i < 4; i++) { a(i / 2, i % 2) = c.args[3].list[i]; b(i / 2, i % 2) = c.args[4].list[i]; cc(i / 2, i % 2) = c.args[5].list[i]; }
            return dispatch_fix(tree, a, b, cc);
        }
#endif
        return "unsupported";
    }
    return "unsupported";
}

int main() { return vd::run_main(handle); }
