// c14.cpp — implementation side of the C14 correspondence, functor part: functors with attributes,
// currying in every split, composition with operator* in both parenthesisations, combinators —
// against the corresponding direct view call.  (Extraction: c14x.cpp.)
//
// case line:  pipe S:<pipeline> S:<split> A:<a> A:<b> A:<c>
//   pipeline: functor names joined with '*' and parentheses, exactly as written in the table below
//   split   : how the operands are supplied: "3" = f(a,b,c), "1+2" = f(a)(b,c), "1+1+1" = f(a)(b)(c), ...;
//             a split may supply ONE operand more than the pipeline consumes, in the call that completes it
//   -> fn <functor result, or "tuple r ;; rest" when operands are left over> | view <direct view call>
//      alias L:<ids>  -> ok <index::generate_alias(ids)>
#include "nmtools/array/functional.hpp"
#include "nmtools/array/functional/transpose.hpp"
#include "nmtools/array/functional/sum.hpp"
#include "nmtools/array/functional/matmul.hpp"
#include "nmtools/array/functional/where.hpp"
#include "nmtools/array/functional/combinator.hpp"
#include "nmtools/array/view/ufuncs/add.hpp"
#include "nmtools/array/view/ufuncs/multiply.hpp"
#include "nmtools/array/view/ufuncs/subtract.hpp"
#include "nmtools/array/view/ufuncs/negative.hpp"
#include "nmtools/array/view/transpose.hpp"
#include "nmtools/array/view/sum.hpp"
#include "nmtools/array/view/matmul.hpp"
#include "nmtools/array/view/where.hpp"
#include "nmtools/array/index/alias.hpp"
#include "show.hpp"

namespace fn = nmtools::functional;
namespace cb = nmtools::combinator;
namespace view = nmtools::view;
using namespace vd;

// ---- operands: five arrays a..e; a split "k1+k2+..." supplies them in successive calls f(k1 operands)(k2 operands)...
template <typename T> static const auto& deref(const T& t) { if constexpr (std::is_pointer_v<T>) return *t; else return t; }

// a call may return an array/view (complete), or - when more operands were supplied than consumed - the
// tuple (results..., remaining operands...): printed element by element
template <typename R> static std::string show_any(const R& r) {
    if constexpr (meta::is_tuple_v<R>) {
        std::string o = "tuple";
        constexpr auto N = meta::len_v<R>;
        meta::template_for<N>([&](auto i) { o += std::string(decltype(i)::value ? " ;; " : " ") + show(deref(nm::at(r, i))); });
        return o;
    } else return show(r);
}

template <size_t Off, typename F, typename Ops, size_t... I>
static auto call_k(const F& f, const Ops& o, std::index_sequence<I...>) { return f(*o[Off + I]...); }

template <size_t Off, typename F, typename Ops, size_t K, size_t... Rest>
static std::string apply_chunks(const F& f, const Ops& o, std::index_sequence<K, Rest...>) {
    auto g = call_k<Off>(f, o, std::make_index_sequence<K>{});
    if constexpr (sizeof...(Rest) == 0) return show_any(g);
    else return apply_chunks<Off + K>(g, o, std::index_sequence<Rest...>{});
}

// every composition of 1..5 operands: (total, last chunk, text, chunks...)
#define SPLITS(S) \
  S(1,1,"1",1) \
  S(2,2,"2",2) S(2,1,"1+1",1,1) \
  S(3,3,"3",3) S(3,2,"1+2",1,2) S(3,1,"2+1",2,1) S(3,1,"1+1+1",1,1,1) \
  S(4,4,"4",4) S(4,3,"1+3",1,3) S(4,2,"2+2",2,2) S(4,1,"3+1",3,1) S(4,2,"1+1+2",1,1,2) S(4,1,"1+2+1",1,2,1) S(4,1,"2+1+1",2,1,1) S(4,1,"1+1+1+1",1,1,1,1) \
  S(5,5,"5",5) S(5,4,"1+4",1,4) S(5,3,"2+3",2,3) S(5,2,"3+2",3,2) S(5,3,"1+1+3",1,1,3) S(5,2,"1+2+2",1,2,2) S(5,2,"2+1+2",2,1,2) S(5,2,"1+1+1+2",1,1,1,2)

// a split is applicable to a pipeline of arity N when it supplies exactly N operands, or N+1 with the surplus
// operand arriving in the SAME call that completes the pipeline (last chunk >= 2): "remaining operands passed on"
template <int N, typename F, typename Ops>
static std::string apply_split(const F& f, const std::string& s, const Ops& o) {
#define S(total, last, text, ...) if constexpr (total == N || (total == N + 1 && last >= 2)) { \
        if (s == text) return apply_chunks<0>(f, o, std::index_sequence<__VA_ARGS__>{}); }
    SPLITS(S)
#undef S
    return "unsupported";
}

static const auto AX = nmtools_array{1, 0};

// name, arity, functor expression, the corresponding direct view call on (a, b, c, d)
#define PIPES(X) \
  X("tr",      1, fn::transpose,                          view::transpose(a)) \
  X("trx",     1, fn::transpose[AX],                      view::transpose(a, AX)) \
  X("sum0",    1, fn::sum[0],                             view::sum(a, 0)) \
  X("neg",     1, fn::negative,                           view::negative(a)) \
  X("add",     2, fn::add,                                view::add(a, b)) \
  X("sub",     2, fn::subtract,                           view::subtract(a, b)) \
  X("mm",      2, fn::matmul,                             view::matmul(a, b)) \
  X("where",   3, fn::where,                              view::where(a, b, c)) \
  X("neg*tr",  1, fn::negative * fn::transpose,           view::negative(view::transpose(a))) \
  X("sum0*add", 2, fn::sum[0] * fn::add,                  view::sum(view::add(a, b), 0)) \
  X("sub*trx", 2, fn::subtract * fn::transpose[AX],       view::subtract(view::transpose(a, AX), b)) \
  X("add*add", 3, fn::add * fn::add,                      view::add(view::add(a, b), c)) \
  X("sub*sub", 3, fn::subtract * fn::subtract,            view::subtract(view::subtract(a, b), c)) \
  X("mm*mm",   3, fn::matmul * fn::matmul,                view::matmul(view::matmul(a, b), c)) \
  X("(neg*sum0)*add", 2, (fn::negative * fn::sum[0]) * fn::add,  view::negative(view::sum(view::add(a, b), 0))) \
  X("neg*(sum0*add)", 2, fn::negative * (fn::sum[0] * fn::add),  view::negative(view::sum(view::add(a, b), 0))) \
  X("(sub*sub)*tr", 3, (fn::subtract * fn::subtract) * fn::transpose, view::subtract(view::subtract(view::transpose(a), b), c)) \
  X("sub*(sub*tr)", 3, fn::subtract * (fn::subtract * fn::transpose), view::subtract(view::subtract(view::transpose(a), b), c)) \
  X("((neg*tr)*sub)*swap", 2, ((fn::negative * fn::transpose) * fn::subtract) * cb::swap, view::negative(view::transpose(view::subtract(b, a)))) \
  X("neg*(tr*(sub*swap))", 2, fn::negative * (fn::transpose * (fn::subtract * cb::swap)), view::negative(view::transpose(view::subtract(b, a)))) \
  X("(neg*tr)*(sub*swap)", 2, (fn::negative * fn::transpose) * (fn::subtract * cb::swap), view::negative(view::transpose(view::subtract(b, a)))) \
  X("sub*swap", 2, fn::subtract * cb::swap,               view::subtract(b, a)) \
  X("mul*dup",  1, fn::multiply * cb::dup,                view::multiply(a, a)) \
  X("(sub*sub)*dig2", 3, (fn::subtract * fn::subtract) * cb::dig2,  view::subtract(view::subtract(c, a), b)) \
  X("sub*(sub*bury2)", 3, fn::subtract * (fn::subtract * cb::bury2), view::subtract(view::subtract(b, c), a)) \
  /* pipelines ENDING in a combinator that is followed by non-commutative functors and by operands the combinator */ \
  /* does not consume (they must be passed on behind the combinator's results) */ \
  X("(sub*sub)*swap", 3, (fn::subtract * fn::subtract) * cb::swap,   view::subtract(view::subtract(b, a), c)) \
  X("sub*(mm*swap)",  3, fn::subtract * (fn::matmul * cb::swap),     view::subtract(view::matmul(b, a), c)) \
  X("(sub*sub)*dig1", 3, (fn::subtract * fn::subtract) * cb::dig1,   view::subtract(view::subtract(b, a), c)) \
  X("sub*(mm*bury1)", 3, fn::subtract * (fn::matmul * cb::bury1),    view::subtract(view::matmul(b, a), c)) \
  X("sub*(mm*dup)",   2, fn::subtract * (fn::matmul * cb::dup),      view::subtract(view::matmul(a, a), b)) \
  X("(sub*mm)*dup",   2, (fn::subtract * fn::matmul) * cb::dup,      view::subtract(view::matmul(a, a), b)) \
  X("((sub*sub)*mm)*dig2", 4, ((fn::subtract * fn::subtract) * fn::matmul) * cb::dig2, view::subtract(view::subtract(view::matmul(c, a), b), d)) \
  X("sub*(sub*(mm*bury2))", 4, fn::subtract * (fn::subtract * (fn::matmul * cb::bury2)), view::subtract(view::subtract(view::matmul(b, c), a), d)) \
  X("((sub*sub)*sub)*dig3", 4, ((fn::subtract * fn::subtract) * fn::subtract) * cb::dig_n<3>, view::subtract(view::subtract(view::subtract(d, a), b), c)) \
  X("(sub*sub)*(mm*bury3)", 4, (fn::subtract * fn::subtract) * (fn::matmul * cb::bury_n<3>), view::subtract(view::subtract(view::matmul(b, c), d), a)) \
  /* a combinator in the MIDDLE of the chain, again with operands left over behind it (swap / dig2 in the middle, fed with a */ \
  /* view result, are rejected at compile time by the library itself; matmul over a ufunc view traps in view::matmul */ \
  /* itself on run-time shaped arrays - a view defect, not a functor one: neither is in the table) */ \
  X("((sub*mm)*dup)*tr",    2, ((fn::subtract * fn::matmul) * cb::dup) * fn::transpose,    view::subtract(view::matmul(view::transpose(a), view::transpose(a)), b))

static std::string handle(const Case& c) {
    if (c.op == "pipe") {
        // pipe S:<pipeline> S:<split> A:a A:b A:c A:d A:e
        std::string p = c.args[0].raw.substr(2), split = c.args[1].raw.substr(2);
        auto a = make_array(c.args[2]); auto b = make_array(c.args[3]); auto cc = make_array(c.args[4]);
        auto d = make_array(c.args[5]); auto e = make_array(c.args[6]);
        std::array<const decltype(a)*, 5> ops{&a, &b, &cc, &d, &e};
#define X(name, N, fexpr, vexpr) if (p == name) { const auto& c = cc; auto f = fexpr; \
            std::string r = apply_split<N>(f, split, ops); if (r == "unsupported") return r; \
            return "fn " + r + " | view " + show(vexpr); }
        PIPES(X)
#undef X
        return "unsupported";
    }
    if (c.op == "alias") {
        auto ids = vec_of<size_t>(c.args[0].list);
        return "ok " + std::to_string((ll)nm::index::generate_alias(ids));
    }
    return "unsupported";
}

int main() { return vd::run_main(handle); }
