// c14.cpp — implementation side of the C14 correspondence, functor part: functors with attributes,
// currying in every split, composition with operator* in both parenthesisations, combinators —
// against the corresponding direct view call.  (Extraction: c14x.cpp.)
//
// case line:  pipe S:<pipeline> S:<split> A:<a> A:<b> A:<c>
//   pipeline: functor names joined with '*' and parentheses, exactly as written in the table below
//   split   : how the operands are supplied: "3" = f(a,b,c), "1+2" = f(a)(b,c), "1+1+1" = f(a)(b)(c), ...
//   -> fn <functor result> | view <direct view call>
//      alias L:<ids>  -> ok <index::generate_alias(ids)>
#include "nmtools/array/functional.hpp"
#include "nmtools/array/functional/transpose.hpp"
#include "nmtools/array/functional/sum.hpp"
#include "nmtools/array/functional/matmul.hpp"
#include "nmtools/array/functional/where.hpp"
#include "nmtools/array/functional/combinator.hpp"
#include "nmtools/array/view/ufuncs/add.hpp"
#include "nmtools/array/view/ufuncs/multiply.hpp"
#include "nmtools/array/view/ufuncs/subtract.hpp"
#include "nmtools/array/view/ufuncs/negative.hpp"
#include "nmtools/array/view/transpose.hpp"
#include "nmtools/array/view/sum.hpp"
#include "nmtools/array/view/matmul.hpp"
#include "nmtools/array/view/where.hpp"
#include "nmtools/array/index/alias.hpp"
#include "show.hpp"

namespace fn = nmtools::functional;
namespace cb = nmtools::combinator;
namespace view = nmtools::view;
using namespace vd;

template <int N, typename F, typename A>
static std::string apply_split(const F& f, const std::string& s, const A& a, const A& b, const A& c) {
    if constexpr (N == 1) {
        if (s == "1") return show(f(a));
    } else if constexpr (N == 2) {
        if (s == "2") return show(f(a, b));
        if (s == "1+1") return show(f(a)(b));
    } else {
        if (s == "3") return show(f(a, b, c));
        if (s == "1+2") return show(f(a)(b, c));
        if (s == "2+1") return show(f(a, b)(c));
        if (s == "1+1+1") return show(f(a)(b)(c));
    }
    return "unsupported";
}

static const auto AX = nmtools_array{1, 0};

// name, arity, functor expression, the corresponding direct view call on (a, b, c)
#define PIPES(X) \
  X("tr",      1, fn::transpose,                          view::transpose(a)) \
  X("trx",     1, fn::transpose[AX],                      view::transpose(a, AX)) \
  X("sum0",    1, fn::sum[0],                             view::sum(a, 0)) \
  X("neg",     1, fn::negative,                           view::negative(a)) \
  X("add",     2, fn::add,                                view::add(a, b)) \
  X("sub",     2, fn::subtract,                           view::subtract(a, b)) \
  X("mm",      2, fn::matmul,                             view::matmul(a, b)) \
  X("where",   3, fn::where,                              view::where(a, b, c)) \
  X("neg*tr",  1, fn::negative * fn::transpose,           view::negative(view::transpose(a))) \
  X("sum0*add", 2, fn::sum[0] * fn::add,                  view::sum(view::add(a, b), 0)) \
  X("sub*trx", 2, fn::subtract * fn::transpose[AX],       view::subtract(view::transpose(a, AX), b)) \
  X("add*add", 3, fn::add * fn::add,                      view::add(view::add(a, b), c)) \
  X("sub*sub", 3, fn::subtract * fn::subtract,            view::subtract(view::subtract(a, b), c)) \
  X("mm*mm",   3, fn::matmul * fn::matmul,                view::matmul(view::matmul(a, b), c)) \
  X("(neg*sum0)*add", 2, (fn::negative * fn::sum[0]) * fn::add,  view::negative(view::sum(view::add(a, b), 0))) \
  X("neg*(sum0*add)", 2, fn::negative * (fn::sum[0] * fn::add),  view::negative(view::sum(view::add(a, b), 0))) \
  X("(sub*sub)*tr", 3, (fn::subtract * fn::subtract) * fn::transpose, view::subtract(view::subtract(view::transpose(a), b), c)) \
  X("sub*(sub*tr)", 3, fn::subtract * (fn::subtract * fn::transpose), view::subtract(view::subtract(view::transpose(a), b), c)) \
  X("((neg*tr)*sub)*swap", 2, ((fn::negative * fn::transpose) * fn::subtract) * cb::swap, view::negative(view::transpose(view::subtract(b, a)))) \
  X("neg*(tr*(sub*swap))", 2, fn::negative * (fn::transpose * (fn::subtract * cb::swap)), view::negative(view::transpose(view::subtract(b, a)))) \
  X("(neg*tr)*(sub*swap)", 2, (fn::negative * fn::transpose) * (fn::subtract * cb::swap), view::negative(view::transpose(view::subtract(b, a)))) \
  X("sub*swap", 2, fn::subtract * cb::swap,               view::subtract(b, a)) \
  X("mul*dup",  1, fn::multiply * cb::dup,                view::multiply(a, a)) \
  X("(sub*sub)*dig2", 3, (fn::subtract * fn::subtract) * cb::dig2,  view::subtract(view::subtract(c, a), b)) \
  X("sub*(sub*bury2)", 3, fn::subtract * (fn::subtract * cb::bury2), view::subtract(view::subtract(b, c), a))

static std::string handle(const Case& c) {
    if (c.op == "pipe") {
        std::string p = c.args[0].raw.substr(2), split = c.args[1].raw.substr(2);
        auto a = make_array(c.args[2]); auto b = make_array(c.args[3]); auto cc = make_array(c.args[4]);
#define X(name, N, fexpr, vexpr) if (p == name) { const auto& c = cc; auto f = fexpr; \
            std::string r = apply_split<N>(f, split, a, b, c); if (r == "unsupported") return r; \
            return "fn " + r + " | view " + show(vexpr); }
        PIPES(X)
#undef X
        return "unsupported";
    }
    if (c.op == "alias") {
        auto ids = vec_of<size_t>(c.args[0].list);
        return "ok " + std::to_string((ll)nm::index::generate_alias(ids));
    }
    return "unsupported";
}

int main() { return vd::run_main(handle); }
