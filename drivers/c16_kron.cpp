// c16_kron.cpp — kron has its own translation unit (kron.hpp is very slow to compile); ndebug flavour only.
//   kron S:<view|eval> A:a A:b
#include "nmtools/array/view/kron.hpp"
#include "nmtools/array/array/kron.hpp"
#include "show.hpp"

namespace view = nmtools::view;
namespace arr = nmtools::array;
using namespace vd;

static std::string handle(const Case& c) {
    if (c.op != "kron") return "unsupported";
    std::string k = c.args[0].raw.substr(2);
    auto a = make_array(c.args[1]); auto b = make_array(c.args[2]);
    if (k == "view") return show(view::kron(a, b));
    if (k == "eval") return show(arr::kron(a, b));
    return "unsupported";
}

int main() { return vd::run_main(handle); }
