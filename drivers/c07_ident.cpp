// c07_ident.cpp — C07 part (b): identity of each element-wise function.  `ident S:<fn>` applies view::<fn> to a
// small fixed array (double; `ident S:<fn> S:f32`: float, unary math functions) and compares every element BIT FOR BIT (as double; NaN == NaN) with the scalar formula the
// header documents, evaluated in the same process with the same libm: a C++-side oracle (the Coq model has no
// libm).  Prints "ok" or "mismatch <fn> <x> [<y>] <got> <want>".
#include "nmtools/array/view/ufuncs/add.hpp"
#include "nmtools/array/view/ufuncs/arccos.hpp"
#include "nmtools/array/view/ufuncs/arccosh.hpp"
#include "nmtools/array/view/ufuncs/arcsin.hpp"
#include "nmtools/array/view/ufuncs/arcsinh.hpp"
#include "nmtools/array/view/ufuncs/arctan.hpp"
#include "nmtools/array/view/ufuncs/arctan2.hpp"
#include "nmtools/array/view/ufuncs/arctanh.hpp"
#include "nmtools/array/view/ufuncs/bitwise_and.hpp"
#include "nmtools/array/view/ufuncs/bitwise_or.hpp"
#include "nmtools/array/view/ufuncs/bitwise_xor.hpp"
#include "nmtools/array/view/ufuncs/cbrt.hpp"
#include "nmtools/array/view/ufuncs/ceil.hpp"
#include "nmtools/array/view/ufuncs/cos.hpp"
#include "nmtools/array/view/ufuncs/cosh.hpp"
#include "nmtools/array/view/ufuncs/deg2rad.hpp"
#include "nmtools/array/view/ufuncs/degrees.hpp"
#include "nmtools/array/view/ufuncs/divide.hpp"
#include "nmtools/array/view/ufuncs/equal.hpp"
#include "nmtools/array/view/ufuncs/exp.hpp"
#include "nmtools/array/view/ufuncs/exp2.hpp"
#include "nmtools/array/view/ufuncs/expm1.hpp"
#include "nmtools/array/view/ufuncs/fabs.hpp"
#include "nmtools/array/view/ufuncs/floor.hpp"
#include "nmtools/array/view/ufuncs/fmax.hpp"
#include "nmtools/array/view/ufuncs/fmin.hpp"
#include "nmtools/array/view/ufuncs/fmod.hpp"
#include "nmtools/array/view/ufuncs/greater.hpp"
#include "nmtools/array/view/ufuncs/greater_equal.hpp"
#include "nmtools/array/view/ufuncs/hypot.hpp"
#include "nmtools/array/view/ufuncs/invert.hpp"
#include "nmtools/array/view/ufuncs/isfinite.hpp"
#include "nmtools/array/view/ufuncs/isinf.hpp"
#include "nmtools/array/view/ufuncs/isnan.hpp"
#include "nmtools/array/view/ufuncs/ldexp.hpp"
#include "nmtools/array/view/ufuncs/left_shift.hpp"
#include "nmtools/array/view/ufuncs/less.hpp"
#include "nmtools/array/view/ufuncs/less_equal.hpp"
#include "nmtools/array/view/ufuncs/log.hpp"
#include "nmtools/array/view/ufuncs/log10.hpp"
#include "nmtools/array/view/ufuncs/log1p.hpp"
#include "nmtools/array/view/ufuncs/log2.hpp"
#include "nmtools/array/view/ufuncs/logical_and.hpp"
#include "nmtools/array/view/ufuncs/logical_not.hpp"
#include "nmtools/array/view/ufuncs/logical_or.hpp"
#include "nmtools/array/view/ufuncs/logical_xor.hpp"
#include "nmtools/array/view/ufuncs/maximum.hpp"
#include "nmtools/array/view/ufuncs/minimum.hpp"
#include "nmtools/array/view/ufuncs/mod.hpp"
#include "nmtools/array/view/ufuncs/multiply.hpp"
#include "nmtools/array/view/ufuncs/negative.hpp"
#include "nmtools/array/view/ufuncs/not_equal.hpp"
#include "nmtools/array/view/ufuncs/positive.hpp"
#include "nmtools/array/view/ufuncs/power.hpp"
#include "nmtools/array/view/ufuncs/rad2deg.hpp"
#include "nmtools/array/view/ufuncs/radians.hpp"
#include "nmtools/array/view/ufuncs/reciprocal.hpp"
#include "nmtools/array/view/ufuncs/right_shift.hpp"
#include "nmtools/array/view/ufuncs/rint.hpp"
#include "nmtools/array/view/ufuncs/signbit.hpp"
#include "nmtools/array/view/ufuncs/sin.hpp"
#include "nmtools/array/view/ufuncs/sinh.hpp"
#include "nmtools/array/view/ufuncs/sqrt.hpp"
#include "nmtools/array/view/ufuncs/square.hpp"
#include "nmtools/array/view/ufuncs/subtract.hpp"
#include "nmtools/array/view/ufuncs/tan.hpp"
#include "nmtools/array/view/ufuncs/tanh.hpp"
#include "nmtools/array/view/ufuncs/trunc.hpp"
#include "nmtools/array/view/activations/celu.hpp"
#include "nmtools/array/view/activations/elu.hpp"
#include "nmtools/array/view/activations/hardshrink.hpp"
#include "nmtools/array/view/activations/hardswish.hpp"
#include "nmtools/array/view/activations/hardtanh.hpp"
#include "nmtools/array/view/activations/leaky_relu.hpp"
#include "nmtools/array/view/activations/log_sigmoid.hpp"
#include "nmtools/array/view/activations/mish.hpp"
#include "nmtools/array/view/activations/prelu.hpp"
#include "nmtools/array/view/activations/relu.hpp"
#include "nmtools/array/view/activations/relu6.hpp"
#include "nmtools/array/view/activations/selu.hpp"
#include "nmtools/array/view/activations/sigmoid.hpp"
#include "nmtools/array/view/activations/silu.hpp"
#include "nmtools/array/view/activations/softplus.hpp"
#include "nmtools/array/view/activations/softshrink.hpp"
#include "nmtools/array/view/activations/softsign.hpp"
#include "nmtools/array/view/activations/tanhshrink.hpp"
#include "show.hpp"
#include <cmath>
#include <cstring>

namespace view = nmtools::view;
using namespace vd;

static const std::vector<double> X = {-2.5, -1.0, -0.5, 0.0, 0.25, 0.5, 1.0, 2.0, 3.5, -3.0, 6.5, 25.0};
static const std::vector<double> Y = {0.5, -1.5, 2.0, 3.0, -0.25, 0.5, 4.0, -2.0, 0.75, -3.0, 1.0, 2.0};
static const std::vector<int> XI = {-7, -1, 0, 1, 2, 5, 12, 100, -128, 3, 64, 9};
static const std::vector<int> XS = {0, 1, 2, 5, 12, 100, 7, 9, 3, 33, 64, 1};     // non-negative (shifts)
static const std::vector<int> YI = {3, 1, 5, 2, 7, 1, 4, 3, 2, 6, 1, 8};            // positive, < width

// operand regimes.  "n": the moderate values above.  "x": the ends of the element type's range — large (MAX/2, k*sqrt(MAX)),
// tiny (k*sqrt(MIN), MIN, denormals), +-0, +-inf, NaN; the second operand pairs large/large, tiny/tiny, large/tiny, 0/inf ...
#include <limits>
template <typename T> static std::vector<T> regime_x() {
    using L = std::numeric_limits<T>; const T mx = L::max(), mn = L::min(), dn = L::denorm_min(), inf = L::infinity(), nan = L::quiet_NaN();
    const T sM = std::sqrt(mx), sm = std::sqrt(mn);
    return { mx / 2, sM * T(1.5), sM * T(0.75), -sM * T(1.25), T(3) * (sM / 4), sm * T(1.5), sm * T(0.75), -sm * T(3), mn, dn * 3, -dn,
             T(0), -T(0), inf, -inf, nan, T(1), -T(2.5), mx, -mx, T(3e30), T(3e-30) };
}
template <typename T> static std::vector<T> regime_y() {
    using L = std::numeric_limits<T>; const T mx = L::max(), mn = L::min(), dn = L::denorm_min(), inf = L::infinity(), nan = L::quiet_NaN();
    const T sM = std::sqrt(mx), sm = std::sqrt(mn);
    return { mx / 4, sM * T(2), sM, sM * T(0.5), T(4) * (sM / 4), sm * T(2), sm, sm * T(4), dn * 5, mn, T(1),
             inf, T(0), T(2), -inf, T(1), nan, mx, sm, mx, T(4e30), T(4e-30) };
}
template <typename T> static std::vector<T> input_x(const std::string& regime) { if (regime == "x") return regime_x<T>(); return std::vector<T>(X.begin(), X.end()); }
template <typename T> static std::vector<T> input_y(const std::string& regime) { if (regime == "x") return regime_y<T>(); return std::vector<T>(Y.begin(), Y.end()); }

template <typename T> static dyn_t<T> arr(const std::vector<T>& v) {
    dyn_t<T> a; a.resize(std::vector<size_t>{v.size()});
    for (size_t i = 0; i < v.size(); i++) a(i) = v[i];
    return a;
}
static bool same(double a, double b) { if (a != a && b != b) return true; return std::memcmp(&a, &b, sizeof a) == 0; }
static std::string dstr(double v) { char b[64]; snprintf(b, sizeof b, "%.17g", v); return b; }

template <typename V, typename In, typename F>
static std::string check1(const std::string& fn, const V& mv, const In& in, F&& f) {
    const auto& v = nm::unwrap(mv);
    for (size_t i = 0; i < in.size(); i++) {
        double got = (double)nm::apply_at(v, std::vector<size_t>{i}); double want = (double)f(in[i]);
        if (!same(got, want)) return "mismatch " + fn + " " + dstr((double)in[i]) + " " + dstr(got) + " " + dstr(want);
    }
    return "ok";
}
template <typename V, typename In1, typename In2, typename F>
static std::string check2(const std::string& fn, const V& mv, const In1& a, const In2& b, F&& f) {
    if constexpr (meta::is_maybe_v<V>) { if (!nm::has_value(mv)) return "mismatch " + fn + " nothing"; }
    const auto& v = nm::unwrap(mv);
    for (size_t i = 0; i < a.size(); i++) {
        double got = (double)nm::apply_at(v, std::vector<size_t>{i}); double want = (double)f(a[i], b[i]);
        if (!same(got, want)) return "mismatch " + fn + " " + dstr((double)a[i]) + " " + dstr((double)b[i]) + " " + dstr(got) + " " + dstr(want);
    }
    return "ok";
}

#define UN(NAME, EXPR)      if (fn == #NAME) return check1(fn, view::NAME(x), X, [](double t) { return EXPR; });
#define UNP(NAME, CALL, EXPR) if (fn == #NAME) return check1(fn, CALL, X, [](double t) { return EXPR; });
#define BIN(NAME, EXPR)     if (fn == #NAME) return check2(fn, view::NAME(x, y), X, Y, [](double t, double u) { return EXPR; });
#define IBIN(NAME, A, EXPR) if (fn == #NAME) return check2(fn, view::NAME(arr(A), yi), A, YI, [](int t, int u) { return EXPR; });

#define UNT(NAME, EXPR)     if (fn == #NAME) return check1(fn, view::NAME(x), XT, [](T t) { return EXPR; });
template <typename T>
static std::string handle_a(const std::string& fn, const std::string& regime = "n") {
    const std::vector<T> XT = input_x<T>(regime);
    auto x = arr(XT);
    constexpr T PI = T(3.141592653589793238462643383279502884197);
    UNT(arccos, std::acos(t)) UNT(arccosh, std::acosh(t)) UNT(arcsin, std::asin(t)) UNT(arcsinh, std::asinh(t))
    UNT(arctan, std::atan(t)) UNT(arctanh, std::atanh(t)) UNT(cbrt, std::cbrt(t)) UNT(ceil, std::ceil(t))
    UNT(cos, std::cos(t)) UNT(cosh, std::cosh(t)) UNT(exp, std::exp(t)) UNT(exp2, std::exp2(t)) UNT(expm1, std::expm1(t))
    UNT(fabs, std::fabs(t)) UNT(floor, std::floor(t)) UNT(isfinite, std::isfinite(t)) UNT(isinf, std::isinf(t))
    UNT(isnan, std::isnan(t)) UNT(log, std::log(t)) UNT(log10, std::log10(t)) UNT(log1p, std::log1p(t)) UNT(log2, std::log2(t))
    UNT(negative, -t) UNT(positive, +t) UNT(reciprocal, 1 / t) UNT(rint, std::rint(t)) UNT(signbit, std::signbit(t))
    UNT(sin, std::sin(t)) UNT(sinh, std::sinh(t)) UNT(sqrt, std::sqrt(t)) UNT(square, t * t) UNT(tan, std::tan(t))
    UNT(tanh, std::tanh(t)) UNT(trunc, std::trunc(t)) UNT(logical_not, !static_cast<bool>(t))
    UNT(deg2rad, t * (PI / 180)) UNT(radians, t * (PI / 180))
    UNT(degrees, t * (static_cast<T>(180) / PI)) UNT(rad2deg, t * (static_cast<T>(180) / PI))
    return "";
}
#define BINT(NAME, EXPR)    if (fn == #NAME) return check2(fn, view::NAME(x, y), XT, YT, [](T t, T u) { return EXPR; });
template <typename T>
static std::string handle_bt(const std::string& fn, const std::string& regime) {
    const std::vector<T> XT = input_x<T>(regime), YT = input_y<T>(regime);
    auto x = arr(XT); auto y = arr(YT);
    BINT(add, t + u) BINT(subtract, t - u) BINT(multiply, t * u) BINT(divide, t / u) BINT(arctan2, std::atan2(t, u))
    BINT(fmod, std::fmod(t, u)) BINT(hypot, std::hypot(t, u)) BINT(power, std::pow(t, u)) BINT(fmax, std::fmax(t, u))
    BINT(fmin, std::fmin(t, u)) BINT(maximum, t > u ? t : u) BINT(minimum, t < u ? t : u)
    BINT(equal, t == u) BINT(not_equal, t != u) BINT(greater, t > u) BINT(greater_equal, t >= u) BINT(less, t < u) BINT(less_equal, t <= u)
    BINT(logical_and, static_cast<bool>(t) && static_cast<bool>(u)) BINT(logical_or, static_cast<bool>(t) || static_cast<bool>(u))
    BINT(logical_xor, static_cast<bool>(t) ^ static_cast<bool>(u))
    if (fn == "ldexp") { auto yi = arr(YI); std::vector<T> x12(XT.begin(), XT.begin() + 12); return check2(fn, view::ldexp(arr(x12), yi), x12, YI, [](T t, int u) { return std::ldexp(t, u); }); }
    return "";
}
static std::string handle_b(const std::string& fn) {
    auto yi = arr(YI);
    IBIN(bitwise_and, XI, t & u) IBIN(bitwise_or, XI, t | u) IBIN(bitwise_xor, XI, t ^ u) IBIN(mod, XI, t % u)
    IBIN(left_shift, XS, t << u) IBIN(right_shift, XS, t >> u)
    if (fn == "invert") return check1(fn, view::invert(arr(XI)), XI, [](int t) { return ~t; });
    return "";
}
#undef UN
#undef UNP
#define UN(NAME, EXPR)      if (fn == #NAME) return check1(fn, view::NAME(x), XT, [](T t) { return EXPR; });
#define UNP(NAME, CALL, EXPR) if (fn == #NAME) return check1(fn, CALL, XT, [](T t) { return EXPR; });
template <typename T>
static std::string handle_c(const std::string& fn, const std::string& regime) {
    const std::vector<T> XT = input_x<T>(regime);
    auto x = arr(XT);
    UN(relu, t > 0 ? t : 0.0) UN(relu6, t < 0 ? 0.0 : (t > 6 ? 6.0 : t)) UN(sigmoid, 1.0 / (1.0 + std::exp(-t)))
    UN(silu, t * (1.0 / (1.0 + std::exp(-t)))) UN(softsign, t / (1 + (t > 0 ? t : -t))) UN(tanhshrink, t - std::tanh(t))
    UN(hardswish, t < -3 ? 0.0 : (t >= 3 ? t : t * (t + 3) / 6)) UN(log_sigmoid, std::log(1.0 / (1.0 + std::exp(-t))))
    UN(mish, t * std::tanh(t * 1 > 20 ? t : std::log(1 + std::exp(t * 1)) / 1))
    UN(selu, 1.0507009873554804934193349852946 * (std::max(t, 0.0) + std::min(1.6732632423543772848170429916717 * (std::exp(t) - 1), 0.0)))
    UNP(celu, view::celu(x, 1.5), std::max(0.0, t) + std::min(0.0, 1.5 * (std::exp(t / 1.5) - 1)))
    UNP(elu, view::elu(x, 1.5), t > 0 ? t : 1.5 * (std::exp(t) - 1))
    UNP(hardshrink, view::hardshrink(x, 0.75), (t >= -0.75 && t <= 0.75) ? 0.0 : t)
    UNP(hardtanh, view::hardtanh(x, -1.25, 2.25), t < -1.25 ? -1.25 : (t > 2.25 ? 2.25 : t))
    UNP(leaky_relu, view::leaky_relu(x, 0.125), t >= 0 ? t : 0.125 * t)
    UNP(prelu, view::prelu(x, 0.3), t >= 0 ? t : 0.3 * t)
    UNP(softplus, view::softplus(x, 2.0, 10.0), t * 2.0 > 10.0 ? t : std::log(1 + std::exp(t * 2.0)) / 2.0)
    UNP(softshrink, view::softshrink(x, 0.75), t > 0.75 ? t - 0.75 : (t < -0.75 ? t + 0.75 : 0.0))
    return "";
}

template <typename T>
static std::string handle_t(const std::string& fn, const std::string& regime, bool with_activations) {
    std::string r = handle_a<T>(fn, regime); if (!r.empty()) return r;
    r = handle_bt<T>(fn, regime); if (!r.empty()) return r;
    if constexpr (std::is_same_v<T, double>) { if (with_activations) { r = handle_c<T>(fn, regime); if (!r.empty()) return r; } }
    return "";
}
static std::string handle(const Case& c) {
    // ident S:<fn> [S:<f64|f32> [S:<n|x>]]
    if (c.op != "ident") return "unsupported";
    const std::string fn = c.args[0].raw.substr(2);
    const std::string ty = c.args.size() >= 2 ? c.args[1].raw.substr(2) : "f64", regime = c.args.size() >= 3 ? c.args[2].raw.substr(2) : "n";
    std::string r;
    // activations: double only (the formulas use double parameters / constants)
    if (ty == "f32") r = handle_t<float>(fn, regime, false); else r = handle_t<double>(fn, regime, true);
    if (!r.empty()) return r;
    if (ty == "f64" && regime == "n") { r = handle_b(fn); if (!r.empty()) return r; }
    return "unsupported";
}
int main() { return vd::run_main(handle); }
