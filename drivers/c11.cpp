// c11.cpp — implementation side of the C11 correspondence: for operands of every
// ndarray kind (cast from one raw array) and a list of view types over them, print
//   - the compile-time knowledge the library reports for the operand type and the view type
//     (meta::fixed_shape_v / fixed_dim_v / fixed_size_v / bounded_dim_v / bounded_size_v),
//   - the run-time shape / dim / size of the operand object and of the view object,
//   - the shape of the evaluated result with the default resolver of array::fn(...)
//     (RowMajorResolver) and with the legacy default of array::eval(view) (eval_t), and whether
//     every element of the result equals the view's element.
//   kn S:<kind> I:<op> I:<variant>       (variant: run-time shape the operand is resized to, when its type allows)
// Built in parts: -DKPART=k -DNKPART=n selects kinds with index % n == k.
#include "nmtools/array/view/transpose.hpp"
#include "nmtools/array/view/reshape.hpp"
#include "nmtools/array/view/flip.hpp"
#include "nmtools/array/view/tile.hpp"
#include "nmtools/array/view/sum.hpp"
#include "nmtools/array/view/ufuncs/add.hpp"
#include "nmtools/array/view/ufuncs/multiply.hpp"
#include "nmtools/array/view/activations/relu.hpp"
#include "nmtools/array/view/expand_dims.hpp"
#include "nmtools/array/view/pad.hpp"
#include "nmtools/array/view/roll.hpp"
#include "nmtools/array/view/repeat.hpp"
#include "nmtools/array/view/concatenate.hpp"
#include "nmtools/array/view/cumsum.hpp"
#include "nmtools/array/view/atleast_nd.hpp"
#include "nmtools/array/view/broadcast_to.hpp"
#include "nmtools/array/view/moveaxis.hpp"
#include "nmtools/array/view/take.hpp"
#include "nmtools/array/view/squeeze.hpp"
#include "nmtools/array/view/flatten.hpp"
#include "nmtools/array/eval.hpp"
#include "nmtools/utility/cast.hpp"
#include "show.hpp"

namespace view = nmtools::view;
namespace na = nmtools::array;
namespace kind = nmtools::array::kind;
using namespace vd;
using namespace nm::literals;

#ifndef KPART
#define KPART 0
#endif
#ifndef NKPART
#define NKPART 1
#endif

template <typename T> static std::string tv(const T& v) {
    if constexpr (meta::is_fail_v<T>) return "-";
    else if constexpr (meta::is_num_v<T>) return std::to_string((long)v);
    else return show_index(v);
}
template <typename V> static std::string traits() {
    return "fs=" + tv(meta::fixed_shape_v<V>) + " fd=" + tv(meta::fixed_dim_v<V>) + " fz=" + tv(meta::fixed_size_v<V>)
         + " bd=" + tv(meta::bounded_dim_v<V>) + " bz=" + tv(meta::bounded_size_v<V>);
}
template <typename X> static std::string rt(const X& x) {
    return show_index(nm::shape(x)) + " dim=" + std::to_string((long)nm::dim(x)) + " size=" + std::to_string((long)nm::size(x));
}

// elements in row-major order, iterating with the library's own ndindex over the object's shape
// (index containers then have the type the object expects: fixed-size for fixed shapes)
template <typename X> static std::string elems_of(const X& x) {
    const auto shp = nm::shape(x);
    auto idx = nm::index::ndindex(shp);
    std::string o; size_t n = idx.size();
    for (size_t i = 0; i < n; i++) { o += (i ? "," : "") + num_str(nm::apply_at(x, idx[i])); }
    return o;
}

// shape + "all elements equal to the view's"
template <typename R, typename V> static std::string result_of(const R& r_, const V& v) {
    if constexpr (meta::is_maybe_v<R>) { if (!nm::has_value(r_)) return "nothing"; }
    const auto& r = nm::unwrap(r_);
    std::string a = elems_of(r), b = elems_of(v);
    return show_index(nm::shape(r)) + " ok=" + (a == b ? "1" : "0");
}

template <typename A, typename V> static std::string report(const A& a, const V& v_) {
    if constexpr (meta::is_maybe_v<V>) { if (!nm::has_value(v_)) return "nothing"; }
    const auto& v = nm::unwrap(v_);
    using VT = std::decay_t<decltype(v)>;
    std::string s = "A: " + traits<A>() + " | art=" + rt(a) + " | K: " + traits<VT>() + " | rt=" + rt(v);
    s += " | new=" + result_of(na::eval(v, nm::None, nm::None, na::RowMajorResolver), v);
    s += " | old=" + result_of(na::eval(v), v);
    return s;
}

template <typename A, typename = void> struct can_resize3 : std::false_type {};
template <typename A> struct can_resize3<A, std::void_t<decltype(std::declval<A&>().resize(std::declval<std::array<size_t,3>>()))>> : std::true_type {};

static const size_t VARIANTS[4][3] = {{2,3,4},{4,3,2},{1,2,3},{3,2,4}};

template <typename K> static std::string run_kind(K k, int op, int variant) {
    int raw[2][3][4];
    { int c = 0; for (auto& p : raw) for (auto& r : p) for (auto& x : r) x = c++; }
    auto a = nm::cast(raw, k);
    using A = decltype(a);
    if constexpr (meta::is_fail_v<A>) { return "unsupported"; } else {
    if (variant != 0) {
        if constexpr (can_resize3<A>::value) {
            std::array<size_t,3> shp{VARIANTS[variant][0], VARIANTS[variant][1], VARIANTS[variant][2]};
            bool ok = true;
            if constexpr (std::is_void_v<decltype(a.resize(shp))>) a.resize(shp); else ok = a.resize(shp);
            if (!ok) return "skip";               // the kind does not admit this run-time shape
            { const auto got = nm::shape(a); if ((size_t)nm::len(got) != 3) return "skip";
              for (size_t i = 0; i < 3; i++) if ((size_t)nm::at(got, i) != shp[i]) return "skip"; }
            size_t n = shp[0] * shp[1] * shp[2]; std::array<size_t,3> idx{0,0,0};
            for (size_t c = 0; c < n; c++) { nm::apply_at(a, idx) = (int)(c * 3 + 1); for (int d = 2; d >= 0; d--) { if (++idx[d] < shp[d]) break; idx[d] = 0; } }
        } else return "skip";
    }
    switch (op) {
        case 1: return report(a, view::transpose(a));
        case 2: return report(a, view::transpose(a, nmtools_tuple{1_ct, 0_ct, 2_ct}));
        case 3: return report(a, view::reshape(a, nmtools_tuple{4_ct, 6_ct}));
        case 4: return report(a, view::reshape(a, std::array<size_t,2>{4, 6}));
        case 5: return report(a, view::sum(a, 0));
        case 6: return report(a, view::sum(a, 1));
        case 7: return report(a, view::expand_dims(a, 0));
        case 8: return report(a, view::flip(a, 0));
        case 9: return report(a, view::cumsum(a, 0));
        case 10: return report(a, view::add(a, a));
        case 11: return report(a, view::repeat(a, 2, 0));
        case 12: return report(a, view::tile(a, std::array<size_t,3>{2, 1, 1}));
        case 13: return report(a, view::pad(a, std::array<size_t,6>{1, 0, 0, 0, 1, 0}));
        case 14: return report(a, view::concatenate(a, a, 0));
        // not modelled in Kinds.v: judged by the soundness relation only
        case 15: return report(a, view::relu(a));
        case 16: return report(a, view::multiply(a, 2));
        case 17: return report(a, view::roll(a, 1, 0));
        case 18: return report(a, view::sum(a, 0, nm::None, nm::None, nm::True));
        case 19: return report(a, view::transpose(view::sum(a, 2)));
        case 20: return report(a, view::flip(view::repeat(a, 2, 1), 2));
        // more view kinds whose static knowledge is derived by rules of their own (dimension-raising, bounded-dim arithmetic)
        case 21: return report(a, view::atleast_nd(a, 4_ct));
        case 22: return report(a, view::atleast_nd(a, 5_ct));
        case 23: { const auto s = nm::shape(a); return report(a, view::broadcast_to(a, std::array<size_t,4>{2, (size_t)nm::at(s,0), (size_t)nm::at(s,1), (size_t)nm::at(s,2)})); }
        case 24: return report(a, view::moveaxis(a, 0, 2));
        case 25: return report(a, view::take(a, std::array<int,2>{1, 0}, 1));
        case 26: return report(a, view::squeeze(view::sum(a, 0, nm::None, nm::None, nm::True)));
        case 27: return report(a, view::flatten(a));
        default: return "unsupported";
    }
    }
}

#define KINDS(X) X(0,nested_arr) X(1,fixed) X(2,hybrid) X(3,dynamic) \
    X(4,ndarray_cs_fb) X(5,ndarray_cs_hb) X(6,ndarray_cs_db) X(7,ndarray_fs_fb) X(8,ndarray_fs_hb) X(9,ndarray_fs_db) \
    X(10,ndarray_hs_fb) X(11,ndarray_hs_hb) X(12,ndarray_hs_db) X(13,ndarray_ds_fb) X(14,ndarray_ds_hb) X(15,ndarray_ds_db) \
    X(16,ndarray_ls_fb) X(17,ndarray_ls_hb) X(18,ndarray_ls_db)

static std::string handle(const Case& c) {
    if (c.op != "kn") return "unsupported";
    std::string k = c.args[0].raw.substr(2);
    int op = (int)c.args[1].val, variant = (int)c.args[2].val;
#define X(I, NAME) if (k == #NAME) { if constexpr ((I % NKPART) == KPART) return run_kind(kind::NAME, op, variant); else return "unsupported"; }
    KINDS(X)
#undef X
    return "unsupported";
}

int main() { return vd::run_main(handle, 8); }
