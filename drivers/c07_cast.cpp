// c07_cast.cpp — C07: every ARGUMENT FORM that selects the result element type, on narrow and wide element types; the
// result ELEMENT TYPE is printed next to the values, so a changed type fails even when the values agree.
// (same driver key as c07_dtype.cpp; each answers "unsupported" for the other's ops)
//   cast   S:<add|subtract|multiply> S:<def|auto|same|equiv> S:<T> <A> <B>
//            view::<fn>(a, b [, casting::auto_t / same_kind_t / equiv_t]) on dyn arrays of element type T
//            -> "ok <shape> ; <elements> ; view=<type> eval=<type|-> evalsame=<1|0|->"   (eval for the def / same forms)
//   outerd S:<add|multiply> S:<T> S:<dtype> <A> <B>     view::outer_<fn>(a, b, dtype) -> "ok <shape> ; <elements> ; view=<type>"
//   redt   S:<reduce|accum> S:<add|multiply> S:<T> S:<dtype>   element type of reduce_<fn> / accumulate_<fn>(a, 0, dtype) (type only)
//   evalk  S:<add|lin> I:<na> I:<nb> <A> <B>            operands with a compile-time SIZE (std::array buffer) and a run-time shape
//            (ndarray_t<std::array<T,N>, std::vector<size_t>>), evaluated: two-sided broadcasting must give the full result
//   ascal  S:<add|subtract|multiply|divide|power|maximum|minimum|less|where> S:<arrT> S:<scalT> S:<l|r> <A> I:<n>
//            array op scalar of ANOTHER element type, scalar on the left / right (floating scalar = n/4) -> values ; view=<type>
// T: i8 u8 i16 u16 i32 i64 f32 f64     dtype: none i8 i16 i32 i64 f32 f64
#include "nmtools/array/view/ufuncs/add.hpp"
#include "nmtools/array/view/ufuncs/subtract.hpp"
#include "nmtools/array/view/ufuncs/multiply.hpp"
#include "nmtools/array/view/ufuncs/divide.hpp"
#include "nmtools/array/view/ufuncs/power.hpp"
#include "nmtools/array/view/ufuncs/maximum.hpp"
#include "nmtools/array/view/ufuncs/minimum.hpp"
#include "nmtools/array/view/ufuncs/less.hpp"
#include "nmtools/array/view/where.hpp"
#include "nmtools/array/eval.hpp"
#include "show.hpp"
#include <cstdint>

namespace view = nmtools::view;
using namespace vd;
using nm::None;

template <typename T> static std::string tname() {
    if constexpr (std::is_same_v<T, bool>) return "bool";
    else if constexpr (std::is_floating_point_v<T>) return sizeof(T) == 4 ? "f32" : "f64";
    else if constexpr (std::is_integral_v<T>) return std::string(std::is_signed_v<T> ? "i" : "u") + std::to_string(8 * sizeof(T));
    else return "other";
}
template <typename V> static std::string elem_name(const V&) { return tname<meta::get_element_type_t<meta::remove_cvref_t<V>>>(); }

struct lin2_t { template <typename T, typename U> constexpr auto operator()(const T& t, const U& u) const { return 3 * t - u; } };

template <typename F> static std::string with_T(const std::string& t, F&& f) {
    if (t == "i8") return f(int8_t{});   if (t == "u8") return f(uint8_t{});  if (t == "i16") return f(int16_t{}); if (t == "u16") return f(uint16_t{});
    if (t == "i32") return f(int32_t{}); if (t == "i64") return f(int64_t{}); if (t == "f32") return f(float{});   if (t == "f64") return f(double{});
    return "unsupported";
}
template <typename F> static std::string with_dtype(const std::string& d, F&& f) {
    if (d == "none") return f(None);
    if (d == "i8") return f(nm::int8);   if (d == "i16") return f(nm::int16); if (d == "i32") return f(nm::int32);
    if (d == "i64") return f(nm::int64); if (d == "f32") return f(nm::float32); if (d == "f64") return f(nm::float64);
    return "unsupported";
}

// values + element type of a (maybe) view; optionally evaluate it and compare
template <bool EVAL, typename MV>
static std::string show_typed(const MV& mv) {
    if constexpr (meta::is_maybe_v<MV>) { if (!nm::has_value(mv)) return "nothing"; }
    const auto& v = nm::unwrap(mv);
    std::string s = show(v) + " ; view=" + elem_name(v);
    if constexpr (EVAL) {
        auto r = nm::array::eval(v, None, None, meta::as_value_v<nm::array::eval_result_t<>>);   // the resolver the eager array:: API uses
        const auto& rr = nm::unwrap(r);
        s += " eval=" + elem_name(rr) + " evalsame=" + (show(rr) == show(v) ? "1" : "0");
    } else s += " eval=- evalsame=-";
    return s;
}

template <typename fn_t, typename A, typename B>
static std::string cast_forms(const std::string& form, fn_t fn, const A& a, const B& b) {
    if (form == "def") return show_typed<true>(fn(a, b));
    if (form == "auto") return show_typed<false>(fn(a, b, nm::casting::auto_t{}));
    if (form == "same") return show_typed<true>(fn(a, b, nm::casting::same_kind_t{}));
    if (form == "equiv") return show_typed<false>(fn(a, b, nm::casting::equiv_t{}));
    return "unsupported";
}

template <size_t N> using dsfb_t = nm::array::ndarray_t<std::array<ll, N>, std::vector<size_t>>;
template <size_t NA, size_t NB>
static std::string evalk_case(const std::string& fn, const Arg& A, const Arg& B) {
    auto a = make_array<dsfb_t<NA>>(A); auto b = make_array<dsfb_t<NB>>(B);
    auto go = [&](const auto& mv) -> std::string {
        if constexpr (meta::is_maybe_v<meta::remove_cvref_t<decltype(mv)>>) { if (!nm::has_value(mv)) return "nothing"; }
        auto r = nm::array::eval(nm::unwrap(mv), None, None, meta::as_value_v<nm::array::eval_result_t<>>);
        return show(r);
    };
    if (fn == "add") return go(view::add(a, b));
    if (fn == "lin") return go(view::broadcast_binary_ufunc(lin2_t{}, a, b));
    return "unsupported";
}

// ---- array op scalar over element-type PAIRS, scalar on either side; a floating scalar is I:<n> meaning n/4
template <typename AT, typename ST>
static std::string ascal_case(const std::string& fn, const std::string& pos, const Arg& A, ll n) {
    auto a = make_array<dyn_t<AT>>(A);
    ST k = std::is_floating_point_v<ST> ? (ST)((double)n / 4) : (ST)n;
    auto pr = [](const auto& mv) -> std::string {
        if constexpr (meta::is_maybe_v<meta::remove_cvref_t<decltype(mv)>>) { if (!nm::has_value(mv)) return "nothing"; }
        const auto& v = nm::unwrap(mv); return show(v) + " ; view=" + elem_name(v);
    };
    auto bin = [&](auto f) -> std::string { if (pos == "r") return pr(f(a, k)); return pr(f(k, a)); };
    if (fn == "add") return bin([](const auto& x, const auto& y) { return view::add(x, y); });
    if (fn == "subtract") return bin([](const auto& x, const auto& y) { return view::subtract(x, y); });
    if (fn == "multiply") return bin([](const auto& x, const auto& y) { return view::multiply(x, y); });
    if (fn == "divide") return bin([](const auto& x, const auto& y) { return view::divide(x, y); });
    if (fn == "power") return bin([](const auto& x, const auto& y) { return view::power(x, y); });
    if (fn == "maximum") return bin([](const auto& x, const auto& y) { return view::maximum(x, y); });
    if (fn == "minimum") return bin([](const auto& x, const auto& y) { return view::minimum(x, y); });
    if (fn == "less") return bin([](const auto& x, const auto& y) { return view::less(x, y); });
    if (fn == "where") { if (pos == "r") return pr(view::where(a, a, k)); return pr(view::where(a, k, a)); }   // condition = a
    return "unsupported";
}

static std::string handle(const Case& c) {
    if (c.op == "ascal") {
        // ascal S:<fn> S:<arrT> S:<scalT> S:<l|r> <A> I:<n>       pos = the side the scalar is on
        const std::string fn = c.args[0].raw.substr(2), p = c.args[1].raw.substr(2) + ":" + c.args[2].raw.substr(2), pos = c.args[3].raw.substr(2);
        const Arg& A = c.args[4]; ll n = c.args[5].val;
        if (p == "i32:f64") return ascal_case<int32_t, double>(fn, pos, A, n);
        if (p == "i8:i32") return ascal_case<int8_t, int32_t>(fn, pos, A, n);
        if (p == "u8:i64") return ascal_case<uint8_t, int64_t>(fn, pos, A, n);
        if (p == "i16:f32") return ascal_case<int16_t, float>(fn, pos, A, n);
        if (p == "f32:f64") return ascal_case<float, double>(fn, pos, A, n);
        if (p == "i64:f64") return ascal_case<int64_t, double>(fn, pos, A, n);
        return "unsupported";
    }
    if (c.op == "cast") {
        const std::string fn = c.args[0].raw.substr(2), form = c.args[1].raw.substr(2), t = c.args[2].raw.substr(2);
        return with_T(t, [&](auto tag) -> std::string {
            using T = decltype(tag);
            auto a = make_array<dyn_t<T>>(c.args[3]); auto b = make_array<dyn_t<T>>(c.args[4]);
            if (fn == "add") return cast_forms(form, [](const auto&... x) { return view::add(x...); }, a, b);
            if (fn == "subtract") return cast_forms(form, [](const auto&... x) { return view::subtract(x...); }, a, b);
            if (fn == "multiply") return cast_forms(form, [](const auto&... x) { return view::multiply(x...); }, a, b);
            return "unsupported";
        });
    }
    if (c.op == "outerd") {
        const std::string fn = c.args[0].raw.substr(2), t = c.args[1].raw.substr(2), d = c.args[2].raw.substr(2);
        // the (T, dtype) pairs of the generator only
        static const char* pairs[] = {"i8:none", "i8:i16", "i8:i64", "u8:none", "u8:i32", "u8:f64", "i16:i8", "i32:i8", "i32:i64", "i32:f32"};
        bool okp = false; for (auto p : pairs) if (t + ":" + d == p) okp = true;
        if (!okp) return "unsupported";
        auto run = [&](auto tag, auto dtype) -> std::string {
            using T = decltype(tag);
            auto a = make_array<dyn_t<T>>(c.args[3]); auto b = make_array<dyn_t<T>>(c.args[4]);
            auto pr = [](const auto& v) { return show(v) + " ; view=" + elem_name(nm::unwrap(v)); };
            if (fn == "add") return pr(view::outer_add(a, b, dtype));
            if (fn == "multiply") return pr(view::outer_multiply(a, b, dtype));
            return std::string("unsupported");
        };
        if (t == "i8") { if (d == "none") return run(int8_t{}, None); if (d == "i16") return run(int8_t{}, nm::int16); return run(int8_t{}, nm::int64); }
        if (t == "u8") { if (d == "none") return run(uint8_t{}, None); if (d == "i32") return run(uint8_t{}, nm::int32); return run(uint8_t{}, nm::float64); }
        if (t == "i16") return run(int16_t{}, nm::int8);
        if (t == "i32") { if (d == "i8") return run(int32_t{}, nm::int8); if (d == "i64") return run(int32_t{}, nm::int64); return run(int32_t{}, nm::float32); }
        return "unsupported";
    }
    if (c.op == "redt") {
        const std::string variant = c.args[0].raw.substr(2), fn = c.args[1].raw.substr(2), t = c.args[2].raw.substr(2), d = c.args[3].raw.substr(2);
        return with_T(t, [&](auto tag) -> std::string {
            using T = decltype(tag);
            return with_dtype(d, [&](auto dtype) -> std::string {
                using D = decltype(dtype); using arr = const dyn_t<T>&;
                if (variant == "reduce" && fn == "add") return "ok view=" + tname<meta::get_element_type_t<decltype(view::reduce_add(std::declval<arr>(), 0, std::declval<D>()))>>();
                if (variant == "reduce" && fn == "multiply") return "ok view=" + tname<meta::get_element_type_t<decltype(view::reduce_multiply(std::declval<arr>(), 0, std::declval<D>()))>>();
                if (variant == "accum" && fn == "add") return "ok view=" + tname<meta::get_element_type_t<decltype(view::accumulate_add(std::declval<arr>(), 0, std::declval<D>()))>>();
                if (variant == "accum" && fn == "multiply") return "ok view=" + tname<meta::get_element_type_t<decltype(view::accumulate_multiply(std::declval<arr>(), 0, std::declval<D>()))>>();
                return "unsupported";
            });
        });
    }
    if (c.op == "evalk") {
        const std::string fn = c.args[0].raw.substr(2); ll na = c.args[1].val, nb = c.args[2].val;
        if (na == 3 && nb == 3) return evalk_case<3, 3>(fn, c.args[3], c.args[4]);
        if (na == 3 && nb == 4) return evalk_case<3, 4>(fn, c.args[3], c.args[4]);
        if (na == 4 && nb == 3) return evalk_case<4, 3>(fn, c.args[3], c.args[4]);
        if (na == 4 && nb == 4) return evalk_case<4, 4>(fn, c.args[3], c.args[4]);
        return "unsupported";
    }
    return "unsupported";
}
int main() { return vd::run_main(handle); }
