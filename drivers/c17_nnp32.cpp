// c17_nnp32.cpp — scalar parameters of the C17 float routines, FLOAT operands and float epsilon; ops "<name>32"
#define C17_FT float
#define C17_SUFFIX "32"
#define C17_PREFIX "f32 "
#define C17_PREFIX_R "f32r "
#include "c17_nnp.inc"
