// c15.cpp — implementation side of the C15 correspondence: operations that check their
// arguments at run time are called with valid AND invalid arguments; the observable is only
// whether the result has a value ("ok"), is an empty optional ("nothing"), or the call / a full
// read of the result traps.  Pipelines feed a possibly-empty result into further views and eval.
#include "nmtools/array/view/reshape.hpp"
#include "nmtools/array/view/transpose.hpp"
#include "nmtools/array/view/moveaxis.hpp"
#include "nmtools/array/view/swapaxes.hpp"
#include "nmtools/array/view/expand_dims.hpp"
#include "nmtools/array/view/broadcast_to.hpp"
#include "nmtools/array/view/ufuncs/add.hpp"
#include "nmtools/array/view/concatenate.hpp"
#include "nmtools/array/view/matmul.hpp"
#include "nmtools/array/view/pad.hpp"
#include "nmtools/array/view/roll.hpp"
#include "nmtools/array/view/tile.hpp"
#include "nmtools/array/view/repeat.hpp"
#include "nmtools/array/view/resize.hpp"
#include "nmtools/array/view/sum.hpp"
#include "nmtools/array/view/flip.hpp"
#include "nmtools/array/view/take.hpp"
#include "nmtools/array/view/atleast_nd.hpp"
#include "nmtools/array/index/broadcast_shape.hpp"
#include "nmtools/array/index/normalize_axis.hpp"
#include "nmtools/array/eval.hpp"
#include "show.hpp"

namespace view = nmtools::view;
namespace na = nmtools::array;
namespace ix = nmtools::index;
using namespace vd;

// "ok" iff the result has a value AND can be read completely; "nothing" iff empty optional
template <typename V> static std::string status(const V& v) {
    std::string s = show(v);
    if (s == "nothing") return "nothing";
    if (s.rfind("trap", 0) == 0) return s;
    return "ok";
}
static std::vector<int> iv(const Arg& a) { return std::vector<int>(a.list.begin(), a.list.end()); }
static std::vector<size_t> uv(const Arg& a) { return std::vector<size_t>(a.list.begin(), a.list.end()); }

static std::string handle(const Case& c) {
    const std::string& op = c.op;
    if (op == "bshape")      { auto r = ix::broadcast_shape(uv(c.args[0]), uv(c.args[1])); return nm::has_value(r) ? "ok" : "nothing"; }
    if (op == "norm_axis")   { auto r = ix::normalize_axis((int)c.args[0].val, (int)c.args[1].val); return nm::has_value(r) ? "ok" : "nothing"; }
    if (op == "norm_axes")   { auto r = ix::normalize_axis(iv(c.args[0]), (int)c.args[1].val); return nm::has_value(r) ? "ok" : "nothing"; }
    // axes of UNSIGNED element types (size_t / unsigned / uint8_t containers and scalars): the range test has its own arm
    if (op == "norm_axis_u")  { auto r = ix::normalize_axis((size_t)c.args[0].val, (int)c.args[1].val); return nm::has_value(r) ? "ok" : "nothing"; }
    if (op == "norm_axes_u")  { auto r = ix::normalize_axis(uv(c.args[0]), (int)c.args[1].val); return nm::has_value(r) ? "ok" : "nothing"; }
    if (op == "norm_axes_u8") { std::vector<unsigned char> v(c.args[0].list.begin(), c.args[0].list.end()); auto r = ix::normalize_axis(v, (size_t)c.args[1].val); return nm::has_value(r) ? "ok" : "nothing"; }
    if (op == "norm_axes_ua") { if (c.args[0].list.size() != 2) return "unsupported"; std::array<unsigned,2> v{(unsigned)c.args[0].list[0], (unsigned)c.args[0].list[1]};
                                auto r = ix::normalize_axis(v, (int)c.args[1].val); return nm::has_value(r) ? "ok" : "nothing"; }
    auto a = make_array(c.args[0]);
    if (op == "moveaxis_u")  return status(view::moveaxis(a, (size_t)c.args[1].val, (size_t)c.args[2].val));
    if (op == "sums_u")      return status(view::sum(a, uv(c.args[1])));
    if (op == "transpose_u") return status(view::transpose(a, uv(c.args[1])));
    if (op == "reshape")     return status(view::reshape(a, iv(c.args[1])));
    if (op == "transpose")   return status(view::transpose(a, iv(c.args[1])));
    if (op == "moveaxis")    return status(view::moveaxis(a, (int)c.args[1].val, (int)c.args[2].val));
    if (op == "swapaxes")    return status(view::swapaxes(a, (int)c.args[1].val, (int)c.args[2].val));
    if (op == "expand_dims") return status(view::expand_dims(a, (int)c.args[1].val));
    if (op == "bto")         return status(view::broadcast_to(a, uv(c.args[1])));
    if (op == "pad")         return status(view::pad(a, iv(c.args[1])));
    if (op == "roll")        return status(view::roll(a, (int)c.args[1].val, (int)c.args[2].val));
    if (op == "tile")        return status(view::tile(a, iv(c.args[1])));
    if (op == "repeat")      return status(view::repeat(a, (int)c.args[1].val, (int)c.args[2].val));
    if (op == "resize")      return status(view::resize(a, uv(c.args[1])));
    if (op == "sum")         return status(view::sum(a, (int)c.args[1].val));
    if (op == "sums")        return status(view::sum(a, iv(c.args[1])));
    if (op == "flip")        return status(view::flip(a, (int)c.args[1].val));
    if (op == "take")        return status(view::take(a, iv(c.args[1]), (int)c.args[2].val));
    if (op == "atleast_nd")  return status(view::atleast_nd(a, (int)c.args[1].val));
    if (op == "badd")        { auto b = make_array(c.args[1]); return status(view::add(a, b)); }
    if (op == "concat")      { auto b = make_array(c.args[1]); return status(view::concatenate(a, b, (int)c.args[2].val)); }
    if (op == "matmul")      { auto b = make_array(c.args[1]); return status(view::matmul(a, b)); }
    // ---- propagation: a (possibly empty) stage result fed into further views and into eval
    if (op == "pipe") {
        int k = (int)c.args[1].val;
        auto dst = iv(c.args[2]);               // reshape target, possibly invalid
        auto b = make_array(c.args[3]);         // second operand, possibly not broadcastable
        auto r = view::reshape(a, dst);         // stage 1: maybe<view>
        switch (k) {
            case 0: return status(na::eval(r));
            case 1: return status(view::transpose(r));
            case 2: return status(na::eval(view::transpose(r)));
            case 3: return status(view::add(r, b));
            case 4: return status(na::eval(view::add(view::transpose(r), b)));
            case 5: return status(view::sum(view::add(r, b), 0));
            case 6: return status(na::eval(view::tile(view::add(r, b), std::vector<size_t>{2})));
            case 7: return status(view::reshape(view::add(r, b), std::vector<int>{-1}));
            default: return "unsupported";
        }
    }
    // ---- two possibly-empty stage results as the operands of a binary view, in either position
    if (op == "pipe2") {
        int k = (int)c.args[1].val;
        auto ra = view::reshape(a, iv(c.args[2]));
        auto rb = view::reshape(a, iv(c.args[3]));
        switch (k) {
            case 0: return status(view::matmul(ra, rb));
            case 1: return status(na::eval(view::matmul(ra, rb)));
            case 2: return status(view::concatenate(ra, rb, 0));
            case 3: return status(view::add(rb, ra));
            case 4: return status(view::matmul(view::transpose(rb), view::transpose(ra)));
            case 5: return status(view::sum(view::matmul(ra, rb), 0));
            default: return "unsupported";
        }
    }
    // ---- a run-time-checked stage that may succeed, followed by a SECOND checked indexing stage that may fail (and further stages)
    if (op == "pipe3") {
        int k = (int)c.args[1].val;
        auto d1 = iv(c.args[2]); auto d2 = iv(c.args[3]);
        auto r1 = view::reshape(a, d1);                 // stage 1: maybe<view>
        switch (k) {
            case 0: return status(view::reshape(r1, d2));
            case 1: return status(na::eval(view::reshape(r1, d2)));
            case 2: return status(view::broadcast_to(r1, uv(c.args[3])));
            case 3: return status(view::reshape(view::transpose(r1), d2));
            case 4: return status(view::transpose(view::reshape(r1, d2)));
            case 5: return status(view::reshape(view::reshape(r1, d2), std::vector<int>{-1}));
            default: return "unsupported";
        }
    }
    return "unsupported";
}

int main() { return vd::run_main(handle, 1, 10); }
