// c20_legacy.cpp — C20 correspondence, part 3: operation histories on the legacy array
// classes array::fixed_ndarray, array::hybrid_ndarray, array::dynamic_ndarray.
// C20_FORMS_REV 1
// case line:  lhist S:<class> S:<op>;<op>;...        lhistcast S:<class> S:<ops> S:<kind tag> (history, then nm::cast)
//   class  fixed2x3 | fixed6 | hybrid12x2 | hybrid6x1 | hybrid12x3 | dynamic
//   op     r<form>2,3 (resize, request in the given argument form of c20_forms.hpp, every form the overload set of the
//                      class accepts; after an accepted resize a distinct value 1000*step+k is written at EVERY index) |
//          w5=7 (write at the 5-th index mod size) | c (copy-construct) |
//          a2,3 (assign from another object of the same class resized to (2,3), filled 100+k) |
//          g<src>      (operator= from a source array of kind <src> with the current shape, filled 200+k) |
//          n<src>2,3   (construct a NEW object from a source array of kind <src> and shape (2,3), filled 300+k)
//            <src>: d ndarray_t<vector,vector>  e the same column-major  f ndarray_t<vector,std::array<size_t,N>>
//                   b ndarray_t<vector,utl::static_vector<size_t,4>>  z dynamic_ndarray  y hybrid_ndarray<.,24,N>
//                   x fixed_ndarray (shapes (6) (2,3) (2,3,2) (3,4))   (no letter = d)
// result: one record per state: <flag>|<shape>|<strides()>|<element count the object reports, or ->|<elements>|<raw buffer or ->
#include "nmtools/array/ndarray.hpp"
#include "nmtools/array/ndarray/fixed.hpp"
#include "nmtools/array/ndarray/hybrid.hpp"
#include "nmtools/array/ndarray/dynamic.hpp"
#include "nmtools/utility/cast.hpp"
#include "c20_forms.hpp"
#include <memory>

namespace na = nmtools::array;
namespace kind = nmtools::array::kind;
using namespace vd;

// both classes have a compile-time rank and the ranks differ: assignment / construction is rejected at compile time
// (static_assert inside isequal when asserts are enabled), so it must not even be instantiated
template <typename T, typename S> constexpr bool rank_clash() {
    constexpr auto a = meta::fixed_dim_v<T>; constexpr auto b = meta::fixed_dim_v<S>;
    if constexpr (meta::is_fail_v<decltype(a)> || meta::is_fail_v<decltype(b)>) return false;
    else return (size_t)a != (size_t)b;
}
template <typename T, typename... A> constexpr auto resize_callable(int) -> decltype(std::declval<T&>().resize(std::declval<const A&>()...), true) { return true; }
template <typename T, typename... A> constexpr bool resize_callable(long) { return false; }

template <typename C> static std::vector<size_t> to_vec(const C& c) {
    std::vector<size_t> r;
    if constexpr (meta::is_tuple_v<C>) { constexpr auto N = meta::len_v<C>; meta::template_for<N>([&](auto i){ r.push_back((size_t)nm::at(c, i)); }); }
    else { auto n = (size_t)nm::len(c); for (size_t i = 0; i < n; i++) r.push_back((size_t)nm::at(c, i)); }
    return r;
}
static std::string joinv(const std::vector<size_t>& v) { return join(v.begin(), v.end()); }
static void next_index(std::vector<size_t>& idx, const std::vector<size_t>& ext) {
    for (int d = (int)ext.size() - 1; d >= 0; d--) { if (++idx[d] < ext[d]) break; idx[d] = 0; }
}
static size_t total_of(const std::vector<size_t>& ext) { size_t t = 1; for (auto e : ext) t *= e; return t; }
static std::vector<size_t> unravel(size_t k, const std::vector<size_t>& ext) {
    std::vector<size_t> idx(ext.size(), 0);
    for (int d = (int)ext.size() - 1; d >= 0; d--) { idx[d] = k % ext[d]; k /= ext[d]; }
    return idx;
}

// ---- per-class adapters: element reference at a run-time index, reported count, raw buffer
template <typename T> struct adapt;

template <typename E, size_t M, size_t D> struct adapt<na::hybrid_ndarray<E, M, D>> {
    using T = na::hybrid_ndarray<E, M, D>;
    static E& ref(T& a, const std::vector<size_t>& i) { typename T::shape_type s{}; for (size_t d = 0; d < D; d++) s[d] = i[d]; return a.at(s); }
    static std::string count(const T&) { return "-"; }
    static std::string raw(const T& a) { size_t n = total_of(to_vec(a.shape())); if (n > M) n = M; return join(a.buffer_.begin(), a.buffer_.begin() + n); }
    static constexpr bool has_resize = true;
    static constexpr size_t fix = D;      // resize(const shape_type&) / resize(ints...): only rank D is expressible
    static void scribble(T& a) { for (auto& x : a.buffer_) x = -7; }
};
template <typename E> struct adapt<na::dynamic_ndarray<E>> {
    using T = na::dynamic_ndarray<E>;
    static E& ref(T& a, const std::vector<size_t>& i) { return a.at(i); }
    static std::string count(const T& a) { return std::to_string((ll)a.data.size()); }
    static std::string raw(const T& a) { return join(a.data.begin(), a.data.end()); }
    static constexpr bool has_resize = true;
    static constexpr size_t fix = 99;
    static void scribble(T& a) { for (auto& x : a.data) x = -7; a.resize(std::vector<size_t>{1}); }
};
template <typename E> struct adapt<na::fixed_ndarray<E, 2, 3>> {
    using T = na::fixed_ndarray<E, 2, 3>;
    static E& ref(T& a, const std::vector<size_t>& i) { return a(i[0], i[1]); }
    static std::string count(const T& a) { return std::to_string((ll)a.numel()); }
    static std::string raw(const T&) { return "-"; }
    static constexpr bool has_resize = false;
    static constexpr size_t fix = 99;
    static void scribble(T& a) { for (auto& r : a.data) for (auto& x : r) x = -7; }
};
template <typename E> struct adapt<na::fixed_ndarray<E, 6>> {
    using T = na::fixed_ndarray<E, 6>;
    static E& ref(T& a, const std::vector<size_t>& i) { return a(i[0]); }
    static std::string count(const T& a) { return std::to_string((ll)a.numel()); }
    static std::string raw(const T&) { return "-"; }
    static constexpr bool has_resize = false;
    static constexpr size_t fix = 99;
    static void scribble(T& a) { for (auto& x : a.data) x = -7; }
};

template <typename T>
static std::string dump(T& a, const std::string& flag) {
    using ad = adapt<T>;
    auto ext = to_vec(a.shape());
    std::string o = flag + "|" + joinv(ext) + "|" + joinv(to_vec(a.strides())) + "|" + ad::count(a) + "|";
    if (ext.empty()) return o + "-|" + ad::raw(a);
    size_t total = total_of(ext);
    std::vector<size_t> idx(ext.size(), 0);
    for (size_t c = 0; c < total; c++) { o += (c ? "," : "") + std::to_string((ll)ad::ref(a, idx)); next_index(idx, ext); }
    return o + "|" + ad::raw(a);
}

template <typename T>
static void fill(T& a, ll base) {
    auto ext = to_vec(a.shape()); if (ext.empty()) return;
    size_t total = total_of(ext); std::vector<size_t> idx(ext.size(), 0);
    for (size_t c = 0; c < total; c++) { adapt<T>::ref(a, idx) = base + (ll)c; next_index(idx, ext); }
}

// ---- source arrays of every kind for the converting constructors / templated operator=
template <typename S> static void fill_generic(S& g, const std::vector<size_t>& ext, ll base) {
    std::vector<size_t> idx(ext.size(), 0); size_t total = total_of(ext);
    for (size_t c = 0; c < total; c++) { g(idx) = base + (ll)c; next_index(idx, ext); }
}
template <size_t N, typename F> static std::string src_fixdim(const std::vector<size_t>& ext, ll base, F&& f) {
    na::ndarray_t<std::vector<ll>, std::array<size_t, N>> g; g.resize(ext); fill_generic(g, ext, base); return f(g);
}
template <size_t N, typename F> static std::string src_hybrid(const std::vector<size_t>& ext, ll base, F&& f) {
    na::hybrid_ndarray<ll, 24, N> g; typename na::hybrid_ndarray<ll, 24, N>::shape_type s{}; for (size_t d = 0; d < N; d++) s[d] = ext[d];
    if (!g.resize(s)) return "U"; fill(g, base); return f(g);
}
template <typename F>
static std::string with_source(char k, const std::vector<size_t>& ext, ll base, F&& f) {
    size_t total = total_of(ext);
    switch (k) {
    case 'd': { dyn_t<ll> g; g.resize(ext); fill_generic(g, ext, base); return f(g); }
    case 'e': { dyn_col_t<ll> g; g.resize(ext); fill_generic(g, ext, base); return f(g); }
    case 'b': { if (ext.size() > 4) return "U"; na::ndarray_t<std::vector<ll>, nm::utl::static_vector<size_t, 4>> g; g.resize(ext); fill_generic(g, ext, base); return f(g); }
    case 'z': { na::dynamic_ndarray<ll> g; g.resize(ext); fill(g, base); return f(g); }
    case 'f': switch (ext.size()) { case 1: return src_fixdim<1>(ext, base, f); case 2: return src_fixdim<2>(ext, base, f); case 3: return src_fixdim<3>(ext, base, f); default: return "U"; }
    case 'y': if (total > 24) return "U"; switch (ext.size()) { case 1: return src_hybrid<1>(ext, base, f); case 2: return src_hybrid<2>(ext, base, f); case 3: return src_hybrid<3>(ext, base, f); default: return "U"; }
    case 'x': {
        auto is = [&](std::initializer_list<size_t> l) { return std::vector<size_t>(l) == ext; };
        if (is({6})) { na::fixed_ndarray<ll, 6> g; for (size_t c = 0; c < 6; c++) g(c) = base + (ll)c; return f(g); }
        if (is({2, 3})) { na::fixed_ndarray<ll, 2, 3> g; for (size_t c = 0; c < 6; c++) g(c / 3, c % 3) = base + (ll)c; return f(g); }
        if (is({3, 4})) { na::fixed_ndarray<ll, 3, 4> g; for (size_t c = 0; c < 12; c++) g(c / 4, c % 4) = base + (ll)c; return f(g); }
        if (is({2, 3, 2})) { na::fixed_ndarray<ll, 2, 3, 2> g; for (size_t c = 0; c < 12; c++) g(c / 6, (c / 2) % 3, c % 2) = base + (ll)c; return f(g); }
        return "U";
    }
    default: return "U";
    }
}

static char src_letter(const std::string& o, size_t& at) {
    at = 1; if (o.size() > 1 && !isdigit((unsigned char)o[1])) { at = 2; return o[1]; } return 'd';
}

template <typename T>
static bool run_ops(std::unique_ptr<T>& cur, const std::string& ops, std::string& out) {
    using ad = adapt<T>;
    cur = std::make_unique<T>();
    out = dump(*cur, "-");
    size_t p = 0; int step = 0;
    while (p < ops.size()) {
        size_t q = ops.find(';', p); if (q == std::string::npos) q = ops.size();
        std::string o = ops.substr(p, q - p); p = q + 1;
        if (o.empty()) continue;
        step++;
        std::string flag = "-";
        if (o[0] == 'r') {
            if constexpr (!ad::has_resize) { out = "unsupported"; return false; }
            else {
                size_t at; char form = src_letter(o, at); if (form == 'd') form = 'v';
                auto sizes = parse_list(o.substr(at));
                flag = c20::call_with_form<0, false, ad::fix>(form, sizes, [&](const auto&... xs) -> std::string {
                    if constexpr (!resize_callable<T, std::decay_t<decltype(xs)>...>(0)) return "U";
                    else if constexpr (std::is_void_v<decltype(cur->resize(xs...))>) { cur->resize(xs...); return "T"; }
                    else return cur->resize(xs...) ? "T" : "F";
                });
                if (flag == "U") { out = "unsupported"; return false; }
                if (flag == "T") fill(*cur, 1000 * (ll)step);
            }
        } else if (o[0] == 'w') {
            size_t e = o.find('=');
            size_t k = (size_t)std::stoll(o.substr(1, e - 1)); ll v = std::stoll(o.substr(e + 1));
            auto ext = to_vec(cur->shape()); size_t total = total_of(ext);
            if (!ext.empty() && total > 0) { auto idx = unravel(k % total, ext); ad::ref(*cur, idx) = v; }
        } else if (o[0] == 'c') {
            auto nb = std::make_unique<T>(*cur);
            ad::scribble(*cur);
            cur = std::move(nb);
        } else if (o[0] == 'a') {
            T other;
            if constexpr (ad::has_resize) {
                auto sizes = parse_list(o.substr(1));
                std::string f2 = c20::call_with_form<0, false, ad::fix>(ad::fix == 99 ? 'v' : 'a', sizes, [&](const auto&... xs) -> std::string {
                    if constexpr (!resize_callable<T, std::decay_t<decltype(xs)>...>(0)) return "U";
                    else { other.resize(xs...); return "T"; } });
                if (f2 == "U") { out = "unsupported"; return false; }
            }
            fill(other, 100);
            *cur = other;
            ad::scribble(other);
        } else if (o[0] == 'g') {
            size_t at; char k = src_letter(o, at);
            auto ext = to_vec(cur->shape());
            if (ext.empty()) { out = "unsupported"; return false; }
            std::string r = with_source(k, ext, 200, [&](auto& src) -> std::string {
                using S = std::decay_t<decltype(src)>;
                if constexpr (std::is_same_v<S, T>) { *cur = src; return "T"; }
                else if constexpr (rank_clash<T, S>()) return "U";
                else if constexpr (std::is_assignable_v<T&, const S&> && !(meta::is_fixed_size_ndarray_v<T> && !meta::is_fixed_size_ndarray_v<S>)) { *cur = src; return "T"; }
                else return "U";
            });
            if (r == "U") { out = "unsupported"; return false; }
        } else if (o[0] == 'n') {
            size_t at; char k = src_letter(o, at);
            auto ext = vec_of<size_t>(parse_list(o.substr(at)));
            std::string r = with_source(k, ext, 300, [&](auto& src) -> std::string {
                using S = std::decay_t<decltype(src)>;
                if constexpr (std::is_same_v<S, T>) { cur = std::make_unique<T>(src); return "T"; }
                else if constexpr (meta::is_fixed_size_ndarray_v<T> || rank_clash<T, S>()) return "U";
                else if constexpr (std::is_constructible_v<T, S&>) { cur = std::make_unique<T>(src); return "T"; }
                else if constexpr (std::is_constructible_v<T, S&&>) { S tmp(src); cur = std::make_unique<T>(std::move(tmp)); return "T"; }
                else return "U";
            });
            if (r == "U") { out = "unsupported"; return false; }
        } else { out = "unsupported"; return false; }
        out += " ; " + dump(*cur, flag);
    }
    return true;
}

template <typename X>
static std::string show_any(const X& x) {
    auto ext = to_vec(nm::shape(x));
    std::string o = "ok " + joinv(ext) + " ;";
    if (ext.empty()) return o;
    size_t total = total_of(ext);
    std::vector<size_t> idx(ext.size(), 0);
    constexpr auto DIM = meta::fixed_dim_v<X>;
    for (size_t c = 0; c < total; c++) {
        if constexpr (!meta::is_fail_v<decltype(DIM)>) {
            std::array<size_t, (size_t)DIM> ai{}; for (size_t d = 0; d < (size_t)DIM; d++) ai[d] = idx[d];
            o += (c ? "," : " ") + num_str(nm::apply_at(x, ai));
        } else o += (c ? "," : " ") + num_str(nm::apply_at(x, idx));
        next_index(idx, ext);
    }
    return o;
}
template <typename Src, typename K>
static std::string to_kind(const Src& src, const K& k) {
    using ret_t = meta::resolve_optype_t<nm::cast_kind_t, Src, K>;
    if constexpr (meta::is_fail_v<ret_t>) return "unsupported";
    else { auto x = nm::cast(src, k); return show_any(x); }
}

template <typename T>
static std::string run_case(const std::string& op, const std::string& ops, const std::string& tag) {
    std::unique_ptr<T> cur; std::string out;
    if (!run_ops(cur, ops, out)) return out;
    if (op == "lhist") return out;
    if (to_vec(cur->shape()).empty()) return "unsupported";
#define K(name) if (tag == #name) return to_kind(*cur, kind::name);
    K(dynamic) K(hybrid) K(fixed) K(ndarray_ls_db)
    // see drivers/c20.cpp: the non-clipped ndarray_* tags are a hard compile error for sources with a fixed dim only
    if constexpr (!na::is_hybrid_ndarray_v<T>) { K(ndarray_ds_db) K(ndarray_hs_hb) K(ndarray_fs_fb) K(ndarray_fs_db) K(ndarray_cs_fb) }
#undef K
    return "unsupported";
}

static std::string handle(const Case& c) {
    if (c.op != "lhist" && c.op != "lhistcast") return "unsupported";
    std::string k = c.args[0].raw.substr(2);
    std::string ops = c.args.size() > 1 ? c.args[1].raw.substr(2) : std::string();
    std::string tag = c.args.size() > 2 ? c.args[2].raw.substr(2) : std::string();
    if (k == "fixed2x3") return run_case<na::fixed_ndarray<ll, 2, 3>>(c.op, ops, tag);
    if (k == "fixed6") return run_case<na::fixed_ndarray<ll, 6>>(c.op, ops, tag);
    if (k == "hybrid12x2") return run_case<na::hybrid_ndarray<ll, 12, 2>>(c.op, ops, tag);
    if (k == "hybrid6x1") return run_case<na::hybrid_ndarray<ll, 6, 1>>(c.op, ops, tag);
    if (k == "hybrid12x3") return run_case<na::hybrid_ndarray<ll, 12, 3>>(c.op, ops, tag);
    if (k == "dynamic") return run_case<na::dynamic_ndarray<ll>>(c.op, ops, tag);
    return "unsupported";
}

int main() { return vd::run_main(handle); }
