// c20_legacy.cpp — C20 correspondence, part 3: operation histories on the legacy array
// classes array::fixed_ndarray, array::hybrid_ndarray, array::dynamic_ndarray.
// case line:  lhist S:<class> S:<op>;<op>;...
//   class  fixed2x3 | fixed6 | hybrid12x2 | hybrid6x1 | hybrid12x3 | dynamic
//   op     r2,3 (resize) | w5=7 (write at the 5-th index mod size) | c (copy-construct) |
//          a2,3 (assign from another object of the same class resized to (2,3), filled 100+k) |
//          g    (assign from a generic ndarray_t of the current shape filled 200+k: templated operator=)
// result: one record per state: <flag>|<shape>|<strides()>|<element count the object reports, or ->|<elements>
#include "nmtools/array/ndarray.hpp"
#include "nmtools/array/ndarray/fixed.hpp"
#include "nmtools/array/ndarray/hybrid.hpp"
#include "nmtools/array/ndarray/dynamic.hpp"
#include "show.hpp"
#include <memory>

namespace na = nmtools::array;
using namespace vd;

template <typename C> static std::vector<size_t> to_vec(const C& c) {
    std::vector<size_t> r; auto n = (size_t)nm::len(c);
    for (size_t i = 0; i < n; i++) r.push_back((size_t)nm::at(c, i));
    return r;
}
static std::string joinv(const std::vector<size_t>& v) { return join(v.begin(), v.end()); }
static void next_index(std::vector<size_t>& idx, const std::vector<size_t>& ext) {
    for (int d = (int)ext.size() - 1; d >= 0; d--) { if (++idx[d] < ext[d]) break; idx[d] = 0; }
}
static size_t total_of(const std::vector<size_t>& ext) { size_t t = 1; for (auto e : ext) t *= e; return t; }
static std::vector<size_t> unravel(size_t k, const std::vector<size_t>& ext) {
    std::vector<size_t> idx(ext.size(), 0);
    for (int d = (int)ext.size() - 1; d >= 0; d--) { idx[d] = k % ext[d]; k /= ext[d]; }
    return idx;
}

// ---- per-class adapters: element reference at a run-time index, reported count, resize
template <typename T> struct adapt;

template <typename E, size_t M, size_t D> struct adapt<na::hybrid_ndarray<E, M, D>> {
    using T = na::hybrid_ndarray<E, M, D>;
    static E& ref(T& a, const std::vector<size_t>& i) { typename T::shape_type s{}; for (size_t d = 0; d < D; d++) s[d] = i[d]; return a.at(s); }
    static std::string count(const T&) { return "-"; }
    static bool can_resize(const std::vector<size_t>& s) { return s.size() == D; }
    static const char* resize(T& a, const std::vector<size_t>& s) { typename T::shape_type t{}; for (size_t d = 0; d < D; d++) t[d] = s[d]; return a.resize(t) ? "T" : "F"; }
    static constexpr bool has_resize = true, has_generic_assign = true;
    static void scribble(T& a) { for (auto& x : a.buffer_) x = -7; }
};
template <typename E> struct adapt<na::dynamic_ndarray<E>> {
    using T = na::dynamic_ndarray<E>;
    static E& ref(T& a, const std::vector<size_t>& i) { return a.at(i); }
    static std::string count(const T& a) { return std::to_string((ll)a.data.size()); }
    static bool can_resize(const std::vector<size_t>&) { return true; }
    static const char* resize(T& a, const std::vector<size_t>& s) { a.resize(s); return "T"; }
    static constexpr bool has_resize = true, has_generic_assign = true;
    static void scribble(T& a) { for (auto& x : a.data) x = -7; a.resize(std::vector<size_t>{1}); }
};
template <typename E> struct adapt<na::fixed_ndarray<E, 2, 3>> {
    using T = na::fixed_ndarray<E, 2, 3>;
    static E& ref(T& a, const std::vector<size_t>& i) { return a(i[0], i[1]); }
    static std::string count(const T& a) { return std::to_string((ll)a.numel()); }
    static bool can_resize(const std::vector<size_t>&) { return false; }
    static const char* resize(T&, const std::vector<size_t>&) { return "-"; }
    static constexpr bool has_resize = false, has_generic_assign = false;
    static void scribble(T& a) { for (auto& r : a.data) for (auto& x : r) x = -7; }
};
template <typename E> struct adapt<na::fixed_ndarray<E, 6>> {
    using T = na::fixed_ndarray<E, 6>;
    static E& ref(T& a, const std::vector<size_t>& i) { return a(i[0]); }
    static std::string count(const T& a) { return std::to_string((ll)a.numel()); }
    static bool can_resize(const std::vector<size_t>&) { return false; }
    static const char* resize(T&, const std::vector<size_t>&) { return "-"; }
    static constexpr bool has_resize = false, has_generic_assign = false;
    static void scribble(T& a) { for (auto& x : a.data) x = -7; }
};

template <typename T>
static std::string dump(T& a, const char* flag) {
    using ad = adapt<T>;
    auto ext = to_vec(a.shape());
    std::string o = std::string(flag) + "|" + joinv(ext) + "|" + joinv(to_vec(a.strides())) + "|" + ad::count(a) + "|";
    if (ext.empty()) return o + "-";
    size_t total = total_of(ext);
    std::vector<size_t> idx(ext.size(), 0);
    for (size_t c = 0; c < total; c++) { o += (c ? "," : "") + std::to_string((ll)ad::ref(a, idx)); next_index(idx, ext); }
    return o;
}

template <typename T>
static void fill(T& a, ll base) {
    auto ext = to_vec(a.shape()); if (ext.empty()) return;
    size_t total = total_of(ext); std::vector<size_t> idx(ext.size(), 0);
    for (size_t c = 0; c < total; c++) { adapt<T>::ref(a, idx) = base + (ll)c; next_index(idx, ext); }
}

template <typename T>
static std::string run_history(const std::string& ops) {
    using ad = adapt<T>;
    auto cur = std::make_unique<T>();
    std::string out = dump(*cur, "-");
    size_t p = 0;
    while (p < ops.size()) {
        size_t q = ops.find(';', p); if (q == std::string::npos) q = ops.size();
        std::string o = ops.substr(p, q - p); p = q + 1;
        if (o.empty()) continue;
        const char* flag = "-";
        if (o[0] == 'r') {
            auto sizes = vec_of<size_t>(parse_list(o.substr(1)));
            if (!ad::has_resize || !ad::can_resize(sizes)) return "unsupported";
            flag = ad::resize(*cur, sizes);
        } else if (o[0] == 'w') {
            size_t e = o.find('=');
            size_t k = (size_t)std::stoll(o.substr(1, e - 1)); ll v = std::stoll(o.substr(e + 1));
            auto ext = to_vec(cur->shape()); size_t total = total_of(ext);
            if (!ext.empty() && total > 0) { auto idx = unravel(k % total, ext); ad::ref(*cur, idx) = v; }
        } else if (o[0] == 'c') {
            auto nb = std::make_unique<T>(*cur);
            ad::scribble(*cur);
            cur = std::move(nb);
        } else if (o[0] == 'a') {
            T other;
            if constexpr (ad::has_resize) {
                auto sizes = vec_of<size_t>(parse_list(o.substr(1)));
                if (!ad::can_resize(sizes)) return "unsupported";
                ad::resize(other, sizes);
            }
            fill(other, 100);
            *cur = other;
            ad::scribble(other);
        } else if (o[0] == 'g') {
            if constexpr (ad::has_generic_assign) {
                auto ext = to_vec(cur->shape());
                if (ext.empty()) return "unsupported";
                dyn_t<ll> g; g.resize(ext);
                std::vector<size_t> idx(ext.size(), 0); size_t total = total_of(ext);
                for (size_t c = 0; c < total; c++) { g(idx) = 200 + (ll)c; next_index(idx, ext); }
                *cur = g;
            } else return "unsupported";
        } else return "unsupported";
        out += " ; " + dump(*cur, flag);
    }
    return out;
}

static std::string handle(const Case& c) {
    if (c.op != "lhist") return "unsupported";
    std::string k = c.args[0].raw.substr(2);
    std::string ops = c.args.size() > 1 ? c.args[1].raw.substr(2) : std::string();
    if (k == "fixed2x3") return run_history<na::fixed_ndarray<ll, 2, 3>>(ops);
    if (k == "fixed6") return run_history<na::fixed_ndarray<ll, 6>>(ops);
    if (k == "hybrid12x2") return run_history<na::hybrid_ndarray<ll, 12, 2>>(ops);
    if (k == "hybrid6x1") return run_history<na::hybrid_ndarray<ll, 6, 1>>(ops);
    if (k == "hybrid12x3") return run_history<na::hybrid_ndarray<ll, 12, 3>>(ops);
    if (k == "dynamic") return run_history<na::dynamic_ndarray<ll>>(ops);
    return "unsupported";
}

int main() { return vd::run_main(handle); }
