// common.hpp — shared plumbing of the C++ correspondence drivers.
// Protocol: one case per stdin line: "<op> <arg> <arg> ...", args are
//   L:1,2,3  (integer list, "L:" = empty)   I:5 (integer)   N (None)
//   A:2,3:0,1,2,3,4,5 (array: shape : row-major data)
// One result line per case on stdout, same order.  Each group of cases runs in a
// forked child so that a SIGFPE / abort / runaway loop is an observation
// ("trap ..."), never a harness crash.
#pragma once
#include <cstdio>
#include <cstdlib>
#include <cstring>
#include <string>
#include <vector>
#include <sstream>
#include <iostream>
#include <functional>
#include <stdexcept>
#include <unistd.h>
#include <signal.h>
#include <sys/wait.h>

namespace vd {

using ll = long long;

struct Arg {
    char kind = 'N';            // 'L','I','N','A','S' (raw string)
    std::vector<ll> list;       // L, or A data
    std::vector<ll> shape;      // A shape
    ll val = 0;                 // I
    std::string raw;
};

inline std::vector<ll> parse_list(const std::string& s) {
    std::vector<ll> r; if (s.empty()) return r;
    size_t p = 0;
    while (p <= s.size()) {
        size_t q = s.find(',', p); if (q == std::string::npos) q = s.size();
        r.push_back(std::stoll(s.substr(p, q - p)));
        p = q + 1;
    }
    return r;
}

inline Arg parse_arg(const std::string& t) {
    Arg a; a.raw = t;
    if (t == "N") { a.kind = 'N'; return a; }
    if (t.size() >= 2 && t[1] == ':') {
        a.kind = t[0];
        std::string body = t.substr(2);
        if (a.kind == 'L') a.list = parse_list(body);
        else if (a.kind == 'I') a.val = std::stoll(body);
        else if (a.kind == 'A') {
            size_t c = body.find(':');
            a.shape = parse_list(body.substr(0, c));
            a.list = parse_list(body.substr(c + 1));
        } else { a.kind = 'S'; }
        return a;
    }
    a.kind = 'S'; return a;
}

struct Case { std::string op; std::vector<Arg> args; std::string line; };

inline Case parse_case(const std::string& line) {
    Case c; c.line = line; std::istringstream is(line); std::string tok;
    is >> c.op; while (is >> tok) c.args.push_back(parse_arg(tok));
    return c;
}

template <typename It>
inline std::string join(It b, It e) {
    std::string s; bool first = true;
    for (; b != e; ++b) { if (!first) s += ","; first = false; s += std::to_string((ll)*b); }
    return s;
}
template <typename C> inline std::string joinc(const C& c) { return join(c.begin(), c.end()); }

using Handler = std::function<std::string(const Case&)>;

// run all lines of stdin through `handler`; groups of `group` cases per child.
inline int run_main(const Handler& handler, int group = 32, int alarm_s = 20) {
    std::vector<std::string> lines; std::string line;
    while (std::getline(std::cin, line)) lines.push_back(line);
    auto run_range = [&](size_t lo, size_t hi, std::vector<std::string>& out) -> bool {
        int fd[2]; if (pipe(fd) != 0) { perror("pipe"); exit(2); }
        fflush(stdout);
        pid_t pid = fork();
        if (pid == 0) {
            close(fd[0]); alarm(alarm_s);
            for (size_t i = lo; i < hi; i++) {
                std::string r;
                if (lines[i].empty() || lines[i][0] == '#') r = "skip";
                else {
                    try { r = handler(parse_case(lines[i])); }
                    catch (std::exception& e) { r = std::string("trap exception ") + e.what(); }
                    catch (...) { r = "trap exception unknown"; }
                }
                for (auto& ch : r) if (ch == '\n') ch = ' ';
                r += "\n";
                if (write(fd[1], r.data(), r.size()) < 0) _exit(3);
            }
            _exit(0);
        }
        close(fd[1]);
        std::string buf; char tmp[65536]; ssize_t n;
        while ((n = read(fd[0], tmp, sizeof tmp)) > 0) buf.append(tmp, n);
        close(fd[0]);
        int st = 0; waitpid(pid, &st, 0);
        std::vector<std::string> got; { std::istringstream is(buf); std::string l; while (std::getline(is, l)) got.push_back(l); }
        bool clean = WIFEXITED(st) && WEXITSTATUS(st) == 0 && got.size() == hi - lo;
        if (clean) { for (auto& g : got) out.push_back(g); return true; }
        if (hi - lo == 1) {
            std::string why = WIFSIGNALED(st) ? ("trap signal " + std::to_string(WTERMSIG(st)))
                                              : ("trap exit " + std::to_string(WEXITSTATUS(st)));
            out.push_back(why); return true;
        }
        return false;
    };
    for (size_t lo = 0; lo < lines.size(); lo += group) {
        size_t hi = std::min(lines.size(), lo + (size_t)group);
        std::vector<std::string> out;
        if (!run_range(lo, hi, out)) {
            out.clear();
            for (size_t i = lo; i < hi; i++) run_range(i, i + 1, out);
        }
        for (auto& o : out) { fputs(o.c_str(), stdout); fputc('\n', stdout); }
    }
    fflush(stdout);
    return 0;
}

} // namespace vd
