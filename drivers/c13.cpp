// c13.cpp — implementation side of the C13 correspondence: the per-thread device kernel body,
// executed on the host for an explicit schedule of (thread id, block id) pairs.
//
// Device runtimes (CUDA/HIP/SYCL/OpenCL) are absent; eval/{cuda,hip,sycl,opencl}/context.hpp do not
// even include without their toolchains.  Everything the kernels *do* is host-compilable and lives in
// eval/kernel_helper.hpp + functional/*: this driver performs exactly the steps of
// nm_cuda_run_function (cuda/context.hpp:10-31) / the SYCL lambda (sycl/context.hpp:498-516):
//     host  : f = get_function_composition(view); operands = get_function_operands(view)
//             every operand -> raw (pointer, shape, dim) triple                      (context::create_array)
//     kernel: output = create_mutable_array<DIM>(out, out_shape_ptr, out_dim)
//             result = functional::apply(f, operands)
//             assign_result(output, result, thread_id, block_id, block_size)        once per simulated thread
// Nothing of the library is transcribed; only nmtools functions are called.
//
// case lines:
//   kern S:<comp> S:<style> A:<a> A:<b> A:<expected r> I:<block size> L:<thread ids> L:<block ids>
//        -> host <view> | kernel ok <shape> ; <buffer after the whole schedule> | guard <ok|clobbered> | writes <per thread: cells written>
//   rebuild A:<a>     -> create_array(data, shape_ptr, dim) | device_array(data, create_vector(shape_ptr,dim), dim)
//   offset I:tid I:bid I:bsz -> ok <compute_offset>
#include "nmtools/array/functional.hpp"
#include "nmtools/array/eval/kernel_helper.hpp"
#include "nmtools/array/view/ufuncs/add.hpp"
#include "nmtools/array/view/ufuncs/multiply.hpp"
#include "nmtools/array/view/ufuncs/subtract.hpp"
#include "nmtools/array/view/ufuncs/negative.hpp"
#include "nmtools/array/view/transpose.hpp"
#include "nmtools/array/view/flip.hpp"
#include "nmtools/array/view/sum.hpp"
#include "nmtools/array/view/matmul.hpp"
#ifndef C13_PART
#define C13_PART 1
#endif
#if C13_PART >= 2
#include "nmtools/array/view/activations/leaky_relu.hpp"
#include "nmtools/array/view/activations/hardtanh.hpp"
#include "nmtools/array/view/activations/hardshrink.hpp"
#include "nmtools/array/view/activations/softshrink.hpp"
#include "nmtools/array/view/expand_dims.hpp"
#include "nmtools/array/view/reshape.hpp"
#include "nmtools/array/view/broadcast_to.hpp"
#include "nmtools/array/view/tile.hpp"
#include "nmtools/array/view/repeat.hpp"
#include "nmtools/array/view/roll.hpp"
#include "nmtools/array/view/cumsum.hpp"
#endif
#include "nmtools/utility/as_static.hpp"
#include "show.hpp"
#include <cstring>

namespace fn = nmtools::functional;
namespace view = nmtools::view;
namespace na = nmtools::array;
using namespace vd;

static const ll SENTINEL = -999;

// ---- element type of the leaves, fixed per BUILD (-DC13_ELEM=...), selected per case by the dtype tag of the case line:
//   i64 (default) int64 values, also far beyond 2^53 with odd low bits      i32 / i16 : narrow ints up to their range ends
//   f64 : doubles that are NOT representable in binary32; they travel as their 64-bit patterns (exact), are printed with
//         %.17g (round-trip exact) and compared as strings, i.e. bit for bit
#define C13_ELEM_i64 1
#define C13_ELEM_i32 2
#define C13_ELEM_i16 3
#define C13_ELEM_f64 4
#ifndef C13_ELEM
#define C13_ELEM C13_ELEM_i64
#endif
#if C13_ELEM == C13_ELEM_i64
using elem_t = ll; static const char* ELEM_TAG = "i64";
#elif C13_ELEM == C13_ELEM_i32
using elem_t = int32_t; static const char* ELEM_TAG = "i32";
#elif C13_ELEM == C13_ELEM_i16
using elem_t = int16_t; static const char* ELEM_TAG = "i16";
#else
using elem_t = double; static const char* ELEM_TAG = "f64";
#endif
template <typename E> static E from_wire(ll w) {
    if constexpr (std::is_floating_point_v<E>) { double d; static_assert(sizeof d == sizeof w); std::memcpy(&d, &w, sizeof d); return (E)d; }
    else return (E)w;
}
template <typename E> static dyn_t<E> mk(const Arg& arg) {
    std::vector<ll> same(arg.list.size(), 0);
    auto arr = make_array<dyn_t<E>>(arg.shape, same);
    E* p = nm::data(arr);                                   // row-major buffer of the run-time shaped ndarray
    for (size_t i = 0; i < arg.list.size(); i++) p[i] = from_wire<E>(arg.list[i]);
    return arr;
}
static const size_t GUARD = 4;

template <typename T> static const auto& deref(const T& t) { if constexpr (std::is_pointer_v<T>) return *t; else return t; }

template <typename S> static std::vector<size_t> shape_vec(const S& s_) {
    const auto s = nm::unwrap(s_); std::vector<size_t> r;
    for (size_t i = 0; i < (size_t)nm::len(s); i++) r.push_back((size_t)nm::at(s, i));
    return r;
}

// one leaf operand as a raw triple (what crosses the host/device boundary)
struct Triple { void* data; std::vector<size_t> shape; size_t dim; };
template <typename leaf_t> using elem_of = std::remove_cv_t<std::remove_pointer_t<decltype(nm::data(std::declval<const leaf_t&>()))>>;
template <typename leaf_t> static Triple triple_of(const leaf_t& leaf) {
    Triple t; t.data = (void*)const_cast<elem_of<leaf_t>*>(nm::data(leaf)); t.shape = shape_vec(nm::shape(leaf)); t.dim = t.shape.size(); return t;
}

// style "cuda": operands are device_array objects over the raw pointer (cuda/hip context::create_array + get_)
// style "ocl" : operands are create_array(ptr, shape_ptr, dim) views (opencl kernels, sycl create_array)
template <bool OCL, typename E> static auto rebuild(const Triple& t) {
    if constexpr (OCL) return na::create_array<0>((const E*)t.data, t.shape.data(), t.dim);
    else return na::device_array((E*)t.data, na::create_vector<0>(t.shape.data(), t.dim), t.dim);
}

// HIP / SYCL route: before the launch the host maps the extracted function to the device; the contexts' headers need
// their toolchains, so the mapping is mirrored here line by line and calls the REAL array::as_static (and with it every
// as_static_t<...> specialisation of the views' attributes).  eval/hip/context.hpp:292-318 (sycl/context.hpp:523-577 is the same):
//     template <typename F, typename operands_t, typename attributes_t>
//     auto map_to_device(const functional::functor_t<F,operands_t,attributes_t>& f) {
//         static_assert( meta::len_v<operands_t> == 0 );
//         if constexpr (meta::is_same_v<attributes_t,meta::empty_attributes_t>) { return f; } else {
//             constexpr auto N = meta::len_v<attributes_t>;
//             auto attributes  = meta::template_reduce<N>([&](auto init, auto I){
//                 auto attribute = array::as_static(at(f.attributes,I));
//                 return utility::tuple_append(init,attribute); }, nmtools_tuple{});
//             return functional::functor_t<F,operands_t,decltype(attributes)>{ {f.fmap, f.operands, attributes} }; } }
//     template <template<typename...>typename tuple, typename...functors_t, typename operands_t>
//     auto map_to_device(const functional::functor_composition_t<tuple<functors_t...>,operands_t>& f) {
//         auto functors = meta::template_reduce<sizeof...(functors_t)>([&](auto init, auto I){
//             auto functor = map_to_device(at(f.functors,I)); return utility::tuple_append(init,functor); }, nmtools_tuple{});
//         return functional::functor_composition_t<decltype(functors)>{functors}; }
// cuda/context.hpp passes f as it is; the OpenCL context has hand-written kernels per operation and no such mapping.
template <typename F, typename operands_t, typename attributes_t>
static auto map_to_device(const fn::functor_t<F, operands_t, attributes_t>& f) {
    static_assert(meta::len_v<operands_t> == 0);
    if constexpr (meta::is_same_v<attributes_t, meta::empty_attributes_t>) return f;
    else {
        constexpr auto N = meta::len_v<attributes_t>;
        auto attributes = meta::template_reduce<N>([&](auto init, auto I) {
            auto attribute = na::as_static(nm::at(f.attributes, I));
            return nm::utility::tuple_append(init, attribute);
        }, nmtools_tuple{});
        return fn::functor_t<F, operands_t, decltype(attributes)>{{f.fmap, f.operands, attributes}};
    }
}
template <template <typename...> typename tuple, typename... functors_t, typename operands_t>
static auto map_to_device(const fn::functor_composition_t<tuple<functors_t...>, operands_t>& f) {
    static_assert(meta::len_v<operands_t> == 0);
    auto functors = meta::template_reduce<sizeof...(functors_t)>([&](auto init, auto I) {
        auto functor = map_to_device(nm::at(f.functors, I));
        return nm::utility::tuple_append(init, functor);
    }, nmtools_tuple{});
    return fn::functor_composition_t<decltype(functors)>{functors};
}

template <auto DIM, typename O, typename F, typename Ops>
static void one_thread(std::vector<O>& buf, const std::vector<size_t>& osh, const F& f, const Ops& ops, size_t tid, size_t bid, size_t bsz) {
    auto output = na::create_mutable_array<DIM>(buf.data(), osh.data(), osh.size());
    auto result = fn::apply(f, ops);
    auto thread_id  = na::kernel_size<size_t>{tid, 0, 0};
    auto block_id   = na::kernel_size<size_t>{bid, 0, 0};
    auto block_size = na::kernel_size<size_t>{bsz, 1, 1};      // exactly what the CUDA/HIP kernels pass
    na::assign_result(output, result, thread_id, block_id, block_size);
}

template <bool OCL, auto DIM, bool MAP = false, typename V>
static std::string run_kernel(const V& v, size_t bsz, const std::vector<ll>& tids, const std::vector<ll>& bids) {
    auto f_ = fn::get_function_composition(v);
    auto ops_ = fn::get_function_operands(v);
    if (!nm::has_value(f_) || !nm::has_value(ops_)) return "host " + show(v) + " | kernel extraction-nothing";
    const auto f = [&]() { if constexpr (MAP) return map_to_device(nm::unwrap(f_)); else return nm::unwrap(f_); }();
    const auto& ops = nm::unwrap(ops_);
    constexpr auto N = meta::len_v<std::decay_t<decltype(ops)>>;
    std::vector<Triple> triples;
    meta::template_for<N>([&](auto i) { triples.push_back(triple_of(deref(nm::at(ops, i)))); });
    auto dev_ops = meta::template_reduce<N>([&](auto init, auto i) {
        using leaf_t = std::decay_t<decltype(deref(nm::at(ops, i)))>;
        return nm::utility::tuple_append(init, rebuild<OCL, elem_of<leaf_t>>(triples[decltype(i)::value]));
    }, nmtools_tuple<>{});
    using O = meta::get_element_type_t<std::decay_t<decltype(nm::unwrap(v))>>;      // element type of the output buffer
    std::vector<size_t> osh = shape_vec(nm::shape(v));
    if constexpr (DIM > 0) { if (osh.size() != (size_t)DIM) return "unsupported"; }
    size_t n = 1; for (auto e : osh) n *= e;
    std::vector<O> buf(n + GUARD, (O)SENTINEL);
    std::string writes;
    for (size_t s = 0; s < tids.size(); s++) {
        one_thread<DIM>(buf, osh, f, dev_ops, (size_t)tids[s], (size_t)bids[s], bsz);
        // the same thread alone on a fresh buffer: which cells does it write?
        std::vector<O> probe(n + GUARD, (O)SENTINEL);
        one_thread<DIM>(probe, osh, f, dev_ops, (size_t)tids[s], (size_t)bids[s], bsz);
        std::string w;
        for (size_t j = 0; j < probe.size(); j++) if (probe[j] != (O)SENTINEL) w += (w.empty() ? "" : "+") + std::to_string(j);
        writes += (s ? "," : "") + (w.empty() ? std::string("-") : w);
    }
    std::string o = "host " + show(v) + " | kernel ok " + joinc(osh) + " ;";
    for (size_t i = 0; i < n; i++) o += (i ? "," : " ") + num_str(buf[i]);
    bool clob = false; for (size_t i = n; i < buf.size(); i++) clob = clob || buf[i] != (O)SENTINEL;
    o += std::string(" | guard ") + (clob ? "clobbered" : "ok") + " | writes " + writes;
    return o;
}

template <bool OCL, typename V>
static std::string run_dim(const std::string& style, const V& v, size_t bsz, const std::vector<ll>& tids, const std::vector<ll>& bids) {
#if !defined(VD_LIGHT) && C13_PART == 1
    if (style == "cudaN") {     // create_mutable_array<DIM>/create_vector<DIM>: the fixed-size (nmtools_array) arm
        size_t d = shape_vec(nm::shape(v)).size();
        if (d == 1) return run_kernel<OCL, 1>(v, bsz, tids, bids);
        if (d == 2) return run_kernel<OCL, 2>(v, bsz, tids, bids);
        return "unsupported";
    }
#endif
    return run_kernel<OCL, 0>(v, bsz, tids, bids);
}

// which build answers which style: part 1 and 2: cuda / ocl (/ cudaN); part 3: ALL compositions on the hip/sycl route only
template <typename V>
static std::string run_style(const std::string& style, const V& v, size_t bsz, const std::vector<ll>& tids, const std::vector<ll>& bids) {
#if C13_PART == 3
    if (style == "hip") return run_kernel<false, 0, true>(v, bsz, tids, bids);
#else
    if (style == "ocl") return run_dim<true>(style, v, bsz, tids, bids);
    if (style == "cuda" || style == "cudaN") return run_dim<false>(style, v, bsz, tids, bids);
#endif
    return "unsupported";
}

static std::string handle(const Case& c) {
    const std::string& op = c.op;
    if (op == "kern") {
        std::string comp = c.args[0].raw.substr(2), style = c.args[1].raw.substr(2);
        // kern S:comp S:style A:a A:b A:r I:bsz L:tids L:bids L:params S:dtype
        const std::string dtype = c.args.size() > 9 ? c.args[9].raw.substr(2) : "i64";
        auto a = mk<elem_t>(c.args[2]); auto b = mk<elem_t>(c.args[3]);
        const bool elem_ok = dtype == ELEM_TAG;
        size_t bsz = (size_t)c.args[5].val; const auto& tids = c.args[6].list; const auto& bids = c.args[7].list;
        if (tids.size() != bids.size() || bsz == 0) return "unsupported";
#if C13_PART == 1 || C13_PART == 3
        if (!elem_ok) return "unsupported";
        // depth 1
        if (comp == "add")        return run_style(style, view::add(a, b), bsz, tids, bids);
        if (comp == "tr")         return run_style(style, view::transpose(a), bsz, tids, bids);
        // depth 2
        if (comp == "sum_mul")    return run_style(style, view::sum(view::multiply(a, b), 0), bsz, tids, bids);
        if (comp == "flip_tr")    return run_style(style, view::flip(view::transpose(a), 0), bsz, tids, bids);
        if (comp == "mm_tr_l")    return run_style(style, view::matmul(view::transpose(a), b), bsz, tids, bids);
        // depth 3
        if (comp == "neg_tr_add") return run_style(style, view::negative(view::transpose(view::add(a, b))), bsz, tids, bids);
        if (comp == "sum_tr_mul") return run_style(style, view::sum(view::transpose(view::multiply(a, b)), 1), bsz, tids, bids);
        // outside wf (C14's class): non-leaf operand at position 1
        if (comp == "mm_tr_r")    return run_style(style, view::matmul(a, view::transpose(b)), bsz, tids, bids);
        // a broadcasting binary ufunc over a non-leaf operand at position 0 (extraction skips the broadcast_to wrapper)
        if (comp == "sub_tr_l")   return run_style(style, view::subtract(view::transpose(a), b), bsz, tids, bids);
#endif
#if C13_PART >= 2
        // ---- part 2 / 3 (further builds of this source): views whose attributes carry RUN-TIME values into the extracted
        // function, and outputs of rank 5..8 (the kernel's shape capacity).  Parameters come from the case line:
        // L:<params>; activation parameters are given in quarters (p/4), the data are doubles that are NOT
        // representable in binary32 (bit patterns in the case line); every operation involved is exact-or-correctly-rounded
        // IEEE double arithmetic in a fixed order, so host evaluation equals the reference bit for bit.
        const std::vector<ll> none; const auto& P = c.args.size() > 8 ? c.args[8].list : none;
        auto q = [&](size_t k) { return (float)((double)P.at(k) / 4.0); };
        if (style == "cudaN") return "unsupported";
        if (dtype == "f64") {
        auto ad = mk<double>(c.args[2]); auto bd = mk<double>(c.args[3]);
        // parameterised unary ufuncs, alone / as outer node / as inner node of depth-2 and depth-3 compositions
        if (comp == "lrelu")         return run_style(style, view::leaky_relu(ad, q(0)), bsz, tids, bids);
        if (comp == "htanh")         return run_style(style, view::hardtanh(ad, q(0), q(1)), bsz, tids, bids);
        if (comp == "hshrink")       return run_style(style, view::hardshrink(ad, q(0)), bsz, tids, bids);
        if (comp == "sshrink")       return run_style(style, view::softshrink(ad, q(0)), bsz, tids, bids);
        if (comp == "lrelu_add")     return run_style(style, view::leaky_relu(view::add(ad, bd), q(0)), bsz, tids, bids);
        if (comp == "add_lrelu")     return run_style(style, view::add(view::leaky_relu(ad, q(0)), bd), bsz, tids, bids);
        if (comp == "sum_htanh")     return run_style(style, view::sum(view::hardtanh(ad, q(0), q(1)), 0), bsz, tids, bids);
        if (comp == "neg_tr_lrelu")  return run_style(style, view::negative(view::transpose(view::leaky_relu(ad, q(0)))), bsz, tids, bids);
        if (comp == "htanh_tr_add")  return run_style(style, view::hardtanh(view::transpose(view::add(ad, bd)), q(0), q(1)), bsz, tids, bids);
        if (comp == "sshrink_lrelu") return run_style(style, view::softshrink(view::leaky_relu(ad, q(0)), q(1)), bsz, tids, bids);
        }
        if (!elem_ok) return "unsupported";
        // views with as_static_t<...> attribute specialisations, operands of rank >= 3, non-default attribute values
        if (comp == "tr_ax")         return run_style(style, view::transpose(a, vec_of<int>(P)), bsz, tids, bids);
        if (comp == "neg_tr_ax")     return run_style(style, view::negative(view::transpose(a, vec_of<int>(P))), bsz, tids, bids);
        if (comp == "sum_tr_ax")     return run_style(style, view::sum(view::transpose(a, vec_of<int>(P)), 0), bsz, tids, bids);
        // (view::pad is not in the table: its fill value counts as a second operand of the view while the extracted functor is
        //  unary, so functional::apply(f, operands) is rejected by the library's static_assert(arity == n_operands))
        if (comp == "repeat_p")      return run_style(style, view::repeat(a, (size_t)P.at(0), (int)P.at(1)), bsz, tids, bids);
        if (comp == "roll_p")        return run_style(style, view::roll(a, (int)P.at(0), (int)P.at(1)), bsz, tids, bids);
        if (comp == "cumsum_p")      return run_style(style, view::cumsum(a, (int)P.at(0)), bsz, tids, bids);
        if (comp == "sum_keep")      return run_style(style, view::sum(a, (int)P.at(0), nm::None, (elem_t)P.at(1), nm::True), bsz, tids, bids);
        if (comp == "tile_p")        return run_style(style, view::tile(a, vec_of<size_t>(P)), bsz, tids, bids);
        if (comp == "reshape_p")     return run_style(style, view::reshape(a, vec_of<size_t>(P)), bsz, tids, bids);
        if (comp == "bto_p")         return run_style(style, view::broadcast_to(a, vec_of<size_t>(P)), bsz, tids, bids);
        // a reduction whose axis and initial value are run-time attributes
        if (comp == "sum_ax_init")   return run_style(style, view::sum(a, (int)P.at(0), nm::None, (elem_t)P.at(1)), bsz, tids, bids);
        // outputs of rank 5..8 from operands of rank 1..4 (params = axes / target shape / repetitions)
        if (comp == "expd")          return run_style(style, view::expand_dims(a, vec_of<int>(P)), bsz, tids, bids);
        if (comp == "neg_expd")      return run_style(style, view::negative(view::expand_dims(a, vec_of<int>(P))), bsz, tids, bids);
        if (comp == "expd_tr")       return run_style(style, view::expand_dims(view::transpose(a), vec_of<int>(P)), bsz, tids, bids);
        if (comp == "reshape_hi")    return run_style(style, view::reshape(a, vec_of<size_t>(P)), bsz, tids, bids);
        if (comp == "bto_hi")        return run_style(style, view::broadcast_to(a, vec_of<size_t>(P)), bsz, tids, bids);
        if (comp == "tile_hi")       return run_style(style, view::tile(a, vec_of<size_t>(P)), bsz, tids, bids);
#endif
        return "unsupported";
    }
    if (op == "rebuild") {
        auto a = make_array(c.args[0]);
        Triple t = triple_of(a);
        auto v1 = rebuild<true, ll>(t);
        auto v2 = rebuild<false, ll>(t);
        return show(v1) + " | " + show(v2);
    }
    if (op == "offset") {
        size_t tid = (size_t)c.args[0].val, bid = (size_t)c.args[1].val, bsz = (size_t)c.args[2].val;
        auto k = na::compute_offset(na::kernel_size<size_t>{tid, 0, 0}, na::kernel_size<size_t>{bid, 0, 0}, na::kernel_size<size_t>{bsz, 1, 1});
        return "ok " + std::to_string((ll)k);
    }
    return "unsupported";
}

int main() { return vd::run_main(handle); }
