// one-line wrapper: c12.cpp compiled for context sse (the harness keys its binary cache by file name)
#define C12_CTX 1
#include "c12.cpp"
