// c04_a.cpp — implementation side of the C04 correspondence, part A:
// tile, repeat, roll, pad, take, compress, resize, expand (single-operand selecting / replicating views),
// view level (vd::dyn_t<long long> operand, argument container kinds vec / arr / tup / ct),
// eager level (nmtools::array::X) and index level (index::shape_X / index::X on container kinds).
#include "nmtools/array/view/tile.hpp"
#include "nmtools/array/view/repeat.hpp"
#include "nmtools/array/view/roll.hpp"
#include "nmtools/array/view/pad.hpp"
#include "nmtools/array/view/take.hpp"
#include "nmtools/array/view/compress.hpp"
#include "nmtools/array/view/resize.hpp"
#include "nmtools/array/view/expand.hpp"
#include "nmtools/array/array/tile.hpp"
#include "nmtools/array/array/repeat.hpp"
#include "nmtools/array/array/roll.hpp"
#include "nmtools/array/array/pad.hpp"
#include "nmtools/array/array/take.hpp"
#include "nmtools/array/array/compress.hpp"
#include "nmtools/array/array/resize.hpp"
#include "nmtools/array/array/expand.hpp"
#include "nmtools/array/array/concatenate.hpp"
#include "show.hpp"
#include "c04_common.hpp"
#include "c04_typed.hpp"

namespace ix = nmtools::index;
namespace view = nmtools::view;
namespace na = nmtools::array;
using namespace vd;
using nm::None;

static std::string handle(const Case& c) {
    const std::string& op = c.op;
    auto kind = [&](size_t i) { return c.args[i].raw.substr(2); };

    // ------------------------------------------------------------------ tile
    if (op == "tile") {            // tile S:kind A:src L:reps
        auto a = make_array(c.args[1]);
        return with_ilist(kind(0), c.args[2].list, CT_LISTS_POS, [&](const auto& reps) -> std::string {
            return show(view::tile(a, reps)); });
    }
    if (op == "tile_e") {          // tile_e A:src L:reps
        auto a = make_array(c.args[0]); auto reps = vec_of<int>(c.args[1].list);
        return show(na::tile(a, reps));
    }
    if (op == "tile_ix") {         // tile_ix S:kind L:shape L:reps L:idx  -> "ok <shape_tile> ; <index::tile>"
        return with_ulist(kind(0), c.args[1].list, [&](const auto& shp) {
            return with_ulist(kind(0), c.args[2].list, [&](const auto& reps) -> std::string {
                auto dst = ix::shape_tile(shp, reps);
                auto idx = vec_of<size_t>(c.args[3].list);
                auto src = ix::tile(shp, reps, idx);
                return "ok " + show_index(dst) + " ; " + show_index(src);
            }); });
    }
    // ------------------------------------------------------------------ repeat
    if (op == "repeat") {          // repeat S:kind A:src I:repeats I:axis|N
        auto a = make_array(c.args[1]); ll r = c.args[2].val;
        if (c.args[3].kind == 'N') {
            if (kind(0) == "ct") return with_ct_int(r, CT_INTS_POS, [&](auto rc) -> std::string { return show1(view::repeat(a, rc, None)); });
            return show1(view::repeat(a, (int)r, None));
        }
        ll ax = c.args[3].val;
        if (kind(0) == "ct") return with_ct_int(ax, CT_INTS_AXIS, [&](auto axc) -> std::string { return show(view::repeat(a, (int)r, axc)); });
        if (kind(0) == "u") return ax < 0 ? std::string("unsupported") : show(view::repeat(a, (size_t)r, (size_t)ax));
        return show(view::repeat(a, (int)r, (int)ax));
    }
    if (op == "repeat_l") {        // repeat_l S:kind A:src L:repeats I:axis   (per-element repeats)
        auto a = make_array(c.args[1]); int ax = (int)c.args[3].val;
        return with_ilist(kind(0), c.args[2].list, CT_LISTS_NONE, [&](const auto& reps) -> std::string {
            return show(view::repeat(a, reps, ax)); });
    }
    if (op == "repeat_e") {        // repeat_e A:src I:repeats I:axis|N
        auto a = make_array(c.args[0]); int r = (int)c.args[1].val;
        if (c.args[2].kind == 'N') return show(na::repeat(a, r, None));
        return show(na::repeat(a, r, (int)c.args[2].val));
    }
    if (op == "repeat_ix") {       // repeat_ix S:kind L:shape L:idx I:repeats I:axis
        int r = (int)c.args[3].val; int ax = (int)c.args[4].val;
        return with_ulist_pair(kind(0), c.args[1].list, c.args[2].list, [&](const auto& shp, const auto& idx) -> std::string {
                auto dst = ix::shape_repeat(shp, r, ax);
                auto src = ix::repeat(shp, idx, r, ax);
                return "ok " + show_index(dst) + " ; " + show_index(src);
            });
    }
    // ------------------------------------------------------------------ roll
    if (op == "roll") {            // roll S:kind A:src I:shift I:axis|N      (single axis / None)
        auto a = make_array(c.args[1]); int sh = (int)c.args[2].val;
        if (c.args[3].kind == 'N') return show(view::roll(a, sh));
        ll ax = c.args[3].val;
        if (kind(0) == "ct") return with_ct_int(ax, CT_INTS_AXIS, [&](auto axc) -> std::string { return show(view::roll(a, sh, axc)); });
        return show(view::roll(a, sh, (int)ax));
    }
    if (op == "roll_m") {          // roll_m S:kind A:src L:shift L:axes      (tuple of axes, shift per axis)
        auto a = make_array(c.args[1]);
        return with_ilist(kind(0), c.args[3].list, CT_LISTS_AXES, [&](const auto& axes) -> std::string {
            auto sh = vec_of<int>(c.args[2].list);
            return show(view::roll(a, sh, axes)); });
    }
    if (op == "roll_ms") {         // roll_ms S:kind A:src I:shift L:axes     (tuple of axes, one shift)
        auto a = make_array(c.args[1]); int sh = (int)c.args[2].val;
        return with_ilist(kind(0), c.args[3].list, CT_LISTS_AXES, [&](const auto& axes) -> std::string {
            return show(view::roll(a, sh, axes)); });
    }
    if (op == "roll_e") {          // roll_e A:src I:shift I:axis|N
        auto a = make_array(c.args[0]); int sh = (int)c.args[1].val;
        if (c.args[2].kind == 'N') return show(na::roll(a, sh));
        return show(na::roll(a, sh, (int)c.args[2].val));
    }
    if (op == "roll_ix") {         // roll_ix S:kind L:shape L:idx I:shift I:axis -> "ok <index::roll>"
        int sh = (int)c.args[3].val; int ax = (int)c.args[4].val;
        return with_ulist_pair(kind(0), c.args[1].list, c.args[2].list, [&](const auto& shp, const auto& idx) -> std::string {
                auto dst = ix::shape_roll(shp, sh, ax);
                if (!nm::has_value(dst)) return "nothing";
                auto src = ix::roll(shp, idx, sh, ax);
                return "ok " + show_index(nm::unwrap(dst)) + " ; " + show_index(src);
            });
    }
    // ------------------------------------------------------------------ pad
    if (op == "pad") {             // pad S:kind A:src L:widths   (fill value -1)
        auto a = make_array(c.args[1]);
        return with_ilist(kind(0), c.args[2].list, CT_LISTS_PAD, [&](const auto& w) -> std::string {
            return show(view::pad(a, w, (ll)-1)); });
    }
    if (op == "pad_e") {
        auto a = make_array(c.args[0]); auto w = vec_of<int>(c.args[1].list);
        return show(na::pad(a, w, (ll)-1));
    }
    if (op == "pad_ix") {          // pad_ix S:kind L:shape L:widths L:idx -> "ok <shape_pad> ; <index::pad | fill>"
        return with_ulist(kind(0), c.args[1].list, [&](const auto& shp) {
            return with_ulist2(kind(0), c.args[2].list, [&](const auto& w) -> std::string {
                auto dst = ix::shape_pad(shp, w);
                if (!nm::has_value(dst)) return "nothing";
                auto idx = vec_of<size_t>(c.args[3].list);
                auto src = ix::pad(idx, shp, nm::unwrap(dst), w);
                return "ok " + show_index(nm::unwrap(dst)) + " ; " + (nm::has_value(src) ? show_index(nm::unwrap(src)) : std::string("fill"));
            }); });
    }

    // ------------------------------------------------------------------ take
    if (op == "take") {            // take S:kind A:src L:indices I:axis|N
        auto a = make_array(c.args[1]);
        if (c.args[3].kind == 'N')
            return with_ilist(kind(0), c.args[2].list, CT_LISTS_TAKE, [&](const auto& ind) -> std::string { return show1(view::take(a, ind, None)); });
        ll ax = c.args[3].val;
        if (kind(0) == "ctax") return with_ct_int(ax, CT_INTS_AXIS, [&](auto axc) -> std::string { return show(view::take(a, vec_of<int>(c.args[2].list), axc)); });
        return with_ilist(kind(0), c.args[2].list, CT_LISTS_TAKE, [&](const auto& ind) -> std::string { return show(view::take(a, ind, (int)ax)); });
    }
    if (op == "take_e") {
        auto a = make_array(c.args[0]); auto ind = vec_of<int>(c.args[1].list);
        if (c.args[2].kind == 'N') return show(na::take(a, ind, None));
        return show(na::take(a, ind, (int)c.args[2].val));
    }
    if (op == "take_ix") {         // take_ix S:kind L:shape L:indices L:idx I:axis -> "ok <shape_take> ; <index::take>"
        int ax = (int)c.args[4].val; auto ind = vec_of<size_t>(c.args[2].list);
        return with_ulist_pair(kind(0), c.args[1].list, c.args[3].list, [&](const auto& shp, const auto& idx) -> std::string {
                auto dst = ix::shape_take(shp, ind, ax);
                auto src = ix::take(idx, shp, ind, ax);
                return "ok " + show_index(dst) + " ; " + show_index(src);
            });
    }
    // ------------------------------------------------------------------ compress
    if (op == "compress") {        // compress S:kind L:condition A:src I:axis|N
        auto a = make_array(c.args[2]);
        if (c.args[3].kind == 'N')
            return with_ilist(kind(0), c.args[1].list, CT_LISTS_NONE, [&](const auto& cond) -> std::string { return show1(view::compress(cond, a, None)); });
        int ax = (int)c.args[3].val;
        return with_ilist(kind(0), c.args[1].list, CT_LISTS_NONE, [&](const auto& cond) -> std::string { return show(view::compress(cond, a, ax)); });
    }
    if (op == "compress_e") {
        auto a = make_array(c.args[1]); auto cond = vec_of<int>(c.args[0].list);
        if (c.args[2].kind == 'N') return show(na::compress(cond, a, None));
        return show(na::compress(cond, a, (int)c.args[2].val));
    }
    // ------------------------------------------------------------------ resize
    if (op == "resize") {          // resize S:kind A:src L:dst_shape
        auto a = make_array(c.args[1]);
        return with_ilist(kind(0), c.args[2].list, CT_LISTS_RESIZE, [&](const auto& dst) -> std::string { return show(view::resize(a, dst)); });
    }
    if (op == "resize_e") {
        auto a = make_array(c.args[0]); auto dst = vec_of<int>(c.args[1].list);
        return show(na::resize(a, dst));
    }
    if (op == "resize_ix") {       // resize_ix S:kind L:src L:dst L:idx
        return with_ulist_pair(kind(0), c.args[1].list, c.args[2].list, [&](const auto& shp, const auto& dst) -> std::string {
                auto r = ix::shape_resize(shp, dst);
                if (!nm::has_value(r)) return "nothing";
                auto idx = vec_of<size_t>(c.args[3].list);
                auto src = ix::resize(idx, shp, dst);
                return "ok " + show_index(nm::unwrap(r)) + " ; " + show_index(src);
            });
    }
    if (op == "resize_ixall") {    // resize_ixall S:kind L:src L:dst -> "ok <shape_resize> ; <index::resize of EVERY dst index, flattened>"
        // drives the index map directly over large extents (no array is allocated)
        return with_ulist_pair(kind(0), c.args[1].list, c.args[2].list, [&](const auto& shp, const auto& dst) -> std::string {
            auto r = ix::shape_resize(shp, dst);
            if (!nm::has_value(r)) return "nothing";
            std::vector<size_t> ext(c.args[2].list.begin(), c.args[2].list.end()), idx(ext.size(), 0);
            size_t total = 1; for (auto e : ext) total *= e;
            std::string o = "ok " + show_index(nm::unwrap(r)) + " ;";
            for (size_t n = 0; n < total; n++) {
                o += (n ? "," : " ") + show_index(ix::resize(idx, shp, dst));
                for (int d = (int)ext.size() - 1; d >= 0; d--) { if (++idx[d] < ext[d]) break; idx[d] = 0; }
            }
            return o;
        });
    }
    // ------------------------------------------------------------------ expand
    if (op == "expand") {          // expand S:kind A:src I:axis I:spacing    (fill value -1)
        auto a = make_array(c.args[1]); int sp = (int)c.args[3].val; ll ax = c.args[2].val;
        if (kind(0) == "ct") return with_ct_int(ax, CT_INTS_AXIS, [&](auto axc) -> std::string { return show(view::expand(a, axc, sp, (ll)-1)); });
        return show(view::expand(a, (int)ax, sp, (ll)-1));
    }
    if (op == "expand_m") {        // expand_m S:kind A:src L:axes L:spacing
        auto a = make_array(c.args[1]); auto sp = vec_of<int>(c.args[3].list);
        return with_ilist(kind(0), c.args[2].list, CT_LISTS_AXES, [&](const auto& axes) -> std::string { return show(view::expand(a, axes, sp, (ll)-1)); });
    }
    if (op == "expand_e") {
        auto a = make_array(c.args[0]);
        return show(na::expand(a, (int)c.args[1].val, (int)c.args[2].val, (ll)-1));
    }
    // ------------------------------------------------------------------ concatenate, eager (see the note in c04_b.cpp)
    if (op == "concat_e") {        // concat_e A:lhs A:rhs I:axis|N
        auto a = make_array(c.args[0]); auto b = make_array(c.args[1]);
        if (c.args[2].kind == 'N') return show(na::concatenate(a, b, None));
        return show(na::concatenate(a, b, (int)c.args[2].val));
    }
    if (op == "tconcat_e") {       // tconcat_e T:lhs T:rhs I:axis|N   operands of different element types (pairs of with_typed_pair)
        auto ta = parse_typed(c.args[0].raw), tb = parse_typed(c.args[1].raw);
        return with_typed_pair(ta, tb, [&](const auto& a, const auto& b) -> std::string {
            if (c.args[2].kind == 'N') return show(na::concatenate(a, b, None));
            return show(na::concatenate(a, b, (int)c.args[2].val));
        });
    }
    return "unsupported";
}

int main() { return vd::run_main(handle); }
