// show.hpp — building run-time shaped operands from case arguments and printing
// any nmtools result (view / array / maybe / either / number / index list)
// in the canonical wire format:  "ok <shape> ; <row-major elements>" | "nothing".
#pragma once
#include "nmtools/array/ndarray.hpp"
#include "nmtools/array/index/ndindex.hpp"
#include "nmtools/utility/at.hpp"
#include "nmtools/utility/unwrap.hpp"
#include "nmtools/utility/has_value.hpp"
#include "common.hpp"
#include <vector>
#include <array>
#include <tuple>

namespace nm = nmtools;
namespace meta = nmtools::meta;
namespace vd {

template <typename T = ll>
using dyn_t = nm::array::ndarray_t<std::vector<T>, std::vector<size_t>>;
template <typename T = ll>
using dyn_col_t = nm::array::column_major_ndarray_t<std::vector<T>, std::vector<size_t>>;

// array from (shape, row-major data); for column-major arrays the elements are
// written through operator() so that the logical content is the same
template <typename array_t = dyn_t<ll>>
inline array_t make_array(const std::vector<ll>& shape, const std::vector<ll>& data) {
    array_t a;
    std::vector<size_t> shp(shape.begin(), shape.end());
    if (shp.empty()) { shp.push_back(1); }
    a.resize(shp);
    std::vector<size_t> idx(shp.size(), 0);
    size_t n = 1; for (auto e : shp) n *= e;
    for (size_t c = 0; c < n; c++) {
        a(idx) = (typename array_t::value_type)(c < data.size() ? data[c] : 0);
        for (int d = (int)shp.size() - 1; d >= 0; d--) { if (++idx[d] < shp[d]) break; idx[d] = 0; }
    }
    return a;
}
template <typename array_t = dyn_t<ll>>
inline array_t make_array(const Arg& a) { return make_array<array_t>(a.shape, a.list); }

template <typename T> inline std::vector<T> vec_of(const std::vector<ll>& v) { return std::vector<T>(v.begin(), v.end()); }
template <typename T, size_t N> inline std::array<T, N> arr_of(const std::vector<ll>& v) { std::array<T, N> a{}; for (size_t i = 0; i < N && i < v.size(); i++) a[i] = (T)v[i]; return a; }
template <typename T, size_t... I> inline auto tup_of_impl(const std::vector<ll>& v, std::index_sequence<I...>) { return nmtools_tuple{(T)v[I]...}; }
template <typename T, size_t N> inline auto tup_of(const std::vector<ll>& v) { return tup_of_impl<T>(v, std::make_index_sequence<N>{}); }

template <typename T> inline std::string num_str(const T& v) {
    if constexpr (std::is_floating_point_v<T>) { char b[64]; snprintf(b, sizeof b, "%.17g", (double)v); return b; }
    else if constexpr (std::is_same_v<T, bool>) return v ? "1" : "0";
    else return std::to_string((ll)v);
}

template <typename C>
inline std::string show_index(const C& c) {
    std::string s;
    if constexpr (meta::is_maybe_v<C>) {
        if (!nm::has_value(c)) return "nothing"; return show_index(*c);
    } else if constexpr (nm::is_none_v<C>) {
        return "";
    } else if constexpr (meta::is_tuple_v<C>) {
        constexpr auto N = meta::len_v<C>; bool first = true;
        meta::template_for<N>([&](auto i){ if (!first) s += ","; first = false; s += std::to_string((ll)nm::at(c, i)); });
        return s;
    } else if constexpr (meta::is_num_v<C>) {
        return std::to_string((ll)c);
    } else {
        auto n = (size_t)nm::len(c);
        for (size_t i = 0; i < n; i++) { if (i) s += ","; s += std::to_string((ll)nm::at(c, i)); }
        return s;
    }
}

// print any result
template <typename V>
inline std::string show(const V& v) {
    if constexpr (meta::is_either_v<V>) {
        using L = meta::get_either_left_t<V>; using R = meta::get_either_right_t<V>;
        if (auto l = nm::get_if<L>(&v)) return show(*l);
        else return show(*nm::get_if<R>(&v));
    } else if constexpr (meta::is_maybe_v<V>) {
        if (!nm::has_value(v)) return "nothing";
        return show(*v);
    } else if constexpr (meta::is_num_v<V>) {
        return "ok  ; " + num_str(v);
    } else if constexpr (meta::is_fail_v<V>) {
        return "unsupported";
    } else {
        const auto shp_ = nm::shape(v);
        if constexpr (meta::is_maybe_v<std::decay_t<decltype(shp_)>>) {
            if (!nm::has_value(shp_)) return "nothing";
        }
        const auto shp = nm::unwrap(shp_);
        std::string o = "ok " + show_index(shp) + " ;";
        std::vector<size_t> ext; { auto n = (size_t)nm::len(shp);
            if constexpr (meta::is_tuple_v<std::decay_t<decltype(shp)>>) { constexpr auto N = meta::len_v<std::decay_t<decltype(shp)>>; meta::template_for<N>([&](auto i){ ext.push_back((size_t)nm::at(shp, i)); }); (void)n; }
            else for (size_t i = 0; i < n; i++) ext.push_back((size_t)nm::at(shp, i)); }
        size_t total = 1; for (auto e : ext) total *= e;
        if (total > 2000000) return "trap huge-result";
        std::vector<size_t> idx(ext.size(), 0);
        for (size_t c = 0; c < total; c++) {
            o += (c ? "," : " ") + num_str(nm::apply_at(v, idx));
            for (int d = (int)ext.size() - 1; d >= 0; d--) { if (++idx[d] < ext[d]) break; idx[d] = 0; }
        }
        return o;
    }
}

// dispatch helpers: call f with the list as a container of the given kind
//   vec  std::vector<T>   arr  std::array<T,N>   tup  runtime tuple<T...>   sv  utl::static_vector<T,8>
template <typename T, typename F>
inline std::string with_list(const std::string& kind, const std::vector<ll>& v, F&& f) {
    size_t n = v.size();
    if (kind == "vec") return f(vec_of<T>(v));
    if (kind == "arr") {
        switch (n) {
            case 1: return f(arr_of<T,1>(v)); case 2: return f(arr_of<T,2>(v)); case 3: return f(arr_of<T,3>(v));
            case 4: return f(arr_of<T,4>(v));
            default: return "unsupported";
        }
    }
    if (kind == "tup") {
        switch (n) {
            case 1: return f(tup_of<T,1>(v)); case 2: return f(tup_of<T,2>(v)); case 3: return f(tup_of<T,3>(v));
            case 4: return f(tup_of<T,4>(v));
            default: return "unsupported";
        }
    }
    return "unsupported";
}

} // namespace vd
