// c06.cpp — implementation side of the C06 correspondence (broadcasting).
#include "nmtools/array/index/broadcast_shape.hpp"
#include "nmtools/array/index/broadcast_to.hpp"
#include "nmtools/array/view/broadcast_to.hpp"
#include "nmtools/array/view/broadcast_arrays.hpp"
#include "nmtools/array/array/broadcast_to.hpp"
#include "nmtools/utl/static_vector.hpp"
#include "show.hpp"

namespace ix = nmtools::index;
namespace view = nmtools::view;
using namespace vd;

template <typename F>
static std::string with_shape(const std::string& kind, const std::vector<ll>& v, F&& f) {
    if (kind == "vec") return f(vec_of<size_t>(v));
    if (kind == "veci") return f(vec_of<int>(v));
    if (kind == "sv") { nm::utl::static_vector<size_t, 8> a; a.resize(v.size()); for (size_t i = 0; i < v.size(); i++) a[i] = v[i]; return f(a); }
#ifndef VD_LIGHT   // the sanitizer build keeps the run-time-sized kinds only (compile time)
    if (kind == "arr") return with_list<size_t>("arr", v, f);
    if (kind == "arri") return with_list<int>("arr", v, f);
    if (kind == "tup") return with_list<size_t>("tup", v, f);
#endif
    return "unsupported";
}

static std::string handle(const Case& c) {
    const std::string& op = c.op;
    if (op == "bshape") {
        // bshape S:kindA S:kindB L:a L:b
        std::string ka = c.args[0].raw.substr(2), kb = c.args[1].raw.substr(2);
        return with_shape(ka, c.args[2].list, [&](const auto& a){
            return with_shape(kb, c.args[3].list, [&](const auto& b) -> std::string {
                auto r = ix::broadcast_shape(a, b);
                if (!nm::has_value(r)) return "nothing";
                return "ok " + show_index(nm::unwrap(r));
            });
        });
    }
    if (op == "bshape3") {
        // three operands of the same container kind (vec / veci / sv): one instantiation per kind
        std::string k = c.args[0].raw.substr(2);
        auto go = [&](auto tag) -> std::string {
            using T = decltype(tag);
            auto a = vec_of<T>(c.args[1].list); auto b = vec_of<T>(c.args[2].list); auto cc = vec_of<T>(c.args[3].list);
            auto r = ix::broadcast_shape(a, b, cc);
            if (!nm::has_value(r)) return "nothing";
            return "ok " + show_index(nm::unwrap(r));
        };
        if (k == "vec") return go(size_t{});
        if (k == "veci") return go(int{});
        if (k == "sv") {
            auto mk = [](const std::vector<ll>& v){ nm::utl::static_vector<size_t, 8> a; a.resize(v.size()); for (size_t i = 0; i < v.size(); i++) a[i] = v[i]; return a; };
            auto r = ix::broadcast_shape(mk(c.args[1].list), mk(c.args[2].list), mk(c.args[3].list));
            if (!nm::has_value(r)) return "nothing";
            return "ok " + show_index(nm::unwrap(r));
        }
        return "unsupported";
    }
    if (op == "bshape4") {
        auto a = vec_of<size_t>(c.args[0].list); auto b = vec_of<size_t>(c.args[1].list);
        auto cc = vec_of<size_t>(c.args[2].list); auto d = vec_of<size_t>(c.args[3].list);
        auto r = ix::broadcast_shape(a, b, cc, d);
        if (!nm::has_value(r)) return "nothing";
        return "ok " + show_index(nm::unwrap(r));
    }
    if (op == "bto_shape") {
        std::string ka = c.args[0].raw.substr(2), kb = c.args[1].raw.substr(2);
        return with_shape(ka, c.args[2].list, [&](const auto& a){
            return with_shape(kb, c.args[3].list, [&](const auto& b) -> std::string {
                auto r = ix::shape_broadcast_to(a, b);
                if (!nm::has_value(r)) return "nothing";
                const auto& [shp, free] = nm::unwrap(r);
                std::string s = "ok " + show_index(shp) + " ;";
                auto n = (size_t)nm::len(free);
                for (size_t i = 0; i < n; i++) s += (i ? "," : " ") + std::string(nm::at(free, i) ? "1" : "0");
                return s;
            });
        });
    }
    if (op == "bto_view") {
        // bto_view S:kind A:src L:dst   (src data = iota so elements are source offsets)
        std::string k = c.args[0].raw.substr(2);
        auto a = make_array(c.args[1]);
        return with_shape(k, c.args[2].list, [&](const auto& dst) -> std::string {
            auto v = view::broadcast_to(a, dst);
            return show(v);
        });
    }
    if (op == "bto_eval") {
        auto a = make_array(c.args[0]);
        auto dst = vec_of<size_t>(c.args[1].list);
        auto r = nm::array::broadcast_to(a, dst);
        return show(r);
    }
    if (op == "barrays") {
        auto a = make_array(c.args[0]); auto b = make_array(c.args[1]);
        auto r = view::broadcast_arrays(a, b);
        if (!nm::has_value(r)) return "nothing";
        const auto& [x, y] = nm::unwrap(r);
        return show(x) + " | " + show(y);
    }
    if (op == "barrays3") {
        auto a = make_array(c.args[0]); auto b = make_array(c.args[1]); auto d = make_array(c.args[2]);
        auto r = view::broadcast_arrays(a, b, d);
        if (!nm::has_value(r)) return "nothing";
        const auto& [x, y, z] = nm::unwrap(r);
        return show(x) + " | " + show(y) + " | " + show(z);
    }
    return "unsupported";
}

int main() { return vd::run_main(handle); }
