// c20_views.cpp — C20 correspondence, part 2: write-through of mutable views.
// case line:  wt S:<view> S:<layout r|c> L:<source shape> <view argument> L:<view index>
//   view  ref      (argument N)           view::mutable_ref
//         flatten  (argument N)           view::mutable_flatten
//         reshape  (argument L:<shape>)   view::mutable_reshape
//         slice    (argument S:a:b:s;...) view::mutable_slice, one a:b:s per axis (ints, 0<=a<b<=n, s>=1), "rev" = ::-1
// The source buffer holds 0,1,2,... in BUFFER order; -5 is written through the view at
// the given index.  result:
//   ok <view shape> ; changed <buffer position>=<new value>,... ; view <all view elements after the write>
#include "nmtools/array/ndarray.hpp"
#include "nmtools/array/view/mutable_ref.hpp"
#include "nmtools/array/view/mutable_flatten.hpp"
#include "nmtools/array/view/mutable_reshape.hpp"
#include "nmtools/array/view/mutable_slice.hpp"
#include "show.hpp"

namespace view = nmtools::view;
using namespace vd;

struct SliceSpec { bool rev; int a, b, s; };

static std::vector<SliceSpec> parse_slices(const std::string& s) {
    std::vector<SliceSpec> r; size_t p = 0;
    while (p <= s.size()) {
        size_t q = s.find(';', p); if (q == std::string::npos) q = s.size();
        std::string t = s.substr(p, q - p); p = q + 1;
        if (t.empty()) continue;
        if (t == "rev") { r.push_back({true, 0, 0, -1}); continue; }
        size_t c1 = t.find(':'), c2 = t.find(':', c1 + 1);
        r.push_back({false, std::stoi(t.substr(0, c1)), std::stoi(t.substr(c1 + 1, c2 - c1 - 1)), std::stoi(t.substr(c2 + 1))});
    }
    return r;
}

template <typename V>
static std::vector<size_t> shape_of(const V& v, bool& ok) {
    std::vector<size_t> ext; ok = true;
    const auto shp_ = nm::shape(v);
    if constexpr (meta::is_maybe_v<std::decay_t<decltype(shp_)>>) { if (!nm::has_value(shp_)) { ok = false; return ext; } }
    const auto shp = nm::unwrap(shp_);
    using S = std::decay_t<decltype(shp)>;
    if constexpr (meta::is_tuple_v<S>) { constexpr auto N = meta::len_v<S>; meta::template_for<N>([&](auto i){ ext.push_back((size_t)nm::at(shp, i)); }); }
    else { auto n = (size_t)nm::len(shp); for (size_t i = 0; i < n; i++) ext.push_back((size_t)nm::at(shp, i)); }
    return ext;
}

// write -5 through view v of array a at index `at`, report
template <typename A, typename V>
static std::string through(A& a, V& v, const std::vector<ll>& at) {
    if constexpr (meta::is_maybe_v<V>) {
        if (!nm::has_value(v)) return "nothing";
        auto& vv = *v; return through(a, vv, at);
    } else if constexpr (meta::is_fail_v<V>) {
        return "unsupported";
    } else {
        bool ok; auto ext = shape_of(v, ok);
        if (!ok) return "nothing";
        std::vector<ll> before(a.data_.begin(), a.data_.end());
        auto idx = vec_of<size_t>(at);
        if (idx.size() != ext.size()) return "bad-index";
        for (size_t d = 0; d < ext.size(); d++) if (idx[d] >= ext[d]) return "bad-index";
        v(idx) = (ll)-5;
        std::string o = "ok " + join(ext.begin(), ext.end()) + " ; changed";
        bool first = true;
        for (size_t k = 0; k < before.size(); k++) if (a.data_[k] != before[k]) {
            o += (first ? " " : ",") + std::to_string((ll)k) + "=" + std::to_string((ll)a.data_[k]); first = false; }
        o += " ; view";
        size_t total = 1; for (auto e : ext) total *= e;
        std::vector<size_t> j(ext.size(), 0);
        const auto& cv = v;
        for (size_t c = 0; c < total; c++) {
            o += (c ? "," : " ") + std::to_string((ll)cv(j));
            for (int d = (int)ext.size() - 1; d >= 0; d--) { if (++j[d] < ext[d]) break; j[d] = 0; }
        }
        return o;
    }
}

template <typename A, typename K, typename... S>
static std::string do_slice(A& a, const std::vector<SliceSpec>& sp, K&& k, S... s) {
    constexpr size_t n = sizeof...(S);
    if (n == sp.size()) {
        if constexpr (n >= 1) { auto v = view::mutable_slice(a, s...); return k(v); }
        else return "unsupported";
    }
    if constexpr (n < 3) {
        const auto& x = sp[n];
        if (x.rev) return do_slice(a, sp, k, s..., nmtools_tuple{nm::None, nm::None, -1});
        return do_slice(a, sp, k, s..., nmtools_tuple{x.a, x.b, x.s});
    } else return "unsupported";
}

template <typename A>
static std::string run(const Case& c) {
    std::string vk = c.args[0].raw.substr(2);
    const auto& shape = c.args[2].list;
    A a; a.resize(vec_of<size_t>(shape));
    for (size_t k = 0; k < a.data_.size(); k++) a.data_[k] = (ll)k;
    const auto& at = c.args[4].list;
    if (vk == "ref") { auto v = view::mutable_ref(a); return through(a, v, at); }
    if (vk == "flatten") { auto v = view::mutable_flatten(a); return through(a, v, at); }
    if (vk == "reshape") {
        const auto& d = c.args[3].list;
#ifndef VD_LIGHT
        if (c.args.size() > 5 && c.args[5].raw == "S:arr") {
            // fixed-size destination shape: the unrolled arm of the reshaper
            switch (d.size()) {
                case 1: { auto v = view::mutable_reshape(a, arr_of<size_t,1>(d)); return through(a, v, at); }
                case 2: { auto v = view::mutable_reshape(a, arr_of<size_t,2>(d)); return through(a, v, at); }
                case 3: { auto v = view::mutable_reshape(a, arr_of<size_t,3>(d)); return through(a, v, at); }
                default: return "unsupported";
            }
        }
#endif
        auto v = view::mutable_reshape(a, vec_of<size_t>(d)); return through(a, v, at);
    }
    if (vk == "slice") {
        auto sp = parse_slices(c.args[3].raw.substr(2));
        return do_slice(a, sp, [&](auto& v){ return through(a, v, at); });
    }
    return "unsupported";
}

static std::string handle(const Case& c) {
    if (c.op != "wt") return "unsupported";
    std::string lay = c.args[1].raw.substr(2);
    if (lay == "r") return run<dyn_t<ll>>(c);
    if (lay == "c") return run<dyn_col_t<ll>>(c);
    return "unsupported";
}

int main() { return vd::run_main(handle); }
