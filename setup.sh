#!/bin/sh
# setup.sh — offline build of the framework from files on disk: the Coq development
# (full .vo build of every theory file), then per property the extraction of its model
# modules and its OCaml model runner.  C++ drivers are built by the checks themselves
# from /repo's current working tree.
set -e
cd "$(dirname "$0")"
exec python3 harness/setup_all.py
