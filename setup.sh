#!/bin/sh
# setup.sh — offline build of the framework from files on disk: the Coq development
# (full .vo build), the extraction and the OCaml model runner.  C++ drivers are built
# by the checks themselves from /repo's current working tree.
set -e
cd "$(dirname "$0")"
cd coq
coq_makefile -f _CoqProject -o Makefile >/dev/null 2>&1
timeout 3000 make -j16 2>&1 | tail -5
cd ..
python3 -c "
import sys; sys.path.insert(0,'.')
from harness import core
print('model runner:', core.build_model())
"
