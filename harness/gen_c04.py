"""gen_c04.py — the ARGUMENT-FORM table of C04 and the driver TU generated from it (_build/gen/C04/c04_f.cpp).

The same call is made with every scalar argument as run-time int (r), run-time size_t (u), compile-time constant
meta::ct_v<k> (c), the literal k_ct (l, non-negative only), None (n) or omitted (o), and every list argument as
std::vector (v), std::array (a), run-time tuple (t), tuple of meta::ct_v (c), tuple of _ct literals (l).  The KIND of an
argument selects `if constexpr` arms inside the library (constant shapes, run-time shapes, mixed), and a constant is a C++
literal, so each table entry is one generated `if (id == ...)` arm; the values of the constants live in the table and are
written into both the case line (for the Model, which ignores the form) and the C++ expression.
Entry: (id, op, [line args], C++ expression over `c.args[i]`).  Case line: `<op>_f S:<id> <line args>`."""
import os

VERIF = os.path.dirname(os.path.dirname(os.path.abspath(__file__)))
GEN = os.path.join(VERIF, "_build", "gen", "C04")


def _iota(shape, base=0):
    n = 1
    for x in shape: n *= x
    return "A:%s:%s" % (",".join(map(str, shape)), ",".join(map(str, range(base, base + n))))


class _B:
    """builds one entry: collects line args and renders the C++ arguments"""
    def __init__(self): self.args = []; self.tags = []; self.aforms = []
    def arr(self, shape, base=0):
        self.aforms.append("A"); self.args.append(_iota(shape, base)); return "make_array(c.args[%d])" % len(self.args)
    def sc(self, form, v):
        """scalar argument in the given form; returns the C++ text ('' for an omitted trailing argument)"""
        self.tags.append(form + str(v)); self.aforms.append(form)
        if form == "n": self.args.append("N"); return "None"
        self.args.append("I:%d" % v)
        k = len(self.args)
        if form == "o": return ""
        if form == "r": return "(int)c.args[%d].val" % k
        if form == "u": assert v >= 0; return "(size_t)c.args[%d].val" % k
        if form == "c": return "meta::ct_v<%d>" % v
        if form == "l": assert v >= 0; return "%d_ct" % v
        raise ValueError(form)
    def dbl(self, v):
        self.aforms.append("d"); self.args.append("I:%d" % v); return "(double)c.args[%d].val" % len(self.args)
    def ls(self, form, vals):
        self.tags.append(form + "_".join(str(x) for x in vals).replace("-", "m")); self.aforms.append("L" + form)
        self.args.append("L:" + ",".join(map(str, vals))); k = len(self.args); n = len(vals)
        if form == "v": return "vec_of<int>(c.args[%d].list)" % k
        if form == "a": return "arr_of<int,%d>(c.args[%d].list)" % (n, k)
        if form == "t": return "tup_of<int,%d>(c.args[%d].list)" % (n, k)
        if form == "c": return "nmtools_tuple{%s}" % ",".join("meta::ct_v<%d>" % x for x in vals)
        if form == "l": assert min(vals) >= 0; return "nmtools_tuple{%s}" % ",".join("%d_ct" % x for x in vals)
        raise ValueError(form)


def _call(fn, parts, tail=""):
    parts = [p for p in parts if p != ""]
    return "%s(%s%s)" % (fn, ", ".join(parts), tail)


def table():
    E = []
    def add(op, b, expr, show="show"):
        eid = op + "." + ".".join(b.tags).replace("-", "m")
        assert eid not in [e[0] for e in E], eid
        E.append((eid, op, list(b.args), "%s(%s)" % (show, expr), list(b.aforms)))

    # ---------------- tri / eye: (N, M, k) — both constant, constant + run-time, run-time + constant, constant + None, ...
    NMK = [(3, 4, 1), (4, 2, -1), (2, 3, 2)]
    forms3 = ["ccr", "ccc", "llr", "crr", "rcr", "cnr", "cnc", "rrr", "uur", "rnr", "lrc", "rlr", "ucr", "lnr", "rcc", "crc"]
    for fn in ("tri", "eye"):
        for j, f in enumerate(forms3):
            for (n, m, k) in (NMK if f in ("ccr", "ccc") else [NMK[j % 3], NMK[(j + 1) % 3]]):
                if f[2] in "lu" and k < 0: continue
                b = _B(); parts = [b.sc(f[0], n), b.sc(f[1], m), b.sc(f[2], k)]
                add(fn, b, _call("view::" + fn, parts, ", nm::int64"))
        for f, (n, m) in [("co", (3, 4)), ("lo", (2, 3)), ("ro", (4, 2)), ("cc", (3, 4)), ("cr", (4, 2)), ("rc", (2, 3)), ("ll", (4, 3))]:
            b = _B()                                        # k (and M) omitted, default dtype
            parts = [b.sc(f[0], n), b.sc(f[1], m if f[1] != "o" else n), b.sc("o", 0)]
            if f[1] == "o": b.args[1] = "N"
            add(fn + "d", b, _call("view::" + fn, parts))
    for f, n in [("r", 3), ("u", 2), ("c", 4), ("l", 3)]:
        b = _B(); add("identity", b, _call("view::identity", [b.sc(f, n)], ", nm::int64"))

    # ---------------- arange: (start, stop, step) and the shorter overloads
    SSS = [(0, 5, 2), (1, 8, 3), (5, 0, -2), (3, -4, -2)]
    for j, f in enumerate(["ccc", "lll", "rrr", "crr", "rcr", "rrc", "ccr", "rcc", "crc", "llr", "uur"]):
        for (a, s, p) in [SSS[j % 4], SSS[(j + 2) % 4]]:
            if any(ff in "lu" and v < 0 for ff, v in zip(f, (a, s, p))): continue
            b = _B(); parts = [b.sc(f[0], a), b.sc(f[1], s), b.sc(f[2], p)]
            add("arange", b, _call("view::arange", parts, ", nm::int64"), "show1")
    # mixed signed / unsigned arguments of a decreasing range, and start / stop above 2^24 with a small difference
    for f, (a, s, p) in [("rur", (5, 0, -1)), ("urr", (5, 0, -2)), ("ruc", (4, 1, -1)), ("ucr", (6, 1, -2)), ("uur", (7, 2, -3)),
                         ("rrr", (16777217, 16777219, 1)), ("uur", (16777217, 16777220, 1)), ("ccc", (16777217, 16777219, 1)), ("rur", (16777219, 16777216, -1))]:
        b = _B(); parts = [b.sc(f[0], a), b.sc(f[1], s), b.sc(f[2], p)]
        add("arange", b, _call("view::arange", parts, ", nm::int64"), "show1")
    for f, s in [("c", 4), ("l", 3), ("r", 5), ("u", 2)]:
        b = _B(); add("arange1", b, _call("view::arange", [b.sc(f, s)], ", nm::int64"), "show1")
    for f, (a, s) in [("cc", (2, 5)), ("cr", (1, 4)), ("rc", (-2, 3)), ("rr", (0, 3)), ("ll", (1, 6)), ("rr", (16777217, 16777219)), ("uc", (16777217, 16777219))]:
        b = _B(); add("arange2", b, _call("view::arange", [b.sc(f[0], a), b.sc(f[1], s)], ", nm::int64"), "show1")
    # ---------------- linspace: num and endpoint forms (start / stop run-time double)
    for j, (fnum, fend) in enumerate([("r", "T"), ("u", "F"), ("c", "T"), ("l", "F"), ("c", "b1"), ("u", "b0"), ("r", "o"), ("l", "o"), ("c", "F"), ("u", "T")]):
        a, s, num = [(0, 1, 5), (2, 5, 4), (-1, 3, 3), (5, -1, 4), (2, 5, 1)][j % 5]
        b = _B(); parts = [b.dbl(a), b.dbl(s), b.sc(fnum, num)]
        e = {"T": (1, "nm::True"), "F": (0, "nm::False"), "b1": (1, "(bool)c.args[4].val"), "b0": (0, "(bool)c.args[4].val"), "o": (1, "")}[fend]
        b.args.append("I:%d" % e[0]); b.tags.append(fend); b.aforms.append("e"); parts.append(e[1])
        add("linspace", b, _call("view::linspace", parts), "approx_show")

    # ---------------- k of diagflat / tril / triu
    for fn, shapes in (("diagflat", [(3,), (2, 2)]), ("tril", [(3, 4), (2, 3, 3)]), ("triu", [(4, 3), (3,)])):
        for j, (f, k) in enumerate([("r", 1), ("c", -1), ("l", 2), ("o", 0), ("c", 1), ("u", 1)]):
            if fn == "diagflat" and f == "u": continue
            b = _B(); a = b.arr(shapes[j % 2], 1)
            add(fn, b, _call("view::" + fn, [a, b.sc(f, k)]))

    # ---------------- repeat(a, repeats, axis), roll(a, shift, axis)
    for j, (f, r, ax) in enumerate([("cc", 2, 1), ("cr", 3, -1), ("cn", 2, None), ("rc", 2, -2), ("uu", 3, 0), ("lc", 2, -1), ("cl", 3, 1), ("ln", 3, None), ("ru", 2, 1)]):
        b = _B(); a = b.arr([(2, 3), (3, 2), (2, 2, 2)][j % 3])
        parts = [a, b.sc(f[0], r), b.sc(f[1], ax if ax is not None else 0)]
        add("repeat", b, _call("view::repeat", parts), "show1" if ax is None else "show")
    for j, (f, sh, ax) in enumerate([("cc", -4, 1), ("cr", 5, -1), ("co", 7, None), ("rc", -2, -2), ("cl", -1, 0), ("lc", 3, -1), ("lo", 2, None), ("ru", 4, 1), ("ll", 1, 1)]):
        b = _B(); a = b.arr([(2, 3), (3, 2), (2, 2, 3)][j % 3])
        parts = [a, b.sc(f[0], sh), b.sc(f[1], ax if ax is not None else 0)]
        if ax is None: b.args[-1] = "N"
        add("roll", b, _call("view::roll", parts))
    for (fs, fa, sh, axes) in [("c", "c", (1, -2), (0, 1)), ("a", "c", (3, 1), (-1, 0)), ("c", "a", (-1, 2), (1, 0)), ("t", "t", (2, 5), (0, -1)), ("l", "l", (1, 2), (0, 1)), ("v", "c", (4, -3), (1, 2))]:
        b = _B(); a = b.arr((2, 3) if max(max(axes), 1) < 2 else (2, 2, 3))
        add("roll_m", b, _call("view::roll", [a, b.ls(fs, sh), b.ls(fa, axes)]))
    b = _B(); a = b.arr((2, 3)); add("roll_ms", b, _call("view::roll", [a, b.sc("c", -1), b.ls("c", (0, 1))]))
    b = _B(); a = b.arr((3, 2)); add("roll_ms", b, _call("view::roll", [a, b.sc("r", 2), b.ls("l", (1, 0))]))

    # ---------------- list arguments as tuples of literals: tile, pad, resize, full / zeros / ones
    for reps, s in [((2, 1), (2, 3)), ((1, 2, 2), (3,))]:
        b = _B(); a = b.arr(s); add("tile", b, _call("view::tile", [a, b.ls("l", reps)]))
    for w, s in [((1, 0, 2, 1), (2, 3)), ((0, 2), (3,))]:
        b = _B(); a = b.arr(s); add("pad", b, _call("view::pad", [a, b.ls("l", w)], ", (ll)-1"))
    for d, s in [((3, 2), (2, 3)), ((5,), (3,))]:
        b = _B(); a = b.arr(s); add("resize", b, _call("view::resize", [a, b.ls("l", d)]))
    for fn, tail in (("full", ", (ll)7"), ("zeros", ", nm::int64"), ("ones", ", nm::int64")):
        b = _B(); shp = b.ls("l", (2, 3))
        if fn == "full": b.args.append("I:7"); b.aforms.append("x")
        add(fn, b, _call("view::" + fn, [shp], tail))

    # ---------------- take(a, indices, axis), concatenate(a, b, axis)
    for j, (fl, fa, ind, ax) in enumerate([("c", "c", (2, 0, 0), 1), ("c", "r", (1, 1), 0), ("a", "c", (0, 2, 1), -1), ("v", "l", (1, 0), 1), ("l", "c", (1, 0, 1), -2), ("t", "u", (2, 2), 1)]):
        b = _B(); a = b.arr((2, 3))
        add("take", b, _call("view::take", [a, b.ls(fl, ind), b.sc(fa, ax)]))
    for fl, ind in [("c", (5, 0, 3)), ("l", (1, 1, 4)), ("t", (4, 2))]:
        b = _B(); a = b.arr((2, 3)); parts = [a, b.ls(fl, ind), b.sc("n", 0)]
        add("take", b, _call("view::take", parts), "show1")
    for f, ax in [("l", 1), ("c", -1), ("u", 0), ("c", 0)]:
        b = _B(); a = b.arr((2, 3)); t = (2, 2) if ax in (1, -1) else (1, 3)
        add("concat", b, _call("view::concatenate", [a, b.arr(t, 100), b.sc(f, ax)]))

    # ---------------- split(a, sections | indices, axis)
    for f, n, ax, s in [("cc", 2, 0, (4, 3)), ("cr", 3, 1, (2, 3)), ("rc", 2, -1, (3, 4)), ("ll", 2, 1, (2, 4)), ("rr", 3, -2, (3, 2)), ("cc", 3, -1, (2, 6))]:
        b = _B(); a = b.arr(s); add("split", b, _call("view::split", [a, b.sc(f[0], n), b.sc(f[1], ax)]), "show_parts")
    for fl, fa, idx, ax, s in [("c", "c", (1, 3), 0, (4, 3)), ("l", "r", (2,), 1, (2, 4)), ("a", "c", (1,), -1, (2, 3)), ("c", "r", (1, 2), -2, (3, 2))]:
        b = _B(); a = b.arr(s); add("split_l", b, _call("view::split", [a, b.ls(fl, idx), b.sc(fa, ax)]), "show_parts")

    # ---------------- expand(a, axis, spacing, fill), sliding_window(a, window, axis)
    for f, ax, q in [("cc", 1, 1), ("cr", -1, 2), ("rc", 0, 1), ("ll", 1, 2), ("ru", 0, 1), ("uc", 1, 2)]:
        b = _B(); a = b.arr((2, 3)); parts = [a, b.sc(f[0], ax), b.sc(f[1], q)]
        add("expand", b, _call("view::expand", parts, ", (ll)-1"))
    for fa, fq, axes, q in [("c", "c", (0, 1), (1, 2)), ("a", "a", (-1, 0), (2, 1)), ("t", "v", (1, 0), (1, 1)), ("l", "l", (0, 1), (2, 1))]:
        b = _B(); a = b.arr((2, 3)); add("expand_m", b, _call("view::expand", [a, b.ls(fa, axes), b.ls(fq, q)], ", (ll)-1"))
    for f, w, ax, s in [("cc", 2, 1, (3, 4)), ("cr", 3, -1, (2, 4)), ("rc", 2, -2, (3, 3)), ("ll", 2, 0, (3, 2)), ("co", 2, None, (4,)), ("lo", 3, None, (5,))]:
        b = _B(); a = b.arr(s); parts = [a, b.sc(f[0], w), b.sc(f[1], ax if ax is not None else 0)]
        if ax is None: b.args[-1] = "N"
        add("sw1", b, _call("view::sliding_window", parts))
    for fw, fa, w, axes, s in [("c", "c", (2, 3), (0, 1), (3, 4)), ("a", "a", (2, 2), (-1, 0), (3, 3)), ("t", "t", (2,), (1,), (2, 3)), ("c", "a", (2,), (-2,), (3, 2)), ("l", "l", (2, 2), (1, 0), (3, 3))]:
        b = _B(); a = b.arr(s); add("sw", b, _call("view::sliding_window", [a, b.ls(fw, w), b.ls(fa, axes)]))
    for fw, w, s in [("l", (2, 2), (3, 4)), ("c", (1, 2, 2), (2, 3, 2))]:
        b = _B(); a = b.arr(s); wv = b.ls(fw, w); b.args.append("N"); b.aforms.append("n"); add("sw", b, _call("view::sliding_window", [a, wv]))
    return E


# ops whose base handler (ocaml/h_c04.ml) takes a leading container-kind argument
TAKES_KIND = {"repeat", "roll", "roll_m", "roll_ms", "tile", "pad", "resize", "full", "zeros", "ones", "take", "concat",
              "split_l", "expand", "expand_m", "sw", "sw1", "tril", "triu"}
BASE = {"trid": "tri", "eyed": "eye"}      # defaulted-argument forms use the base handler of tri / eye


def lines(rng=None):
    """[(case line, entry id)] — one line per table entry; with an rng the run-time (r / u) arguments of the generators
    tri / eye / identity / arange get a second line with other values (the constants are fixed by the table)"""
    out = []
    for (eid, op, args, _, forms) in table():
        out.append(("%s_f S:%s %s" % (op, eid, " ".join(args)), eid))
        if rng is None or op not in ("tri", "eye", "trid", "eyed", "identity", "arange", "arange1", "arange2"): continue
        if not any(f in "ru" for f in forms): continue
        new = list(args)
        for j, f in enumerate(forms):
            if f not in "ru": continue
            if op.startswith("arange"):
                v = int(args[j][2:]); v = v + rng.choice([-1, 0, 1]) if (j < 2 or op != "arange") else v     # keep the step
                if f == "u": v = max(v, 0)
            elif j == 2: v = rng.randint(0 if f == "u" else -2, 2)
            else: v = rng.randint(1, 4)
            new[j] = "I:%d" % v
        if op == "arange":                      # keep the range direction consistent with the step
            a_, s_, p_ = (int(x[2:]) for x in new)
            if (s_ - a_) * p_ < 0: continue
        if new != list(args): out.append(("%s_f S:%s %s" % (op, eid, " ".join(new)), eid))
    return out


HEAD = r'''// c04_f.cpp — GENERATED by harness/gen_c04.py (do not edit): the ARGUMENT-FORM table of C04.
// Every entry is one call of a generating / parameterised view with its scalar arguments as run-time int, run-time size_t,
// meta::ct_v<k>, k_ct, None or omitted and its list arguments as vector / array / tuple / tuple of constants; the constants
// are literals of the table.  Case line: <op>_f S:<entry id> <args>; the Model ignores the form.
#include "nmtools/array/view/tri.hpp"
#include "nmtools/array/view/eye.hpp"
#include "nmtools/array/view/identity.hpp"
#include "nmtools/array/view/arange.hpp"
#include "nmtools/array/view/linspace.hpp"
#include "nmtools/array/view/full.hpp"
#include "nmtools/array/view/zeros.hpp"
#include "nmtools/array/view/ones.hpp"
#include "nmtools/array/view/diagflat.hpp"
#include "nmtools/array/view/tril.hpp"
#include "nmtools/array/view/triu.hpp"
#include "nmtools/array/view/repeat.hpp"
#include "nmtools/array/view/roll.hpp"
#include "nmtools/array/view/tile.hpp"
#include "nmtools/array/view/pad.hpp"
#include "nmtools/array/view/resize.hpp"
#include "nmtools/array/view/take.hpp"
#include "nmtools/array/view/concatenate.hpp"
#include "nmtools/array/view/split.hpp"
#include "nmtools/array/view/expand.hpp"
#include "nmtools/array/view/sliding_window.hpp"
#include "show.hpp"
#include "c04_common.hpp"

namespace view = nmtools::view;
using namespace vd;
using namespace nmtools::literals;
using nm::None;

template <typename V> static std::string approx_show(const V& v) { std::string r = show(v); if (r.rfind("ok ", 0) == 0) r = "ok~" + r.substr(2); return r; }
template <typename Parts>
static std::string show_parts(const Parts& parts) {
    std::string o;
    if constexpr (meta::is_tuple_v<Parts>) {
        constexpr auto N = meta::len_v<Parts>; bool first = true;
        meta::template_for<N>([&](auto i){ if (!first) o += " | "; first = false; o += show(nm::at(parts, i)); });
    } else {
        for (size_t i = 0; i < parts.size(); i++) { if (i) o += " | "; o += show(parts[i]); }
    }
    return o;
}

'''


def source(skip=()):
    out = [HEAD]
    ents = [e for e in table() if e[0] not in skip]
    # a few functions instead of one: keeps each function body (and the compiler's memory) small
    chunks = [ents[i:i + 24] for i in range(0, len(ents), 24)]
    for n, ch in enumerate(chunks):
        out.append("static bool part%d(const Case& c, const std::string& id, std::string& r) {\n" % n)
        for (eid, op, args, expr, _forms) in ch:
            out.append('    if (id == "%s") { r = %s; return true; }\n' % (eid, expr))
        out.append("    return false;\n}\n")
    out.append("static std::string handle(const Case& c) {\n    if (c.args.empty() || c.args[0].raw.size() < 2) return \"unsupported\";\n"
               "    const std::string id = c.args[0].raw.substr(2); std::string r;\n")
    for n in range(len(chunks)): out.append("    if (part%d(c, id, r)) return r;\n" % n)
    out.append("    return \"unsupported\";\n}\n\nint main() { return vd::run_main(handle); }\n")
    return "".join(out)


# entries the library does not compile (an unsupported combination of argument kinds, recorded in notes/C04.md)
SKIP = ()


def write_driver():
    path = os.path.join(GEN, "c04_f.cpp")
    txt = source(SKIP)
    os.makedirs(GEN, exist_ok=True)
    if not (os.path.exists(path) and open(path).read() == txt):
        tmp = path + ".tmp%d" % os.getpid(); open(tmp, "w").write(txt); os.replace(tmp, path)
    return path


if __name__ == "__main__":
    print(write_driver(), len(table()), "entries")
