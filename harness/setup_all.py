#!/usr/bin/env python3
"""setup_all.py — build every Coq theory file (full .vo) and every property's model runner."""
import os, sys
sys.path.insert(0, os.path.dirname(os.path.dirname(os.path.abspath(__file__))))
from harness import core

def main():
    ok, out = core.coq_build("all", timeout=3000)
    print(out[-1500:])
    if not ok:
        print("coq build failed"); sys.exit(1)
    for p in core.all_props():
        print("model runner %s: %s" % (p.ID, core.build_model(p)))

if __name__ == "__main__":
    main()
