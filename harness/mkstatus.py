#!/usr/bin/env python3
"""mkstatus.py — regenerate the machine-derived tables of DESIGN.md section 0 (between the STATUS markers):
per-property theorem / finding counts (from harness/props and known_findings*), the fix: commits in /repo,
and the seeded changes under seeded/ with which check catches them."""
import glob, json, os, re, subprocess, sys
VERIF = os.path.dirname(os.path.dirname(os.path.abspath(__file__)))
sys.path.insert(0, VERIF)
from harness import core

def findings():
    out = {}
    for k in core.load_known():
        out.setdefault(k.get("property"), []).append(k)
    return out

def main():
    kf = findings()
    L = []
    L.append("| id | model modules | theorems proved / partial / refuted | known-finding classes | notes |")
    L.append("|---|---|---|---|---|")
    for p in core.all_props():
        ts = getattr(p, "THEOREM_STATUS", {})
        f = [k for k in kf.get(p.ID, []) if k.get("kind") == "finding"]
        L.append("| %s | %s | %d / %d / %d | %d | notes/%s.md |" % (p.ID, ", ".join(p.MODEL_MODULES), len(ts.get("proved", [])),
                 len(ts.get("partial", [])), len(ts.get("refuted", [])), len(f), p.ID))
    L.append("")
    L.append("Repairs committed in `/repo` (`fix:` commits, pinned suite unchanged; also listed as kind=fixed in known_findings.jsonl):")
    L.append("")
    log = subprocess.run(["git", "-C", "/repo", "log", "--reverse", "--format=%h %s", "92de468..HEAD"], capture_output=True, text=True).stdout.strip().split("\n")
    for l in log: L.append("* `%s`" % l)
    L.append("")
    L.append("Seeded changes kept under `seeded/` (made by independent sub-agents that saw only the property text):")
    L.append("")
    L.append("| seeded change | property | needs to manifest | caught by | replay |")
    L.append("|---|---|---|---|---|")
    for m in sorted(glob.glob(os.path.join(VERIF, "seeded", "*", "meta.json"))):
        j = json.load(open(m))
        L.append("| %s | %s | %s | %s | %s |" % (os.path.basename(os.path.dirname(m)), j.get("property"), str(j.get("needs_to_manifest", ""))[:160].replace("|", "/"),
                 j.get("caught_by", "?"), str(j.get("replay", ""))[:120].replace("|", "/")))
    txt = "\n".join(L) + "\n"
    p = os.path.join(VERIF, "DESIGN.md"); s = open(p).read()
    a = s.index("<!-- STATUS-BEGIN -->") + len("<!-- STATUS-BEGIN -->\n"); b = s.index("<!-- STATUS-END -->")
    open(p, "w").write(s[:a] + txt + s[b:])
    print("status tables written")

if __name__ == "__main__":
    main()
