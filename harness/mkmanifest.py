#!/usr/bin/env python3
"""mkmanifest.py — regenerate /verif/MANIFEST.json from the table below (kept in one place so that
the manifest stays valid and in step with what is built)."""
import json, os, subprocess
VERIF = os.path.dirname(os.path.dirname(os.path.abspath(__file__)))

NOTE = ("Trusted: Coq 8.16.1 kernel; no axioms (Print Assumptions re-run on every check, must print 'Closed under the global "
        "context'); ExtrOcamlBasic extraction (no Extract Constant); ocaml/common.ml + ocaml/h_<id>.ml; the Python harness; the C++ drivers; g++ 12. "
        "The Model is hand written; it is tied to /repo by the differential correspondence run on every check against the "
        "current working tree, so Impl~Model holds on the explored cases only, Model|=Spec for all inputs of the stated domain.")

import sys
sys.path.insert(0, VERIF)
from harness import core
READY = set(open(os.path.join(VERIF, "harness", "claimed.txt")).read().split())   # reviewed & passing on the unchanged tree
CLAIMED = {p.ID: p.CLAIM for p in core.all_props() if getattr(p, "CLAIM", None) and p.ID in READY}

REASON_TODO = "check not built yet in this round (framework under construction); planned, see DESIGN.md section 5"
NOT_APPLICABLE = {}


def main():
    ids = [json.loads(l)["id"] for l in open(os.path.join(VERIF, "properties.jsonl"))]
    try:
        commits = subprocess.run(["git", "-C", "/repo", "log", "--format=%H %s", "--grep=^hook:"], capture_output=True, text=True).stdout.split("\n")
        commits = [c.split(" ")[0] for c in commits if c.strip()]
    except Exception:
        commits = []
    m = {
        "version": 1,
        "setup_cmd": "./setup.sh",
        "hooks": {
            "guard": "NMTOOLS_VERIF",
            "enable": "every driver is compiled with -DNMTOOLS_VERIF -I/repo/include by harness/core.py (build_driver)",
            "baseline_off_cmd": "cmake --build /repo/_build -j16 && ctest --test-dir /repo/_build -j8 --timeout 900",
            "source_commits": commits,
            "add_only": True,
        },
        "engines": [
            {"name": "coq", "path": "coq/", "serves_properties": sorted(CLAIMED), "kind_free_text": "Coq 8.16.1 development: Model/Spec definitions, proofs, Properties_<id>.v (statements only)"},
            {"name": "extracted-model", "path": "ocaml/", "serves_properties": sorted(CLAIMED), "kind_free_text": "OCaml runner of the extracted Model and Spec"},
            {"name": "cxx-drivers", "path": "drivers/", "serves_properties": sorted(CLAIMED), "kind_free_text": "C++17 drivers calling the real nmtools API, rebuilt from /repo's working tree"},
            {"name": "harness", "path": "harness/", "serves_properties": sorted(CLAIMED), "kind_free_text": "case generators, judge, known findings, evidence"},
        ],
        "checks": [],
        "notes": "All checks: ./check <id> --tier quick|thorough (honours VERIF_SEED, VERIF_TIER). See DESIGN.md.",
        "not_applicable": [],
    }
    for pid in ids:
        if pid in CLAIMED:
            c = CLAIMED[pid]
            m["checks"].append({
                "property_id": pid,
                "quick_cmd": "./check %s --tier quick" % pid,
                "thorough_cmd": "./check %s --tier thorough" % pid,
                "evidence_file": "/verif/evidence/%s.json" % pid,
                "replay_cmd_template": "./check %s --replay {path}" % pid,
                "engine": "coq",
                "level_claimed": {"category": "proof", "text": c["text"], "design_ref": "DESIGN.md section " + c["ref"]},
                "level_note": NOTE + (" " + c["extra"] if c.get("extra") else ""),
                "technique": c["technique"],
            })
        else:
            m["not_applicable"].append({"property_id": pid, "reason": NOT_APPLICABLE.get(pid, REASON_TODO)})
    json.dump(m, open(os.path.join(VERIF, "MANIFEST.json"), "w"), indent=1)
    print("claimed:", sorted(CLAIMED))


if __name__ == "__main__":
    main()
