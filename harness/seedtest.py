#!/usr/bin/env python3
"""seedtest.py <source dir with patch.diff demo.cpp meta.json> <seed name> <property id> [more property ids ...]

Confirms a seeded change made by an independent sub-agent and records which checks catch it:
  1. a scratch copy of /repo HEAD (include + tests) is made outside /repo and /verif, the patch applied there;
  2. the demonstration is built and run against /repo (must PASS) and against the patched copy (must FAIL);
  3. optional pinned test sources (--pinned group file ...) are compiled and run against the patched copy;
  4. `VERIF_REPO=<scratch> ./check <id> --tier quick` is run for each given property; exit code, VIOLATION lines and the
     first replay are recorded;
  5. seeded/<name>/{patch.diff, demo.cpp, meta.json, replay.json} are written; the scratch copy is removed.
"""
import json, os, re, shutil, subprocess, sys, time
VERIF = os.path.dirname(os.path.dirname(os.path.abspath(__file__)))


def sh(cmd, **kw):
    return subprocess.run(cmd, shell=isinstance(cmd, str), stdout=subprocess.PIPE, stderr=subprocess.STDOUT, text=True, **kw)


def build_run_demo(demo, inc, out, extra=""):
    r = sh("g++ -std=c++17 -O1 -w %s -I%s %s -o %s" % (extra, inc, demo, out), timeout=1800)
    if r.returncode != 0: return "compile-error", r.stdout[-1500:]
    try:
        r = sh([out], timeout=300)
    except subprocess.TimeoutExpired:
        return "timeout", ""
    return ("pass" if r.returncode == 0 else "fail(%d)" % r.returncode), r.stdout[-600:]


def main():
    args = sys.argv[1:]
    pinned = []
    if "--pinned" in args:
        k = args.index("--pinned"); pinned = args[k + 1:]; args = args[:k]
    src, name, pids = args[0], args[1], args[2:]
    scratch = "/tmp/seed_%s" % name
    shutil.rmtree(scratch, ignore_errors=True); os.makedirs(scratch)
    sh("git -C /repo archive HEAD include tests | tar -x -C %s" % scratch)
    patch = os.path.join(src, "patch.diff")
    r = sh("patch -p1 --no-backup-if-mismatch -d %s < %s" % (scratch, patch))
    meta = json.load(open(os.path.join(src, "meta.json"))) if os.path.exists(os.path.join(src, "meta.json")) else {}
    rec = {"property": pids[0], "summary": meta.get("summary"), "needs_to_manifest": meta.get("needs_to_manifest"),
           "files_changed": meta.get("files_changed"), "made_by": "independent sub-agent given only the property text and a scratch worktree",
           "repo_head": sh("git -C /repo rev-parse --short HEAD").stdout.strip(), "patch_applies": r.returncode == 0,
           "agent_pinned_tests": meta.get("pinned_tests_run"), "agent_pinned_result": meta.get("pinned_tests_result")}
    if r.returncode != 0:
        rec["error"] = r.stdout[-800:]; print(json.dumps(rec, indent=1)); shutil.rmtree(scratch); return 1
    demo = os.path.join(src, "demo.cpp")
    extra = meta.get("demo_flags", "")
    if "simd" in open(patch).read() or "-mavx" in open(demo).read(): extra += " -mavx2 -mfma"
    rec["demo_on_original"], o1 = build_run_demo(demo, "/repo/include", "/tmp/seed_%s_demo0" % name, extra)
    rec["demo_on_patched"], o2 = build_run_demo(demo, os.path.join(scratch, "include"), "/tmp/seed_%s_demo1" % name, extra)
    rec["demo_output_patched"] = o2[-300:]
    for f in ("/tmp/seed_%s_demo0" % name, "/tmp/seed_%s_demo1" % name):
        if os.path.exists(f): os.remove(f)
    if pinned:
        r = sh(["/root/mut_tools/run_pinned_subset.sh", scratch] + pinned, timeout=7200)
        rec["pinned_subset"] = {"args": pinned, "tail": r.stdout[-400:]}
    rec["checks"] = {}
    caught = []
    for pid in pids:
        t0 = time.time()
        env = dict(os.environ); env["VERIF_REPO"] = scratch
        r = subprocess.run(["./check", pid, "--tier", "quick"], cwd=VERIF, env=env, stdout=subprocess.PIPE, stderr=subprocess.STDOUT, text=True)
        viol = [l for l in r.stdout.split("\n") if l.startswith("VIOLATION")]
        summary = [l for l in r.stdout.split("\n") if l.startswith("[%s]" % pid)]
        rec["checks"][pid] = {"exit": r.returncode, "violations": viol[:6], "summary": summary[-1:] , "wall_s": round(time.time() - t0, 1)}
        if r.returncode == 1 and viol:
            caught.append(pid)
            m = re.search(r"replay=(\S+)", viol[0])
            if m and os.path.exists(m.group(1)) and "replay" not in rec:
                rp = json.load(open(m.group(1)))
                rec["replay"] = rp.get("case") or str(rp.get("no_longer_checks", ""))[:300]
                dst = os.path.join(VERIF, "seeded", name); os.makedirs(dst, exist_ok=True)
                json.dump(rp, open(os.path.join(dst, "replay.json"), "w"), indent=1)
    rec["caught_by"] = ", ".join(caught) if caught else "MISSED"
    dst = os.path.join(VERIF, "seeded", name); os.makedirs(dst, exist_ok=True)
    shutil.copy(patch, os.path.join(dst, "patch.diff")); shutil.copy(demo, os.path.join(dst, "demo.cpp"))
    rec["what_was_run"] = "harness/seedtest.py: demo built+run on /repo and on a patched scratch copy; VERIF_REPO=<patched copy> ./check <id> --tier quick for " + ", ".join(pids)
    json.dump(rec, open(os.path.join(dst, "meta.json"), "w"), indent=1)
    shutil.rmtree(scratch, ignore_errors=True)
    print(json.dumps({k: rec[k] for k in ("demo_on_original", "demo_on_patched", "caught_by", "checks")}, indent=1))
    return 0


if __name__ == "__main__":
    sys.exit(main())
