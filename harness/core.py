"""core.py — orchestration shared by all property checks.

Per run (see DESIGN.md section 7):
  1. build the Coq development up to Properties_<id>.vo (full .vo build), list the
     property theorems, re-print their assumptions, run the grep gate;
  2. extract the model and build the OCaml runner;
  3. build the C++ driver(s) against /repo's *current* working tree (cache keyed
     by the content hash of /repo/include, the driver source and the flags);
  4. generate the cases, run both sides, judge every case:
        impl == spec                      -> the property holds on this input
        impl != spec, listed finding class -> KNOWN-FINDING
        impl != spec otherwise             -> VIOLATION (smallest such case is the replay)
     and, on the theorem's domain, model == spec must hold (else the check itself
     is broken) so impl != model there is the same event as impl != spec;
  5. write evidence/<id>.json.
"""
import fcntl, hashlib, json, os, random, re, subprocess, sys, time, shutil
from collections import Counter, defaultdict

VERIF = os.path.dirname(os.path.dirname(os.path.abspath(__file__)))
REPO = os.environ.get("VERIF_REPO", "/repo")
BUILD = os.path.join(VERIF, "_build")
COQ = os.path.join(VERIF, "coq")
CXX = os.environ.get("VERIF_CXX", "g++")
NPROC = os.cpu_count() or 4

FLAVOURS = {
    # the pinned suite's configuration (asserts compiled out)
    "ndebug": ["-std=c++17", "-O1", "-DNDEBUG", "-DNMTOOLS_VERIF", "-w"],
    # asserts on, sanitizers on
    "asan": ["-std=c++17", "-O1", "-g", "-DNMTOOLS_VERIF", "-w",
             "-fsanitize=address,undefined", "-fno-sanitize-recover=all"],
    "debug": ["-std=c++17", "-O1", "-DNMTOOLS_VERIF", "-w"],
}

ALLOWED_AXIOMS = set()   # stdlib axioms a property may depend on; none needed so far

FORBIDDEN = re.compile(r"\b(Admitted|admit|Axiom|Axioms|Parameter|Parameters|Conjecture|Conjectures|Unset Guard Checking|"
                       r"bypass_check|Admit Obligations|Unset Positivity Checking|Unset Universe Checking)\b|type-in-type|impredicative-set")


class CheckBroken(Exception):
    """the machinery itself failed (not a statement about nmtools)"""


def log(*a):
    print(*a, file=sys.stderr, flush=True)


class Lock:
    def __init__(self, name):
        os.makedirs(BUILD, exist_ok=True)
        self.path = os.path.join(BUILD, name + ".lock")
    def __enter__(self):
        self.f = open(self.path, "w"); fcntl.flock(self.f, fcntl.LOCK_EX); return self
    def __exit__(self, *a):
        fcntl.flock(self.f, fcntl.LOCK_UN); self.f.close()


def sha_files(paths):
    h = hashlib.sha256()
    for p in sorted(paths):
        h.update(p.encode()); h.update(b"\0")
        try:
            with open(p, "rb") as f: h.update(f.read())
        except OSError:
            h.update(b"<missing>")
    return h.hexdigest()


_tree_hash = None
def repo_tree_hash():
    """content hash of every file under /repo/include (tracked or not)"""
    global _tree_hash
    if _tree_hash is None:
        files = []
        for root, _, names in os.walk(os.path.join(REPO, "include")):
            for n in names: files.append(os.path.join(root, n))
        _tree_hash = sha_files(files)
    return _tree_hash


# ----------------------------------------------------------------------------- Coq

def coq_sources():
    return sorted(os.path.join(COQ, "theories", f) for f in os.listdir(os.path.join(COQ, "theories")) if f.endswith(".v"))


def grep_gate(pid=None):
    bad = []
    if pid is None: files = coq_sources()
    else: files = [os.path.join(COQ, "theories", m + ".v") for m in nm_deps("Properties_%s" % pid)]
    for p in files:
        txt = re.sub(r"\(\*.*?\*\)", "", open(p).read(), flags=re.S)
        for i, line in enumerate(txt.split("\n"), 1):
            if FORBIDDEN.search(line): bad.append("%s:%d: %s" % (os.path.relpath(p, VERIF), i, line.strip()))
    return bad


def coq_build(target_vo, timeout=1500):
    """full .vo build of one target (and its dependencies); returns (ok, log)"""
    with Lock("coq"):
        mk = os.path.join(COQ, "Makefile")
        proj = os.path.join(COQ, "_CoqProject")
        want = "-Q theories NM\n" + "".join("theories/%s\n" % os.path.basename(f) for f in coq_sources())
        if (not os.path.exists(proj)) or open(proj).read() != want:
            open(proj, "w").write(want)
        if (not os.path.exists(mk)) or os.path.getmtime(mk) < os.path.getmtime(proj):
            subprocess.run(["coq_makefile", "-f", "_CoqProject", "-o", "Makefile"], cwd=COQ,
                           stdout=subprocess.DEVNULL, stderr=subprocess.DEVNULL, check=True)
        try:
            r = subprocess.run(["make", "-j%d" % NPROC, "-k", target_vo], cwd=COQ, timeout=timeout,
                               stdout=subprocess.PIPE, stderr=subprocess.STDOUT, text=True)
        except subprocess.TimeoutExpired as e:
            return False, "coq build timed out\n" + str(e.output or "")
        ok = r.returncode == 0 and (target_vo == "all" or os.path.exists(os.path.join(COQ, target_vo)))
        return ok, r.stdout


def property_theorems(pid):
    """names of the Theorems stated in Properties_<pid>.v, in order"""
    p = os.path.join(COQ, "theories", "Properties_%s.v" % pid)
    txt = re.sub(r"\(\*.*?\*\)", "", open(p).read(), flags=re.S)
    return re.findall(r"^\s*Theorem\s+([A-Za-z0-9_']+)", txt, flags=re.M)


def print_assumptions(pid, names):
    """re-check the assumptions of each theorem with a fresh coqc run; returns {name: [axioms]}"""
    d = os.path.join(BUILD, "assump"); os.makedirs(d, exist_ok=True)
    v = os.path.join(d, "Assump_%s.v" % pid)
    with open(v, "w") as f:
        f.write("From NM Require Import Properties_%s.\n" % pid)
        for n in names:
            f.write('Goal True. idtac "@@BEGIN %s". Abort.\nPrint Assumptions %s.\n' % (n, n))
        f.write('Goal True. idtac "@@END". Abort.\n')
    r = subprocess.run(["coqc", "-Q", os.path.join(COQ, "theories"), "NM", v], cwd=d, timeout=600,
                       stdout=subprocess.PIPE, stderr=subprocess.STDOUT, text=True)
    if r.returncode != 0:
        return None, r.stdout
    res = {}; cur = None
    for line in r.stdout.split("\n"):
        m = re.match(r"@@BEGIN (\S+)", line)
        if m: cur = m.group(1); res[cur] = []; continue
        if line.startswith("@@END"): cur = None; continue
        if cur is None: continue
        if "Closed under the global context" in line or line.strip() == "" or line.startswith("Axioms:"): continue
        m = re.match(r"^(\S+)\s*:", line)
        if m: res[cur].append(m.group(1))
    return res, r.stdout


# ----------------------------------------------------------------------------- OCaml model

def nm_deps(module, seen=None):
    """transitive closure of 'From NM Require Import ...' starting at a module name"""
    seen = seen if seen is not None else []
    if module in seen: return seen
    p = os.path.join(COQ, "theories", module + ".v")
    if not os.path.exists(p): return seen
    seen.append(module)
    txt = re.sub(r"\(\*.*?\*\)", "", open(p).read(), flags=re.S)
    for m in re.finditer(r"From\s+NM\s+Require\s+(?:Import|Export)\s+([^.]+)\.", txt):
        for d in m.group(1).split():
            nm_deps(d, seen)
    return seen


def build_model(prop):
    """extract prop.MODEL_MODULES and build the OCaml runner with prop.HANDLERS; one runner per property"""
    mods = list(prop.MODEL_MODULES); handlers = list(prop.HANDLERS)
    allmods = []
    for m in mods: nm_deps(m, allmods)
    srcs = [os.path.join(COQ, "theories", m + ".v") for m in allmods] + \
           [os.path.join(VERIF, "ocaml", f) for f in handlers + ["common.ml", "main.ml", "build.sh"]]
    key = sha_files(srcs)[:16] + " " + " ".join(mods) + " " + " ".join(handlers)
    d = os.path.join(BUILD, "extract", prop.ID)
    stamp = os.path.join(d, "stamp")
    with Lock("ocaml-" + prop.ID):
        if os.path.exists(stamp) and open(stamp).read() == key and os.path.exists(os.path.join(d, "model")):
            return os.path.join(d, "model")
        for m in mods:
            ok, out = coq_build("theories/%s.vo" % m)
            if not ok: raise CheckBroken("model module %s does not build:\n%s" % (m, out[-3000:]))
        r = subprocess.run([os.path.join(VERIF, "ocaml", "build.sh"), d, " ".join(mods), " ".join(handlers)],
                           stdout=subprocess.PIPE, stderr=subprocess.STDOUT, text=True, timeout=900)
        if r.returncode != 0:
            raise CheckBroken("model runner build failed:\n" + r.stdout[-4000:])
        open(stamp, "w").write(key)
    return os.path.join(d, "model")


# ----------------------------------------------------------------------------- C++ drivers

def build_driver(src, flavour="ndebug", extra_flags=(), extra_deps=(), cxx=None):
    """compile /verif/drivers/<src> against /repo's current include tree. Returns (path or None, log)."""
    cxx = cxx or CXX
    srcp = src if os.path.isabs(src) else os.path.join(VERIF, "drivers", src)
    flags = FLAVOURS[flavour] + list(extra_flags)
    deps = [srcp, os.path.join(VERIF, "drivers", "common.hpp"), os.path.join(VERIF, "drivers", "show.hpp")] + [os.path.join(VERIF, "drivers", d) if not os.path.isabs(d) else d for d in extra_deps]
    # headers of /verif/drivers that the source includes (beyond common.hpp / show.hpp) are part of the cache key
    try:
        for inc in re.findall(r'^\s*#\s*include\s+"([^"]+)"', open(srcp).read(), re.M):
            ip = os.path.join(VERIF, "drivers", inc)
            if os.path.exists(ip) and ip not in deps: deps.append(ip)
    except OSError: pass
    key = hashlib.sha256((sha_files(deps) + " ".join(flags) + cxx + repo_tree_hash()).encode()).hexdigest()[:20]
    bindir = os.path.join(BUILD, "bin"); os.makedirs(bindir, exist_ok=True)
    ftag = hashlib.sha256(" ".join(extra_flags).encode()).hexdigest()[:6] if extra_flags else "0"
    stem = "%s.%s.%s." % (os.path.basename(src).replace(".cpp", ""), flavour + ("-" + os.path.basename(cxx) if cxx != "g++" else ""), ftag)
    out = os.path.join(bindir, stem + key)
    if os.path.exists(out):
        return out, "cached"
    with Lock("cxx-" + os.path.basename(out)):
        if os.path.exists(out):
            return out, "cached"
        cmd = [cxx] + flags + ["-I" + os.path.join(REPO, "include"), "-I" + os.path.join(VERIF, "drivers"), srcp, "-o", out + ".tmp"]
        r = subprocess.run(cmd, stdout=subprocess.PIPE, stderr=subprocess.STDOUT, text=True, timeout=3000)
        if r.returncode != 0:
            # the tail of the compiler output, plus every line of the driver source it refers to (generated drivers stub out
            # the rows the library rejects at compile time, and must see all of them in one pass)
            refs = sorted(set(re.findall(re.escape(os.path.basename(srcp)) + r":(\d+):", r.stdout)), key=int)
            return None, " ".join(cmd) + "\n" + r.stdout[-200000:] + "\n# source lines referred to: " + " ".join("%s:%s:" % (os.path.basename(srcp), n) for n in refs)
        os.replace(out + ".tmp", out)
    # keep the cache small: keep the 3 most recent binaries of the same driver/flavour/flags
    prefix = stem
    olds = sorted((os.path.getmtime(os.path.join(bindir, f)), f) for f in os.listdir(bindir)
                  if f.startswith(prefix) and not f.endswith(".tmp"))
    for _, f in olds[:-3]:
        try: os.remove(os.path.join(bindir, f))
        except OSError: pass
    return out, "built"


def build_drivers_parallel(specs):
    """specs: list of (src, flavour, extra_flags). Build concurrently. Returns list of (path, log)."""
    from concurrent.futures import ThreadPoolExecutor
    with ThreadPoolExecutor(max_workers=min(NPROC, max(1, len(specs)))) as ex:
        futs = [ex.submit(build_driver, *s) for s in specs]
        return [f.result() for f in futs]


def run_lines(binary, lines, shards=None, timeout=3000, env=None):
    """feed case lines to a driver, sharded over processes; returns list of output lines (same order)."""
    if not lines: return []
    shards = shards or min(NPROC, max(1, len(lines) // 200))
    chunks = [lines[i::shards] for i in range(shards)]
    procs = []
    e = dict(os.environ); e["ASAN_OPTIONS"] = "detect_leaks=0:abort_on_error=1"; e["UBSAN_OPTIONS"] = "halt_on_error=1:abort_on_error=1"
    if env: e.update(env)
    for ch in chunks:
        p = subprocess.Popen([binary], stdin=subprocess.PIPE, stdout=subprocess.PIPE, stderr=subprocess.DEVNULL, text=True, env=e)
        procs.append(p)
    outs = []
    import threading
    res = [None] * shards
    def work(i):
        o, _ = procs[i].communicate("\n".join(chunks[i]) + "\n", timeout=timeout)
        res[i] = o.split("\n")
        if res[i] and res[i][-1] == "": res[i].pop()
    ths = [threading.Thread(target=work, args=(i,)) for i in range(shards)]
    for t in ths: t.start()
    for t in ths: t.join()
    out = [None] * len(lines)
    for i in range(shards):
        if len(res[i]) != len(chunks[i]):
            raise CheckBroken("driver %s returned %d lines for %d cases" % (binary, len(res[i]), len(chunks[i])))
        for j, o in enumerate(res[i]): out[i + j * shards] = o
    return out


# ----------------------------------------------------------------------------- known findings

def load_known():
    paths = [os.path.join(VERIF, "known_findings.jsonl")]
    d = os.path.join(VERIF, "known_findings.d")
    if os.path.isdir(d):
        paths += sorted(os.path.join(d, f) for f in os.listdir(d) if f.endswith(".jsonl"))
    out = []
    for p in paths:
        if not os.path.exists(p): continue
        for l in open(p):
            l = l.strip()
            if l and not l.startswith("#"): out.append(json.loads(l))
    return out


def case_size(line):
    nums = [abs(int(x)) for x in re.findall(r"-?\d+", line)]
    return (len(nums), sum(nums), len(line))


# ----------------------------------------------------------------------------- the check

class Result:
    def __init__(self):
        self.evaluations = 0
        self.by_stream = Counter()
        self.failures = []          # (case, impl, spec, model, cls)
        self.known_hits = defaultdict(list)
        self.unknown = []
        self.model_mismatch_in_dom = []
        self.impl_ne_model_outside = 0
        self.unspecified = 0
        self.in_domain = 0
        self.unsupported = 0
        self.distinct = set()
        self.samples = []
        self.obligations = []       # (name, ok, note)


def default_equal(a, b):
    # canonicalise whitespace only (printing differences are not behaviour)
    return a == b or " ".join(a.split()) == " ".join(b.split())


def judge(prop, cases, impl, model_out, res, known, flavour_tag=""):
    """cases: list of (stream, line); impl: list of str; model_out: list of 'model\\tspec\\tdom'"""
    equal = getattr(prop, "equal", default_equal)
    classify = getattr(prop, "classify", lambda line, i, s, m: None)
    nontrivial = getattr(prop, "nontrivial", lambda line: True)
    known_classes = {k["class"]: k for k in known if k.get("kind") == "finding" and k.get("property") == prop.ID}
    for (stream, line), I, mo in zip(cases, impl, model_out):
        parts = mo.split("\t")
        if len(parts) != 3: raise CheckBroken("bad model output %r for %r" % (mo, line))
        M, S, D = parts[0], parts[1], parts[2] == "1"
        res.evaluations += 1; res.by_stream[stream] += 1
        if I == "unsupported" or I == "skip":
            res.unsupported += 1; continue
        if M.startswith("model-error") or M == "unmodelled":
            raise CheckBroken("model cannot run case %r: %s" % (line, M))
        if S == "unspecified":
            res.unspecified += 1; continue
        if D:
            res.in_domain += 1
            if not equal(M, S):
                res.model_mismatch_in_dom.append((line, M, S)); continue
        if nontrivial(line): res.distinct.add(line)
        if len(res.samples) < 6 and nontrivial(line) and (res.evaluations % 97 == 1):
            res.samples.append("%s -> %s" % (line, I))
        if equal(I, S):
            continue
        if not D and not equal(I, M):
            res.impl_ne_model_outside += 1
        cls = classify(line, I, S, M)
        rec = (line, I, S, M, cls, flavour_tag)
        res.failures.append(rec)
        if cls is not None and cls in known_classes: res.known_hits[cls].append(rec)
        else: res.unknown.append(rec)


def write_replay(pid, n, payload):
    d = os.path.join(BUILD, "replay" if os.path.realpath(REPO) == "/repo" else "replay-scratch"); os.makedirs(d, exist_ok=True)
    p = os.path.join(d, "%s-%d.json" % (pid, n))
    json.dump(payload, open(p, "w"), indent=1)
    return p


def run_check(prop, tier, seed):
    """prop: module with ID, DRIVERS, gen_cases(rng,tier) etc. Returns exit code."""
    t0 = time.time()
    pid = prop.ID
    res = Result()
    violations = []   # (replay_path, suffix)
    known = load_known()
    notes = []

    # ---- 1. proofs
    gate = grep_gate(pid)
    ok, out = coq_build("theories/Properties_%s.vo" % pid)
    names = property_theorems(pid)
    assum = None
    if ok:
        assum, aout = print_assumptions(pid, names)
        if assum is None: ok = False; out += "\n" + aout
    proof_broken = []
    for n in names:
        if not ok:
            res.obligations.append(("theorem " + n, False, "Properties_%s.vo does not build" % pid))
        else:
            ax = [a for a in assum.get(n, []) if a not in ALLOWED_AXIOMS]
            res.obligations.append(("theorem " + n, not ax, "axioms: " + (", ".join(assum.get(n, [])) or "none")))
            if ax: proof_broken.append("%s depends on %s" % (n, ax))
    if not ok:
        proof_broken.append("coq build of Properties_%s.vo failed:\n%s" % (pid, out[-3000:]))
    if gate:
        proof_broken.append("grep gate: " + "; ".join(gate))
        res.obligations.append(("grep gate (no Admitted/Axiom/...)", False, "; ".join(gate)))
    else:
        res.obligations.append(("grep gate (no Admitted/Axiom/...)", True, ""))

    # ---- 2. model runner
    model_bin = build_model(prop)

    # ---- 3/4. correspondence
    rng = random.Random(seed)
    streams = prop.gen_cases(rng, tier)       # list of (stream_name, case_line, driver_key)
    drivers = prop.drivers(tier)              # {driver_key: [(src, flavour, extra_flags), ...]}
    corr_broken = []
    for dkey, specs in drivers.items():
        dcases = [(s, l) for (s, l, k) in streams if k == dkey]
        if not dcases: continue
        lines = [l for _, l in dcases]
        mprop = prop
        if hasattr(prop, "model_for"):            # cases borrowed from another property use that property's model runner
            mprop = prop.model_for(dkey)
            model_bin = build_model(mprop)
        two_stage = getattr(mprop, "TWO_STAGE", False)
        mo = None if two_stage else run_lines(model_bin, lines)
        built = build_drivers_parallel(specs)
        for spec_, (path, blog) in zip(specs, built):
            src, flavour = spec_[0], spec_[1]
            oname = "correspondence %s[%s] (%d cases)" % (src, flavour, len(lines))
            if path is None:
                corr_broken.append("driver %s [%s] does not compile against the current tree:\n%s" % (src, flavour, blog[-3000:]))
                res.obligations.append((oname, False, "driver does not compile"))
                continue
            impl = run_lines(path, lines)
            before = len(res.unknown)
            if two_stage:
                # the model judges the implementation's own observation of the lazy view:
                # stage 2 feeds "<case> R:<impl output, blanks as '_'>" to the model runner
                mo = run_lines(model_bin, [l + " R:" + I.replace(" ", "_") for l, I in zip(lines, impl)])
            judge(prop, dcases, impl, mo, res, known, flavour)
            res.obligations.append((oname, len(res.unknown) == before, "%d unlisted failures" % (len(res.unknown) - before)))

    if res.model_mismatch_in_dom:
        l, M, S = res.model_mismatch_in_dom[0]
        raise CheckBroken("model and spec disagree inside the theorem's domain (%d cases), e.g. %r: model=%s spec=%s"
                          % (len(res.model_mismatch_in_dom), l, M, S))

    # ---- 5. decide
    nrep = 0
    for cls, recs in sorted(res.known_hits.items()):
        rec = min(recs, key=lambda r: case_size(r[0]))
        print("KNOWN-FINDING: property=%s class=%s failing=%d e.g. [%s] impl=%s expected=%s" %
              (pid, cls, len(recs), rec[0], rec[1][:120], rec[2][:120]))
    if res.unknown:
        # group by class (or op) and report the smallest case of each group
        groups = defaultdict(list)
        for rec in res.unknown:
            groups[rec[4] or rec[0].split(" ")[0]].append(rec)
        for g, recs in sorted(groups.items()):
            rec = min(recs, key=lambda r: case_size(r[0]))
            nrep += 1
            path = write_replay(pid, nrep, {"property": pid, "case": rec[0], "impl": rec[1], "expected_by_spec": rec[2],
                                            "model": rec[3], "class": rec[4], "flavour": rec[5], "seed": seed, "tier": tier,
                                            "failing_cases_in_group": len(recs),
                                            "what": "implementation output differs from the property's reference (Spec) on this input"})
            violations.append((path, ""))
    if (proof_broken or corr_broken) and not res.unknown:
        nrep += 1
        path = write_replay(pid, nrep, {"property": pid, "no_longer_checks": proof_broken + corr_broken, "seed": seed, "tier": tier,
                                        "what": "a proof obligation or the correspondence can no longer be established; "
                                                "no failing input was found among %d explored cases" % res.evaluations})
        violations.append((path, " no-failing-input-found"))
    for path, suffix in violations:
        print("VIOLATION property=%s replay=%s%s" % (pid, path, suffix))

    # ---- 6. evidence
    obligations = len(res.obligations); discharged = sum(1 for o in res.obligations if o[1])
    dist = prop.distribution(streams) if hasattr(prop, "distribution") else {}
    ev = {
        "property_id": pid, "tier": tier, "seed": seed, "level": "proof",
        "wall_s": round(time.time() - t0, 2), "violations": len(violations),
        "coverage": {
            "obligations": obligations, "discharged": discharged,
            "checker_cmd": "make -C coq theories/Properties_%s.vo (coqc 8.16.1, full .vo) + Print Assumptions per theorem; ./check %s --tier %s" % (pid, pid, tier),
            "trusted_base": TRUSTED_BASE + getattr(prop, "TRUSTED_EXTRA", []),
            "obligation_list": [{"name": n, "discharged": o, "note": note} for n, o, note in res.obligations],
            "theorems": getattr(prop, "THEOREM_STATUS", {}),
            "evaluations": res.evaluations, "distinct_nontrivial": len(res.distinct),
            "rule": prop.RULE,
            "in_theorem_domain": res.in_domain, "outside_quantifier_or_unspecified": res.unspecified,
            "unsupported_by_kind": res.unsupported,
            "streams": dict(res.by_stream), "distribution": dist,
            "spec_failures_total": len(res.failures),
            "known_finding_hits": {k: len(v) for k, v in res.known_hits.items()},
            "impl_differs_from_model_outside_domain": res.impl_ne_model_outside,
            "samples": res.samples[:6] or [l for _, l, _ in streams[:3]],
            "exhaustive": False,
            "repo_include_tree_sha256": repo_tree_hash(),
        },
        "assumptions": ["Impl ~ Model is established only on the explored cases (differential testing)",
                        "Model |= Spec is kernel-checked for all inputs of the stated domain"] + getattr(prop, "ASSUMPTIONS", []),
    }
    # evidence/ only ever describes runs against /repo itself; runs against a scratch tree (VERIF_REPO) go elsewhere
    evdir = os.path.join(VERIF, "evidence") if os.path.realpath(REPO) == "/repo" else os.path.join(BUILD, "evidence-scratch")
    os.makedirs(evdir, exist_ok=True)
    json.dump(ev, open(os.path.join(evdir, "%s.json" % pid), "w"), indent=1)
    log("[%s] %d cases, %d in domain, %d spec failures (%d known classes), obligations %d/%d, %.1fs" %
        (pid, res.evaluations, res.in_domain, len(res.failures), len(res.known_hits), discharged, obligations, time.time() - t0))
    return 1 if violations else 0


def replay(prop, path):
    """re-run the case recorded in a replay file on both sides and print what each says"""
    r = json.load(open(path))
    if "case" not in r:
        print(json.dumps(r, indent=1)); return 1
    line = r["case"]
    model_bin = build_model(prop)
    two = getattr(prop, "TWO_STAGE", False)
    equal = getattr(prop, "equal", default_equal)
    print("case     :", line)
    mo = None
    if not two:
        mo = run_lines(model_bin, [line], shards=1)[0].split("\t")
        print("model    :", mo[0]); print("spec     :", mo[1]); print("in-domain:", mo[2])
    rc = 0
    for dkey, specs in prop.drivers(r.get("tier", "quick")).items():
        for spec_ in specs:
            src, flavour, ef = spec_[0], spec_[1], spec_[2]
            path_, blog = build_driver(*spec_)
            if path_ is None: print("impl[%s,%s]: does not compile" % (src, flavour)); rc = 1; continue
            I = run_lines(path_, [line], shards=1)[0]
            if I in ("unsupported", "skip"): continue
            print("impl[%s,%s %s]: %s" % (src, flavour, " ".join(ef), I))
            if two:
                mo = run_lines(model_bin, [line + " R:" + I.replace(" ", "_")], shards=1)[0].split("\t")
                print("  model  :", mo[0]); print("  spec   :", mo[1]); print("  in-domain:", mo[2])
            if mo[1] != "unspecified" and not equal(I, mo[1]): rc = 1
    print("property fails on this input" if rc else "property holds on this input")
    return rc


TRUSTED_BASE = [
    "Coq 8.16.1 kernel (coqc, full .vo build; no native_compute; vm_compute only in finite sweeps / witnesses)",
    "axioms: none (Print Assumptions: Closed under the global context for every property theorem)",
    "extraction: ExtrOcamlBasic only, Separate Extraction, no Extract Constant / extra Extract Inductive; OCaml 4.13.1",
    "ocaml/common.ml + ocaml/h_*.ml (hand-written runner of the extracted model), harness/*.py (generators, judge), drivers/*.cpp, g++ 12.2",
    "the hand-written Model is tied to /repo only through the differential correspondence run here",
]


def all_props():
    import importlib
    out = []
    d = os.path.join(VERIF, "harness", "props")
    for f in sorted(os.listdir(d)):
        if re.match(r"c\d\d\.py$", f):
            out.append(importlib.import_module("harness.props." + f[:-3]))
    return out
