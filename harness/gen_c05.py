"""gen_c05.py — writes the C05 driver translation units under _build/gen/C05.

The None/int pattern of every slice part is a C++ TYPE, so the multi-axis drivers cannot dispatch at run
time: one function per type combination is generated.  The combinations are a seeded sample (fixed seed, so
that the TUs and hence the compile cache are stable); the VALUES come from the check's rng.
drivers/c05_common.hpp is inlined textually into every TU (the driver cache hashes the TU only)."""
import os, random

VERIF = os.path.dirname(os.path.dirname(os.path.abspath(__file__)))
GEN = os.path.join(VERIF, "_build", "gen", "C05")


def _write(path, txt):
    os.makedirs(os.path.dirname(path), exist_ok=True)
    if os.path.exists(path) and open(path).read() == txt: return
    tmp = path + ".tmp%d" % os.getpid()
    open(tmp, "w").write(txt); os.replace(tmp, path)


def _inline(name):
    common = open(os.path.join(VERIF, "drivers", "c05_common.hpp")).read()
    src = open(os.path.join(VERIF, "drivers", name)).read()
    return src.replace('#include "c05_common.hpp"', "// ---- drivers/c05_common.hpp (inlined) ----\n" + common + "\n// ---- end ----\n")


def write_drivers(tier):
    paths = {}
    p = os.path.join(GEN, "c05_ax.cpp"); _write(p, _inline("c05_ax.cpp")); paths["ax"] = p
    return paths
