"""gen_c05.py — writes the C05 driver translation units under _build/gen/C05.

The None/int pattern of every slice part is a C++ TYPE, so the multi-axis drivers cannot dispatch at run
time: one function per type combination is generated.  The combinations are a seeded sample (fixed seed, so
that the TUs and hence the compile cache are stable); the VALUES come from the check's rng.
drivers/c05_common.hpp is inlined textually into every TU (the driver cache hashes the TU only)."""
import os, random

VERIF = os.path.dirname(os.path.dirname(os.path.abspath(__file__)))
GEN = os.path.join(VERIF, "_build", "gen", "C05")


def _write(path, txt):
    os.makedirs(os.path.dirname(path), exist_ok=True)
    if os.path.exists(path) and open(path).read() == txt: return
    tmp = path + ".tmp%d" % os.getpid()
    open(tmp, "w").write(txt); os.replace(tmp, path)


def _inline(name):
    common = open(os.path.join(VERIF, "drivers", "c05_common.hpp")).read()
    src = open(os.path.join(VERIF, "drivers", name)).read()
    return src.replace('#include "c05_common.hpp"', "// ---- drivers/c05_common.hpp (inlined) ----\n" + common + "\n// ---- end ----\n")



PATS = ["NNO", "NNN", "NNi", "NiO", "NiN", "Nii", "iNO", "iNN", "iNi", "iiO", "iiN", "iii"]


def _inline_mx(src):
    mx = open(os.path.join(VERIF, "drivers", "c05_mx.hpp")).read()
    return src.replace('#include "c05_mx.hpp"', "// ---- drivers/c05_mx.hpp (inlined) ----\n" + mx + "\n// ---- end ----\n")


SKINDS = ["vec", "arr", "sv", "cst"]        # index level: kind of the source shape
AKINDS = ["dyn", "fs", "raw", "fixed"]      # view level: kind of the source array
INT_KINDS = ["rt", "rtu", "ct", "sct", "last"]


def _field_from_pat(ch):
    return ("N",) if ch == "N" else ("O",) if ch == "O" else ("rt",)


def _range_from_pat(p): return ("r", tuple(_field_from_pat(ch) for ch in p))


def static_combos(tier):
    """type combinations for the typed-tuple encodings.  A combination fixes, for every part, its C++ TYPE:
         ("e",)                         Ellipsis
         ("i", kind, value)             integer index: rt run-time int, rtu run-time size_t, ct k_ct (integral_constant<size_t,k>),
                                        sct meta::ct_v<k> (integral_constant<int,k>, k may be negative), last nm::Last
         ("r", (fa, fb, fc))            range; each field ("N",) None | ("O",) omitted (step only) | ("rt",) run-time int |
                                        ("ct", k) | ("sct", k) | ("last",)
       plus the kind of the source shape at index level (skind), the kind of the source array at view level (akind), the
       minimal extent of each axis (constants used as integer indices must be in range) and, for the constant-shape kinds
       (cst / raw / fixed), the shape itself.  Systematic prefix + seeded sample (fixed seed: the TUs are stable)."""
    rng = random.Random(5005)
    out = []; seen = set()
    def mk_int(kind):
        if kind in ("rt", "rtu"): return ("i", kind, None)
        if kind == "ct": return ("i", kind, rng.choice([0, 1, 2]))
        if kind == "sct": return ("i", kind, rng.choice([-2, -1, 0, 1]))
        return ("i", "last", -1)
    def mk_field(step=False):
        k = rng.choice(["N", "N", "rt", "rt", "rt", "ct", "sct", "last"])
        if k in ("N", "rt"): return (k,)
        if k == "ct": return ("ct", rng.choice([1, 2, 3] if step else [0, 1, 2, 3, 7]))
        if k == "sct": return ("sct", rng.choice([-2, -1, 1, 2] if step else [-7, -3, -2, -1, 0, 1, 2]))
        return ("last",)
    def mk_range():
        c = ("O",) if rng.random() < 0.3 else mk_field(step=True)
        return ("r", (mk_field(), mk_field(), c))
    def add(dim, parts, sk=None, ak=None):
        parts = tuple(parts)
        k = len(out)
        sk = sk or SKINDS[k % 4]; ak = ak or AKINDS[(k // 4 + k) % 4]
        key = (dim, parts, sk, ak)
        if key in seen: return
        seen.add(key)
        nf = dim - sum(1 for x in parts if x[0] != "e")
        minext = []
        for x in parts:
            if x[0] == "e": minext += [1] * nf
            elif x[0] == "i" and x[2] is not None: minext.append(x[2] + 1 if x[2] >= 0 else -x[2])
            else: minext.append(1)
        fixed_shape = tuple(rng.randint(m, max(m, 4)) for m in minext)
        out.append(dict(dim=dim, parts=parts, skind=sk, akind=ak, minext=minext, shape=fixed_shape))
    R = _range_from_pat
    # the twelve run-time None/int patterns next to an ellipsis in every position and next to an integer
    for k, p in enumerate(PATS):
        add(1, [R(p)])
        add(2, [("e",), R(p)]); add(2, [R(p), ("e",)])
        add(2, [R(p), mk_int("rt")] if k % 2 else [mk_int("rt"), R(p)])
        add(3, [R(p), ("e",), R(PATS[(k + 5) % 12])])          # ellipsis in the middle, standing for one axis
        add(2, [R(p), ("e",), R(PATS[(k + 7) % 12])])          # ellipsis standing for zero axes
    # every kind of integer index x every kind of source shape / array, before and after a range, and next to an ellipsis
    for a, ik in enumerate(INT_KINDS):
        for b in range(4):
            sk = SKINDS[b]; ak = AKINDS[(a + b) % 4]
            add(2, [mk_int(ik), mk_range()] if (a + b) % 2 == 0 else [mk_range(), mk_int(ik)], sk, ak)
            add(3, [("e",), mk_int(ik)] if b % 2 == 0 else [mk_int(ik), ("e",), mk_range()], sk, AKINDS[(a + b + 1) % 4])
    # ranges whose fields mix run-time values, constants, None and Last x every kind of source shape / array
    for b in range(4):
        for _ in range(3):
            add(rng.choice([1, 2]), None or [mk_range() for _ in range(rng.choice([1, 2]))][:2], SKINDS[b], AKINDS[(b + _) % 4])
    out2 = []
    for cmb in out:                                              # keep len(parts) consistent with dim
        if sum(1 for x in cmb["parts"] if x[0] != "e") <= cmb["dim"] and (any(x[0] == "e" for x in cmb["parts"]) or len(cmb["parts"]) == cmb["dim"]):
            out2.append(cmb)
    out = out2
    add(3, [("e",)]); add(2, [("e",)]); add(1, [("e",)])
    target = 120 if tier == "quick" else 400
    while len(out) < target:
        dim = rng.choice([1, 2, 2, 3, 3, 3])
        has_e = rng.random() < 0.5
        nf = rng.randint(0, dim) if has_e else 0
        parts = [(mk_int(rng.choice(INT_KINDS)) if rng.random() < 0.3 else mk_range()) for _ in range(dim - nf)]
        if has_e: parts.insert(rng.randint(0, len(parts)), ("e",))
        if nf + sum(1 for x in parts if x[0] == "r") == 0: continue      # rank-0 result: not generated
        add(dim, parts)
    return out


def _ct_expr(kind, v):
    if kind == "ct": return "meta::integral_constant<size_t,%d>{}" % v      # the type of the `k_ct` literals
    if kind == "sct": return "meta::ct_v<%d>" % v
    return "nm::Last"


def _field_expr(f, arg, k):
    if f[0] == "N": return "nm::None"
    if f[0] == "rt": return "fld(%s, %d)" % (arg, k)
    return _ct_expr(f[0], f[1] if len(f) > 1 else -1)


def describe(cmb):
    def pf(f): return f[0] if len(f) == 1 else "%s%d" % (f[0], f[1])
    ps = []
    for x in cmb["parts"]:
        if x[0] == "e": ps.append("...")
        elif x[0] == "i": ps.append("int:%s%s" % (x[1], "" if x[2] is None else x[2]))
        else: ps.append("[" + ":".join(pf(f) for f in x[1]) + "]")
    return "dim %d shape-kind %s array-kind %s: %s" % (cmb["dim"], cmb["skind"], cmb["akind"], " ".join(ps))


def _combo_fn(cid, cmb):
    dim, parts = cmb["dim"], cmb["parts"]
    lines = ["static std::string combo_%s(const Case& c) {   // %s" % (cid, describe(cmb))]
    names = []
    nf = dim - sum(1 for x in parts if x[0] != "e")
    rdim = nf + sum(1 for x in parts if x[0] == "r")
    for k, t in enumerate(parts):
        a = "c.args[%d]" % (3 + k)
        if t[0] == "e": e = "nm::Ellipsis"
        elif t[0] == "i":
            e = {"rt": "part_i(%s)" % a, "rtu": "(size_t)part_i(%s)" % a}.get(t[1]) or _ct_expr(t[1], t[2])
        else:
            fs = [_field_expr(f, a, j + 1) for j, f in enumerate(t[1]) if f[0] != "O"]
            e = "nmtools_tuple{%s}" % ", ".join(fs)
        lines.append("    auto p%d = %s;" % (k, e)); names.append("p%d" % k)
    ps = ", ".join(names)
    shape = cmb["shape"]; total = 1
    for e in shape: total *= e
    sk = cmb["skind"]
    shp = {"vec": "vec_of<size_t>(c.args[2].list)", "arr": "arr_n<%d>(vec_of<size_t>(c.args[2].list))" % dim,
           "sv": "sv_of<%d>(c.args[2].list)" % (dim + 1),
           "cst": "nmtools_tuple{%s}" % ", ".join("meta::integral_constant<size_t,%d>{}" % e for e in shape)}[sk]
    ik = 0 if sk in ("vec", "sv") else 1
    lines.append("    if (c.op == \"mx\") { auto shp = %s; return run_index<%d,%d>(c, shp, %s); }" % (shp, ik, rdim, ps))
    ak = cmb["akind"]
    if ak == "dyn": mk = "auto a = iota_dyn(c.args[2].list);"
    elif ak == "fs": mk = "auto a = iota_fs<%d>(c.args[2].list);" % dim
    elif ak == "raw": mk = "ll a%s; iota_raw(a, %d);" % ("".join("[%d]" % e for e in shape), total)
    else: mk = "nm::array::fixed_ndarray<ll,%s> a; iota_raw(a.data, %d);" % (",".join(map(str, shape)), total)
    lines.append("    %s" % mk)
    lines.append("    return run_view(c, a, %s);" % ps)
    lines.append("}")
    return "\n".join(lines)


def n_tus(tier): return 2 if tier == "quick" else 8


def write_drivers(tier):
    paths = {}
    p = os.path.join(GEN, "c05_ax.cpp"); _write(p, _inline("c05_ax.cpp")); paths["ax"] = p
    p = os.path.join(GEN, "c05_edge.cpp"); _write(p, open(os.path.join(VERIF, "drivers", "c05_edge.cpp")).read()); paths["edge"] = p
    p = os.path.join(GEN, "c05_dyn.cpp"); _write(p, _inline_mx(open(os.path.join(VERIF, "drivers", "c05_dyn.cpp")).read())); paths["dyn"] = p
    combos = static_combos(tier)
    nt = n_tus(tier)
    for t in range(nt):
        fns = []; table = []
        for cid, cmb in enumerate(combos):
            if cid % nt != t: continue
            fns.append(_combo_fn("c%d" % cid, cmb))
            table.append('    if (id == "c%d") return combo_c%d(c);' % (cid, cid))
        src = ("// generated by harness/gen_c05.py (tier %s, TU %d of %d) - typed-tuple encodings of the C05 multi-axis combinations\n"
               '#include "c05_mx.hpp"\nusing namespace c05;\n\n' % (tier, t, nt) + "\n\n".join(fns) +
               "\n\nstatic std::string handle(const Case& c) {\n    if (c.op != \"mx\" && c.op != \"vw\") return \"unsupported\";\n"
               "    const std::string id = c.args[1].raw.substr(2);\n" + "\n".join(table) +
               "\n    return \"unsupported\";\n}\nint main() { return vd::run_main(handle); }\n")
        p = os.path.join(GEN, "c05_mx_%s_%d.cpp" % (tier, t)); _write(p, _inline_mx(src)); paths["mx%d" % t] = p
    return paths
