#!/usr/bin/env python3
"""seedrecheck.py <seed name> <property id> [more ids]: re-run the checks against an already recorded seeded change
(seeded/<name>/) after the checks were strengthened; records caught_after / checks_after in its meta.json."""
import json, os, shutil, subprocess, sys
VERIF = os.path.dirname(os.path.dirname(os.path.abspath(__file__)))
name, pids = sys.argv[1], sys.argv[2:]
src = os.path.join(VERIF, "seeded", name); tmp = name + "-recheck"
subprocess.run([sys.executable, os.path.join(VERIF, "harness", "seedtest.py"), src, tmp] + pids, cwd=VERIF, stdout=subprocess.DEVNULL)
new = json.load(open(os.path.join(VERIF, "seeded", tmp, "meta.json")))
old = json.load(open(os.path.join(src, "meta.json")))
if old.get("caught_by") in (None, "MISSED") and new["caught_by"] != "MISSED":
    old["caught_first_run"] = "MISSED"; old["caught_after"] = "checks strengthened, re-run at /repo " + new["repo_head"]
if new["caught_by"] != "MISSED":
    old["caught_by"] = new["caught_by"]
    if "replay" in new: old["replay"] = new["replay"]
    rp = os.path.join(VERIF, "seeded", tmp, "replay.json")
    if os.path.exists(rp): shutil.copy(rp, os.path.join(src, "replay.json"))
old["checks_after"] = new["checks"]
json.dump(old, open(os.path.join(src, "meta.json"), "w"), indent=1)
shutil.rmtree(os.path.join(VERIF, "seeded", tmp))
print(name, "caught_by:", new["caught_by"])
