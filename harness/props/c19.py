"""C19 — the STL-free containers behave like their std counterparts over any history."""
import itertools, re, zlib
from collections import Counter

ID = "C19"
MODEL_MODULES = ["Base", "Index", "Containers"]
HANDLERS = ["h_c19.ml"]
CAP = 4
CLAIM = dict(
    text=("Kernel-checked for EVERY operation history (induction over the op list) on two live objects: utl::vector — after any "
          "history its visible contents ARE the std::vector contents, cell for cell (size included; size <= buffer size); every "
          "access is inside its block, no block is freed twice, the two objects own distinct blocks that are exactly the live ones, "
          "and after destroying both every block allocated has been freed exactly once; self-assignment is the identity on object "
          "and heap; operations on one object never touch the other. utl::static_vector<Cap> — after any history its contents ARE "
          "those of a capacity-bounded std::vector (a sized construction, push_back or resize beyond the capacity is refused and "
          "leaves the object unchanged / empty), size() <= capacity always. nmtools::small_vector<T,DIM> (default configuration: "
          "inline utl::static_vector / heap std::vector) — after any history its contents ARE the std::vector contents, including "
          "shrink-then-grow across DIM (the spill copies the live cells only) and sized construction on either side of DIM. "
          "utl::tuple (tuple1..tuple12 are hand-written per arity) and utl::tuplev2 are corresponded with std::tuple for every arity "
          "1..12: value / copy / converting constructors, copy and converting assignment, default construction, every get<I>, "
          "make_tuple, utility::tuple_cat / tuple_append, with distinct values and mixed element types (correspondence only). (Three repairs found here are in the tree: vector "
          "destructor, static_vector(n) capacity test, value-initialisation of the cells exposed by a growing resize / the sized "
          "constructor.) REFUTED (known findings): maybe / either of a non-trivial type assign into raw storage and never run the "
          "destructor (modelled with exact payload event counts; their observable tag and value are proved to be std's; a case "
          "is listed only when the implementation's counts equal the model's); small_vector over the utl types leaks and assigns into raw storage once it leaves its static arm. "
          "Tied to the C++ by exhaustive histories over a 14-symbol alphabet plus seeded long histories, each also run on "
          "std::vector / std::optional / std::variant in the same process, with the library's malloc/free redirected to a counting "
          "allocator, in NDEBUG and ASan+UBSan builds."),
    ref="5.19", technique="Coq proof (state-machine refinement + heap invariant by induction over histories) + differential "
                          "correspondence with the extracted model", extra="")
RULE = ("utl::vector<int>, utl::static_vector<int,4>, small_vector<int,4> (default configuration AND utl either/static_vector/vector): every history of length 5 over "
        "{push, write, resize to 0,1,DIM-1,DIM,DIM+1,DIM+2} with distinct non-zero values (all 32 768 for the default small_vector, 1/8 for the "
        "others in the quick tier); every history of length "
        "<= 4 (quick; <= 5 thorough, <= 6 sampled) over {d, c0, c2, c5, p, r0, r2, r5, w0, w3, k, a/b, s, f} with distinct pushed "
        "values, plus seeded random histories of length <= 60 with resize targets 0..cap+2; utl::array<int,4>; utl::maybe<int> / "
        "utl::either<int,long> and the same with a counting non-trivial element type: every history of length <= 4 over their "
        "alphabets. Compared: size and every element of both objects against the Coq std spec AND against the real std type run in "
        "the same process; allocation/free counts balanced, no free of a non-live block. non-trivial = history with a copy or "
        "assignment and a later mutation; distinct = distinct lines")
THEOREM_STATUS = {
    "proved": ["C19_vector_refines_std", "C19_vector_memory_and_allocation_balance",
               "C19_static_vector_refines_bounded_std", "C19_static_vector_refuses_beyond_capacity",
               "C19_self_assignment_harmless", "C19_copies_independent", "C19_small_vector_refines_std", "C19_nontrivial_maybe_either_contents"],
    "partial": [],
    "refuted": ["C19_nontrivial_maybe_refuted"]}
ASSUMPTIONS = ["malloc never fails (every constructor gets a block; malloc(0) is a block of length 0)",
               "the heap is abstract: block identity, length, alloc/free events; real out-of-bounds / lifetime errors are observed "
               "by ASan and the counting allocator on the explored histories, not proved absent (partial for real memory safety)",
               "element type int for the sequence containers; array / tuple / maybe / either of trivial types: the model coincides "
               "with the spec (correspondence only); small_vector is modelled and proved for its default configuration (std::variant "
               "/ std::vector heap arm taken as a list); the all-utl configuration is correspondence only and is undefined behaviour "
               "beyond the inline arm (known finding)",
               "out-of-range element writes are not part of a history (the harness writes only when i < size())"]


def drivers(tier):
    # -fno-lifetime-dse: the 0xAB fill of the storage a tracked maybe / either is constructed in must survive
    return {"c19": [("c19.cpp", "ndebug", ("-fno-lifetime-dse",)), ("c19.cpp", "asan", ("-fno-lifetime-dse",))],
            "c19t": [("c19_tuple.cpp", "ndebug", ()), ("c19_tuple.cpp", "asan", ())]}


SEQ_ALPHA = ["d", "c0", "c2", "c5", "p", "r0", "r2", "r5", "w0", "w3", "k", "a", "b", "s", "f"]
MAY_ALPHA = ["d", "n", "v", "c", "k", "a", "b", "s", "f"]
EIT_ALPHA = ["d", "l", "q", "k", "a", "b", "s", "f"]


def concretise(sym, step):
    """give value-carrying symbols a value that identifies the step"""
    v = 11 * (step + 1)
    if sym == "p": return "p%d" % v
    if sym in ("w0", "w1", "w3"): return "%s.%d" % (sym, v + 1)
    if sym in ("v", "c", "l", "q") : return "%s%d" % (sym, v)
    return sym


def gen_cases(rng, tier):
    out = []
    def add(stream, line): out.append((stream, line, "c19"))
    def hist(kind, syms): return kind + " " + " ".join(concretise(s, i) for i, s in enumerate(syms))
    maxlen = 4 if tier == "quick" else 5
    seq_alpha = [s for s in SEQ_ALPHA if s != "b"] if tier == "quick" else SEQ_ALPHA
    for kind in ("vec", "svec", "small", "smalls"):
        add("exhaustive", kind)
        for n in range(1, maxlen + 1):
            for syms in itertools.product(seq_alpha, repeat=n):
                # the utl configuration of small_vector is undefined behaviour once it leaves the inline arm (known
                # finding): a third of its length-4 histories is enough in the quick tier
                if n == maxlen and kind == "small" and tier == "quick" and (zlib.crc32(" ".join(syms).encode()) % 3): continue
                add("exhaustive", hist(kind, syms))
        if tier == "thorough":
            for _ in range(60000): add("sampled-6", hist(kind, [rng.choice(SEQ_ALPHA) for _ in range(6)]))
    # small_vector: shrink-then-grow across the inline capacity.  Every history of length 5 over distinct non-zero writes
    # (push / write) and resize to {0, 1, DIM-1, DIM, DIM+1, DIM+2}, plus copy-construction
    spill_alpha = ["p", "w1", "r0", "r1", "r%d" % (CAP - 1), "r%d" % CAP, "r%d" % (CAP + 1), "r%d" % (CAP + 2)]
    if tier == "thorough": spill_alpha.append("k")
    for kind in ("smalls", "small", "svec", "vec"):
        for syms in itertools.product(spill_alpha, repeat=5):
            if kind != "smalls" and tier == "quick" and (zlib.crc32((kind + " ".join(syms)).encode()) % 8): continue
            add("spill-5", hist(kind, syms))
    for n in range(1, 5):
        for syms in itertools.product(["w0", "w3", "k", "a", "b", "s", "f"], repeat=n): add("exhaustive", hist("arr", syms))
    for kind, alpha in (("may", MAY_ALPHA), ("mayt", MAY_ALPHA), ("eit", EIT_ALPHA), ("eitt", EIT_ALPHA)):
        for n in range(1, 5):
            for syms in itertools.product(alpha, repeat=n): add("exhaustive", hist(kind, syms))
    # ---- utl::tuple (hand-written tuple1..tuple12) and utl::tuplev2 against std::tuple: EVERY arity, every constructor /
    # assignment form, mixed element types in two rotations, all-distinct values; tuple_cat / tuple_append / make_tuple
    def tadd(line): out.append(("tuples", line, "c19t"))
    for impl in ("utl", "v2"):
        for n in range(1, 13):
            for r, r2 in ((0, 1), (0, 3), (2, 1), (2, 4)):
                for form in ("val", "copy", "asg", "conv", "casg", "def"):
                    tadd("tup S:%s S:%s I:%d I:%d I:%d I:%d" % (impl, form, n, r, r2, rng.randint(1, 90)))
            if n <= 11: tadd("tup S:%s S:app I:%d I:0 I:1 I:%d" % (impl, n, rng.randint(1, 90)))
            for m in range(1, 7):
                if n <= 8 and n + m <= 12: tadd("tup S:%s S:cat I:%d I:0 I:1 I:%d I:%d" % (impl, n, rng.randint(1, 90), m))
    for n in range(1, 5): tadd("tup S:utl S:mk I:%d I:0 I:1 I:%d" % (n, rng.randint(1, 90)))
    # seeded longer histories for the tagged unions (trivial and tracked payload): copy-construction / assignment between
    # engaged and empty objects, either alternative, into constructed and raw members
    for kind, alpha in (("may", MAY_ALPHA), ("mayt", MAY_ALPHA), ("eit", EIT_ALPHA), ("eitt", EIT_ALPHA)):
        for _ in range(600 if tier == "quick" else 6000):
            n = rng.randint(5, 14)
            add("random-tagged", hist(kind, [rng.choice(alpha) for _ in range(n)]))
    # seeded long histories: growth across the capacity, shrink-then-grow, copy-then-mutate-source, assignment between sizes
    nrand = 1500 if tier == "quick" else 20000
    for kind in ("vec", "svec", "small", "smalls"):
        for _ in range(nrand):
            n = rng.randint(5, 60); toks = []
            for i in range(n):
                r = rng.random()
                if r < 0.35: toks.append("p%d" % (100 + i))
                elif r < 0.50: toks.append("r%d" % rng.randint(0, CAP + 2))
                elif r < 0.65: toks.append("w%d.%d" % (rng.randint(0, CAP + 1), 200 + i))
                elif r < 0.72: toks.append("k")
                elif r < 0.79: toks.append(rng.choice(["a", "b"]))
                elif r < 0.84: toks.append("s")
                elif r < 0.94: toks.append("f")
                elif r < 0.97: toks.append("c%d" % rng.randint(0, CAP + (2 if rng.random() < 0.2 else 0)))
                else: toks.append("d")
            add("random-long", kind + " " + " ".join(toks))
    return out


def nontrivial(line):
    if line.startswith("tup "): return True
    t = line.split(" ")[1:]
    for i, x in enumerate(t):
        if x[0] in "kab" and any(y[0] in "prwvlqnc" for y in t[i + 1:]): return True
    return False


def distribution(streams):
    kinds = Counter(); lens = Counter()
    for _, line, _ in streams:
        t = line.split(" "); kinds[t[0]] += 1
        if t[0] == "tup": continue
        lens[str(min(len(t) - 1, 7)) + ("+" if len(t) - 1 >= 7 else "")] += 1
    return {"kinds": dict(kinds), "history_length": dict(lens)}


def _parts(s):
    p = [x.strip() for x in s.split("|")]
    d = {"contents": p[0]}
    for x in p[1:]:
        if x.startswith("std "): d["std"] = x[4:]
        elif x.startswith("heap"): d["heap"] = x
    return d

def _heap_ok(h):
    if h is None or "unmodelled" in h: return True
    m = re.search(r"a=(\d+) f=(\d+) bad=(\d+)", h)
    if not m or m.group(1) != m.group(2) or m.group(3) != "0": return False
    for k in ("oob", "live", "asgraw", "baddestroy"):
        mm = re.search(r"\b%s=(\d+)" % k, h)
        if mm and mm.group(1) != "0": return False
    return True

def equal(a, b):
    """a: implementation or model line, b: the spec (std contents of both objects)"""
    if a == b: return True
    if "|" not in a: return " ".join(a.split()) == " ".join(b.split())
    d = _parts(a)
    if d["contents"] != b.strip(): return False
    if "std" in d and d["std"] != b.strip(): return False
    return _heap_ok(d.get("heap"))


def _cells(s):
    """'A n=3 [1,2,3] B n=0 []' -> [(3,[..]),(0,[..])]"""
    return [(int(n), [c for c in body.split(",") if c != ""]) for n, body in re.findall(r"n=(\d+) \[([^\]]*)\]", s)]

def enters_dynamic_arm(toks):
    """small_vector<int,4>: does the history ever leave the static arm (sized ctor >= 4, resize > 4, push at size 4)?"""
    sa = sb = 0
    for t in toks:
        o = t[0]
        if o == "d": sa = 0
        elif o == "c":
            sa = int(t[1:]);
            if sa >= CAP: return True
        elif o == "p":
            if sa >= CAP: return True
            sa += 1
        elif o == "r":
            if int(t[1:]) > CAP: return True
            sa = int(t[1:])
        elif o in "ka": sb = sa
        elif o == "b": sa = sb
        elif o == "f": sa, sb = sb, sa
    return False


def classify(line, impl, spec, model):
    toks = line.split(" "); kind = toks[0]; hist = toks[1:]
    if kind in ("mayt", "eitt"):
        # KNOWN only when the implementation shows EXACTLY the payload event counts the model of the pinned code predicts
        # for this history (constructions, destructions, assignments, assignments into raw storage, live objects) and the
        # observable contents are the std ones; any other count is a violation
        if "|" not in impl or "|" not in model: return None
        d, m = _parts(impl), _parts(model)
        if d["contents"] != spec.strip() or d.get("std") != spec.strip() or m["contents"] != spec.strip(): return None
        ic = re.search(r"obj (.*)$", d.get("heap", "")); mc = re.search(r"obj (.*)$", m.get("heap", ""))
        if ic and mc and ic.group(1).strip() == mc.group(1).strip() and re.match(r"heap a=0 f=0 bad=0 ", d["heap"]):
            return "nontrivial-maybe-either-raw-assign-no-destructor"
        return None
    if kind == "small" and enters_dynamic_arm(hist):
        # utl::either<static_vector, utl::vector> is undefined behaviour from here on (assignment / copy of a utl::vector
        # into raw union storage, no destructor): a trap, a leak, and sometimes garbage in a copy (e.g. `small r5 r0 r1 r4 k`).
        # The contents of small_vector's own logic are judged exactly on the default configuration (kind smalls).
        d = _parts(impl) if "|" in impl else None
        if impl.startswith("trap"): return "small_vector-utl-dynamic-arm-leak-raw-assign"
        if d and d.get("std") == spec.strip() and not _heap_ok(d.get("heap")):
            # without a copy / assignment of the small_vector itself the outcome is still determined (either() zero-fills the
            # inline member, so the raw utl::vector sees buffer_ == nullptr and allocates): the contents must be the std ones
            # and only the leak remains.  With a copy the new either's bytes are whatever the heap block held: undetermined.
            copies = any(t[0] in "kabs" for t in hist)
            if copies or d["contents"] == spec.strip(): return "small_vector-utl-dynamic-arm-leak-raw-assign"
        return None
    return None
