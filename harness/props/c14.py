"""C14 — functors, currying, composition and extraction are equivalent to direct views."""
import os, re
from collections import Counter

ID = "C14"
MODEL_MODULES = ["Base", "Functor"]
HANDLERS = ["h_c14.ml"]
CLAIM = dict(
    text=("Kernel-checked for ANY functors (any arity, any number of results, any array semantics): operands supplied all at once "
          "or curried in any split give the same state (functional::apply is the split into singletons), for single functors and "
          "compositions, complete or partial; the operand stack machine of apply_function_t<functor_composition_t> computes exactly "
          "what the written chain denotes ((f*g) ops = f (g ops_g ++ rest)) and both parenthesisations flatten to the same tuple; "
          "swap/dup/dig/bury are the stack permutations their names say; for every view tree (n-ary nodes, any depth) the extracted "
          "operands are the leaves in order, one per occurrence, and the compute graph of the property has leaves+ops distinct nodes "
          "and one edge per argument; extraction_correct: apply(get_function_composition v, get_function_operands v) = v on the "
          "class wf (non-leaf operands only at operand position 0). REFUTED outside wf (witness subtract(a, double(b))); the id "
          "uniqueness clause is refuted as well (ideal-hash model: leaves of different sub-views are both numbered 0) and, "
          "independently, no graph with more than 1033 nodes can have unique ids (range of generate_alias). PARTIAL: uniqueness of "
          "ids only under the hypothesis that the naming is injective on the graph's nodes. The functor theorems are stated for "
          "MULTI-output functors (fmap returns a list of results; the combinators are instances), so 'results in front, remaining "
          "operands behind' is part of curry_any_split / compose_apply. Tied to the C++ by 36 functor pipelines x every curry split "
          "incl. surplus operands (functor result vs direct view call vs reference), 30 view trees of depth 1..4 (apply of the "
          "extraction, operand ADDRESSES, get_compute_graph canonicalised by first occurrence, raw out-edge lists so that a duplicated "
          "edge is visible), and 24 view DAGs with alias-named leaves and shared sub-views (fan-out 2 and 3 at several depths, nested "
          "diamonds, a leaf reached through both operands at different depths, subtract/divide/power with mirrored operands, operand "
          "ids that are permutations or have equal sums, 8 random DAGs): node count and names, edge MULTISET, number of distinct ids "
          "against the DAG model (C14_dag_graph: distinct nodes, no edge twice, edges exactly operand->operation; C14_dag_in_degree: "
          "in-edges of an operation = its distinct operands, each once); and 37 attribute-carrying views (every get_function_t "
          "specialisation that compiles: indexing views transpose/moveaxis/reshape/broadcast_to/tile/repeat/flip/roll/expand_dims/slice, "
          "max/avg_pool2d with kernel, stride and BOTH ceil_mode values, reductions with axis/axes, dtype, initial, keepdims, "
          "cumsum/cumprod, seven parameterised activations, matmul, where, concatenate(axis), depth-2 compositions) with NON-default "
          "attribute values: apply(extraction) must equal the view in shape and every element, and the view's shape the generator's; "
          "and a NAME-TO-NAME sweep over the functor table (118 public functor objects of functional/: every ufunc with its reduce_ / "
          "accumulate_ / outer_ forms, the activations, the non-ufunc functors): fn::x[attributes](operands) == view::x(operands, "
          "attributes) in shape and every element; 4 objects are compile-rejected by the library and listed in drivers/c14f.cpp."),
    ref="5.14", technique="Coq proof (stack-machine compilation, induction on trees / chunk lists) + differential correspondence", extra="")
RULE = ("36 pipelines (single functors with/without attributes, compositions of 2..4 functors, binary functors in every position, "
        "both parenthesisations; pipelines ending in every combinator swap/dup/dig1..3/bury1..3 followed by the non-commutative "
        "subtract/matmul, and a combinator in the middle) x EVERY split of the operands into calls, including every split that "
        "supplies one operand more than the pipeline consumes in the completing call (result = operand tuple) x random square operands; 30 view "
        "trees depth 1..4 x leaf kinds (run-time shaped ndarray; fixed_ndarray for the binary-ufunc trees) x random operands; 24 view "
        "DAGs (16 hand-written patterns + 8 from a seeded generator) compared on node set, edge multiset and id distinctness; 37 "
        "attribute-carrying views x random non-default attribute values (3 per view in the quick tier). "
        "non-trivial = composition of >= 2 functors or tree of depth >= 2; distinct = distinct case lines")
THEOREM_STATUS = {"proved": ["C14_curry_any_split", "C14_compose_apply", "C14_compose_assoc", "C14_compose_two", "C14_combinators",
                             "C14_extraction_correct_on_domain", "C14_operands_are_leaves", "C14_graph_nodes_edges",
                             "C14_dag_graph", "C14_dag_in_degree", "C14_distinct_operations_distinct_ids"],
                  "partial": ["C14_ids_unique_partial"],
                  "refuted": ["C14_extraction_refuted", "C14_ids_unique_refuted", "C14_ids_unique_refuted_beyond_1033"]}
ASSUMPTIONS = ["array semantics of the individual functors are parameters of the theorems (the handler's reference evaluator for "
               "add/sub/mul/matmul/transpose/negative/sum/where is trusted, small and independent of nmtools)",
               "a C++ view tree is a type: the explored trees/pipelines are a fixed compiled-in table (drivers/c14.cpp, c14x.cpp)",
               "node ids: uniqueness only under the stated injectivity hypothesis; the real id assignment is modelled for the generic "
               "decorator path with an ideal hash (cxx_graph_keys), enough for the refutation, not corresponded beyond the witnesses"]

UFUNC2 = {"add", "sub", "mul"}


def drivers(tier):
    # two keys = two build groups of two compile jobs each (at most 3 compile jobs at once on the shared machine);
    # asan: -O0 -g0 (compile time; the sanitizer checks are the same)
    # c14g (view DAGs; the graph is computed at compile time) has two tables = two builds of the same source, one per
    # group (different flavours so that the binary cache keeps both): 3 compile jobs per group
    # c14a (extraction of attribute-carrying views) takes the place of the asan build of c14.cpp (functor pipelines are pure
    # value code; the asan flavour stays on the extraction driver c14x, where the lifetime defect was found)
    return {"c14": [("c14.cpp", "ndebug", ()), ("c14a.cpp", "ndebug", ()), ("c14g.cpp", "ndebug", ("-DC14G_PART=1",))],
            "c14x": [("c14x.cpp", "ndebug", ()), ("c14x.cpp", "asan", ("-O0", "-g0")), ("c14g.cpp", "debug", ("-DC14G_PART=2",))],
            # name-to-name sweep over the functor table, two builds of one source (15-25 s each)
            "c14f": [("c14f.cpp", "ndebug", ("-DC14F_PART=1",)), ("c14f.cpp", "debug", ("-DC14F_PART=2",))]}


def _table(src, macro):
    txt = open(os.path.join(os.path.dirname(__file__), "..", "..", "drivers", src)).read()
    body = txt[txt.index("#define %s(X)" % macro):]
    body = body[:body.index("\n\n")]
    return re.findall(r'X\("([^"]+)",\s*(\d),', body)


PIPES = [(n, int(k)) for n, k in _table("c14.cpp", "PIPES")]          # (pipeline, arity)
TREES = [(n, int(g)) for n, g in _table("c14x.cpp", "TREES")]         # (tree, get_compute_graph compiles)
FIXTREES = [n for n, _ in _table("c14x.cpp", "FIXTREES")]
def _dags():
    txt = open(os.path.join(os.path.dirname(__file__), "..", "..", "drivers", "c14g.cpp")).read()
    a = txt.index("#if C14G_PART == 1"); b = txt.index("#else", a); c = txt.index("#endif", b)
    return re.findall(r'X\("([^"]+)",', txt[a:b]), re.findall(r'X\("([^"]+)",', txt[b:c])
def _functors():
    txt = open(os.path.join(os.path.dirname(__file__), "..", "..", "drivers", "c14f.cpp")).read()
    return re.findall(r'    X\("([^"]+)",', txt)
FUNCTORS = _functors()                                                 # the functor table (one row per public functor object)
DAGS1, DAGS2 = _dags()                                                 # view DAG programs (hand-written, random)
def _comps(t): return [[]] if t == 0 else [[k] + r for k in range(1, t + 1) for r in _comps(t - k)]
def splits(arity):
    """every way to supply the operands: all compositions of `arity`, plus all compositions of arity+1 in which the
    surplus operand arrives in the call that completes the pipeline (last chunk >= 2): 'remaining operands passed on'"""
    return ["+".join(map(str, c)) for c in _comps(arity) + [c for c in _comps(arity + 1) if c[-1] >= 2]]


# ---------------------------------------------------------------- trees
def parse(s):
    pos = [0]
    def tree():
        st = pos[0]
        while pos[0] < len(s) and (s[pos[0]].isalnum()): pos[0] += 1
        name = s[st:pos[0]]
        if pos[0] < len(s) and s[pos[0]] == "(":
            pos[0] += 1; args = [tree()]
            while s[pos[0]] == ",": pos[0] += 1; args.append(tree())
            pos[0] += 1
            return (name, args)
        return (name, None)
    return tree()
def is_leaf(t): return t[1] is None
def depth(t): return 0 if is_leaf(t) else 1 + max(depth(a) for a in t[1])
def wf(t):
    if is_leaf(t): return True
    return wf(t[1][0]) and all(is_leaf(a) for a in t[1][1:])
def graph_ok(t):
    """trees whose real graph is right: a generic n-ary (n>=2) node has leaf operands only; a binary ufunc at most one non-leaf"""
    if is_leaf(t): return True
    nl = sum(1 for a in t[1] if not is_leaf(a))
    if len(t[1]) >= 2 and ((t[0] in UFUNC2 and nl > 1) or (t[0] not in UFUNC2 and nl > 0)): return False
    return all(graph_ok(a) for a in t[1])


# ---------------------------------------------------------------- attribute-carrying views (drivers/c14a.cpp)
def _size(sh):
    n = 1
    for e in sh: n *= e
    return n
def attr_cases(rng, reps):
    """-> [(name, a_shape, b_shape, params, expected view shape, data kind)]; attribute values are NON-default and chosen so
    that the default (reverse-all transpose, axis 0, keepdims False, ceil_mode False, slope 0.01, ...) gives another result"""
    out = []
    def sh(lo, hi, cap=30):
        while True:
            s_ = tuple(rng.randint(2, 4) for _ in range(rng.randint(lo, hi)))
            if _size(s_) <= cap: return s_
    import itertools as it
    for _ in range(reps):
        s3 = tuple(rng.sample([2, 3, 4], 3)); d = 3
        perms = [p for p in it.permutations(range(3)) if p not in ((0, 1, 2), (2, 1, 0))]
        P = list(rng.choice(perms)); out.append(("transpose", s3, s3, P, [s3[k] for k in P], "int"))
        src, dst = rng.choice([(0, 2), (2, 0), (1, 0), (0, 1), (1, 2)])
        order = [k for k in range(3) if k != src]; order.insert(dst, src)
        out.append(("moveaxis", s3, s3, [src, dst], [s3[k] for k in order], "int"))
        out.append(("reshape", s3, s3, [s3[2], s3[0] * s3[1]], [s3[2], s3[0] * s3[1]], "int"))
        bs = tuple(e if rng.random() < 0.5 else 1 for e in s3); out.append(("broadcast_to", bs, bs, [2] + list(s3), [2] + list(s3), "int"))
        s2 = sh(2, 2, 12); reps_ = [rng.randint(1, 2), rng.randint(2, 3), rng.randint(1, 2)]
        out.append(("tile", s2, s2, reps_, [reps_[0], reps_[1] * s2[0], reps_[2] * s2[1]], "int"))
        ax = rng.randrange(3); r = rng.randint(2, 3)
        out.append(("repeat", s3, s3, [r, ax], [e * r if k == ax else e for k, e in enumerate(s3)], "int"))
        ax = rng.randint(1, 2); out.append(("flip", s3, s3, [ax], list(s3), "int"))
        ax = rng.randint(1, 2); out.append(("roll", s3, s3, [rng.choice([-2, 1, 3]), ax], list(s3), "int"))
        axes = sorted(rng.sample(range(5), 2)); itr = iter(s3)
        out.append(("expand_dims", s3, s3, axes, [1 if k in axes else next(itr) for k in range(5)], "int"))
        h, w = rng.randint(4, 6), rng.randint(4, 6)
        a0, a1 = rng.randint(0, 1), rng.randint(0, 1); st0, st1 = rng.randint(1, 2), rng.randint(2, 3)
        b0, b1 = rng.randint(a0 + 2, h), rng.randint(a1 + 2, w)
        out.append(("slice2", (h, w), (h, w), [a0, b0, st0, a1, b1, st1], [-(-(b0 - a0) // st0), -(-(b1 - a1) // st1)], "int"))
        # pooling: (N, C, H, W); ceil_mode matters exactly when the last window is partial (and it must not be empty)
        while True:
            H, W = rng.randint(5, 9), rng.randint(5, 9); k0, k1 = rng.randint(2, 3), rng.randint(2, 3); t0, t1 = rng.randint(2, 3), rng.randint(2, 3)
            fl = [(H - k0) // t0 + 1, (W - k1) // t1 + 1]; ce = [-(-(H - k0) // t0) + 1, -(-(W - k1) // t1) + 1]
            if ce != fl and (ce[0] - 1) * t0 < H and (ce[1] - 1) * t1 < W and H * W <= 64: break
        shp = (1, rng.randint(1, 2), H, W); P = [k0, k1, t0, t1]
        for nm_, o in (("max_pool2d_ceil", ce), ("max_pool2d_floor", fl), ("avg_pool2d_ceil", ce), ("avg_pool2d_floor", fl), ("tanh_max_pool2d_ceil", ce)):
            out.append((nm_, shp, shp, P, [shp[0], shp[1]] + o, "float"))
        # reductions / accumulations
        ax = rng.randint(1, 2); keep = [1 if k == ax else e for k, e in enumerate(s3)]; drop = [e for k, e in enumerate(s3) if k != ax]
        out.append(("sum_keep", s3, s3, [ax, rng.choice([-7, 5, 100])], keep, "int"))
        out.append(("sum_nokeep", s3, s3, [ax, rng.choice([-7, 5, 100])], drop, "int"))
        out.append(("sum_f64", s3, s3, [ax, rng.choice([-7, 5])], keep, "int"))
        axs = sorted(rng.sample(range(3), 2)); out.append(("sum_axes", s3, s3, axs, [e for k, e in enumerate(s3) if k not in axs], "int"))
        out.append(("prod_keep", s3, s3, [ax, rng.choice([2, -3])], keep, "small"))
        out.append(("amax_init", s3, s3, [ax, rng.choice([0, 4, 50])], keep, "int"))
        out.append(("cumsum", s3, s3, [ax], list(s3), "int"))
        out.append(("cumprod", s3, s3, [ax], list(s3), "small"))
        # parameterised unary ufuncs (parameters in quarters)
        s_ = sh(1, 3)
        for nm_, P in (("leaky_relu", [rng.choice([-6, 1, 2, 10])]), ("elu", [rng.choice([2, 8, 10])]), ("celu", [rng.choice([2, 8, 10])]),
                       ("hardtanh", [4 * rng.choice([-12, -5, -2]), 4 * rng.choice([1, 3, 7])]), ("hardshrink", [rng.choice([6, 12, 30])]),
                       ("softshrink", [rng.choice([2, 6, 12])]), ("softplus", [rng.choice([2, 8]), rng.choice([8, 40])]),
                       ("leaky_relu_of_add", [rng.choice([-6, 2, 10])])):
            out.append((nm_, s_, s_, P, list(s_), "act"))
        s2 = sh(2, 3); ax = rng.randrange(len(s2))
        out.append(("sum_of_hardtanh", s2, s2, [-12, 12, ax], [1 if k == ax else e for k, e in enumerate(s2)], "act"))
        n, m, k = rng.randint(2, 3), rng.randint(2, 4), rng.randint(2, 3)
        out.append(("matmul", (n, k), (k, m), [], [n, m], "int"))
        out.append(("where", s3, s3, [], list(s3), "bool"))
        ax = rng.randint(1, 2); sb = tuple(e + 1 if k_ == ax else e for k_, e in enumerate(s3))
        out.append(("concatenate", s3, sb, [ax], [s3[k_] + sb[k_] if k_ == ax else s3[k_] for k_ in range(3)], "int"))
    return out


def A(sh, data): return "A:%s:%s" % (",".join(map(str, sh)), ",".join(map(str, data)))
def rnd(rng, n, lo=None, hi=None):
    """square operand; by default values whose products and sums are NOT representable in binary32 (odd, products > 2^24) and
    stay far inside int64 for every pipeline / tree of the tables (at most three chained matmuls of extent <= 3)"""
    if lo is not None: return A((n, n), [rng.randint(lo, hi) for _ in range(n * n)])
    return A((n, n), [rng.choice([-1, 1]) * (rng.randint(1500, 3000) | 1) for _ in range(n * n)])


def gen_cases(rng, tier):
    out = []
    reps = 2 if tier == "quick" else 12
    for name, k in PIPES:
        for split in splits(k):
            for _ in range(reps):
                n = rng.choice([1, 2, 2, 3])
                a = rnd(rng, n, 0, 1) if name == "where" else rnd(rng, n)
                out.append(("pipelines-combinator" if re.search(r"swap|dup|dig|bury", name) else "pipelines",
                            "pipe S:%s S:%s %s %s %s %s %s" % (name, split, a, rnd(rng, n), rnd(rng, n), rnd(rng, n), rnd(rng, n)), "c14"))
    reps = 4 if tier == "quick" else 30
    for name, g in TREES:
        for _ in range(reps):
            n = rng.choice([1, 2, 2, 3, 3])
            stream = "trees-wf" if wf(parse(name)) else "trees-outside-wf"
            out.append((stream, "ext S:dyn S:%s S:%s %s %s %s" % ("g1" if g else "g0", name, rnd(rng, n), rnd(rng, n), rnd(rng, n)), "c14x"))
    for name, sa, sb, P, osh, kind in attr_cases(rng, 3 if tier == "quick" else 25):
        import struct
        def f2b(x): return struct.unpack("<q", struct.pack("<d", float(x)))[0]
        F64 = [0.1, 0.3, -0.7, 1.0 / 3.0, -2.0 / 3.0, 1.0 + 2.0 ** -40, 16777217.0, -16777219.0, 33554433.0, 1e-3, 123456789.123]
        def data(shp):
            # values that are NOT representable in binary32 (float64 fractions / 1+2^-40 / > 2^24 odd; ints > 2^24 and > 2^53 odd)
            n = _size(shp)
            if kind in ("act", "float"):     # the double operands of the driver: bit patterns
                return [f2b(rng.choice(F64) if rng.random() < 0.5 else rng.choice([k for k in range(-60, 61) if k]) * 0.1) for _ in range(n)]
            if kind == "small": return [rng.choice([-1, 1]) * rng.choice([4099, 257, 3, 1025]) for _ in range(n)]     # products of <= 4: > 2^24, < 2^50
            if kind == "bool": return [rng.randint(0, 1) * (2 ** 53 + 1) for _ in range(n)]
            if name == "matmul": return [rng.choice([-1, 1]) * (rng.randint(3000, 6000) | 1) for _ in range(n)]
            return [rng.choice([-1, 1]) * rng.choice([2 ** 24 + 1, 2 ** 53 + 1, 2 ** 53 + 3, 2 ** 31 + 1, 9007199254740993, 2 ** 40 + 7]) for _ in range(n)]
        out.append(("attributes", "attr S:%s %s %s L:%s L:%s S:%s" % (name, A(sa, data(sa)), A(sb, data(sb)), ",".join(map(str, P)), ",".join(map(str, osh)),
                                                                    "f64" if kind in ("act", "float") else "int"), "c14"))
    for name in FUNCTORS:
        for _ in range(2 if tier == "quick" else 10):
            # 3x4 operands with DISTINCT entries (quarters), negatives included: reduce / accumulate / outer / elementwise differ visibly
            va = rng.sample([k for k in range(-30, 31) if k], 12); vb = rng.sample([k for k in range(-30, 31) if k], 12)
            out.append(("functor-table", "fnview S:%s %s %s" % (name, A((3, 4), va), A((3, 4), vb)), "c14f"))
    for prog in DAGS1: out.append(("dags", "dag S:%s" % prog, "c14"))
    for prog in DAGS2: out.append(("dags-random", "dag S:%s" % prog, "c14x"))
    for name in FIXTREES:
        for _ in range(reps):
            out.append(("trees-fixed-kind", "ext S:fix S:g0 S:%s %s %s %s" % (name, rnd(rng, 2), rnd(rng, 2), rnd(rng, 2)), "c14x"))
    # (index::generate_alias is modelled and has a handler, but hash VALUES are not fixed by the property:
    #  no case compares them, so a change of base/prime stays green)
    return out


def nontrivial(line):
    p = line.split(" ")
    if p[0] == "pipe": return "*" in p[1]
    if p[0] == "ext": return depth(parse(p[3][2:])) >= 2
    if p[0] == "dag": return p[1].count(";") >= 3
    if p[0] == "attr": return True
    if p[0] == "fnview": return True
    return False


def distribution(streams):
    kinds = Counter(); depths = Counter(); splits = Counter(); wfc = Counter()
    for _, line, _ in streams:
        p = line.split(" ")
        kinds[p[0]] += 1
        if p[0] == "pipe": splits[p[2][2:]] += 1
        if p[0] == "ext":
            t = parse(p[3][2:]); depths[str(depth(t))] += 1; wfc["wf" if wf(t) else "outside-wf"] += 1
    return {"ops": dict(kinds), "curry_splits": dict(splits), "tree_depths": dict(depths), "tree_class": dict(wfc)}


def equal(a, b):
    """fnview lines: the expected line is "same *": the driver found functor call == view call (any shape)"""
    if b == "same *": return a == b or (a.startswith("same ") and len(a) > 5)
    return a == b or " ".join(a.split()) == " ".join(b.split())


def classify(line, impl, spec, model):
    p = line.split(" ")
    if p[0] != "ext": return None
    t = parse(p[3][2:])
    if impl.startswith("trap"): return None
    ip = [x.strip() for x in impl.split(" | ")]; sp = [x.strip() for x in spec.split(" | ")]
    if len(ip) != len(sp): return None
    classes = []
    for i, s in zip(ip, sp):
        if " ".join(i.split()) == " ".join(s.split()): continue
        if s.startswith("apply"):
            if not wf(t): classes.append("extraction-nonleaf-operand-at-position>=1")
            else: return None
        elif s.startswith("graph"):
            if not graph_ok(t): classes.append("graph-leaf-ids-restart-per-subview")
            else: return None
        else:
            return None      # the view itself or the operand identities: never excused
    return classes[0] if classes else None
