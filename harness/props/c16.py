"""C16 — linear-algebra routines equal their mathematical definitions."""
import itertools, re
from collections import Counter

ID = "C16"
MODEL_MODULES = ["Base", "Index", "Broadcast", "Linalg", "Dtype", "LinalgDtype"]
HANDLERS = ["h_c16.ml"]
CLAIM = dict(
    text=("Kernel-checked for every rank and all positive extents, over any scalar type whose addition is associative with a "
          "right-neutral zero (no commutativity / distributivity needed: the code adds the products in index order): "
          "index::shape_matmul = NumPy's rule (batch broadcasting, 1-d promotion on either side, refusal included); every "
          "element of view::matmul on operands of rank >= 2 is sum_{k<K} a[bcast_a(i), r, k] * b[bcast_b(i), k, c] (stretched "
          "batch axes read at 0, missing ones dropped); view::matmulv2 (tile/reshape/transpose/reshape/multiply/sum) yields the "
          "same shape and the same elements, hence equals view::matmul; dot (1-d and n-d second operand), inner, vecdot, outer, "
          "diagonal and trace (ANY offset incl. negative and beyond the extent, any two distinct axes of either sign; non-empty "
          "diagonal for trace; as repaired by fixes/C16_diagonal_offset.diff) yield a view "
          "with NumPy's shape and elements equal to the defining sums over exactly 0..K-1. PARTIAL: tensordot (explicit axes): "
          "success and shape proved, elements by correspondence only; kron: shape of a returned view proved, success and "
          "elements by correspondence only; matmulv2 with a 1-d operand, tensordot with integer axes, fixed-shape operand "
          "kinds: correspondence only. REFUTED parts (known findings, each with a _refuted theorem): view::matmul / "
          "array::matmul with a 1-d operand (out-of-range access on run-time shaped operands; matmulv2 is right), "
          "trace of an EMPTY diagonal (a reduction without initial value over an empty slice; NumPy gives 0). Element types "
          "(finite, decided exhaustively): the result element type of every routine for the 49 ordered pairs of int8/int16/int32/"
          "int64/uint8/float/double is NumPy's result_type except on enumerated, tight divergence tables (meta::common_type for "
          "view::matmul, C++ promotion for the multiply-then-sum pipelines, element type kept by trace); view::matmul's type is "
          "never narrower than either operand. Tied to the C++ by running view:: and array:: matmul, view::matmulv2, dot, inner, outer, vecdot, "
          "tensordot (integer and explicit axes), kron, diagonal, trace on run-time shaped operands and a sample of "
          "fixed-shape (nested std::array) operands with integer data, under NDEBUG and under ASan+UBSan."),
    ref="5.16", technique="Coq proof (view combinators characterised once: reshape = same row-major rank, tile = per-axis mod, "
                           "broadcasting multiply via the C06 element theorem, sum of the last axis; then composed per routine) "
                           "+ differential correspondence with the extracted model",
    extra="operand SHAPES NumPy rejects (unequal contraction lengths incl. unit extents, incompatible batch shapes) must give "
          "Nothing: spec 'nothing' (two known-finding classes: view::matmul traps, inner / vecdot / matmulv2 / tensordot accept a "
          "contraction length 1 against k); other arguments NumPy rejects (axis1 == axis2, axes out of range, duplicate tensordot "
          "axes) stay outside C16: spec 'unspecified'. dom=1 marks the hypotheses of the theorem of that routine (for the PARTIAL "
          "routines: NumPy-valid inputs; there model == spec is only tested, not proved)")
RULE = ("matmul: all pairs of shapes (batch_a ++ [n,k]) x (batch_b ++ [k',m]) with batch dims 0..2, extents 1..3 (quick: every batch pair "
        "with a sampled (n,k,k',m); thorough: dim up to 4, extents up to 4), plus every 1-d promotion pattern, through view::matmul, "
        "array::matmul and view::matmulv2; dot / inner / outer / vecdot / kron on pairs of shapes dim 1..3(4) extents 1..3; tensordot "
        "with every integer axes 0..min dim and sampled explicit axis pairings (negative axes included) on shapes built to be "
        "contractible; diagonal / trace for every axis pair (both signs) and offsets -3..4; argument FORMS: trace / diagonal "
        "with all, two or one of (offset, axis1, axis2) OMITTED and tensordot with axes omitted, on rank 2..4 inputs, view "
        "and eager, against NumPy's documented defaults, and compile-time-constant (meta::ct) offsets / axes / tensordot "
        "axes next to the run-time forms; element-type PAIRS (21 ordered pairs of int8/int16/int32/int64/uint8/"
        "float/double: narrow x wide, int x float, float x double, unsigned x signed, narrow same-type) through every routine with "
        "data at the ends of the narrow types' ranges and odd halves for floating operands (int x float results are non-integral), "
        "the result ELEMENT TYPE of the view and of the evaluated array printed and predicted; a sample through fixed-shape "
        "(nested std::array) operands. Data are distinct integers (iota from a random start, alternating sign) so any permuted or "
        "missing term changes the value. non-trivial = some operand of dim >= 2 with an extent > 1; distinct = distinct case lines")
THEOREM_STATUS = {"proved": ["C16_matmul_shape_spec", "C16_matmul_elem_spec", "C16_matmul_v2_spec", "C16_dot_spec", "C16_inner_spec", "C16_vecdot_spec",
                             "C16_outer_spec", "C16_diagonal_spec", "C16_trace_spec", "C16_default_arguments",
                             "C16_result_dtype_spec", "C16_result_dtype_numpy_divergences_tight", "C16_matmul_dtype_not_narrower"],
                  "partial": ["C16_tensordot_shape_partial", "C16_kron_shape_partial"],
                  "refuted": ["C16_matmul_v1_1d_refuted", "C16_trace_empty_refuted", "C16_trace_empty_beyond_refuted",
                              "C16_matmul_rejected_shapes_trap_refuted", "C16_unit_contraction_accepted_refuted"]}
ASSUMPTIONS = ["extents are positive", "the scalar addition is associative with a right-neutral zero (integers in the correspondence)",
               "element overflow is not modelled (test data keep every sum far below 2^63)"]


def drivers(tier):
    return {"c16": [("c16.cpp", "ndebug", ()), ("c16.cpp", "asan", ("-DVD_LIGHT",))],
            "kron": [("c16_kron.cpp", "ndebug", ())],
            "forms": [("c16_forms.cpp", "ndebug", ()), ("c16_forms.cpp", "asan", ("-DVD_LIGHT",))],
            # element-type pairs: three TUs (a third of the pairs each, "unsupported" for the rest), ndebug only (compile time)
            "dtype": [("c16_dtype_1.cpp", "ndebug", ()), ("c16_dtype_2.cpp", "ndebug", ()), ("c16_dtype_3.cpp", "ndebug", ())]}


def size(shape):
    n = 1
    for x in shape: n *= x
    return n


def A(rng, shape):
    n = size(shape)
    st = rng.randint(-3, 3)
    data = [(st + i) * (1 if (i % 3) else -1) + (i * i % 5) for i in range(n)]
    return "A:%s:%s" % (",".join(map(str, shape)), ",".join(map(str, data)))


def L(v): return "L:" + ",".join(str(x) for x in v)


def shapes_upto(maxd, maxe, mind=1):
    out = []
    for d in range(mind, maxd + 1): out += list(itertools.product(range(1, maxe + 1), repeat=d))
    return out


def gen_cases(rng, tier):
    out = []
    def add(stream, line, key="c16"): out.append((stream, line, key))
    quick = tier == "quick"
    maxe = 3 if quick else 4
    # ---------------- matmul: every batch-broadcast pattern
    batches = shapes_upto(2, maxe, 0)
    kinds = ["view", "eval", "v2"]
    n = 0
    for ba in batches:
        for bb in batches:
            reps = 1 if quick else 2
            for _ in range(reps):
                nn, k, m = rng.randint(1, maxe), rng.randint(1, maxe), rng.randint(1, maxe)
                k2 = k if rng.random() < 0.93 else rng.randint(1, maxe)
                kd = kinds[n % 3]; n += 1
                add("matmul-batch", "matmul S:%s %s %s" % (kd, A(rng, ba + (nn, k)), A(rng, bb + (k2, m))))
    # all contraction lengths / matrix extents on 2-d and one batch axis
    for nn, k, m in itertools.product(range(1, maxe + 1), repeat=3):
        for kd in kinds:
            add("matmul-2d", "matmul S:%s %s %s" % (kd, A(rng, (nn, k)), A(rng, (k, m))))
        b = rng.choice([(1,), (2,), (3,)])
        add("matmul-2d", "matmul S:view %s %s" % (A(rng, b + (nn, k)), A(rng, (k, m))))
        add("matmul-2d", "matmul S:v2 %s %s" % (A(rng, (nn, k)), A(rng, b + (k, m))))
    # 1-d promotion (either / both sides), with batches on the other side
    for k in range(1, maxe + 1):
        for other in [()] + list(batches[1:8]):
            for kd in kinds:
                m = rng.randint(1, maxe)
                add("matmul-1d", "matmul S:%s %s %s" % (kd, A(rng, (k,)), A(rng, other + (k, m))))
                add("matmul-1d", "matmul S:%s %s %s" % (kd, A(rng, other + (m, k)), A(rng, (k,))))
        for kd in kinds:
            add("matmul-1d", "matmul S:%s %s %s" % (kd, A(rng, (k,)), A(rng, (k,))))
    # compatible-biased batch patterns (stretched / dropped axes on both sides), rank up to 4
    def stretch(t):
        s_ = [1 if rng.random() < 0.4 else e for e in t]
        return tuple(s_[rng.randint(0, len(s_)):])
    for _ in range(150 if quick else 2500):
        t = tuple(rng.randint(1, maxe) for _ in range(2))
        nn, k, m = rng.randint(1, maxe), rng.randint(1, maxe), rng.randint(1, maxe)
        add("matmul-bcast", "matmul S:%s %s %s" % (rng.choice(kinds), A(rng, stretch(t) + (nn, k)), A(rng, stretch(t) + (k, m))))
    # ---------------- dot / inner / outer / vecdot / kron
    shp = shapes_upto(3, 3)
    npair = 260 if quick else 2500
    for _ in range(npair):
        a = rng.choice(shp); b = rng.choice(shp)
        kd = rng.choice(["view", "eval"])
        # dot: contractible
        k = a[-1]
        bd = (k,) if len(b) == 1 else b[:-2] + (k, b[-1])
        if rng.random() < 0.06: bd = b
        add("dot", "dot S:%s %s %s" % (kd, A(rng, a), A(rng, bd)))
        bi = b[:-1] + (k,)
        if rng.random() < 0.06: bi = b
        add("inner", "inner S:%s %s %s" % (kd, A(rng, a), A(rng, bi)))
        add("outer", "outer S:%s %s %s" % (kd, A(rng, a), A(rng, b)))
        # vecdot: broadcastable batch, equal last
        t = rng.choice(shp)
        va = tuple(1 if rng.random() < 0.35 else e for e in t[:-1])[rng.randint(0, len(t) - 1):] + (t[-1],)
        vb = tuple(1 if rng.random() < 0.35 else e for e in t[:-1])[rng.randint(0, len(t) - 1):] + (t[-1],)
        if rng.random() < 0.06: vb = b
        add("vecdot", "vecdot S:%s %s %s" % (kd, A(rng, va), A(rng, vb)))
    for a in shapes_upto(2, 3):
        for b in shapes_upto(2, 3):
            add("outer", "outer S:view %s %s" % (A(rng, a), A(rng, b)))
    # dim-4 operands
    shp4 = shapes_upto(4, 3, 4)
    for _ in range(30 if quick else 300):
        a = rng.choice(shp4); b = rng.choice(shp)
        k = a[-1]
        add("dot", "dot S:view %s %s" % (A(rng, a), A(rng, (k,) if len(b) == 1 else b[:-2] + (k, b[-1]))))
        add("inner", "inner S:view %s %s" % (A(rng, b[:-1] + (k,)), A(rng, a)))
        add("vecdot", "vecdot S:view %s %s" % (A(rng, a), A(rng, tuple(rng.choice([1, e]) for e in a[1:-1]) + (k,))))
    # ---------------- tensordot
    for _ in range(260 if quick else 2500):
        a = rng.choice(shp); b = rng.choice(shp)
        nmax = min(len(a), len(b))
        nn = rng.randint(0, nmax)
        # make b's first nn axes equal a's last nn axes
        bb = (a[len(a) - nn:] if nn else ()) + b[nn:]
        if rng.random() < 0.05: bb = b
        add("tensordot-int", "tdot S:%s %s %s I:%d" % (rng.choice(["view", "eval"]), A(rng, a), A(rng, bb), nn))
        # explicit pairing: choose nn distinct axes on each side, force equal extents
        axa = rng.sample(range(len(a)), nn); axb = rng.sample(range(len(b)), nn)
        bl = list(b)
        for p, q in zip(axa, axb): bl[q] = a[p]
        if rng.random() < 0.05: bl = list(b)
        sa_ = [x - len(a) if rng.random() < 0.3 else x for x in axa]
        sb_ = [x - len(b) if rng.random() < 0.3 else x for x in axb]
        add("tensordot-axes", "tdotx S:%s %s %s %s %s" % (rng.choice(["view", "eval"]), A(rng, a), A(rng, tuple(bl)), L(sa_), L(sb_)))
    # ---------------- diagonal / trace
    for s in shapes_upto(3, 3, 2) + (rng.sample(shp4, 6 if quick else 40)):
        d = len(s)
        pairs = [(p, q) for p in range(d) for q in range(d) if p != q]
        for (p, q) in pairs:
            for off in range(-3, 5):
                if quick and d >= 3 and rng.random() < 0.6: continue
                pp = p - d if rng.random() < 0.3 else p
                qq = q - d if rng.random() < 0.3 else q
                kd = rng.choice(["view", "view", "eval"])
                add("trace", "trace S:%s %s I:%d I:%d I:%d" % (kd, A(rng, s), off, pp, qq))
                if rng.random() < 0.5:
                    add("diagonal", "diagonal S:%s %s I:%d I:%d I:%d" % (kd, A(rng, s), off, pp, qq))
    # ---------------- fixed-shape operands (nested std::array): compile-time shapes take other arms
    for (a, b) in [((2, 3), (3, 2)), ((3, 2), (2, 3)), ((2, 2, 3), (3, 2)), ((1, 2, 3), (2, 3, 2))]:
        for _ in range(3):
            add("fixed", "matmul S:fix %s %s" % (A(rng, a), A(rng, b)))
            add("fixed", "dot S:fix %s %s" % (A(rng, a), A(rng, b)))
            add("fixed", "outer S:fix %s %s" % (A(rng, a), A(rng, b)))
    for (a, b) in [((3,), (3,)), ((2, 3), (2, 3)), ((2, 3), (3,)), ((2, 2, 3), (2, 3))]:
        for _ in range(3):
            add("fixed", "inner S:fix %s %s" % (A(rng, a), A(rng, b)))
            add("fixed", "vecdot S:fix %s %s" % (A(rng, a), A(rng, b)))
    for a in [(2, 3), (3, 3), (2, 3, 2)]:
        for off in (0, 1):
            add("fixed", "trace S:fix %s I:%d I:0 I:1" % (A(rng, a), off))
            add("fixed", "diagonal S:fix %s I:%d I:1 I:0" % (A(rng, a), off))
    # ---------------- argument FORMS: omitted arguments (API defaults) and compile-time-constant arguments
    def addf(line): add("forms", line, "forms")
    fshapes = shapes_upto(2, 3, 2) + rng.sample(shapes_upto(3, 3, 3), 14 if quick else 27) + rng.sample(shp4, 8 if quick else 40)
    CT_AXES = [(0, 1), (1, 0), (1, 2), (0, 2), (-2, -1), (-1, 0)]
    for s_ in fshapes:
        d = len(s_)
        for op in ("trace", "diagonal"):
            for kd in ("view", "eval"):
                addf("%s_d S:%s %s" % (op, kd, A(rng, s_)))
            for off in range(-2, 3):
                addf("%s_o S:%s %s I:%d" % (op, rng.choice(["view", "eval"]), A(rng, s_), off))
            for off in (-1, 0, 1):
                addf("%s_oc S:%s %s I:%d" % (op, rng.choice(["view", "eval"]), A(rng, s_), off))
            for ax1 in range(-d, d):
                if ax1 % d == 1: continue                       # axis2 defaults to 1: NumPy rejects axis1 == axis2
                addf("%s_oa S:%s %s I:%d I:%d" % (op, rng.choice(["view", "eval"]), A(rng, s_), rng.randint(-1, 1), ax1))
            for (p1, p2) in CT_AXES:
                if max(p1, p2) >= d or (p1 % d) == (p2 % d): continue
                off = rng.choice([-1, 0, 1])
                addf("%s_ct S:%s %s I:%d I:%d I:%d" % (op, rng.choice(["view", "eval"]), A(rng, s_), off, p1, p2))
    for s_ in [(3, 3), (2, 3, 2), (3, 3, 3)]:
        for op in ("trace", "diagonal"):
            addf("%s_d S:fix %s" % (op, A(rng, s_)))
            for off in (-1, 0, 1): addf("%s_o S:fix %s I:%d" % (op, A(rng, s_), off))
    for _ in range(60 if quick else 600):
        a = rng.choice(shapes_upto(4, 3, 2)); b = rng.choice(shapes_upto(4, 3, 2))
        bb = a[-2:] + b[2:]
        if rng.random() < 0.05: bb = b
        addf("tdot_d S:%s %s %s" % (rng.choice(["view", "eval"]), A(rng, a), A(rng, bb)))
        nn = rng.randint(1, min(3, len(a), len(b)))
        addf("tdot_ct S:%s %s %s I:%d" % (rng.choice(["view", "eval"]), A(rng, a), A(rng, a[len(a) - nn:] + b[nn:]), nn))
    for (a, b) in [((2, 3), (2, 3)), ((2, 2, 3), (2, 3, 2))]:
        for _ in range(2): addf("tdot_d S:fix %s %s" % (A(rng, a), A(rng, b)))
    CT_PAIRS = [((0,), (0,)), ((1,), (0,)), ((-1,), (0,)), ((0, 1), (1, 0)), ((1, 2), (0, 1)), ((2, 0), (0, -1))]
    for _ in range(60 if quick else 600):
        axa, axb = rng.choice(CT_PAIRS)
        da = rng.randint(max([x + 1 if x >= 0 else -x for x in axa] + [1]), 4)
        db = rng.randint(max([x + 1 if x >= 0 else -x for x in axb] + [1]), 3)
        a = tuple(rng.randint(1, 3) for _ in range(da)); bl = [rng.randint(1, 3) for _ in range(db)]
        if len(set(x % db for x in axb)) < len(axb): continue
        for p_, q_ in zip(axa, axb): bl[q_] = a[p_]
        addf("tdotx_ct S:%s %s %s %s %s" % (rng.choice(["view", "eval"]), A(rng, a), A(rng, tuple(bl)), L(axa), L(axb)))
    # ---------------- element types of the two operands: result values AND result element type
    DT_PAIRS = [("i8", "i32"), ("i32", "i8"), ("i8", "i8"), ("u8", "u8"), ("i8", "i16"), ("i16", "i8"),
                ("i16", "i64"), ("i64", "i16"), ("u8", "i16"), ("i16", "u8"), ("i32", "i64"), ("i32", "f64"), ("f64", "i32"),
                ("i8", "f32"), ("f32", "i8"), ("f32", "f64"), ("f64", "f32"), ("i64", "f32"), ("f32", "i64"), ("u8", "f64"), ("f32", "f32")]
    def TA(t, shape):
        # integers near the ends of the narrow type's range (products / sums leave it); floating: odd numerators of halves
        n = size(shape)
        if t == "i8": vals = [rng.choice([-128, -100, -77, 90, 100, 127, 3, -5]) for _ in range(n)]
        elif t == "u8": vals = [rng.choice([255, 200, 150, 99, 7, 1]) for _ in range(n)]
        elif t == "i16": vals = [rng.choice([-300, 250, 181, -181, 1000, 9, -2]) for _ in range(n)]
        elif t in ("f32", "f64"): vals = [rng.choice([-7, -3, -1, 1, 3, 5, 9, 2, 4]) for _ in range(n)]
        else: vals = [rng.choice([-1000, 999, 300, -77, 13, 2]) for _ in range(n)]
        return "A:%s:%s" % (",".join(map(str, shape)), ",".join(map(str, vals)))
    def addd(line): add("dtype", line, "dtype")
    small = shapes_upto(3, 3)
    for (ta, tb) in DT_PAIRS:
        for _ in range(5 if quick else 40):
            ba = tuple(rng.choice([1, 2, 3]) for _ in range(rng.randint(0, 2)))
            bb = tuple(rng.choice([1, e]) for e in ba)[rng.randint(0, len(ba)):]
            nn, k, m = rng.randint(1, 3), rng.randint(1, 3), rng.randint(1, 3)
            for op in ("matmul", "matmulv2"):
                addd("typed S:%s S:%s S:%s %s %s" % (op, ta, tb, TA(ta, ba + (nn, k)), TA(tb, bb + (k, m))))
            a = rng.choice(small); b = rng.choice(small); k = a[-1]
            addd("typed S:dot S:%s S:%s %s %s" % (ta, tb, TA(ta, a), TA(tb, (k,) if len(b) == 1 else b[:-2] + (k, b[-1]))))
            addd("typed S:inner S:%s S:%s %s %s" % (ta, tb, TA(ta, a), TA(tb, b[:-1] + (k,))))
            addd("typed S:vecdot S:%s S:%s %s %s" % (ta, tb, TA(ta, a), TA(tb, tuple(rng.choice([1, e]) for e in a[:-1]) + (k,))))
            a2 = rng.choice(shapes_upto(2, 3)); b2 = rng.choice(shapes_upto(2, 3))
            addd("typed S:outer S:%s S:%s %s %s" % (ta, tb, TA(ta, a2), TA(tb, b2)))
            addd("typed S:kron S:%s S:%s %s %s" % (ta, tb, TA(ta, a2), TA(tb, b2)))
            nmax = min(len(a), len(b)); n_ = rng.randint(0, nmax)
            addd("typed S:tdot S:%s S:%s %s %s I:%d" % (ta, tb, TA(ta, a), TA(tb, (a[len(a) - n_:] if n_ else ()) + b[n_:]), n_))
            axa = rng.sample(range(len(a)), n_); axb = rng.sample(range(len(b)), n_)
            bl = list(b)
            for p_, q_ in zip(axa, axb): bl[q_] = a[p_]
            addd("typed S:tdotx S:%s S:%s %s %s %s %s" % (ta, tb, TA(ta, a), TA(tb, tuple(bl)), L(axa), L(axb)))
    for t_ in ("i8", "i16", "i32", "i64", "u8", "f32", "f64"):
        for _ in range(6 if quick else 40):
            s_ = rng.choice(shapes_upto(3, 3, 2)); d = len(s_)
            p_, q_ = rng.sample(range(d), 2)
            off = rng.choice([-1, 0, 0, 1])
            addd("typed1 S:trace S:%s %s I:%d I:%d I:%d" % (t_, TA(t_, s_), off, p_, q_))
            addd("typed1 S:diagonal S:%s %s I:%d I:%d I:%d" % (t_, TA(t_, s_), off, p_, q_))
    # ---------------- the dtype ARGUMENT (trace, vecdot) through the run-time and the constant call forms
    for (t_, d_) in [("i8", "i32"), ("i8", "i64"), ("u8", "i32"), ("i16", "f64"), ("i16", "i64"), ("i32", "i8"), ("f32", "f64")]:
        for _ in range(8 if quick else 60):
            s_ = rng.choice(shapes_upto(3, 3, 2)); d = len(s_)
            p_, q_ = rng.sample(range(d), 2)
            if rng.random() < 0.3: p_ -= d
            add("forms", "trace_dt S:%s S:%s S:%s %s I:%d I:%d I:%d" % (rng.choice(["view", "eval"]), t_, d_, TA(t_, s_), rng.choice([-1, 0, 0, 1]), p_, q_), "forms")
            (p2, q2) = rng.choice([(0, 1), (-2, -1)])
            add("forms", "trace_dtc S:%s S:%s S:%s %s I:%d I:%d I:%d" % (rng.choice(["view", "eval"]), t_, d_, TA(t_, s_), rng.choice([0, 1]), p2, q2), "forms")
    for (ta, tb, d_) in [("i8", "i8", "i64"), ("u8", "i8", "i16"), ("i16", "i32", "f64"), ("i32", "i32", "i8"), ("i8", "f32", "f64")]:
        for _ in range(8 if quick else 60):
            a = rng.choice(small)
            b = tuple(rng.choice([1, e]) for e in a[:-1])[rng.randint(0, len(a) - 1):] + (a[-1],)
            add("forms", "vecdot_dt S:%s S:%s S:%s S:%s %s %s" % (rng.choice(["view", "eval"]), ta, tb, d_, TA(ta, a), TA(tb, b)), "forms")
    # ---------------- acceptance: operand shapes NumPy rejects must give Nothing (unit extents included)
    def adda(line): add("accept", line)
    def r13(): return rng.randint(1, 3)
    for (ka, kb) in [(1, 2), (1, 3), (2, 1), (3, 1), (2, 3), (3, 2), (2, 2), (1, 1)]:
        for _ in range(3 if quick else 20):
            pa = tuple(r13() for _ in range(rng.randint(0, 2))); pb = tuple(r13() for _ in range(rng.randint(0, 2)))
            kd = rng.choice(["view", "eval"])
            adda("dot S:%s %s %s" % (kd, A(rng, pa + (ka,)), A(rng, (kb,))))
            adda("dot S:%s %s %s" % (kd, A(rng, pa + (ka,)), A(rng, pb + (kb, r13()))))
            adda("inner S:%s %s %s" % (kd, A(rng, pa + (ka,)), A(rng, pb + (kb,))))
            t = tuple(r13() for _ in range(rng.randint(0, 2)))
            va = tuple(rng.choice([1, e]) for e in t); vb = tuple(rng.choice([1, e]) for e in t)[rng.randint(0, len(t)):]
            adda("vecdot S:%s %s %s" % (kd, A(rng, va + (ka,)), A(rng, vb + (kb,))))
            for mk in ("view", "eval", "v2"):
                adda("matmul S:%s %s %s" % (mk, A(rng, va + (r13(), ka)), A(rng, vb + (kb, r13()))))
            adda("matmul S:v2 %s %s" % (A(rng, (ka,)), A(rng, vb + (kb, r13()))))
            adda("matmul S:v2 %s %s" % (A(rng, va + (r13(), ka)), A(rng, (kb,))))
            adda("tdot S:%s %s %s I:1" % (kd, A(rng, pa + (ka,)), A(rng, (kb,) + pb)))
            k2 = r13()
            adda("tdot S:%s %s %s I:2" % (kd, A(rng, pa + (k2, ka)), A(rng, (k2, kb) + pb)))
            adda("tdot S:%s %s %s I:2" % (kd, A(rng, pa + (ka, k2)), A(rng, (kb, k2) + pb)))
            ia = rng.randint(0, len(pa)); ib = rng.randint(0, len(pb))
            sa_ = pa[:ia] + (ka,) + pa[ia:]; sb_ = pb[:ib] + (kb,) + pb[ib:]
            adda("tdotx S:%s %s %s %s %s" % (kd, A(rng, sa_), A(rng, sb_), L([ia - len(sa_) if rng.random() < 0.3 else ia]), L([ib])))
    # incompatible / compatible batch shapes (unit batch extents are stretched by NumPy: accepted)
    for (xa, xb) in [((2,), (3,)), ((3,), (2,)), ((1,), (3,)), ((2,), (1,)), ((2, 1), (3, 2)), ((2, 3), (2, 1)), ((2, 3), (3,)), ((1, 3), (2, 1))]:
        for _ in range(2 if quick else 10):
            k = r13()
            adda("vecdot S:%s %s %s" % (rng.choice(["view", "eval"]), A(rng, xa + (k,)), A(rng, xb + (k,))))
            for mk in ("view", "eval", "v2"):
                adda("matmul S:%s %s %s" % (mk, A(rng, xa + (r13(), k)), A(rng, xb + (k, r13()))))
    # ---------------- kron (own translation unit)
    kshp = shapes_upto(3, 3)
    for a in shapes_upto(2, 2):
        for b in shapes_upto(3, 2):
            add("kron", "kron S:view %s %s" % (A(rng, a), A(rng, b)), "kron")
            add("kron", "kron S:view %s %s" % (A(rng, b), A(rng, a)), "kron")
    for _ in range(120 if quick else 1500):
        a = rng.choice(kshp); b = rng.choice(kshp)
        add("kron", "kron S:%s %s %s" % (rng.choice(["view", "eval"]), A(rng, a), A(rng, b)), "kron")
    for _ in range(12 if quick else 150):
        a = rng.choice(shp4); b = rng.choice(kshp)
        if rng.random() < 0.5: a, b = b, a
        add("kron", "kron S:view %s %s" % (A(rng, a), A(rng, b)), "kron")
    return out


def _shapes(line):
    return [[int(x) for x in m.split(",") if x] for m in re.findall(r"A:([0-9,]*):", line)]


def nontrivial(line):
    return any(len(s) >= 2 and any(x > 1 for x in s) for s in _shapes(line))


def distribution(streams):
    ops = Counter(); dims = Counter(); kinds = Counter()
    for _, line, _ in streams:
        t = line.split(" ")
        ops[t[0]] += 1; kinds[t[1][2:]] += 1
        for s in _shapes(line): dims[str(len(s))] += 1
    return {"ops": dict(ops), "operand_dims": dict(dims), "kinds": dict(kinds)}


def _ints(tok): return int(tok[2:])


def _unit_only_mismatch(pairs):
    return all(x == y or x == 1 or y == 1 for x, y in pairs) and any(x != y for x, y in pairs)


def classify(line, impl, spec, model):
    t = line.split(" ")
    op, kind = t[0], t[1][2:]
    sh = _shapes(line)
    base = op
    if op == "typed": base = {"matmulv2": "matmul"}.get(kind, kind); kind = "v2" if t[1][2:] == "matmulv2" else "view"
    if op == "vecdot_dt": base = "vecdot"
    if base in ("tdot_d", "tdot_ct"): base = "tdot"
    if base == "tdotx_ct": base = "tdotx"
    if op == "matmul" and kind in ("view", "eval") and (len(sh[0]) == 1 or len(sh[1]) == 1) and impl.startswith("trap") and spec.strip() != "nothing":
        return "matmul_1d_operand"
    if spec.strip() == "nothing" and len(sh) == 2:
        sa, sb = sh
        # view::matmul / array::matmul unwrap the empty shape_matmul result: trap instead of Nothing
        # (undefined behaviour: usually bad_array_new_length / bad_alloc, occasionally an array with a garbage shape)
        if base == "matmul" and kind in ("view", "eval", "fix") and impl.strip() != "nothing":
            return "matmul_rejected_shapes_trap"
        # contraction lengths (1, k): the broadcasting multiply stretches the unit extent, values are returned
        if impl.startswith("ok"):
            ints = [int(x[2:]) for x in t if x.startswith("I:")]
            lists = [[int(v) for v in x[2:].split(",") if v] for x in t if x.startswith("L:")]
            pairs = None
            if base in ("inner", "vecdot"): pairs = [(sa[-1], sb[-1])]
            elif base == "matmul" and kind == "v2": pairs = [(sa[-1], sb[0] if len(sb) == 1 else sb[-2])]
            elif base == "tdot":
                n = 2 if op == "tdot_d" else ints[0]
                if n <= len(sa) and n <= len(sb): pairs = [(sa[len(sa) - n + i], sb[i]) for i in range(n)]
            elif base == "tdotx" and len(lists) == 2 and len(lists[0]) == len(lists[1]):
                pairs = [(sa[p % len(sa)], sb[q % len(sb)]) for p, q in zip(lists[0], lists[1])]
            if pairs and _unit_only_mismatch(pairs):
                return "unit_contraction_mismatch_accepted"
    if op in ("trace_dt", "trace_dtc"):
        t = t[:2] + t[4:]                                    # trace_dt S:kind S:T S:D A I I I: drop the two type tokens
    if op == "typed1" and kind == "trace":
        op = "trace"; t = t[:3] + t[4:]                      # typed1 S:trace S:T A I I I: drop the array token, the ints start at t[3]
    if op.startswith("trace"):
        s = sh[0]; d = len(s)
        vals = [_ints(x) for x in t[3:]] + [None, None, None]
        off = vals[0] if vals[0] is not None else 0           # omitted arguments: NumPy's defaults (0, 0, 1)
        a1 = (vals[1] if vals[1] is not None else 0) % d
        a2 = (vals[2] if vals[2] is not None else 1) % d
        n1, n2 = s[a1], s[a2]
        n = max(0, min(n1, n2 - off) if off >= 0 else min(n1 + off, n2))     # NumPy's diagonal length
        if n == 0 and a1 != a2 and impl.startswith("trap"):
            return "trace_empty_diagonal"
    return None


def equal(a, b):
    a = " ".join(a.split()); b = " ".join(b.split())
    if a == b: return True
    # the kind of run-time failure (which exception / signal) is not an observable of the model
    return a.startswith("trap") and b.startswith("trap")
