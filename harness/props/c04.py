"""C04 — selecting, replicating, joining, generating views equal their reference result."""
import hashlib, itertools, os, re
from collections import Counter

ID = "C04"
MODEL_MODULES = ["Base", "Index", "Broadcast", "Select"]
HANDLERS = ["h_c04.ml"]

PROVED = ["C04_tile_shape", "C04_tile_element"]
REFUTED = []
CORRESPONDENCE_ONLY = []

CLAIM = dict(
    text="(filled below)", ref="5.4",
    technique="Coq proof (induction on shape lists) + differential correspondence with the extracted model", extra="")
RULE = ("per routine: small-scope box (source dim 1..3, extents 1..3; thorough dim 1..4, extents 1..4) crossed with the "
        "argument grid of the property (reps/repeats 1..3, shifts in [-2n-1,2n+1], pad widths 0..2 per side, index lists "
        "with repeated and negative entries, every axis incl. negative and None), sampled with a seeded rng where the box "
        "is larger than the per-routine budget; view level on run-time shaped operands with the argument passed as "
        "std::vector / std::array / run-time tuple / compile-time constants, eager level (array::X), index level "
        "(index::shape_X / index::X on vector / array / static_vector containers). non-trivial = source of dim >= 2 with an "
        "extent > 1; distinct = distinct case lines")
THEOREM_STATUS = {"proved": PROVED, "partial": [], "refuted": REFUTED}
ASSUMPTIONS = ["extents are positive; repeats/reps >= 1; arithmetic in Z (extents far below 2^31 in every generated case)"]

_here = os.path.dirname(os.path.abspath(__file__))
def _sha(name):
    p = os.path.join(_here, "..", "..", "drivers", name)
    try: return hashlib.sha256(open(p, "rb").read()).hexdigest()[:12]
    except OSError: return "missing"


def drivers(tier):
    dep = "-DVD_DEP_SHA=\"%s%s\"" % (_sha("c04_common.hpp"), _sha("show.hpp"))
    return {"c04a": [("c04_a.cpp", "ndebug", (dep,)), ("c04_a.cpp", "asan", ("-DVD_LIGHT", dep))]}


# ---------------------------------------------------------------- helpers
def L(v): return "L:" + ",".join(str(x) for x in v)
def A(shape):
    n = 1
    for x in shape: n *= x
    return "A:%s:%s" % (",".join(map(str, shape)), ",".join(map(str, range(n))))
def AX(a): return "N" if a is None else "I:%d" % a

CT_LISTS_POS = [(2,), (3,), (1, 2), (2, 1), (2, 2), (2, 1, 2)]
CT_LISTS_AXES = [(0,), (0, 1), (1, 0), (-1, 0), (0, 2)]
CT_LISTS_PAD = [(1, 2), (0, 1), (1, 0, 2, 1), (0, 2, 1, 0), (1, 0, 1, 0, 1, 2)]
CT_INTS_POS = [1, 2, 3]
CT_INTS_AXIS = [0, 1, 2, -1]


def all_shapes(maxd, maxe, mind=1):
    out = []
    for d in range(mind, maxd + 1): out += list(itertools.product(range(1, maxe + 1), repeat=d))
    return out


def take(rng, seq, n):
    seq = list(seq)
    return seq if len(seq) <= n else rng.sample(seq, n)


def rand_index(rng, shape): return [rng.randrange(e) for e in shape]


def gen_cases(rng, tier):
    out = []
    def add(stream, line, key="c04a"): out.append((stream, line, key))
    q = tier == "quick"
    maxd, maxe = (3, 3) if q else (4, 4)
    shapes = all_shapes(maxd, maxe)
    big = [(5, 2), (2, 7), (6,), (2, 1, 5), (1, 4, 1, 3), (2, 2, 2, 2)]
    B = 1 if q else 6            # budget multiplier

    # ---------------- tile
    repss = all_shapes(3, 3)
    pairs = take(rng, itertools.product(shapes, repss), 260 * B)
    for n, (s, r) in enumerate(pairs):
        add("tile", "tile S:%s %s %s" % (["vec", "arr", "tup"][n % 3], A(s), L(r)))
        if n % 4 == 0: add("tile", "tile_e %s %s" % (A(s), L(r)))
        dst = None
        d = max(len(s), len(r)); sp = (1,) * (d - len(s)) + s; rp = (1,) * (d - len(r)) + r
        dst = [a * b for a, b in zip(sp, rp)]
        add("tile", "tile_ix S:%s %s %s %s" % (["vec", "arr", "sv"][n % 3], L(s), L(r), L(rand_index(rng, dst))))
    for r in CT_LISTS_POS:
        for s in take(rng, shapes, 6): add("tile", "tile S:ct %s %s" % (A(s), L(r)))
    for s in big: add("tile", "tile S:vec %s %s" % (A(s), L(rng.choice(repss))))

    # ---------------- repeat
    for n, s in enumerate(take(rng, shapes, 30 * B) + big):
        for r in (1, 2, 3):
            for a in [None] + list(range(-len(s), len(s))):
                k = ["vec", "u"][n % 2] if (a is None or a >= 0) else "vec"
                if rng.random() < 0.5 or len(s) >= 3:
                    add("repeat", "repeat S:%s %s I:%d %s" % (k, A(s), r, AX(a)))
                if rng.random() < 0.15: add("repeat", "repeat_e %s I:%d %s" % (A(s), r, AX(a)))
                if a is not None and rng.random() < 0.3:
                    dst = list(s); dst[a] *= r
                    add("repeat", "repeat_ix S:%s %s %s I:%d I:%d" % (["vec", "arr", "sv"][n % 3], L(s), L(rand_index(rng, dst)), r, a))
    for s in take(rng, shapes, 8):
        for r in CT_INTS_POS: add("repeat", "repeat S:ct %s I:%d N" % (A(s), r))
        for a in CT_INTS_AXIS:
            if -len(s) <= a < len(s): add("repeat", "repeat S:ct %s I:%d I:%d" % (A(s), rng.randint(1, 3), a))
    for n, s in enumerate(take(rng, shapes, 40 * B)):
        a = rng.randrange(-len(s), len(s))
        reps = [rng.choice([0, 1, 1, 2, 3]) for _ in range(s[a])]
        if sum(reps) == 0: reps[0] = 1
        add("repeat", "repeat_l S:%s %s %s I:%d" % (["vec", "arr", "tup"][n % 3], A(s), L(reps), a))

    # ---------------- roll
    for n, s in enumerate(take(rng, shapes, 30 * B) + big):
        for a in [None] + list(range(-len(s), len(s))):
            ext = (lambda p: p)(1)
            for x in s: ext *= x
            nn = ext if a is None else s[a]
            shifts = sorted(set([-2 * nn - 1, -2 * nn, -nn - 1, -nn, -1, 0, 1, nn - 1, nn, nn + 1, 2 * nn, 2 * nn + 1]))
            for sh in take(rng, shifts, 4):
                add("roll", "roll S:vec %s I:%d %s" % (A(s), sh, AX(a)))
            if rng.random() < 0.3: add("roll", "roll_e %s I:%d %s" % (A(s), rng.choice(shifts), AX(a)))
            if a is not None and rng.random() < 0.5:
                add("roll", "roll_ix S:%s %s %s I:%d I:%d" % (["vec", "arr", "sv"][n % 3], L(s), L(rand_index(rng, s)), rng.choice(shifts), a))
    for s in take(rng, shapes, 8):
        for a in CT_INTS_AXIS:
            if -len(s) <= a < len(s): add("roll", "roll S:ct %s I:%d I:%d" % (A(s), rng.randint(-7, 7), a))
    for n, s in enumerate(take(rng, [t for t in shapes if len(t) >= 2], 50 * B) + big[3:]):
        d = len(s)
        m = rng.randint(1, d)
        axes = rng.sample(range(d), m)
        axes = [a - d if rng.random() < 0.3 else a for a in axes]
        shifts = [rng.randint(-2 * s[a] - 1, 2 * s[a] + 1) for a in axes]
        k = ["vec", "arr", "tup"][n % 3]
        add("roll", "roll_m S:%s %s %s %s" % (k, A(s), L(shifts), L(axes)))
        if n % 3 == 0: add("roll", "roll_ms S:%s %s I:%d %s" % (k, A(s), shifts[0], L(axes)))
    for axes in CT_LISTS_AXES:
        for s in take(rng, [t for t in shapes if len(t) > max(max(axes), 1)], 4):
            add("roll", "roll_m S:ct %s %s %s" % (A(s), L([rng.randint(-5, 5) for _ in axes]), L(axes)))
    # NumPy adds the shifts of a repeated axis
    for s in take(rng, [t for t in shapes if len(t) >= 2 and max(t) > 1], 6 * B):
        a = rng.randrange(len(s))
        add("roll_repeated_axis", "roll_m S:vec %s %s %s" % (A(s), L([1, 1]), L([a, a - len(s) if rng.random() < 0.5 else a])))

    # ---------------- pad
    for n, s in enumerate(take(rng, shapes, 60 * B) + big):
        d = len(s)
        for _ in range(2):
            w = [rng.randint(0, 2) for _ in range(2 * d)]
            add("pad", "pad S:%s %s %s" % (["vec", "arr", "tup"][n % 3] if d <= 2 else "vec", A(s), L(w)))
            if rng.random() < 0.25: add("pad", "pad_e %s %s" % (A(s), L(w)))
            dst = [s[k] + w[k] + w[d + k] for k in range(d)]
            if d <= 3: add("pad", "pad_ix S:%s %s %s %s" % (["vec", "arr", "sv"][n % 3], L(s), L(w), L(rand_index(rng, dst))))
    for w in CT_LISTS_PAD:
        for s in take(rng, [t for t in shapes if 2 * len(t) == len(w)], 4): add("pad", "pad S:ct %s %s" % (A(s), L(w)))
    # malformed (outside the quantifier: judged "unspecified")
    add("malformed", "pad S:vec %s %s" % (A((2, 3)), L([1, 0, 2])))
    add("malformed", "roll S:vec %s I:1 I:2" % A((2, 3)))
    return out


def _ints(tok):
    body = tok.split(":", 1)[1] if ":" in tok else ""
    return [int(x) for x in body.split(",") if x]


def nontrivial(line):
    for m in re.findall(r"A:([0-9,]*):", line) + re.findall(r"^\S+_ix S:\S+ L:([0-9,]*)", line):
        sh = [int(x) for x in m.split(",") if x]
        if len(sh) >= 2 and any(x > 1 for x in sh): return True
    return False


def distribution(streams):
    ops = Counter(); dims = Counter(); kinds = Counter()
    for _, line, _ in streams:
        t = line.split(" ")
        ops[t[0]] += 1
        if len(t) > 1 and t[1].startswith("S:"): kinds[t[1][2:]] += 1
        for m in re.findall(r"A:([0-9,]*):", line): dims[str(len([x for x in m.split(",") if x]))] += 1
    return {"ops": dict(ops), "source_dims": dict(dims), "argument_kinds": dict(kinds)}


def _src_dim(t):
    for x in t:
        if x.startswith("A:"): return len(_ints("L:" + x.split(":")[1]))
    return None


def classify(line, impl, spec, model):
    t = line.split(" ")
    op = t[0]
    if op in ("repeat", "repeat_e", "repeat_l", "repeat_ix"):
        ax = t[-1]
        if ax.startswith("I:") and int(ax[2:]) < 0: return "repeat_negative_axis"
    if op in ("roll_m", "roll_ms"):
        d = _src_dim(t); axes = [a + d if a < 0 else a for a in _ints(t[-1])]
        if len(set(axes)) < len(axes): return "roll_repeated_axis"
    return None
